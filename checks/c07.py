# C07 — const values cannot be modified from script.
import os, re, sys
import common as C
sys.path.insert(0, os.path.join(C.VERIF, "gen"))
import constprogs

LEVEL = "proof"
META = dict(
    technique="Lean 4 invariant theorem over the evaluator model (objects reachable only through const handles are never written and never get a mutable or adoptable handle, for every program and alias chain) + attack enumeration on the real engine: generated (const source x route x mutators) snippets, with the C++ side inspecting the const objects themselves before and after",
    text=("Kernel-checked on the evaluator model: from any state in which the protected objects are reachable only through const, non-temporary handles (literals, "
          "const globals), every evaluation leaves them unchanged and so protected [const_objects_unchanged, via the induction run_lit]; every assignment "
          "operator and ++/-- on a const handle raises the const error before anything is written [assign_to_const_rejected, increment_of_const_rejected]; a "
          "reference bound to a const handle is const [reference_to_const_is_const]. Deciding part on the real engine: const sources of every kind are "
          "registered from C++ (add_global_const, const_var, std::cref, const T*, shared_ptr<const T>, functions returning const&, script literals; int, double, "
          "bool, string, vector, map, a user class); generated snippets reach one of them through one of 19 routes (direct, references and chains, :=, auto&, "
          "parameters, nested parameters, return values, captures, bind, push_back_ref, ranged-for, and copies as controls) and apply 1-3 mutators (every "
          "assignment operator, ++/--, :=, mutating members, C++ functions taking T&, T*, shared_ptr<T>); afterwards the harness reads the C++ objects "
          "themselves: none may have changed, no mutating C++ function may have been entered with a const source, and through an aliasing route every attempt "
          "must have raised."),
    note=("Trusted: Lean kernel; Model/Chai; gen/constprogs.py; harness/constprobe.cpp. Containers of Boxed_Value are not in the Lean model beyond inline vectors: their "
          "const-ness is covered by the attack enumeration only (see known finding CONST_CONTAINER_SHALLOW)."),
    design_ref="DESIGN.md §6 C07")

ELEMENT_MUT = re.compile(r"\[0\]|\[\"a\"\]|\.front\(\)|\.back\(\)|\.at\(|for \(x :")
MUT_FUNS = ("mut_pb", "mut_pbp", "mut_pd", "mut_i", "mut_ip", "mut_d", "mut_b", "mut_s", "mut_v", "mut_m", "mut_o", "mut_op", "mut_osp")


def parse_snap(s):
    return dict(x.split("=", 1) for x in s.split(" ") if "=" in x)


def same_shape(a, b):
    """both container snapshots have the same number of elements / the same keys"""
    if a[:1] != b[:1]:
        return False
    if a.startswith("["):
        return a.count(";") == b.count(";")
    if a.startswith("{"):
        return [x.split("=")[0] for x in a.strip("{}").split(";") if x] == [x.split("=")[0] for x in b.strip("{}").split(";") if x]
    return False


def run(ctx):
    status, text, rc = C.lean_obligations(ctx, ["C07"])
    with ctx.timer("harness_build"):
        exe, log = C.harness_build("constprobe")
    if exe is None:
        ctx.oblige("harness build", False, (log or "")[-1500:])
        C.conclude(ctx, False)
        return
    rng = ctx.rng
    thorough = ctx.tier == "thorough"
    n = 60000 if thorough else 4000
    cases = [constprogs.gen_case(rng.fork()) for _ in range(n)]
    p = os.path.join(C.VERIF, "corpus", "C07", "raw.txt")
    if os.path.exists(p):
        for l in open(p):
            if l.strip() and not l.startswith("#"):
                cases.insert(0, {"source": "corpus", "type": "?", "route": "corpus", "alias": False, "mutators": [], "script": l.rstrip("\n")})
    with ctx.timer("impl"):
        out, restarts = C.run_harness_resilient(exe, [], [c["script"].encode().hex() for c in cases], timeout=1800 if not thorough else 7200, stall=60)
    ctx.cov["harness_restarts"] = restarts
    found = known = 0
    nt = set()
    for c, o in zip(cases, out):
        ctx.hist("routes", c["route"])
        ctx.hist("source_types", c["type"])
        parts = o.split("|")
        if len(parts) != 4:
            found += 1
            if found <= 5:
                ctx.violation("input", {"mode": "constprobe", "script": c["script"], "observed": o[:400], "expected": "the harness answers (no crash)"})
            continue
        before, after, outcome, log = parts
        nt.add(c["script"])
        bad = None
        if before != after:
            b, a = parse_snap(before), parse_snap(after)
            diff = [k for k in b if b[k] != a.get(k)]
            if all(same_shape(b[k], a.get(k, "")) for k in diff) and any(ELEMENT_MUT.search(m) for m in c["mutators"] + [c["script"]]):
                if ctx.known_finding("CONST_CONTAINER_SHALLOW", c["script"]):
                    known += 1
                    continue
            bad = "a const object changed: %s" % ", ".join("%s: %s -> %s" % (k, b[k], a.get(k)) for k in diff)
        elif c["alias"] and c["type"] not in ("tmpvector",) and c["source"] != "corpus":
            flags = [x for x in log.split(",") if x in ("P0", "P1")]
            entered = [x for x in log.split(",") if x in MUT_FUNS]
            if entered:
                bad = "a C++ function with a mutable parameter was entered with a const argument: %s" % entered
            else:
                for m, fl in zip(c["mutators"], flags):
                    if fl == "P1" and not ELEMENT_MUT.search(m):
                        bad = "the mutation attempt `%s` through an alias of a const object raised no error" % m
        if bad:
            found += 1
            if found <= 6:
                ctx.violation("input", {"mode": "constprobe", "script": c["script"], "source": c["source"], "route": c["route"], "observed": o[:900], "expected": bad,
                                        "how_to_replay": "echo %s | build/harness/constprobe/<bin>" % c["script"].encode().hex()})
    ctx.count("evaluations", len(cases))
    ctx.count("known_finding_cases", known)
    ctx.cov["distinct_nontrivial"] = len(nt)
    ctx.cov["rule"] = ("%d generated attacks = (one of %d const sources) x (one of %d routes) x (1-3 of the type's mutators); distinct = distinct snippets; every snippet is "
                       "non-trivial (the C++ objects are inspected before and after)" % (n, len(constprogs.SOURCES), len(constprogs.ROUTES)))
    ctx.sample(cases[-1]["script"])
    ctx.sample({"source": cases[-2]["source"], "route": cases[-2]["route"], "script": cases[-2]["script"]})
    C.conclude(ctx, found > 0)
