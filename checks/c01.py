# C01 — parsing is total and safe: AST for the whole input, or eval_error.   (PARTIAL proof + sanitizer exploration)
import os, sys
import common as C
sys.path.insert(0, os.path.join(C.VERIF, "gen"))
sys.path.insert(0, os.path.join(C.VERIF, "extract"))
import parseinputs

LEVEL = "proof"
META = dict(
    technique="PARTIAL: Lean 4 theorems about the parser's bookkeeping (the white-space / comment skipper every token starts with: stays in the buffer, terminates, drops only blanks and whole comments, for every byte string; cursor never leaves the buffer, Depth_Counter bounds the recursion and reports the limit, parse_internal returns a tree only for fully consumed input) and about its recursion structure: the call graph of ChaiScript_Parser is regenerated from the source on every run and the kernel checks that every cycle passes through a Depth_Counter, from which the native parse stack is bounded for every input; the cursor model is tied to the real Position by the C20 correspondence; the parser as a whole is explored, not proved: the real parser runs under AddressSanitizer+UBSan on generated, mutated, truncated and pathological inputs",
    text=("PARTIAL. Kernel-checked: advancing the cursor any number of times keeps it inside the input and reading at the end yields the sentinel "
          "[cursor_stays_in_buffer, peek_total]; a descent whose every level goes through Depth_Counter never runs deeper than the limit and returns the "
          "depth error exactly when the nesting exceeds it [guarded_descent_bounded, guarded_descent_reports]; the call graph of the parser's member functions, regenerated "
          "from chaiscript_parser.hpp on every run together with a rank certificate, has no cycle that avoids a function holding a named Depth_Counter constructed before its "
          "first call [parser_cycles_are_guarded, kernel evaluation], so every native call stack of the parser, for every input, has at most (limit+1)(maxRank+2)+maxRank+1 "
          "frames [guarded_graph_stack_bounded, parser_native_stack_bounded]; parse_internal's acceptance rule returns a tree "
          "only when every byte was consumed [accepted_means_whole_input]. THE BOTTOM OF THE LEXER [Props/C01Ws over Model/Ws = SkipWS / SkipComment, which every token function "
          "calls first]: for every byte string, start position and flavour the loop ends with the cursor between its start and the end of the buffer "
          "[skipWS_stays_in_buffer], always terminates (the remaining length is enough fuel) [skipWS_never_out_of_fuel, skip_total], passes over nothing but blanks, line ends "
          "when asked to, and whole comments [skipWS_drops_only_blanks_and_comments], stops only at the end or at a legal byte that is not blank and starts no comment "
          "[skipWS_stops_at_token_start], so a second call moves nothing [skip_idempotent]; a // or # comment never passes a line feed and stops exactly at its line end [line_comment_stays_on_its_line, "
          "line_comment_stops_at_line_end]; a block comment ends at the FIRST */ [block_comment_ends_at_first_close]. Tied by calling the real SkipWS through the hook on a "
          "buffer with no terminator behind it (ASan sees any read past the end) from every start index: return value, cursor index, line and column must equal the model's and "
          "an independent regex reading. EVERY OPERAND IS ACCOUNTED FOR (model-free): expressions `operand op operand …` whose operands are literal spellings, valid and "
          "broken (0b, 0x, 1.5e+, 08, 1lu, 'ab' …) in every position, parsed WITHOUT the optimizer: either parse() raises or the tree has exactly as many Id / Constant leaves as "
          "operands were written — text the lexer consumed without producing a node shows as a missing leaf. NOT proved (a theorem about 2,500 lines of hand-written recursive descent is out of "
          "reach here): termination, memory safety and exception discipline of the grammar functions. Those are explored on the real parser built with "
          "clang -fsanitize=address,undefined, with no engine in the way: the repository's scripts, its never-run AFL corpus, byte-level mutations and "
          "truncations of them, bracket soup, every escape-sequence shape in string/char literals and interpolations, nesting of 24 bracket-like constructs to depths "
          "1..2000 (thorough: 100000) closed, unclosed, half-closed and closers-only, 150000-fold (thorough 400000-fold) repetitions of each of them and of 70 chain constructs "
          "(assignment, every binary operator, dot / call / index chains, else-if, declarations...) alone and inside a block, call, container or condition, and raw bytes incl. NUL and >0x7e. Oracles per input: the process "
          "survives (no sanitizer report, no stack exhaustion, no std::terminate), the only exception type leaving parse is eval_error, and on success the "
          "cursor is at the end of the input, the File node ends at the (line, column) of the input's end, the depth counter is back to 0 and the match "
          "stack is empty."),
    note=("Trusted: Lean kernel; Model/Pos.lean; Model/Ws.lean (hand transcription of SkipWS / SkipComment / Symbol_ / Eol_ as used there; tied by correspondence); Model/ParseGraph.lean and extract/e_parsegraph.py (a syntactic call graph of the member functions of ChaiScript_Parser reachable from "
          "parse_internal: calls on other objects, e.g. Char_Parser or Position, are not edges; overloads are merged; the stack bound counts parser frames, not bytes); gen/parseinputs.py; harness/parsefuzz.cpp; clang 14 sanitizers (signed overflow and shift checks off: constant folding does C++ arithmetic at parse time and C05 excludes non-trapping undefined results by name); hook commit 1ac80a4 (friend Access in the parser). "
          "Exploration is not a proof: an input class never generated is not covered."),
    design_ref="DESIGN.md §6 C01")


def line_col(b):
    line, col = 1, 1
    for c in b:
        if c == 10:
            line, col = line + 1, 1
        else:
            col += 1
    return line, col


# ---------------------------------------------------------------- M-WS: SkipWS / SkipComment alone
import re as _re
_BLOCK = _re.compile(rb"/\*.*?(?:\*/|\Z)", _re.S)
_LINE = _re.compile(rb"(?://|#)(?:(?!\r\n)[^\n])*")


def ws_spec(b, i, cr):
    """declarative reading of SkipWS: drop blanks, (if asked) line ends, block comments up to the first */, line comments up to their line end;
    a byte above 0x7e where a token would start is illegal"""
    moved = 0
    while i < len(b):
        c = b[i]
        if c > 0x7e:
            return "illegal %d" % i
        if c in (0x20, 0x09):
            i += 1
        elif cr and c == 0x0a:
            i += 1
        elif cr and b[i:i + 2] == b"\r\n":
            i += 2
        else:
            m = _BLOCK.match(b, i) or _LINE.match(b, i)
            if not m:
                break
            i = m.end()
        moved = 1
    return "ok %d %d" % (moved, i)


def line_col_at(b, i):
    pre = b[:i]
    return 1 + pre.count(b"\n"), 1 + len(pre) - (pre.rfind(b"\n") + 1)


def ws_stage(ctx, exe, n):
    rng = ctx.rng
    alpha = [0x20, 0x20, 0x09, 0x0a, 0x0a, 0x0d, 0x2f, 0x2f, 0x2a, 0x2a, 0x23, 0x3b, 0x78, 0x00, 0x7e, 0x7f, 0x80, 0xff]
    cases = []
    for _ in range(n):
        ln = rng.choice([0, 1, 2, 3, 5, 8, 13, 21, 40])
        b = bytes(rng.choice(alpha) if not rng.chance(1, 12) else rng.below(256) for _ in range(ln))
        if rng.chance(1, 3) and ln >= 2:      # plant whole comments
            k = rng.below(ln)
            b = b[:k] + rng.choice([b"/* x */", b"/*\r\n*/", b"// y\n", b"# z\r\n", b"/*", b"//", b"/**/", b"/*/", b"/* ; */", b"//\r", b"#\n#\n"]) + b[k:]
        cases.append((b, rng.below(len(b) + 1), rng.chance(1, 2)))
    lines = ["%s %d %d" % (b.hex() or "-", i, 1 if cr else 0) for b, i, cr in cases]
    with ctx.timer("model"):
        mout = C.run_driver("ws", lines)
    with ctx.timer("impl"):
        iout, _ = C.run_harness_resilient(exe, [], ["ws " + l for l in lines], timeout=900, stall=120)

    def with_pos(o, b):
        w = o.split()
        if w and w[0] in ("ok", "illegal") and w[-1].isdigit():
            return "%s %d %d" % ((o,) + line_col_at(b, int(w[-1])))
        return o
    ml = ["model=%s\tspec=%s" % (with_pos(m, b), with_pos(ws_spec(b, i, cr), b)) for m, (b, i, cr) in zip(mout, cases)]
    for o in iout:
        ctx.hist("ws_outcomes", o.split()[0] if o else "empty")
    return C.compare_streams(ctx, "parsefuzz", ["ws " + l for l in lines], ml, iout, bucket=lambda line: "ws")


# ---------------------------------------------------------------- every operand token is accounted for
OPERAND_TOKENS = ["0b", "0B", "0x", "0X", "0b1", "0B101", "0x1F", "0xg", "0b2", "0b_", "0xx", "07", "08", "00", "1", "1u", "1ul", "1llu", "1lu", "1l", "1f", "1.5", "1.5f", "1.5l",
                  "1.", "0.", "1e5", "1.5e", "1.5e+", "1e+5", "1e-", ".5", "1_000", "'a'", "'ab'", "''", "\"s\"", "\"\"", "x", "_y", "true", "false", "0b1u", "0x1ul", "1e5f", "0x.", "0b.", "1..2"]
OPERAND_OPS = ["+", "-", "*", "/", "%", "<", "<=", "==", "!=", "&&", "||", "&", "|", "^", "<<", ">>"]


def operand_stage(ctx, exe, n):
    """expressions `operand op operand …` (blanks between all tokens) whose operands are literal spellings, valid and broken: either parse() raises, or the tree has exactly as
    many operand leaves (Id / Constant) as operands were written — an operand that the lexer consumed and then dropped (or split in two) shows as a different count"""
    rng = ctx.rng
    cases = []
    for tok in OPERAND_TOKENS:           # every spelling alone and in each position, then random mixes
        cases += [[tok], [tok, "+", "a"], ["a", "-", tok], ["a", "*", tok, "-", "b"], [tok, "-", "a"]]
    for _ in range(n):
        k = rng.range(1, 4)
        c = []
        for j in range(k):
            c.append(rng.choice(OPERAND_TOKENS) if rng.chance(1, 2) else rng.choice(["a", "b", "c"]))
            if j + 1 < k:
                c.append(rng.choice(OPERAND_OPS))
        cases.append(c)
    with ctx.timer("impl"):
        out, _ = C.run_harness_resilient(exe, [], ["leaves " + " ".join(c).encode().hex() for c in cases], timeout=900, stall=120)
    found = 0
    for c, o in zip(cases, out):
        ctx.hist("operand_outcomes", o.split()[0] if o else "empty")
        want = (len(c) + 1) // 2
        bad = None
        if o.startswith("ok"):
            f = dict(x.split("=", 1) for x in o.split()[1:] if "=" in x)
            if int(f.get("operands", -1)) != want or f.get("otherleaves") != "0":
                bad = "%d operands were written, the tree has %s operand leaves (%s other leaves): text was consumed without a node, or split" % (want, f.get("operands"), f.get("otherleaves"))
        elif not o.startswith("eval_error"):
            bad = "unexpected: " + o[:200]
        if bad:
            found += 1
            if found <= 4:
                ctx.violation("input", {"mode": "parsefuzz", "input": " ".join(c), "observed": o, "expected": bad, "how_to_replay": "echo 'leaves %s' | build/harness/parsefuzz/<bin>" % " ".join(c).encode().hex()})
    ctx.count("evaluations", len(cases))
    return found


def run(ctx):
    import e_parsegraph
    C.run_extractor(ctx, "parsegraph", e_parsegraph, "ParseGraph.lean")
    status, text, rc = C.lean_obligations(ctx, ["C01", "C01Ws"])
    with ctx.timer("harness_build"):
        exe, log = C.harness_build("parsefuzz")
    if exe is None:
        ctx.oblige("harness build", False, (log or "")[-1500:])
        C.conclude(ctx, False)
        return
    rng = ctx.rng
    thorough = ctx.tier == "thorough"
    n = 150000 if thorough else 6000
    with ctx.timer("generate"):
        ins = parseinputs.gen_inputs(rng, C.REPO, n, thorough)
    with ctx.timer("impl"):
        out, restarts = C.run_harness_resilient(exe, [], [(b.hex() or "-") for b in ins], timeout=3000 if not thorough else 14000, stall=120, max_restarts=200)
    ctx.cov["harness_restarts"] = restarts
    found = 0
    nt = set()
    for b, o in zip(ins, out):
        cls = "ok" if o.startswith("ok") else " ".join(o.split()[:2])
        ctx.hist("outcomes", cls)
        bad = None
        if o.startswith("crash"):
            bad = "the parser crashed or hung the host: " + o[:300]
        elif o.startswith("LEAK"):
            bad = "an exception that is not eval_error left parse(): " + o
        elif o.startswith("ok"):
            nt.add(b)
            f = dict(x.split("=", 1) for x in o.split()[1:] if "=" in x)
            exp = "%d:%d" % line_col(b)
            if f.get("more") != "0":
                bad = "parse() returned a tree although input remained"
            elif f.get("depth") != "0" or f.get("stack") != "0":
                bad = "after a successful parse the depth counter / match stack are not back at rest: " + o
            elif f.get("kind") == "File" and f.get("end") != exp:
                bad = "the tree's File node ends at %s but the input ends at %s" % (f.get("end"), exp)
        elif not o.startswith("eval_error"):
            bad = "unexpected harness answer: " + o[:200]
        else:
            nt.add(b)
        if bad:
            found += 1
            if found <= 6:
                ctx.violation("input", {"mode": "parsefuzz", "input_hex": b.hex(), "input_preview": repr(b[:200]), "length": len(b), "observed": o[:600], "expected": bad,
                                        "how_to_replay": "echo <input_hex> | build/harness/parsefuzz/<bin>"})
    ctx.count("evaluations", len(ins))
    ctx.cov["distinct_nontrivial"] = len(nt)
    found += ws_stage(ctx, exe, 40000 if thorough else 4000)
    found += operand_stage(ctx, exe, 20000 if thorough else 1500)
    ctx.cov["input_sizes"] = {"max": max(len(b) for b in ins), "median": sorted(len(b) for b in ins)[len(ins) // 2]}
    ctx.cov["rule"] = ("%d inputs: repository scripts and AFL corpus, mutations/truncations of them, snippet sequences, escape shapes, nesting to depth %d, bracket soup, raw "
                       "bytes; distinct = distinct byte strings; non-trivial = the parser ran to a verdict (tree or eval_error) under ASan+UBSan" % (len(ins), 100000 if thorough else 2000))
    ctx.sample(repr(ins[-1][:200]))
    ctx.sample(repr(ins[len(ins) // 2][:200]))
    C.conclude(ctx, found > 0)
