# C01 — parsing is total and safe: AST for the whole input, or eval_error.   (PARTIAL proof + sanitizer exploration)
import os, sys
import common as C
sys.path.insert(0, os.path.join(C.VERIF, "gen"))
sys.path.insert(0, os.path.join(C.VERIF, "extract"))
import parseinputs

LEVEL = "proof"
META = dict(
    technique="PARTIAL: Lean 4 theorems about the parser's bookkeeping (cursor never leaves the buffer, Depth_Counter bounds the recursion and reports the limit, parse_internal returns a tree only for fully consumed input) and about its recursion structure: the call graph of ChaiScript_Parser is regenerated from the source on every run and the kernel checks that every cycle passes through a Depth_Counter, from which the native parse stack is bounded for every input; the cursor model is tied to the real Position by the C20 correspondence; the parser as a whole is explored, not proved: the real parser runs under AddressSanitizer+UBSan on generated, mutated, truncated and pathological inputs",
    text=("PARTIAL. Kernel-checked: advancing the cursor any number of times keeps it inside the input and reading at the end yields the sentinel "
          "[cursor_stays_in_buffer, peek_total]; a descent whose every level goes through Depth_Counter never runs deeper than the limit and returns the "
          "depth error exactly when the nesting exceeds it [guarded_descent_bounded, guarded_descent_reports]; the call graph of the parser's member functions, regenerated "
          "from chaiscript_parser.hpp on every run together with a rank certificate, has no cycle that avoids a function holding a named Depth_Counter constructed before its "
          "first call [parser_cycles_are_guarded, kernel evaluation], so every native call stack of the parser, for every input, has at most (limit+1)(maxRank+2)+maxRank+1 "
          "frames [guarded_graph_stack_bounded, parser_native_stack_bounded]; parse_internal's acceptance rule returns a tree "
          "only when every byte was consumed [accepted_means_whole_input]. NOT proved (a theorem about 2,500 lines of hand-written recursive descent is out of "
          "reach here): termination, memory safety and exception discipline of the grammar functions. Those are explored on the real parser built with "
          "clang -fsanitize=address,undefined, with no engine in the way: the repository's scripts, its never-run AFL corpus, byte-level mutations and "
          "truncations of them, bracket soup, every escape-sequence shape in string/char literals and interpolations, nesting of 24 bracket-like constructs to depths "
          "1..2000 (thorough: 100000) closed, unclosed, half-closed and closers-only, 150000-fold (thorough 400000-fold) repetitions of each of them and of 70 chain constructs "
          "(assignment, every binary operator, dot / call / index chains, else-if, declarations...) alone and inside a block, call, container or condition, and raw bytes incl. NUL and >0x7e. Oracles per input: the process "
          "survives (no sanitizer report, no stack exhaustion, no std::terminate), the only exception type leaving parse is eval_error, and on success the "
          "cursor is at the end of the input, the File node ends at the (line, column) of the input's end, the depth counter is back to 0 and the match "
          "stack is empty."),
    note=("Trusted: Lean kernel; Model/Pos.lean; Model/ParseGraph.lean and extract/e_parsegraph.py (a syntactic call graph of the member functions of ChaiScript_Parser reachable from "
          "parse_internal: calls on other objects, e.g. Char_Parser or Position, are not edges; overloads are merged; the stack bound counts parser frames, not bytes); gen/parseinputs.py; harness/parsefuzz.cpp; clang 14 sanitizers (signed overflow and shift checks off: constant folding does C++ arithmetic at parse time and C05 excludes non-trapping undefined results by name); hook commit 1ac80a4 (friend Access in the parser). "
          "Exploration is not a proof: an input class never generated is not covered."),
    design_ref="DESIGN.md §6 C01")


def line_col(b):
    line, col = 1, 1
    for c in b:
        if c == 10:
            line, col = line + 1, 1
        else:
            col += 1
    return line, col


def run(ctx):
    import e_parsegraph
    C.run_extractor(ctx, "parsegraph", e_parsegraph, "ParseGraph.lean")
    status, text, rc = C.lean_obligations(ctx, ["C01"])
    with ctx.timer("harness_build"):
        exe, log = C.harness_build("parsefuzz")
    if exe is None:
        ctx.oblige("harness build", False, (log or "")[-1500:])
        C.conclude(ctx, False)
        return
    rng = ctx.rng
    thorough = ctx.tier == "thorough"
    n = 150000 if thorough else 6000
    with ctx.timer("generate"):
        ins = parseinputs.gen_inputs(rng, C.REPO, n, thorough)
    with ctx.timer("impl"):
        out, restarts = C.run_harness_resilient(exe, [], [(b.hex() or "-") for b in ins], timeout=3000 if not thorough else 14000, stall=120, max_restarts=200)
    ctx.cov["harness_restarts"] = restarts
    found = 0
    nt = set()
    for b, o in zip(ins, out):
        cls = "ok" if o.startswith("ok") else " ".join(o.split()[:2])
        ctx.hist("outcomes", cls)
        bad = None
        if o.startswith("crash"):
            bad = "the parser crashed or hung the host: " + o[:300]
        elif o.startswith("LEAK"):
            bad = "an exception that is not eval_error left parse(): " + o
        elif o.startswith("ok"):
            nt.add(b)
            f = dict(x.split("=", 1) for x in o.split()[1:] if "=" in x)
            exp = "%d:%d" % line_col(b)
            if f.get("more") != "0":
                bad = "parse() returned a tree although input remained"
            elif f.get("depth") != "0" or f.get("stack") != "0":
                bad = "after a successful parse the depth counter / match stack are not back at rest: " + o
            elif f.get("kind") == "File" and f.get("end") != exp:
                bad = "the tree's File node ends at %s but the input ends at %s" % (f.get("end"), exp)
        elif not o.startswith("eval_error"):
            bad = "unexpected harness answer: " + o[:200]
        else:
            nt.add(b)
        if bad:
            found += 1
            if found <= 6:
                ctx.violation("input", {"mode": "parsefuzz", "input_hex": b.hex(), "input_preview": repr(b[:200]), "length": len(b), "observed": o[:600], "expected": bad,
                                        "how_to_replay": "echo <input_hex> | build/harness/parsefuzz/<bin>"})
    ctx.count("evaluations", len(ins))
    ctx.cov["distinct_nontrivial"] = len(nt)
    ctx.cov["input_sizes"] = {"max": max(len(b) for b in ins), "median": sorted(len(b) for b in ins)[len(ins) // 2]}
    ctx.cov["rule"] = ("%d inputs: repository scripts and AFL corpus, mutations/truncations of them, snippet sequences, escape shapes, nesting to depth %d, bracket soup, raw "
                       "bytes; distinct = distinct byte strings; non-trivial = the parser ran to a verdict (tree or eval_error) under ASan+UBSan" % (len(ins), 100000 if thorough else 2000))
    ctx.sample(repr(ins[-1][:200]))
    ctx.sample(repr(ins[len(ins) // 2][:200]))
    C.conclude(ctx, found > 0)
