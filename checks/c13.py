# C13 — one engine may be used from many threads at once.   (PARTIAL proof + ThreadSanitizer exploration)
import os, sys
import common as C

LEVEL = "proof"
META = dict(
    technique="PARTIAL: Lean 4 theorems about M-USE (the use() exactly-once protocol, any number of threads, any schedule) and about a lock census regenerated from the source on every run (every member function touching shared state takes its lock first; writers exclusively); data-race freedom and per-thread result equality of the C++ code are explored, not proved: generated multi-thread workloads on one engine under ThreadSanitizer with a result oracle",
    text=("PARTIAL. Kernel-checked: in M-USE (take m_use_mutex; evaluate and record the file only if it is not recorded; release), for any number of threads and any "
          "schedule the file is evaluated at most once, and exactly once as soon as one call has returned [use_evaluates_at_most_once, use_evaluates_exactly_once]; "
          "releasing the mutex between check and record allows two evaluations [unlocked_use_evaluates_twice]. The lock census extracted from dispatchkit.hpp, "
          "chaiscript_engine.hpp and type_conversions.hpp on every run (36 rows today) satisfies: every member function that mentions shared state constructs a lock "
          "before the first mention or is a listed lock-free helper only called under the lock [census_every_access_locked, census_helpers_lock_free]; every "
          "function that changes shared state takes its lock exclusively [census_writers_exclusive]. NOT proved: absence of data races in the C++ memory-model sense "
          "and result equality. Those are explored: T in 2..16 threads run generated mixes on ONE real engine built with clang -fsanitize=thread (calling shared script "
          "functions, evaluating with locals of the same names, add(fun), add_global, add_global_const, get_state, use() of one file, yields), all released "
          "together; ThreadSanitizer must stay silent, every thread's results must equal what its script yields alone, every registration must be visible to the "
          "main thread afterwards, and the used file must have run exactly once."),
    note=("Trusted: Lean kernel; Model/UseOnce.lean (the mutex is trusted to exclude); extract/e_locks.py (a syntactic census: a lock constructed earlier in the same function "
          "body); harness/threads.cpp; clang 14 ThreadSanitizer. Schedules are sampled, not enumerated."),
    design_ref="DESIGN.md §6 C13")

PRELUDE = "def shared_ov(int x) { x + 1000 }; def shared(x) { var t = x * 2; return t + 1 }; def fib(n) { if (n < 2) { return n }; return fib(n - 1) + fib(n - 2) }; global G = 40"


def fib(n):
    return n if n < 2 else fib(n - 1) + fib(n - 2)


def gen_workload(rng, usefile):
    T = rng.choice([2, 2, 3, 4, 4, 8, 16])
    threads, expected, final = [], [], {}
    nuse = 0
    ntag = [0]
    for t in range(T):
        ops, exp = [], []
        for k in range(rng.range(4, 14)):
            c = rng.below(15)
            if c == 12:
                # one more overload of a name other threads are dispatching through right now (method-call syntax and operators go through the shared overload vector)
                if ntag[0] < 64:                                   # every overload has its own parameter type: no conflict by construction
                    ops.append("o:%d:%d" % (ntag[0], rng.range(1, 99)))
                    ntag[0] += 1
                continue
            if c >= 13:
                a = rng.range(0, 9)
                src = "%d.shared_ov() + int((\"ab\" + \"cd\").size())" % a
                ops.append("e:" + src.encode().hex())
                exp.append(str(a + 1000 + 4))
                continue
            if c <= 2:
                a = rng.range(0, 9)
                src = "var x%d = %d; var y%d = shared(x%d); x%d = x%d + y%d; x%d" % (k, t * 100 + a, k, k, k, k, k, k)   # the same local names in every thread (a thread's top-level locals persist between its evals)
                ops.append("e:" + src.encode().hex())
                v = t * 100 + a
                exp.append(str(v + (2 * v + 1)))
            elif c == 3:
                n = rng.range(5, 12)
                ops.append("e:" + ("fib(%d) + G" % n).encode().hex())
                exp.append(str(fib(n) + 40))
            elif c == 4:
                name, v = "f_%d_%d" % (t, k), rng.range(1, 999)
                ops.append("f:%s:%d" % (name, v))
                ops.append("c:%s" % name)
                exp.append(str(v))
                final[name + "()"] = v
            elif c == 5:
                name, v = "g_%d_%d" % (t, k), rng.range(1, 999)
                ops.append("g:%s:%d" % (name, v))
                ops.append("e:" + name.encode().hex())
                exp.append(str(v))
                final[name] = v
            elif c == 6:
                name, v = "k_%d_%d" % (t, k), rng.range(1, 999)
                ops.append("k:%s:%d" % (name, v))
                ops.append("e:" + (name + " + 1").encode().hex())
                exp.append(str(v + 1))
                final[name] = v
            elif c == 7:
                ops.append("u:" + usefile.encode().hex())
                nuse += 1
            elif c == 8:
                ops.append("s")
            elif c == 9:
                ops.append("y")
            elif c == 10:
                src = "def loc_%d_%d(a) { a + %d }; loc_%d_%d(1)" % (t, k, k, t, k)                # a script function defined while others run
                ops.append("e:" + src.encode().hex())
                exp.append(str(1 + k))
            else:
                src = "var v%d = [1, 2, 3]; var s%d = 0; for (e : v%d) { s%d += e * %d }; s%d" % (k, k, k, k, t + 1, k)
                ops.append("e:" + src.encode().hex())
                exp.append(str(6 * (t + 1)))
        threads.append(",".join(ops))
        expected.append(",".join(exp))
    line = PRELUDE.encode().hex() + "|" + "|".join(threads)
    want = ";".join("t%d=%s" % (i, e) for i, e in enumerate(expected)) + "|bumps=%d|final=%s" % (1 if nuse else 0, ",".join("%s:%d" % (n, final[n]) for n in sorted(final)))
    return line, want, T


def run(ctx):
    status, text, rc = C.lean_obligations(ctx, ["C13"])
    with ctx.timer("extract"):
        diff = C.gen_diff("Locks.lean") if hasattr(C, "gen_diff") else None
    with ctx.timer("harness_build"):
        exe, log = C.harness_build("threads")
    if exe is None:
        ctx.oblige("harness build", False, (log or "")[-1500:])
        C.conclude(ctx, False)
        return
    rng = ctx.rng
    thorough = ctx.tier == "thorough"
    usefile = os.path.join(C.BUILD, "c13_used_file.chai")
    with open(usefile, "w") as f:
        f.write("bump()\n")
    n = 3000 if thorough else 150
    work = [gen_workload(rng, usefile) for _ in range(n)]
    with ctx.timer("impl"):
        out, restarts = C.run_harness_resilient(exe, [], [w[0] for w in work], timeout=3000 if not thorough else 14000, stall=180,
                                                env={"TSAN_OPTIONS": "halt_on_error=1 second_deadlock_stack=1 report_signal_unsafe=0"})
    ctx.cov["harness_restarts"] = restarts
    found = 0
    nt = set()
    for (line, want, T), o in zip(work, out):
        ctx.hist("threads", str(T))
        bad = None
        if o.startswith("crash"):
            bad = "ThreadSanitizer (or the process) reported: " + o[:400]
        elif o != want:
            bad = "results differ from what each thread's script yields alone / registrations lost / use() count wrong"
        else:
            nt.add(line)
        if bad:
            found += 1
            if found <= 4:
                ctx.violation("input", {"mode": "threads", "workload": line[:4000], "threads": T, "expected": want[:1500], "observed": o[:1500], "why": bad,
                                        "how_to_replay": "TSAN_OPTIONS=halt_on_error=1 build/harness/threads/<bin> < workload-line (may need several runs: schedules differ)"})
    ctx.count("evaluations", n)
    ctx.cov["distinct_nontrivial"] = len(nt)
    ctx.cov["rule"] = ("%d generated workloads of 2..16 threads x 4-14 operations on one engine under ThreadSanitizer; non-trivial = completed with matching results; distinct = distinct workloads; "
                       "schedules are whatever the OS produced (threads are released together and yield at random points)" % n)
    ctx.sample({"threads": work[0][2], "expected": work[0][1][:300]})
    ctx.sample(work[-1][0][:300])
    C.conclude(ctx, found > 0)
