# C15 — get_state / set_state restore the global environment exactly.
import os, sys
import common as C
sys.path.insert(0, os.path.join(C.VERIF, "extract"))
import e_env

LEVEL = "proof"
META = dict(
    technique="Lean 4 proof over a value-semantics model of the engine's environment (invariant + restore theorems over all histories); copy-on-write shape census from dispatchkit.hpp; differential correspondence of registration/get_state/set_state histories with full-environment observation after every step",
    text=("Kernel-checked, for every history of {script def/overload, C++ function, global const, set_global, add type, use(file), top-level local, "
          "get_state, set_state(any earlier snapshot)}: the three function tables stay in step (same keys, object tables wrap the current overload vector) "
          "in the live state and in every snapshot [tables_in_step]; no later operation changes a saved state [snapshot_immutable]; after "
          "get_state; <anything>; set_state(s) the whole visible environment equals the one at get_state [set_get_exact]; locals are untouched "
          "[set_keeps_locals]; what was added since is gone and can be added again [readd_after_restore]; use() re-evaluates exactly the files the "
          "snapshot had not recorded [use_after_restore]. The model's value semantics is justified by a census of the source (add_function copies, "
          "sorts and publishes a new vector; State copied under the lock) [env_code_shape] and by correspondence: after every step of generated "
          "histories the real engine's observable environment (call result of every name x arity, globals, types, locals, evaluated files, error/"
          "success of the step) equals the model's — asked both by freshly parsed strings and by functions parsed once before the history began (plain and "
          "method-call form), whose call sites keep their remembered table slots across set_state. Those slots cannot matter: `Model/FlatMap.lean` models "
          "QuickFlatMap's find / hinted find / insert_or_assign, the condition of the hinted find is read off the source on every run (extract/e_flatmap.py), and "
          "with it the hinted lookup equals the plain lookup for every table with distinct keys, every key and every hint [hinted_lookup_is_lookup, "
          "findHint_is_find, insertOrAssign_distinct; without the key test: findHint_without_key_test_counterexample]."),
    note=("Trusted: Lean kernel, extract/e_env.py, harness/state.cpp. Values of mutable globals are shared with snapshots by design (Boxed_Value handles); "
          "the harness replaces globals with set_global (new handle) rather than mutating them in place, as the property speaks of what is visible."),
    design_ref="DESIGN.md §6 C15")


def gen_history(rng, maxlen):
    ops, nsnap = [], 0
    for _ in range(rng.range(3, maxlen)):
        k = rng.below(13)
        if k < 3:
            ops.append("fn:%d:%d:%d" % (rng.below(3), rng.below(3), rng.range(1, 99)))
        elif k < 5:
            ops.append("cfn:%d:%d:%d" % (rng.below(3), rng.below(3), rng.range(1, 99)))
        elif k == 5:
            ops.append("const:%d:%d" % (rng.below(3), rng.range(1, 99)))
        elif k == 6:
            ops.append("glob:%d:%d" % (rng.below(3), rng.range(1, 99)))
        elif k == 7:
            ops.append("type:%d:%d" % (rng.below(3), rng.below(4)))
        elif k == 8:
            ops.append("use:%d" % rng.below(4))
        elif k == 9:
            ops.append("loc:%d:%d" % (rng.below(3), rng.range(1, 99)))
        elif k == 10 or nsnap == 0:
            ops.append("get"); nsnap += 1
        else:
            ops.append("set:%d" % rng.choice(list(range(nsnap)) + [nsnap - 1, nsnap + 1]))
    return "state " + ";".join(ops)


def run(ctx):
    C.run_extractor(ctx, "env", e_env, "Env.lean")
    import e_flatmap
    C.run_extractor(ctx, "flatmap", e_flatmap, "FlatMap.lean")
    status, text, rc = C.lean_obligations(ctx, ["C15"])
    have_driver = (rc == 0 and os.path.exists(C.driver_path())) or C.ensure_driver(ctx, ["Env.lean"])
    with ctx.timer("harness_build"):
        exe, log = C.harness_build("state")
    if exe is None or not have_driver:
        ctx.oblige("harness/driver build", False, (log or "")[-1500:])
        C.conclude(ctx, False)
        return
    rng = ctx.rng
    thorough = ctx.tier == "thorough"
    n, L = (2500, 120) if thorough else (200, 30)
    p = os.path.join(C.VERIF, "corpus", "C15", "cases.txt")
    cases = [l.strip() for l in open(p) if l.strip() and not l.startswith("#")] if os.path.exists(p) else []
    cases += [gen_history(rng, L) for _ in range(n)]
    with ctx.timer("model"):
        mout = C.run_driver("state", cases)
    with ctx.timer("impl"):
        iout, restarts = C.run_harness_resilient(exe, [], cases, timeout=1800)
    ctx.cov["harness_restarts"] = restarts
    ctx.cov["steps"] = sum(len(c.split()[1].split(";")) for c in cases)
    found = C.compare_streams(ctx, "state", cases, mout, iout)
    ctx.cov["rule"] = ("seeded histories (<= %d ops) over 3 script-function names x 3 arities, 3 C++-function names, 3 globals, 3 type names, 4 files, 3 locals, "
                       "with get_state / set_state(any earlier or non-existent snapshot); after every op the complete observable environment is compared; "
                       "distinct = distinct histories" % L)
    for s in (cases[0], cases[-1]):
        ctx.sample(s[:300])
    C.conclude(ctx, found > 0)
