# C12 — built-in containers/strings are bounds-safe and match their C++ models.
import os, sys
import common as C
sys.path.insert(0, os.path.join(C.VERIF, "extract"))
import e_stl

LEVEL = "proof"
META = dict(
    technique="Lean 4 proof (every op sequence refines the std:: list model or raises; census of guards regenerated from bootstrap_stl.hpp) + ASan/UBSan differential correspondence of op sequences through script syntax",
    text=("Kernel-checked: the census of every operation registered for Vector/string/Map/Pair and their range views (extracted from the current "
          "bootstrap_stl.hpp) shows each member with a std:: precondition guarded [stl_guards_complete]; with those guards every Vector step either has "
          "exactly the std:: effect and result or raises and leaves the container unchanged, for every index/position incl. negative, =size, >size and "
          "empty containers [vec_step_refines_std, vec_step_guards], hence no operation sequence reaches undefined behaviour [vec_run_never_ub]; the "
          "insert_at/erase_at guards accept exactly the defined positions; range views keep b<=e<=size and read inside [b,e) [range_inv]; string find returns npos exactly when the needle occurs nowhere at or after the position, and otherwise the FIRST such index, with the match wholly inside the string [strFind_spec, firstIdx_spec], rfind symmetrically the LAST index up to the position [strRfind_spec, lastIdx_spec]; Map steps are "
          "total. The model and the std:: spec are run in lock step against the real engine (ASan+UBSan) on generated op sequences, comparing result, "
          "exception and full contents after every step. The string find family (one-argument prelude wrappers and three-argument forms) is an executable model checked by correspondence and by python's str.find/rfind; Pair is covered by the census only."),
    note=("Trusted: Lean kernel, extract/e_stl.py (recognises guard idioms), Spec/Stl.lean (std:: semantics over lists), harness/stl.cpp, sanitizers. "
          "Range views are exercised only while the container is not structurally modified (the property's stated scope)."),
    design_ref="DESIGN.md §6 C12")


def interesting(rng, n):
    return rng.choice([-1, 0, n - 1, n, n + 1, -2147483648, 2147483647, rng.range(-3, n + 3), rng.range(0, max(0, n - 1))])


def vec_case(rng, maxlen, kind):
    init = [rng.range(0, 99) if kind == "vec" else rng.range(65, 68) for _ in range(rng.choice([0, 0, 1, 2, 3, 5, 8]))]
    n = len(init)
    ops = []
    for _ in range(rng.range(1, maxlen)):
        k = rng.below(13)
        v = rng.range(0, 99) if kind == "vec" else rng.range(65, 68)
        if k == 0:
            ops.append("%s:%d" % (rng.choice(["idx", "idx", "cidx"]), interesting(rng, n)))
        elif k == 1 and kind == "vec":
            ops.append(rng.choice(["front", "back"]))
        elif k == 2:
            ops.append("push:%d" % v); n += 1
        elif k == 3 and kind == "vec":
            ops.append("pop"); n = max(0, n - 1)
        elif k == 4:
            p = interesting(rng, n)
            ops.append("ins:%d:%d" % (p, v))
            if 0 <= p <= n:
                n += 1
        elif k == 5:
            p = interesting(rng, n)
            ops.append("era:%d" % p)
            if 0 <= p < n:
                n -= 1
        elif k == 6 and kind == "vec":
            m = rng.choice([0, 1, n, n + 2, -1, rng.range(0, 8), -5])
            ops.append("rsz:%d:%d" % (m, v))
            if m >= 0:
                n = m
        elif k == 7:
            ops.append("clr"); n = 0
        elif k == 8:
            ops.append("size")
        elif k == 9:
            ops.append("empty")
        elif k == 10 and kind == "str":
            ops.append("sub:%d:%d" % (interesting(rng, n), rng.choice([-1, 0, 1, n, n + 1, 3])))
        elif k == 11 and kind == "str":
            nd = [rng.range(65, 68) for _ in range(rng.choice([0, 1, 1, 2, 3]))]
            ops.append("srch:%s:%d:%s:%d" % (rng.choice(["1", "3"]), rng.below(6), ".".join(map(str, nd)) or "e", rng.choice([0, 1, n - 1, n, n + 1, -1, rng.range(0, n + 1)])))
        else:
            ops.append("pop" if kind == "vec" else "size")
            if kind == "vec":
                n = max(0, n - 1)
    return "%s %s %s" % (kind, ",".join(map(str, init)) or "-", ";".join(ops))


def rng_case(rng, maxlen):
    init = [rng.range(0, 99) for _ in range(rng.choice([0, 1, 2, 3, 4]))]
    ops = [rng.choice(["empty", "popf", "popb", "front", "back", "front", "back"]) for _ in range(rng.range(1, maxlen))]
    return "rng %s %s" % (",".join(map(str, init)) or "-", ";".join(ops))


def map_case(rng, maxlen):
    ops = []
    for _ in range(rng.range(1, maxlen)):
        k = rng.range(0, 5)
        ops.append(rng.choice(["idx:%d" % k, "at:%d" % k, "set:%d:%d" % (k, rng.range(0, 99)), "set:%d:%d" % (k, rng.range(0, 99)), "cnt:%d" % k,
                               "era:%d" % k, "size", "empty", "clr"]))
    return "map - " + ";".join(ops)


NPOS = 2 ** 64 - 1


def py_search(kind, s, nd, pos):
    """python's own string searching as an independent oracle for the Lean find-family model"""
    if kind == 0:
        return NPOS if pos > len(s) else (s.find(nd, pos) if s.find(nd, pos) >= 0 else NPOS)
    if kind == 1:
        if len(nd) > len(s):
            return NPOS
        r = s.rfind(nd, 0, min(pos, len(s) - len(nd)) + len(nd))
        return r if r >= 0 else NPOS
    idx = [i for i, c in enumerate(s) if (c in nd) != (kind >= 4)]
    if kind in (2, 4):
        idx = [i for i in idx if i >= pos]
        return idx[0] if idx else NPOS
    idx = [i for i in idx if i <= pos]
    return idx[-1] if idx else NPOS


def selfcheck_find_model(ctx, cases, mout):
    bad = 0
    for line, m in zip(cases, mout):
        if not line.startswith("str ") or "srch" not in line:
            continue
        outs = C.split_model_line(m).get("model", "").split(";")
        for op, o in zip(line.split()[2].split(";"), outs):
            if not op.startswith("srch:"):
                continue
            _, form, kind, nd, p = op.split(":")
            kind, p = int(kind), int(p)
            body = o.split("|")[1] if "|" in o else "-"
            s = "".join(chr(int(c)) for c in body.split(",")) if body != "-" else ""
            needle = "".join(chr(int(c)) for c in nd.split(".")) if nd != "e" else ""
            pos = (NPOS if kind in (1, 3, 5) else 0) if form == "1" else (p if p >= 0 else 2 ** 64 + p)
            want = "ok size %d" % py_search(kind, s, needle, pos)
            if not o.startswith(want + "|"):
                bad += 1
                if bad <= 3:
                    ctx.notes.append("find-family model differs from python: %s on %r -> %s (python: %s)" % (op, s, o.split("|")[0], want))
    ctx.oblige("find-family model agrees with python str.find/rfind (self-check)", bad == 0, "" if bad == 0 else "%d differences" % bad)


def run(ctx):
    C.run_extractor(ctx, "stl", e_stl, "Stl.lean")
    status, text, rc = C.lean_obligations(ctx, ["C12"])
    have_driver = (rc == 0 and os.path.exists(C.driver_path())) or C.ensure_driver(ctx, ["Stl.lean"])
    with ctx.timer("harness_build"):
        exe, log = C.harness_build("stl")
    if exe is None or not have_driver:
        ctx.oblige("harness/driver build", False, (log or "")[-1500:])
        C.conclude(ctx, False)
        return
    rng = ctx.rng
    thorough = ctx.tier == "thorough"
    n, L = (5000, 400) if thorough else (500, 40)
    p = os.path.join(C.VERIF, "corpus", "C12", "cases.txt")
    cases = [l.strip() for l in open(p) if l.strip() and not l.startswith("#")] if os.path.exists(p) else []
    for i in range(n):
        r = rng.below(10)
        cases.append(vec_case(rng, L, "vec") if r < 4 else vec_case(rng, L, "str") if r < 6 else rng_case(rng, min(L, 30)) if r < 8 else map_case(rng, L))
    with ctx.timer("model"):
        mout = C.run_driver("stl", cases)
    with ctx.timer("impl"):
        iout, restarts = C.run_harness_resilient(exe, [], cases)
    ctx.cov["harness_restarts"] = restarts

    def canon_impl(t, line):
        return ";".join(("err" + ("|" + s.split("|", 1)[1] if "|" in s else "")) if s.startswith("err") else s for s in t.split(";"))
    selfcheck_find_model(ctx, cases, mout)
    steps = sum(len(c.split()[2].split(";")) for c in cases)
    ctx.cov["steps"] = steps
    found = C.compare_streams(ctx, "stl", cases, mout, iout, canon_impl=canon_impl)
    ctx.cov["rule"] = ("seeded operation sequences (length <= %d) over Vector, string, range views and Map with indices/positions from "
                       "{negative, 0, size-1, size, size+1, INT_MIN, INT_MAX}; each step's result/exception and the full contents are compared; "
                       "distinct = distinct sequences; all are non-trivial (each contains at least one operation)" % L)
    for s in (cases[0], cases[len(cases) // 2], cases[-1]):
        ctx.sample(s[:300])
    ctx.assumptions += ["element values are ints (Vector), bytes (string), ints keyed by short strings (Map)",
                        "a sanitizer abort or signal in the harness is attributed to the sequence being run and counts as a violation"]
    C.conclude(ctx, found > 0)
