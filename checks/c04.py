# C04 — a name resolves to its innermost live binding; lookup caches are invisible.
import glob, os, re, sys
import common as C
sys.path.insert(0, os.path.join(C.VERIF, "gen"))
import progs

LEVEL = "proof"
META = dict(
    technique="Lean 4 theorems about the model of Dispatch_Engine::get_object and its per-node hint against the specification `resolve` (incl. a proved counterexample for the part that is false) + differential execution of the real engine with lookup hints enabled vs disabled (verification hook) and against the Lean evaluator",
    text=("Kernel-checked on the model of get_object: with caching disabled, and on a node that has no hint, the answer is the specification `resolve` "
          "(innermost local of the current stack, else global, else function object) [getObject_without_hints, getObject_cold]; the hint a cold lookup "
          "records is exact for the arrangement it was made in [cold_hint_is_valid]; a valid hint is invisible [getObject_valid_hint]; with the name check "
          "of fix 64c96fe a cached lookup never returns another variable's slot, whatever arrangement the hint came from "
          "[hinted_answer_is_a_binding_of_the_name]. The unrestricted claim is FALSE and its negation is proved on concrete states "
          "[stale_hint_counterexample, stale_local_hint_counterexample]: a hint outlives its arrangement when a declaration made by eval() later shadows "
          "the name (known finding STALE_LOOKUP_HINT); the model tags exactly the deviating lookups [tag_iff_deviation]; and for whole "
          "evaluations (a ninth induction over the evaluator): any job from any state with any cache contents either has a tagged lookup or gives the "
          "outcome and state (up to the cache) of the evaluation with the cache switched off, in which every lookup is `resolve` "
          "[caches_invisible_unless_flagged, caches_invisible_observables, flagged_lookups_only_grow]. Deciding part on the real code: "
          "generated programs in which one function, lambda or loop body is evaluated several times under different arrangements (eval()-made "
          "declarations, slot shifts, recursion, shadowing by function names) are run on the real engine with hints on and off (hook H1) and on the Lean "
          "evaluator; hints-off must equal the specification run, hints-on must equal hints-off except where the model reproduces the engine and the "
          "stale-hint tag fired; the repository's unit-test scripts must behave identically with hints on and off."),
    note=("Trusted: Lean kernel; Model/Chai (hand model of the evaluator; State.getObjectRaw transcribes get_object); gen/progs.py; harness/evalprog.cpp, "
          "harness/unitscript.cpp; hook commit 1ac80a4 (verif_ignore_hints). Function-location caches of call nodes are name-verified in the code and not modelled. "
          "No theorem covers whole programs (that caches are invisible for eval()-free programs is decided by the differential runs only)."),
    design_ref="DESIGN.md §6 C04")


def big_ints(x):
    """the model computes in unbounded integers: runs that leave the int range are outside what it speaks about (C05 covers arithmetic)"""
    return any(abs(int(v)) >= 2 ** 30 for v in re.findall(r"i(-?\d+)", x))


def strip_tags(x):
    # field by field (fields are tab separated): the last word of a field may be followed by a tab, not a space
    return "\t".join(" ".join(p for p in part.split(" ") if not p.startswith("tags=")) for part in x.split("\t"))


def tags_of(x):
    m = re.search(r" tags=(\S+)", x)
    return m.group(1).split(",") if m else []


def shadow_after_cache(rng, n):
    """a name is used from a node that is evaluated again later (function body, lambda, loop); between the two evaluations something that
    takes precedence in the lookup order (locals, then globals, then functions) gets the same name. Not in the Lean model (it has no
    `global`): decided by the engine with cached lookups on vs off."""
    out = []
    for k in range(n):
        nm, v1, v2 = "nm%d" % k, rng.range(1, 50), rng.range(51, 99)
        first = rng.choice(["def %s() { %d }" % (nm, v1), "def %s() { %d }; def %s(a) { a }" % (nm, v1, nm), "global %s = fun() { %d }" % (nm, v1)])
        later = rng.choice(["global %s = fun() { %d }" % (nm, v2), "global %s = fun() { %d }" % (nm, v2), "def %s() { %d }" % (nm, v2) if first.startswith("global") else "global %s = fun() { %d }" % (nm, v2)])
        use = rng.choice(["def ask%d() { %s() }; pr(ask%d()); %s; pr(ask%d()); pr(%s())" % (k, nm, k, later, k, nm),
                          "var l%d = fun() { %s() }; pr(l%d()); %s; pr(l%d()); pr(%s())" % (k, nm, k, later, k, nm),
                          "for (var i = 0; i < 3; ++i) { pr(%s()); if (i == 0) { %s } }; pr(%s())" % (nm, later, nm),
                          "var i%d = 0; while (i%d < 3) { pr(%s()); if (i%d == 1) { %s }; ++i%d }" % (k, k, nm, k, later, k),
                          "def ask%d() { %s() }; def twice%d() { pr(ask%d()); %s; pr(ask%d()) }; twice%d()" % (k, nm, k, k, later, k, k),
                          "def ask%d() { var f = %s; f() }; pr(ask%d()); %s; pr(ask%d())" % (k, nm, k, later, k)])
        out.append("%s; %s" % (first, use))
    return out


def run(ctx):
    status, text, rc = C.lean_obligations(ctx, ["C04"])
    have_driver = (rc == 0 and os.path.exists(C.driver_path())) or C.ensure_driver(ctx, [])
    with ctx.timer("harness_build"):
        exe, log = C.harness_build("evalprog")
        uexe, ulog = C.harness_build("unitscript")
    if exe is None or uexe is None or not have_driver:
        ctx.oblige("harness/driver build", False, ((log or "") + (ulog or ""))[-1500:])
        C.conclude(ctx, False)
        return
    rng = ctx.rng
    thorough = ctx.tier == "thorough"
    nprog = 8000 if thorough else 500
    p = os.path.join(C.VERIF, "corpus", "C04", "progs.txt")
    sx = [l.strip() for l in open(p) if l.strip() and not l.startswith("#")] if os.path.exists(p) else []
    ncorpus = len(sx)
    hist = {}
    for _ in range(nprog):
        g = progs.Gen(rng.fork(), feat=dict(evals=True, optbias=rng.chance(1, 3), refassign=True))
        sx.append(g.program(rng.range(2, 5)))
        for k, v in g.hist.items():
            hist[k] = hist.get(k, 0) + v
    # every hint scenario form on its own as well (inside a random program an earlier statement often fails first, and the rarer forms hardly ever run)
    for k in range(300 if thorough else 60):
        g = progs.Gen(rng.fork(), feat=dict(evals=True, refassign=True))
        sx.append("(" + g.hint_scenario(form=k % 10) + ")")
        for kk, v in g.hist.items():
            hist["alone:" + kk] = hist.get("alone:" + kk, 0) + v
    ctx.cov["constructs"] = hist
    found = 0
    with ctx.timer("model"):
        src = C.run_driver("chai-print", sx)
    for mode, mflag in (("opt", ""), ("noopt", "n")) if thorough else (("opt", ""),):
        with ctx.timer("model"):
            m1 = C.run_driver("chai", ["run 1000000 std 1%s %s" % (mflag, s) for s in sx], timeout=1800)
            m0 = C.run_driver("chai", ["run 1000000 std 0%s %s" % (mflag, s) for s in sx], timeout=1800)
        with ctx.timer("impl"):
            i1, r1 = C.run_harness_resilient(exe, [], ["1000000 std 1 %s %s" % (mode, t.encode().hex()) for t in src], timeout=600 if not thorough else 3000, mem_gb=6)
            i0, r0 = C.run_harness_resilient(exe, [], ["1000000 std 0 %s %s" % (mode, t.encode().hex()) for t in src], timeout=600 if not thorough else 3000, mem_gb=6)
        ctx.cov["harness_restarts"] = ctx.cov.get("harness_restarts", 0) + r1 + r0
        labels = ["%s :: %s" % (mode, t[:700]) for t in src]
        # (a) hints off: the engine must resolve names as the specification does (the Lean evaluator with `resolve`)
        found += C.compare_streams(ctx, "evalprog", ["hints=0 " + l for l in labels], [strip_tags(x) for x in m0], i0,
                                   skip=lambda spec, model, line: big_ints(spec) or big_ints(model),
                                   nontrivial=lambda impl, line: "eval(" in line or "fun" in line or "def " in line, bucket=lambda line: "hints-off/" + line.split(" ")[1])
        # (b) hints on: must equal hints off, except where the model reproduces the engine and flagged a stale hint
        lines = []
        for a, b in zip(m1, i0):
            d = C.split_model_line(a)
            lines.append("model=%s\tspec=%s\ttags=%s" % (strip_tags(d.get("model", a)), b, ",".join(tags_of(d.get("model", "")))))
        def known(line, spec, impl, model, tags):
            if impl == model and "2" in tags.split(","):
                return "STALE_LOOKUP_HINT"
            return None
        found += C.compare_streams(ctx, "evalprog", ["hints=1 " + l for l in labels], lines, i1, known=known, skip=lambda spec, model, line: big_ints(model) or big_ints(spec),
                                   nontrivial=lambda impl, line: "eval(" in line or "fun" in line or "def " in line, bucket=lambda line: "hints-on/" + line.split(" ")[1])
        for lab, m, a, b in zip(labels, m1, i1, i0):
            if (big_ints(m) or big_ints(b)) and a != b:
                found += 1
                if found <= 5:
                    ctx.violation("input", {"mode": "evalprog", "case": lab, "hints_on": a, "hints_off": b})
    # raw programs and the repository's unit-test scripts: engine with hints on vs off
    raw = []
    p = os.path.join(C.VERIF, "corpus", "C04", "raw.txt")
    if os.path.exists(p):
        raw = [l.rstrip("\n") for l in open(p) if l.strip() and not l.startswith("#")]
    raw += shadow_after_cache(rng, 120 if thorough else 40)
    if raw:
        r1, _ = C.run_harness_resilient(exe, [], ["1000000 std 1 opt %s" % t.encode().hex() for t in raw], timeout=300, mem_gb=6)
        r0, _ = C.run_harness_resilient(exe, [], ["1000000 std 0 opt %s" % t.encode().hex() for t in raw], timeout=300, mem_gb=6)
        for t, a, b in zip(raw, r1, r0):
            ctx.count("evaluations", 1)
            if a != b:
                found += 1
                ctx.violation("input", {"mode": "evalprog", "program": t, "hints_on": a, "hints_off": b})
    files = sorted(glob.glob(os.path.join(C.REPO, "unittests", "*.chai")))
    with ctx.timer("unit_corpus"):
        u1, _ = C.run_harness_resilient(uexe, [], ["1 opt %s" % f.encode().hex() for f in files], timeout=900)
        u0, _ = C.run_harness_resilient(uexe, [], ["0 opt %s" % f.encode().hex() for f in files], timeout=900)
    for f, a, b in zip(files, u1, u0):
        if a != b:
            found += 1
            ctx.violation("input", {"mode": "unitscript", "script": f, "hints_on": a, "hints_off": b,
                                    "how_to_replay": "printf '1 opt %s\\n0 opt %s\\n' | build/harness/unitscript/<bin>" % (f.encode().hex(), f.encode().hex())})
    ctx.count("evaluations", len(files))
    ctx.cov["unit_scripts_compared"] = len(files)
    ctx.cov["distinct_nontrivial"] = ctx.cov.get("distinct_nontrivial", 0) + len(files)
    ctx.cov["rule"] = ("%d generated programs (a third of them optimizer-biased) with hint scenarios: a function / loop body evaluated 2-4 times where an eval()-made "
                       "declaration appears only in some evaluations (same name as an outer local, a function, or nothing; or in front of later declarations), "
                       "recursion at varying depth; each run with hints on and off on the real engine and on the Lean evaluator; plus raw corpus programs and %d "
                       "unit-test scripts with hints on/off; non-trivial = the program defines a function or uses eval; distinct = distinct (program, configuration)" % (nprog, len(files)))
    ctx.sample(src[ncorpus][:500] if len(src) > ncorpus else src[0][:500])
    ctx.sample(raw[0] if raw else "")
    C.conclude(ctx, found > 0)
