# C17 — prelude algorithms compute what their names say.
import os, sys
import common as C
sys.path.insert(0, os.path.join(C.VERIF, "extract"))
import e_prelude

LEVEL = "proof"
META = dict(
    technique="Lean 4 proof (each loop-shaped model function = its List specification, all inputs/counts/callbacks) + source pin of every mirrored prelude function + differential correspondence against the real prelude with an independent python oracle",
    text=("Kernel-checked, for all lists, counts (0, negative, = size, > size) and callbacks: for_each visits every element once in order; any_of/all_of = "
          "List.any/all with the exact early-exit call trace; contains; map = List.map; foldl with the code's argument order; concat = ++; take/drop = "
          "List.take/drop (negative count as 0); take_while/drop_while/filter; reduce (two or more elements); zip_with/zip = List.zipWith/zip; reverse; "
          "retro(retro r) = r; join = intercalate; find = suffix from the first match; generate_range x y = [x..y]; min/max; even x <-> 2|x and odd = not even "
          "over all integers; ltrim/rtrim/trim. The models are hand-written recursions following the prelude's loops; the tie is (1) a pin: the normalised "
          "text of each mirrored prelude function in the current source must hash to the value the model was written against [prelude_source_pinned], and "
          "(2) correspondence: results, callback traces and the input container afterwards on the real engine vs the model and vs python's own list "
          "operations. to_string of containers and sum/product (doubles) are correspondence-only."),
    note=("Trusted: Lean kernel, extract/e_prelude.py (tokeniser + sha256), harness/prelude.cpp, the python oracles in checks/c17.py. A harmless rewrite of a "
          "prelude function breaks the pin and is reported with no-failing-input-found unless the correspondence finds a wrong result."),
    design_ref="DESIGN.md §6 C17")

PRED = {"even": lambda x: x % 2 == 0, "pos": lambda x: x > 0, "lt5": lambda x: x < 5, "never": lambda x: False, "always": lambda x: True}
UN = {"inc": lambda x: x + 1, "dbl": lambda x: x * 2, "neg": lambda x: -x}
BIN = {"add": lambda a, b: a + b, "sub": lambda a, b: a - b, "mul": lambda a, b: a * b, "maxf": max}


def csv(xs):
    return ",".join(map(str, xs)) or "-"


def B(b):
    return "true" if b else "false"


def takewhile(p, xs):
    out = []
    for x in xs:
        if not p(x):
            break
        out.append(x)
    return out


def oracle(w):
    """independent python expectation: (res, trace|None)"""
    f = w[0]
    L = lambda i: [int(x) for x in w[i].split(",")] if w[i] != "-" else []
    if f == "for_each":
        return "-", L(1)
    if f == "any_of":
        xs, p = L(1), PRED[w[2]]
        k = len(takewhile(lambda x: not p(x), xs))
        return B(any(map(p, xs))), xs[:k + 1]
    if f == "all_of":
        xs, p = L(1), PRED[w[2]]
        return B(all(map(p, xs))), xs[:len(takewhile(p, xs)) + 1]
    if f == "contains":
        return B(int(w[2]) in L(1)), None
    if f == "map":
        return csv([UN[w[2]](x) for x in L(1)]), L(1)
    if f == "foldl":
        acc = int(w[3])
        for x in L(1):
            acc = BIN[w[2]](x, acc)
        return str(acc), None
    if f == "sum":
        return str(sum(L(1))), None
    if f == "product":
        r = 1
        for x in L(1):
            r *= x
        return str(r), None
    if f == "concat":
        return csv(L(1) + L(2)), None
    if f == "take":
        return csv(L(1)[:max(int(w[2]), 0)]), None
    if f == "drop":
        return csv(L(1)[max(int(w[2]), 0):]), None
    if f == "take_while":
        xs, p = L(1), PRED[w[2]]
        t = takewhile(p, xs)
        return csv(t), xs[:len(t) + 1]
    if f == "drop_while":
        xs, p = L(1), PRED[w[2]]
        t = takewhile(p, xs)
        return csv(xs[len(t):]), xs[:len(t) + 1]
    if f == "filter":
        return csv([x for x in L(1) if PRED[w[2]](x)]), L(1)
    if f == "reduce":
        xs = L(1)
        if len(xs) < 2:
            return "error", None
        acc = xs[0]
        for x in xs[1:]:
            acc = BIN[w[2]](acc, x)
        return str(acc), None
    if f == "join":
        return ", ".join(map(str, L(1))), None
    if f == "joins":
        words = ["" if t == "E" else t for t in w[1].split(",")]
        delim = {"c": ",", "cs": ", ", "e": ""}.get(w[2], "--")
        return csv(list(delim.join(words).encode())), None
    if f == "to_strings":
        words = ["" if t == "E" else t for t in w[1].split(",")]
        return csv(list(("[" + ", ".join(words) + "]").encode())), None
    if f == "to_string":
        return "[" + ", ".join(map(str, L(1))) + "]", None
    if f == "generate_range":
        return csv(list(range(int(w[1]), int(w[2]) + 1))), None
    if f == "zip_with":
        return csv([BIN[w[1]](a, b) for a, b in zip(L(2), L(3))]), None
    if f == "zip":
        return ";".join("%d:%d" % p for p in zip(L(1), L(2))) or "-", None
    if f == "reverse":
        return csv(L(1)[::-1]), None
    if f == "retro":
        return "-", L(1)[::-1]
    if f == "retroretro":
        return "-", L(1)
    if f == "find":
        xs, v = L(1), int(w[2])
        return csv(xs[xs.index(v):] if v in xs else []), None
    if f == "min":
        return str(min(int(w[1]), int(w[2]))), None
    if f == "max":
        return str(max(int(w[1]), int(w[2]))), None
    if f == "odd":
        return B(int(w[1]) % 2 == 1), None     # python's % is floored: this is the mathematical parity
    if f == "even":
        return B(int(w[1]) % 2 == 0), None
    if f in ("ltrim", "rtrim", "trim"):
        s = bytes(L(1)).decode("latin-1")
        r = {"ltrim": s.lstrip(" \t\r\n"), "rtrim": s.rstrip(" \t\r\n"), "trim": s.strip(" \t\r\n")}[f]
        return csv(list(r.encode("latin-1"))), None
    raise KeyError(f)


def gen_list(rng, maxn):
    n = rng.choice([0, 0, 1, 2, 3, 4, 5, maxn])
    return [rng.choice([rng.range(-9, 9), rng.range(0, 6), 0, 5, -3]) for _ in range(n)]


RANGE_OK = ["for_each", "any_of", "all_of", "contains", "foldl", "sum", "product", "join", "joins"]


def gen_case(rng, maxn):
    c = gen_case0(rng, maxn)
    if c.split()[0] in RANGE_OK and rng.chance(1, 3):
        return "R:" + c      # same call on a range object, twice: the input range must not be consumed
    return c


def gen_case0(rng, maxn):
    f = rng.choice(["for_each", "any_of", "all_of", "contains", "map", "foldl", "sum", "product", "concat", "take", "drop", "take_while", "drop_while",
                    "filter", "reduce", "join", "to_string", "generate_range", "zip_with", "zip", "reverse", "retro", "retroretro", "find", "min", "max",
                    "odd", "even", "ltrim", "rtrim", "trim", "joins", "to_strings"])
    if f in ("joins", "to_strings"):
        # strings, the empty one included, at every position
        words = [rng.choice(["E", "E", "a", "bc", "x", "E"]) for _ in range(rng.choice([1, 1, 2, 3, 4, maxn]))]
        return "%s %s%s" % (f, ",".join(words), " " + rng.choice(["c", "cs", "e", "dd"]) if f == "joins" else "")
    xs = gen_list(rng, maxn)
    n = len(xs)
    if f in ("for_each", "sum", "product", "join", "to_string", "reverse", "retro", "retroretro"):
        return "%s %s" % (f, csv(xs))
    if f in ("any_of", "all_of", "take_while", "drop_while", "filter"):
        return "%s %s %s" % (f, csv(xs), rng.choice(list(PRED)))
    if f == "contains" or f == "find":
        return "%s %s %d" % (f, csv(xs), rng.choice(xs + [99]) if xs else 1)
    if f == "map":
        return "map %s %s" % (csv(xs), rng.choice(list(UN)))
    if f == "foldl":
        return "foldl %s %s %d" % (csv(xs), rng.choice(list(BIN)), rng.range(-3, 3))
    if f == "reduce":
        return "reduce %s %s" % (csv(xs), rng.choice(list(BIN)))
    if f in ("take", "drop"):
        return "%s %s %d" % (f, csv(xs), rng.choice([0, -1, -5, 1, n - 1, n, n + 1, n + 7, 2]))
    if f in ("concat", "zip"):
        return "%s %s %s" % (f, csv(xs), csv(gen_list(rng, maxn)))
    if f == "zip_with":
        return "zip_with %s %s %s" % (rng.choice(list(BIN)), csv(xs), csv(gen_list(rng, maxn)))
    if f == "generate_range":
        a = rng.range(-5, 5)
        return "generate_range %d %d" % (a, a + rng.choice([-2, -1, 0, 1, 4, 9]))
    if f in ("min", "max"):
        return "%s %d %d" % (f, rng.range(-9, 9), rng.range(-9, 9))
    if f in ("odd", "even"):
        return "%s %d" % (f, rng.choice([rng.range(-99, 99), -3, -2, -1, 0, 1, 2, 3, -2147483647, 2147483647]))
    s = [rng.choice([32, 9, 10, 13, 65, 66, 120, 32, 32]) for _ in range(rng.range(0, 8))]
    return "%s %s" % (f, csv(s))


def run(ctx):
    C.run_extractor(ctx, "prelude", e_prelude, "Prelude.lean")
    status, text, rc = C.lean_obligations(ctx, ["C17"])
    have_driver = (rc == 0 and os.path.exists(C.driver_path())) or C.ensure_driver(ctx, ["Prelude.lean"])
    with ctx.timer("harness_build"):
        exe, log = C.harness_build("prelude")
    if exe is None or not have_driver:
        ctx.oblige("harness/driver build", False, (log or "")[-1500:])
        C.conclude(ctx, False)
        return
    rng = ctx.rng
    thorough = ctx.tier == "thorough"
    n, maxn = (50000, 40) if thorough else (1500, 9)
    p = os.path.join(C.VERIF, "corpus", "C17", "cases.txt")
    cases = [l.strip() for l in open(p) if l.strip() and not l.startswith("#")] if os.path.exists(p) else []
    cases += [gen_case(rng, maxn) for _ in range(n)]
    with ctx.timer("model"):
        mout = C.run_driver("prelude", cases)
    with ctx.timer("impl"):
        iout, restarts = C.run_harness_resilient(exe, [], cases)
    # replace the driver's (model-derived) spec by the independent python oracle
    mo2 = []
    for line, m in zip(cases, mout):
        d = C.split_model_line(m)
        w = line.split()
        twice = w[0].startswith("R:")
        if twice:
            w[0] = w[0][2:]
        res, tr = oracle(w)
        if twice:
            res = res + "|" + res
            tr = None if tr is None else csv(tr) + "|" + csv(tr)
            spec = "res=" + res + ("" if tr is None else " trace=" + tr)
        else:
            spec = "res=" + res + ("" if tr is None else " trace=" + csv(tr))
        mo2.append("model=%s\tspec=%s" % (d.get("model", m), spec))
    found = C.compare_streams(ctx, "prelude", cases, mo2, iout)
    ctx.cov["harness_restarts"] = restarts
    ctx.cov["rule"] = ("seeded (function, input list, callback, count) cases over 31 prelude entry points; lists of length 0..%d over small ints; counts from "
                       "{0, negative, 1, size-1, size, size+1, size+7}; oracle = python list operations; the harness also reports INPUT-CHANGED when the input "
                       "container differs afterwards; distinct = distinct case lines" % maxn)
    for s in (cases[0], cases[len(cases) // 2], cases[-1]):
        ctx.sample(s)
    C.conclude(ctx, found > 0)
