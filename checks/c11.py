# C11 — objects live exactly as long as something refers to them.
import os, sys
import common as C
sys.path.insert(0, os.path.join(C.VERIF, "gen"))
import lifeprogs

LEVEL = "proof"
META = dict(
    technique="Lean 4 theorems about M-RC, a model of the ownership discipline behind Boxed_Value (count = number of referrers for every operation sequence; no dangling handle; destroyed at most once), tied to the engine by comparing, at every checkpoint of generated programs over an instrumented C++ class, the set of live objects with the model's; the real engine runs under AddressSanitizer+UBSan with a registry that detects use-after-destroy and double destruction",
    text=("Kernel-checked on M-RC (handles made only by creating an object or copying a handle; a holder that goes away drops its handles; destruction at count "
          "zero), for every sequence of operations: the count of each object equals the number of handles to it [count_is_number_of_referrers]; no handle refers to "
          "a destroyed object [no_dangling_handle]; an object nothing refers to is destroyed [unreferenced_is_destroyed]; every object is destroyed at most once "
          "and stays destroyed [destroyed_at_most_once, destroyed_stays_destroyed]. Tie and deciding part: generated programs create, copy (declaration, copy "
          "constructor, auto), alias (var &), store (push_back, push_back_ref), capture, pass (by value, const&, &, *, shared_ptr; through script functions), "
          "return (by value, shared_ptr, from script functions) and drop instances of an instrumented C++ class, hand shared_ptrs to C++ and take them back, with "
          "scopes ending normally and by a C++ exception thrown at a chosen call, and a closure capturing an object made in a loop body; each program is also a "
          "list of M-RC operations. At every checkpoint, after the script's variables are dropped, after C++ released its pointers and after the engine is "
          "destroyed, the multiset of live objects on the real engine (read from the class's registry) must equal the model's liveTags; the registry must have "
          "seen no use-after-destroy and no double destruction, and AddressSanitizer no error. A second stream adds what the model does not predict (converted "
          "temporaries, unique_ptr, references to C++-owned objects, eval errors mid-statement) and checks the model-free oracles only: no event, nothing left "
          "alive after the engine is gone except the C++-owned object."),
    note=("Trusted: Lean kernel; Model/Rc.lean and the name/scope glue in Drv/Rc.lean; gen/lifeprogs.py (the mapping construct -> M-RC operations is the modelling claim); "
          "harness/lifetime.cpp; clang 14 sanitizers. That the engine makes handles in no other way is exactly what the differential and the sanitizer watch; it is not proved. "
          "Reference cycles and other threads' state are outside the property."),
    design_ref="DESIGN.md §6 C11")

EXTRA = ["var rr%d := range([T(%d)]); rr%d := range([T(%d), T(%d)]); pr(rr%d.front().get()); pr(rr%d.back().get()); rr%d.pop_front(); pr(rr%d.front().get())",
         "var rq%d := range([T(%d), T(%d)]); var rp%d := rq%d; rq%d := range([T(%d)]); pr(rp%d.front().get()); pr(rq%d.front().get())",
         "auto &ra%d = range([T(%d)]); ra%d := retro(range([T(%d), T(%d)])); pr(ra%d.front().get())",
         "var rs%d = make_sp(%d); reseat(rs%d, 7); pr(rs%d.get()); pr(by_cref(rs%d)); var rc%d = rs%d; pr(rc%d.get()); rs%d.set(3); pr(by_value(rs%d))",
         "var rt%d = make_sp(%d); var ru%d = rt%d; reseat(rt%d, 8); pr(ru%d.get()); pr(rt%d.get()); pr(by_sp(rt%d))",
         "var rv%d = make_sp(%d); unseat(rv%d); reseat(rv%d, 9); pr(rv%d.get()); pr(by_cref(rv%d))",
         "def rf%d(p) { reseat(p, 6); by_cref(p) }; var rw%d = make_sp(%d); pr(rf%d(rw%d)); pr(rw%d.get())",
         "by_cref(Wrap(%d))", "by_value(Wrap(%d))", "pr(by_cref(Wrap(%d)) + by_cref(Wrap(%d)))", "var u%d = make_up(%d); pr(u%d.get())", "var w%d = owned_ref(); w%d.set(%d)", "var &q%d = owned_ref(); pr(q%d.get())",
         "def g%d() { by_cref(Wrap(%d)); return T(%d) }; var z%d = g%d()", "var m%d = [\"k\": T(%d)]; pr(m%d[\"k\"].get())", "pr(nosuch%d)", "var p%d = Pair(T(%d), T(%d))" if False else "pr(T(%d).get() + T(%d).get())",
         "pr(Holder(%d).inner.get())", "pr(make_holder(%d).inner.get())", "Holder(%d).inner.set(5)", "var hh%d = Holder(%d); pr(hh%d.inner.get()); var &ri%d = hh%d.inner; pr(ri%d.get())",
         "pr(inner_of(Holder(%d)).get())" if False else "pr(Holder(%d).inner.ident() > 0)", "pr(by_cref(Holder(%d).inner))", "pr(by_value(make_holder(%d).inner))",
         "var cc%d = make_holder(%d).inner; pr(cc%d.get())", "auto ca%d = Holder(%d).inner; pr(ca%d.get())", "def gh%d() { return make_holder(%d).inner }; var qh%d = gh%d(); pr(qh%d.get())",
         "var vh%d = [make_holder(%d).inner]; pr(vh%d[0].get())", "var cd%d; cd%d = make_holder(%d).inner; pr(cd%d.get())", "if (make_holder(%d).inner.get() > 0) { pr(1) }",
         # a call that returns a reference INTO a temporary argument, as the LAST statement of a body (its value is the body's result) and used afterwards
         "def pk%d() { pr(0); same(T(%d)) }; pr(pk%d().get())", "def pl%d() { pr(0); same(T(%d)) }; var cq%d = pl%d(); pr(cq%d.get())", "var lk%d = fun() { same(T(%d)) }; pr(lk%d().get())",
         "def pm%d() { if (true) { pr(0); same_c(T(%d)) } }; pr(pm%d().get())", "def pn%d() { pr(0); inner_of(Holder(%d)) }; pr(pn%d().get()); var co%d = pn%d(); pr(co%d.get())",
         "def pp%d(a) { pr(a); same(T(%d)) }; pr(by_cref(pp%d(1))); pr(by_value(pp%d(2)))", "def pq%d() { pr(0); same(same(T(%d))) }; pr(pq%d().get() + pq%d().get())",
         "def pt%d() { pr(0); same_c(T(%d)) }; def ps%d() { pr(1); pt%d() }; pr(ps%d().get())", "for (var i = 0; i < 2; ++i) { pr(i); pr(same(T(%d)).get()) }",
         "var vv%d = [T(%d), T(%d)]; vv%d.pop_back(); vv%d.clear()", "var lf%d = fun() { 0 }; for (var i = 0; i < 3; ++i) { lf%d = fun[i]() { i } }; pr(lf%d())",
         "var lg%d = fun() { 0 }; for (var i = 0; i < 3; ++i) { var tt = T(%d); lg%d = fun[i, tt]() { i + tt.get() } }; pr(lg%d()); pr(lg%d())", "var s%d = T(%d); s%d = T(%d)", "var c%d = bind(fun(x) { x.get() }, T(%d)); pr(c%d())"]


import re
REF_TO_TMP_MEMBER = re.compile(r"var &\w+ = (make_holder|Holder)\(\d+\)\.inner")


def strip900(s):
    return ",".join(x for x in s.split(",") if x and x != "900")


def fields(o):
    return dict(x.split("=", 1) for x in o.split(" ") if "=" in x)


def run(ctx):
    status, text, rc = C.lean_obligations(ctx, ["C11"])
    have_driver = (rc == 0 and os.path.exists(C.driver_path())) or C.ensure_driver(ctx, [])
    with ctx.timer("harness_build"):
        exe, log = C.harness_build("lifetime")
    if exe is None or not have_driver:
        ctx.oblige("harness/driver build", False, (log or "")[-1500:])
        C.conclude(ctx, False)
        return
    rng = ctx.rng
    thorough = ctx.tier == "thorough"
    n = 12000 if thorough else 600
    cases, hist = [], {}
    for _ in range(n):
        g = lifeprogs.LifeGen(rng.fork())
        cases.append(g.program())
        for k, v in g.hist.items():
            hist[k] = hist.get(k, 0) + v
    ctx.cov["constructs"] = hist
    with ctx.timer("model"):
        mout = C.run_driver("rc", [m for t, m, fa in cases], timeout=1800)
    with ctx.timer("impl"):
        out, r1 = C.run_harness_resilient(exe, [], ["%d %s" % (fa, t.encode().hex()) for t, m, fa in cases], timeout=1800 if not thorough else 7200, stall=120)
    found = 0
    lines, impls = [], []
    for (t, m, fa), o, mo in zip(cases, out, mout):
        f = fields(o)
        cps = ";".join("%s:%s" % (x.split(":")[0], strip900(x.split(":")[1])) for x in f.get("cps", "").split(";") if x)
        impl = "%s;locals:%s;released:%s" % (cps, strip900(f.get("live_after_locals", "")), strip900(f.get("live_after_release", "")))
        if o.startswith("crash") or f.get("events", "") or f.get("events_end", "") or strip900(f.get("live_after_engine", "")) or f.get("final_live", "") or not o.startswith("res=ok"):
            impl += " ANOMALY " + o[:300]
        md = C.split_model_line(mo).get("model", mo).split(";log_nodup")[0]
        lines.append("model=%s\tspec=%s" % (md, md))
        impls.append(impl)
    labels = ["fault@%d :: %s" % (fa, t[:900]) for t, m, fa in cases]
    found += C.compare_streams(ctx, "lifetime", labels, lines, impls, nontrivial=lambda impl, line: True, bucket=lambda line: "modelled")
    # ---- second stream: constructs the model does not predict; model-free oracles only
    n2 = 6000 if thorough else 400
    extra = []
    for i in range(n2):
        g = lifeprogs.LifeGen(rng.fork())
        t, m, fa = g.program()
        adds = []
        for _ in range(rng.range(1, 4)):
            tpl = rng.choice(EXTRA)
            k = tpl.count("%d")
            j = 500 + rng.below(400)
            adds.append(tpl % tuple([j] * k))
        extra.append((t + "try { " + "; ".join(adds) + " } catch(e) { }; " + "; ".join(adds[:1]), fa if rng.chance(1, 2) else rng.below(4)))
    # the known finding REFERENCE_INTO_TEMPORARY_MEMBER aborts the sanitized harness: probed a few times, not mixed into the bulk
    for k in range(3):
        extra.append(("var &rh%d = make_holder(%d).inner; pr(rh%d.get())" % (900 + k, 900 + k, 900 + k), 1000000))
    with ctx.timer("impl"):
        out2, r2 = C.run_harness_resilient(exe, [], ["%d %s" % (fa, t.encode().hex()) for t, fa in extra], max_restarts=300, timeout=1800 if not thorough else 7200, stall=120,
                                           env={"ASAN_OPTIONS": "detect_leaks=0:allocator_may_return_null=1:abort_on_error=0:detect_stack_use_after_return=1"})
    ctx.cov["harness_restarts"] = r1 + r2
    nt = set()
    for (t, fa), o in zip(extra, out2):
        f = fields(o)
        bad = None
        if (o.startswith("crash") or f.get("events", "") or f.get("events_end", "")) and REF_TO_TMP_MEMBER.search(t) and ctx.known_finding("REFERENCE_INTO_TEMPORARY_MEMBER", t[-200:]):
            continue
        if o.startswith("crash"):
            bad = "the engine crashed (sanitizer report / abort): " + o[:300]
        elif f.get("events", "") or f.get("events_end", ""):
            bad = "the instrumented class saw: " + (f.get("events", "") + f.get("events_end", ""))
        elif strip900(f.get("live_after_engine", "")):
            bad = "objects created for the script are still alive after the engine was destroyed: " + f.get("live_after_engine", "")
        elif f.get("final_live", ""):
            bad = "objects still alive at the end: " + f.get("final_live", "")
        else:
            nt.add(t)
        ctx.hist("outcomes_extra", f.get("res", o[:20])[:16])
        if bad:
            found += 1
            if found <= 5:
                ctx.violation("input", {"mode": "lifetime", "program": t, "fault_at_boom": fa, "observed": o[:900], "expected": bad,
                                        "how_to_replay": "echo '%d %s' | build/harness/lifetime/<bin>" % (fa, t.encode().hex())})
    ctx.count("evaluations", len(extra))
    ctx.cov["distinct_nontrivial"] = ctx.cov.get("distinct_nontrivial", 0) + len(nt)
    ctx.cov["rule"] = ("%d generated ownership programs compared with M-RC at every checkpoint (and after locals / C++ pointers / the engine are gone) + %d programs with constructs "
                       "outside the model under the model-free oracles; distinct = distinct (program, fault) pairs; every run is non-trivial (registry + sanitizer watch it)" % (n, n2))
    ctx.sample({"program": cases[0][0][:500], "model_ops": cases[0][1][:300]})
    ctx.sample(extra[0][0][-300:])
    C.conclude(ctx, found > 0)
