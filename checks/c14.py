# C14 — engine instances are isolated from one another.
import os, sys
import common as C

LEVEL = "proof"
META = dict(
    technique="Lean 4 theorems about M-TLS, a model of Thread_Storage (process-wide id counter, per-thread key->data maps, destructor erasing only the destroying thread's entry), for every history of creations, uses from any threads and destructions; tied to the real engine by replaying generated histories (several engines placement-constructed at REUSED addresses and on the heap, driven from the main thread and from long-lived worker threads, with colliding names) and comparing every observation with the model",
    text=("Kernel-checked on M-TLS for every history: every key present in any thread's map was handed out by the counter [bounded_reachable], hence a NEW storage sees "
          "nothing on ANY thread, whatever was destroyed before and whatever address it gets [fresh_storage_sees_nothing]; writing or destroying one storage never "
          "changes what any thread holds for another [write_other_unchanged, destroy_other_unchanged]; destruction removes the destroying thread's entry and only "
          "that one [destroy_removes_own_entry, destroy_keeps_other_threads]; the address-keyed scheme used before fix 3f66453 is shown not to isolate "
          "[address_keyed_storage_inherits]. Deciding part: generated histories over up to 5 engines (placement new in 3 pool slots so that a later engine has the "
          "address of a destroyed one, or plain heap), three long-lived worker threads and the main thread, with the SAME local / global / function names used in "
          "every engine: set/get locals per thread, globals, function definitions and calls, engines destroyed while workers still hold their per-thread state; "
          "every observation on the real engines must equal the model's (locals per (engine, thread); globals and functions per engine; nothing inherited). "
          "Shared-object histories (outside the model): engine A runs scripts that try to change or decorate the process-wide `true` / `false` / void singletons "
          "(`:=`, references, parameters, function-form operators, containers), engines B (coexisting) and C (created later, possibly at A's address) are probed on any "
          "thread and must answer like a fresh engine in a fresh process; the attribute route is the known finding SHARED_CONSTANT_ATTRIBUTES."),
    note=("Trusted: Lean kernel; Model/Tls.lean and the history interpreter Drv/Tls.lean (globals/functions per engine are modelled as plain per-engine tables: that all other "
          "engine state is held in members is read off the class definitions, not proved); harness/engines.cpp. Types, conversions and used-file records are per-engine "
          "members like functions and are exercised by C15/C19, not here."),
    design_ref="DESIGN.md §6 C14")


def gen_history(rng):
    names_l, names_g, names_f = ["lx", "ly"], ["gx", "gy"], ["fa", "fb"]
    live, ops, counter, slot_of = [], [], 0, {}
    for _ in range(rng.range(6, 40)):
        k = rng.below(12)
        if (k == 0 and len(live) < 4) or not live:
            counter += 1
            e = "E%d" % counter
            free = [k for k in (0, 0, 0, 1, 2) if k not in slot_of.values()]          # a pool slot holds one engine at a time; slot 0 is reused most
            slot = rng.choice(free + [9]) if free else 9
            if slot != 9:
                slot_of[e] = slot
            ops.append("new %s %d %d" % (e, slot, rng.choice([0, 0, 1, 2, 3])))
            live.append(e)
        elif k == 1 and live:
            e = rng.choice(live)
            ops.append("del %s %d" % (e, rng.choice([0, 0, 0, 1, 2])))
            live.remove(e)
            slot_of.pop(e, None)
        else:
            e = rng.choice(live)
            th = rng.below(4)
            c = rng.below(8)
            if rng.chance(1, 5):
                # user type conversions: registered per engine; every engine has the functions, few have the conversion
                ops.append("%s %d %s %d" % (rng.choice(["conv", "useconv", "useconv"]), th, e, rng.below(3)))
            elif c <= 1:
                ops.append("setl %d %s %s %d" % (th, e, rng.choice(names_l), rng.range(1, 99)))
            elif c <= 3:
                ops.append("getl %d %s %s" % (th, e, rng.choice(names_l)))
            elif c == 4:
                ops.append("setg %d %s %s %d" % (th, e, rng.choice(names_g), rng.range(1, 99)))
            elif c == 5:
                ops.append("getg %d %s %s" % (th, e, rng.choice(names_g)))
            elif c == 6:
                ops.append("def %d %s %s %d" % (th, e, rng.choice(names_f), rng.range(1, 99)))
            else:
                ops.append("call %d %s %s" % (th, e, rng.choice(names_f)))
    # read everything back everywhere at the end
    for e in live:
        for th in range(4):
            ops.append("getl %d %s %s" % (th, e, rng.choice(names_l)))
        ops.append("getg 0 %s %s" % (e, rng.choice(names_g)))
        ops.append("call 0 %s %s" % (e, rng.choice(names_f)))
    return "; ".join(ops)


# ---- the process-wide shared objects (`true` / `false` / void singletons, results of built-in comparisons): scripts of one engine that try to change
# them or to hang attributes on them, and what ANOTHER engine (coexisting, created later, on another thread) then answers.
ATTACKS = ["def clr(f) { f := false }; clr(1 == 1)", "def clr(f) { f := false }; clr(true)", "def st(f) { f := true }; st(1 == 2); st(false)",
           "var &r = true; r := false", "var &r = (2 == 2); r = false", "var &r = true; r = false", "(1 == 1) = false", "true = false", "true := false", "false := true",
           "def setf(f) { f = false }; setf(true); setf(2 > 1)", "`=`(true, false)", "`:=`(true, false)", "`:=`(1 < 2, false)", "var t = true; t := false; t = false",
           "var vv = [1]; vv.clear() := 5", "def vd(x) { x := 7 }; var vv = [1]; vd(vv.clear())", "for (var i = 0; i < 3; ++i) { (i < 5) := false }",
           "var c = true; var &d = c; d := false; `:=`(c, 1 == 2)", "def g(x) { return x }; g(true) := false", "[true][0] := false", "var m = [\"a\": true]; m[\"a\"] := false",
           "true.clone() := false", "auto &w = !false; w := false"]
ATTR_ATTACKS = ["get_var_attr(true, \"ATTR\") = 5", "get_var_attr(false, \"ATTR\") = 5", "get_var_attr(1 < 2, \"ATTR\") = 7", "var vv = [1]; get_var_attr(vv.clear(), \"ATTR\") = 9"]


def shared_object_histories(rng, n, attacks):
    hs = []
    for _ in range(n):
        slot_a = rng.choice([0, 9])
        ops = ["new A %d %d" % (slot_a, rng.below(4)), "new B %d %d" % (rng.choice([1, 9]), rng.below(4)), "probe %d B" % rng.below(4)]
        for _ in range(rng.range(1, 4)):
            ops.append("script %d A %s" % (rng.below(4), rng.choice(attacks).encode().hex()))
        ops.append("probe %d B" % rng.below(4))
        deleted = rng.chance(1, 2)
        if deleted:
            ops.append("del A %d" % rng.below(3))
        # (a pool slot holds one engine at a time: C takes A's address only when A is gone)
        ops += ["new C %d %d" % (rng.choice([slot_a, 2, 9]) if deleted else rng.choice([2, 9]), rng.below(4)), "probe %d C" % rng.below(4), "probe %d B" % rng.below(4)]
        hs.append("; ".join(ops))
    return hs


def run(ctx):
    status, text, rc = C.lean_obligations(ctx, ["C14"])
    have_driver = (rc == 0 and os.path.exists(C.driver_path())) or C.ensure_driver(ctx, [])
    with ctx.timer("harness_build"):
        exe, log = C.harness_build("engines")
    if exe is None or not have_driver:
        ctx.oblige("harness/driver build", False, (log or "")[-1500:])
        C.conclude(ctx, False)
        return
    rng = ctx.rng
    thorough = ctx.tier == "thorough"
    n = 6000 if thorough else 400
    p = os.path.join(C.VERIF, "corpus", "C14", "histories.txt")
    hs = [l.strip() for l in open(p) if l.strip() and not l.startswith("#")] if os.path.exists(p) else []
    hs += [gen_history(rng) for _ in range(n)]
    with ctx.timer("model"):
        mout = C.run_driver("tls", hs, timeout=1800)
    with ctx.timer("impl"):
        iout, restarts = C.run_harness_resilient(exe, [], hs, timeout=3000 if not thorough else 14000, stall=120)
    ctx.cov["harness_restarts"] = restarts
    found = C.compare_streams(ctx, "engines", hs, mout, iout, nontrivial=lambda impl, line: "del" in line and line.count("new") >= 2,
                              bucket=lambda line: "engines=%d" % min(line.count("new "), 5))
    # shared objects: first the attacks the language refuses (one process: a success would show in every later probe), then — in a process of its own,
    # because its effect is process-wide — the attribute attack that is the known finding SHARED_CONSTANT_ATTRIBUTES
    sh = shared_object_histories(rng, 300 if thorough else 40, ATTACKS)
    with ctx.timer("impl"):
        base, _ = C.run_harness_resilient(exe, [], ["new Z 9 0; probe 0 Z"], timeout=300, stall=120)
        so, _ = C.run_harness_resilient(exe, [], sh, timeout=1200, stall=120)
    base = base[0] if base else "missing"
    ctx.cov["shared_object_probe"] = base
    ctx.count("evaluations", len(sh))
    nbad = 0
    for h, o in zip(sh, so):
        probes = [x for x in o.split(",") if "|" in x or x in ("noengine",)]
        ctx.hist("attack_outcomes", ",".join(sorted(set(x for x in o.split(",") if "|" not in x))))
        if len(probes) != 4 or any(p != base for p in probes):
            nbad += 1
            found += 1
            if nbad <= 3:
                ctx.violation("history", {"mode": "engines", "history": h, "scripts": [bytes.fromhex(w.split(" ")[-1]).decode() for w in h.split("; ") if w.startswith("script")],
                                          "observed": o, "expected": "every probe of the other engines answers like a fresh engine in a fresh process: " + base})
    ah = shared_object_histories(rng, 6, ATTR_ATTACKS)
    with ctx.timer("impl"):
        ao, _ = C.run_harness_resilient(exe, [], ah, timeout=300, stall=120)
    for h, o in zip(ah, ao):
        probes = [x for x in o.split(",") if "|" in x]
        if any(p != base for p in probes):
            if not ctx.known_finding("SHARED_CONSTANT_ATTRIBUTES", h):
                found += 1
                ctx.violation("history", {"mode": "engines", "history": h, "observed": o, "expected": base})
            break
    ctx.cov["rule"] = ("%d generated histories (6-40 operations + a final read-back on every thread); non-trivial = at least two engines and one destruction; distinct = distinct histories" % n)
    ctx.sample(hs[-1][:500])
    ctx.sample(hs[0][:300])
    C.conclude(ctx, found > 0)
