# C20 — run-time errors point at the construct that failed.
import os, sys
import common as C
sys.path.insert(0, os.path.join(C.VERIF, "gen"))
import locprogs

LEVEL = "proof"
META = dict(
    technique="Lean 4 theorems about a model of the parser's cursor (Position::operator++/--), tied to the real class by running both on the same texts and step sequences (verification hook: friend Access) + ground-truth differential: generated multi-file programs with one fault at a position known by construction, against the positions the real eval_error reports",
    text=("Every location an eval_error reports is a copy of the parser's cursor. Kernel-checked for every input text: n forward steps from the start leave the "
          "cursor at exactly (1 + newlines consumed, 1 + bytes since the last newline) [cursor_tracks_line_and_column, lineColGo_line]; `--` undoes the last `++` "
          "[dec_undoes_inc]; `++` at the end moves nothing [inc_at_end]; and the single remembered column is provably NOT enough for two steps back over two "
          "newlines [dec_twice_counterexample] — while the two rewinds the parser actually performs over a line end (SkipComment stepping back over the CR LF or LF that "
          "ends a // or # comment) cross one line feed only and are exact [crlf_rewind_exact, dec_undoes_inc]. The model is tied to the real Position by driving both over random texts (LF, CRLF, empty lines, long lines) with "
          "random ++/-- sequences. Deciding part: generated programs spread over 1-3 eval() chunks/files (blank lines, //, # and /* */ comments, tabs, CRLF or LF, "
          "definitions in any order) with ONE injected fault (unknown identifier, unknown function, wrong arity, wrong argument type) at a (file, line, column) "
          "known by construction, 0-4 script functions deep, call sites wrapped in declarations, arithmetic, pr(...), if-blocks or statement lists; the real "
          "engine's eval_error must name the file and the line/column where the failing identifier or call expression begins, and its call stack must list, "
          "innermost first, exactly the enclosing call sites with their own file/line/column."),
    note=("Trusted: Lean kernel; Model/Pos.lean (transcription of Position); gen/locprogs.py (ground truth by construction); harness/errloc.cpp; hook commit 1ac80a4. "
          "How build_match threads the cursor into nodes is not modelled: it is what the differential part decides. Method-call sites (x.f()) are outside the property's quantifier."),
    design_ref="DESIGN.md §6 C20")


def run(ctx):
    status, text, rc = C.lean_obligations(ctx, ["C20"])
    have_driver = (rc == 0 and os.path.exists(C.driver_path())) or C.ensure_driver(ctx, [])
    with ctx.timer("harness_build"):
        exe, log = C.harness_build("errloc")
    if exe is None or not have_driver:
        ctx.oblige("harness/driver build", False, (log or "")[-1500:])
        C.conclude(ctx, False)
        return
    rng = ctx.rng
    thorough = ctx.tier == "thorough"
    found = 0
    # ---- (1) the cursor model is the real cursor
    npos = 20000 if thorough else 1500
    pcases = []
    for _ in range(npos):
        if rng.chance(1, 3):
            n = rng.range(20, 160)                                  # long lines, few newlines
            alphabet = [10, 13] + [32, 9, 97, 98, 47, 42, 34, 35] * 6
        else:
            n = rng.range(0, 40)
            alphabet = [10, 10, 10, 13, 32, 9, 97, 98, 47, 42, 34, 35]
        t = bytes(rng.choice(alphabet) for _ in range(n))
        ops, depth = [], 0
        for _ in range(rng.range(1, 60) if n < 41 else rng.range(40, 220)):
            if depth > 0 and rng.chance(1, 3):
                ops.append("d")
                depth -= 1
            else:
                ops.append("i")
                depth += 1                      # (++ at the end moves nothing; the harness tracks the offset itself and refuses to step before the start)
        pcases.append("%s %s" % (t.hex() or "-", "".join(ops)))
    with ctx.timer("model"):
        mout = C.run_driver("pos", pcases)
    with ctx.timer("impl"):
        iout, r0 = C.run_harness_resilient(exe, [], ["pos " + c for c in pcases], timeout=600)
    # a step back from an offset the cursor did not advance to (it was at the end) is not something the parser does: cut both at the first underflow
    found += C.compare_streams(ctx, "errloc-pos", ["pos " + c for c in pcases], mout, iout,
                               canon_impl=lambda x, line: x, nontrivial=lambda impl, line: "d" in line.split()[-1] and "0a" in line.split()[1],
                               bucket=lambda line: "cursor")
    # ---- (2) located faults: ground truth by construction
    n = 20000 if thorough else 1200
    cases = [locprogs.gen(rng.fork()) for _ in range(n)]
    lines = ["eval " + " ".join("%s %s" % (nm, t.encode().hex()) for nm, t in ch) for ch, _, _, _, _ in cases]
    with ctx.timer("impl"):
        out, r1 = C.run_harness_resilient(exe, [], lines, timeout=900 if not thorough else 3000)
    ctx.cov["harness_restarts"] = r0 + r1
    nt = set()
    for (ch, top, calls, desc, why), o, line in zip(cases, out, lines):
        exp = "err why=%s top=%s:%d:%d:%s calls=%s" % (why, top[0], top[1], top[2], top[3], "|".join("%s:%d:%d" % x for x in calls))
        ctx.hist("faults", desc.split()[0])
        ctx.hist("call_depth", desc.split()[1])
        nt.add(line)
        if o != exp:
            found += 1
            if found <= 5:
                ctx.violation("input", {"mode": "errloc", "chunks": [{"file": nm, "text": t} for nm, t in ch], "fault": desc, "expected": exp, "observed": o,
                                        "how_to_replay": "echo '%s' | build/harness/errloc/<bin>" % line})
    ctx.count("evaluations", n)
    ctx.cov["distinct_nontrivial"] = ctx.cov.get("distinct_nontrivial", 0) + len(nt)
    ctx.cov["rule"] = ("%d random (text, ++/-- sequence) cursor runs compared between the Lean model and the real Position; %d generated multi-file programs with one "
                       "located fault; distinct = distinct inputs; every located-fault program is non-trivial (file, line, column and the whole call-site list are compared)" % (npos, n))
    ch, top, calls, desc, why = cases[0]
    ctx.sample({"fault": desc, "expected_top": "%s:%d:%d" % top[:3], "chunks": [{"file": nm, "text": t[:300]} for nm, t in ch]})
    ctx.sample(pcases[0])
    C.conclude(ctx, found > 0)
