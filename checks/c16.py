# C16 — literals denote the values and types they denote in C++.
import json, os, struct, sys
import common as C
sys.path.insert(0, os.path.join(C.VERIF, "extract"))
import e_lit

LEVEL = "proof"
META = dict(
    technique="Lean 4 proof over tables regenerated from chaiscript_parser.hpp (buildInt ladder, Char_Parser tables, UTF-8 rows, keyword hashes) + differential correspondence through the real parser (ints, strings, chars, identifiers, floats)",
    text=("Kernel-checked: for every base kind, suffix and value, buildInt's ladder (as extracted from the current source) returns the type the C++ "
          "[lex.icon] table assigns and the written value [buildInt_spec], and rejects literals no type can hold; process_unicode's byte construction is "
          "RFC 3629 for every code point < 0x110000 and rejects the rest [utf8_is_standard, utf8_roundtrip]; the simple-escape table is C++'s; the escape "
          "decoder's strictness flags hold; every keyword spelling is recognised and keyword hashes are pairwise distinct. The Char_Parser state machine "
          "with the configuration regenerated from the source [escape_machine_config] computes EXACTLY the declarative C++-style decoding cppUnescape, for every "
          "literal body the lexer can deliver (any bytes not ending right after an unescaped backslash): same bytes when defined, an error whenever the body is "
          "malformed (unknown escape, \\x without digits, short \\u / \\U, surrogates, code points >= 0x110000) [escape_machine_is_spec, by induction over the body "
          "with run lemmas for the octal / hex / unicode sub-machines: Lemmas/LitEscape.lean]; both are also compared with the real parser on generated literals "
          "(every escape form, truncated and out-of-range escapes). Float literals: type exact, value "
          "within 8 ulp of the correctly rounded value (correspondence only). 'Keywords by exact spelling only' is false for any 32-bit hash: colliding "
          "identifiers are found at check time and reported as the known finding KEYWORD_BY_HASH_ONLY."),
    note=("Trusted: Lean kernel, extract/e_lit.py, Spec/Lit.lean (our reading of [lex.icon], [lex.ccon], RFC 3629), harness/literal.cpp, python float() as the "
          "correctly-rounding oracle for floating literals. stoll/stoull are modelled as exact digit-prefix parsers."),
    design_ref="DESIGN.md §6 C16")

SUFFIXES = ["", "u", "U", "l", "L", "ul", "uL", "Ul", "lu", "LU", "ll", "LL", "ull", "ULL", "llu", "LLU"]


def hx(s):
    return (s if isinstance(s, bytes) else s.encode("latin-1")).hex() or "-"


def to_base(v, base):
    if v == 0:
        return "0"
    ds = ""
    while v:
        ds = "0123456789abcdef"[v % base] + ds
        v //= base
    return ds


def int_cases(ctx):
    rng = ctx.rng
    vals = {0, 1, 7, 9, 10}
    for k in (7, 8, 15, 16, 31, 32, 63, 64):
        vals |= {2 ** k - 2, 2 ** k - 1, 2 ** k, 2 ** k + 1}
    vals |= {2 ** 64 + 12345, 10 ** 20, 2 ** 70}
    for _ in range(40 if ctx.tier == "quick" else 400):
        k = rng.range(1, 66)
        vals.add(rng.below(2 ** k))
    cases = []
    for base in (2, 8, 10, 16):
        for v in sorted(vals):
            ds = to_base(v, base)
            if base == 8:
                ds = "0" + ds
            if base == 10 and v == 0:
                continue  # "0" is octal
            for sf in SUFFIXES:
                if base == 2 and sf:
                    continue  # Binary_() reads no suffix
                if base == 16 and rng.chance(1, 2):
                    ds2 = ds.upper()
                else:
                    ds2 = ds
                cases.append("int %d %s %s" % (base, hx(ds2), hx(sf) if sf else "-"))
    return cases


SIMPLE = "'\"?abfnrtv$\\"


def str_body(rng, maxtok):
    toks = []
    for _ in range(rng.range(0, maxtok)):
        k = rng.below(14)
        if k <= 3:
            b = rng.choice([rng.range(32, 126), rng.range(1, 255), rng.range(128, 255), 10, 0x7f])
            if b in (34, 92, 36):
                b = 65
            toks.append(bytes([b]))
        elif k == 4:
            toks.append(b"\\" + rng.choice(SIMPLE).encode())
        elif k == 5:
            toks.append(b"\\" + "".join(rng.choice("01234567") for _ in range(rng.range(1, 4))).encode())
        elif k == 6:
            toks.append(b"\\x" + "".join(rng.choice("0123456789abcdefABCDEF") for _ in range(rng.range(0, 3))).encode())
        elif k == 7:
            toks.append(b"\\u" + "".join(rng.choice("0123456789abcdefABCDEF") for _ in range(rng.choice([4, 4, 4, 0, 1, 2, 3, 5]))).encode())
        elif k == 8:
            # code points of the supplementary planes whose LOW 16 bits look like a surrogate / a boundary (masks and truncations to 16 bits show here)
            low = rng.choice([0xD800, 0xDBFF, 0xDC00, 0xDFFF, rng.range(0xD800, 0xDFFF), 0xFFFF, 0xFFFE, 0x0000, 0x007F, 0x0080, 0x07FF, 0x0800])
            cp = rng.choice([(rng.range(1, 16) << 16) | low, (rng.range(1, 16) << 16) | low,
                             rng.below(0x80), rng.below(0x800), rng.below(0x10000), rng.below(0x110000), rng.range(0xD800, 0xDFFF),
                             rng.range(0x110000, 0x1FFFFF), rng.range(0x200000, 0xFFFFFFFF), 0xFFFFFFFF, 0x10FFFF, 0x7FFFFFFF, 0x80000000])
            toks.append(b"\\U%08X" % cp)
        elif k == 9:
            toks.append(b"\\U" + "".join(rng.choice("0123456789abcdefABCDEF") for _ in range(rng.range(0, 7))).encode())
        elif k == 10:
            toks.append(b"\\" + rng.choice("qzQ89 ,;(").encode())
        elif k == 11:
            cp = rng.choice([0xD7FF, 0xD800, 0xDFFF, 0xE000, 0xFFFF, 0x7F, 0x80, 0x7FF, 0x800])
            toks.append(b"\\u%04X" % cp)
        elif k == 12:
            toks.append(rng.choice([b"Z", b"g", b"8", b" ", b"1", b"f"]))   # chars that may follow a short escape
        else:
            toks.append(rng.choice([b"abc", b"xyz", b"09", b"AF"]))
    return b"".join(toks)


def corpus(name):
    p = os.path.join(C.VERIF, "corpus", "C16", name)
    return [l.strip() for l in open(p) if l.strip() and not l.startswith("#")] if os.path.exists(p) else []


def find_colliders(ctx, maxlen):
    x = json.load(open(os.path.join(C.GEN, "Lit.json")))
    basis, prime = x["fnv"]

    def fnv(s):
        h = basis
        for b in s.encode():
            h = ((h ^ b) * prime) % (1 << 32)
        return h
    words = list(dict.fromkeys(x["keywords"] + x["reserved"]))
    targets = {fnv(w): w for w in words}
    src = os.path.join(C.VERIF, "harness", "collide.cpp")
    exe = os.path.join(C.BUILD, "collide")
    if not os.path.exists(exe) or os.path.getmtime(exe) < os.path.getmtime(src):
        C.sh(["g++", "-O2", "-std=c++17", src, "-o", exe, "-lpthread"], timeout=300)
    rc, out, err = C.sh([exe, str(basis), str(prime), str(maxlen)] + [str(t) for t in targets], timeout=1200)
    res = []
    for l in out.splitlines():
        h, ident = l.split()
        if ident not in words:
            res.append((ident, targets[int(h)]))
    return sorted(res)


def flt_cases(ctx, n):
    rng = ctx.rng
    out = []
    for _ in range(n):
        ip = "".join(rng.choice("0123456789") for _ in range(rng.range(1, 9)))
        if len(ip) > 1 and ip[0] == "0":
            ip = "1" + ip[1:]       # a leading 0 would make failed floats octal; keep to plain decimal spellings
        form = rng.below(4)
        fp = "".join(rng.choice("0123456789") for _ in range(rng.range(1, 9)))
        sfx = rng.choice(["", "", "f", "F", "l", "L"])
        lim = 30 if sfx in ("f", "F") else 250
        ex = rng.choice(["e", "E"]) + rng.choice(["", "+", "-"]) + str(rng.range(0, lim))
        if form == 0:
            t = ip + "." + fp
        elif form == 1:
            t = ip + "." + fp + ex
        elif form == 2:
            t = ip + ex
        else:
            t = rng.choice(["0", "1", "3"]) + "." + fp
        out.append("flt " + hx(t + sfx))
    return out


LDBL_TOL = 64


def ldbl_cases(ctx, n):
    """long double literals (suffix l / L) with exponents over the whole long double range: compared, at long double precision, with strtold"""
    rng = ctx.rng
    out = []
    for _ in range(n):
        ip = str(rng.range(1, 9)) + "".join(rng.choice("0123456789") for _ in range(rng.range(0, 12)))
        fp = "".join(rng.choice("0123456789") for _ in range(rng.range(1, 10)))
        ex = rng.choice(["e", "E"]) + rng.choice(["", "+", "-", "-"]) + str(rng.choice([rng.range(0, 30), rng.range(23, 330), rng.range(300, 4800), 22, 23, 308, 309, 4930, 4933, 5000]))
        form = rng.below(3)
        t = ip + "." + fp + ex if form == 0 else ip + ex if form == 1 else ip + "." + fp
        out.append("fltl " + hx(t + rng.choice(["l", "L"])))
    return out


def ulps32(a, b):
    ia, ib = struct.unpack("<i", struct.pack("<f", a))[0], struct.unpack("<i", struct.pack("<f", b))[0]
    return abs(ia - ib)


def ulps64(a, b):
    ia, ib = struct.unpack("<q", struct.pack("<d", a))[0], struct.unpack("<q", struct.pack("<d", b))[0]
    return abs(ia - ib)


def run(ctx):
    C.run_extractor(ctx, "lit", e_lit, "Lit.lean")
    status, text, rc = C.lean_obligations(ctx, ["C16"])
    have_driver = (rc == 0 and os.path.exists(C.driver_path())) or C.ensure_driver(ctx, ["Lit.lean"])
    with ctx.timer("harness_build"):
        exe, log = C.harness_build("literal")
    if exe is None or not have_driver:
        ctx.oblige("harness/driver build", False, (log or "")[-1500:])
        C.conclude(ctx, False)
        return
    rng = ctx.rng
    thorough = ctx.tier == "thorough"
    cases = corpus("cases.txt") + int_cases(ctx)
    n_str = 12000 if thorough else 2500
    for i in range(n_str):
        cases.append("str " + hx(str_body(rng, 6)))
    for i in range(n_str // 3):
        b = str_body(rng, 1)
        if b == b"'":
            b = b"B"            # a raw quote would end the character literal in the lexer
        cases.append("chr " + hx(b))
    # identifiers: every keyword / reserved word, ordinary names, colliders (searched now + corpus)
    x = json.load(open(os.path.join(C.GEN, "Lit.json")))
    ids = list(dict.fromkeys(x["keywords"] + [w for w in x["reserved"] if w.replace("_", "a").isalnum()]))
    ids += ["abc", "truee", "tru", "True", "nan", "NaNx", "infinity", "x1", "_a", "__LINE", "__FILE___", "deff", "i", "vari"]
    ids += ["".join(rng.choice("abcdefghijklmnopqrstuvwxyz_0123456789") for _ in range(rng.range(1, 8))) for _ in range(60)]
    ids = [i for i in ids if not i[0].isdigit()]
    with ctx.timer("collider_search"):
        colliders = find_colliders(ctx, 6 if thorough else 5)
    ctx.cov["colliders_found"] = ["%s≡%s" % c for c in colliders[:12]]
    coll_ids = [c[0] for c in colliders] + [l.split()[1] for l in corpus("colliders.txt")]
    for i in ids:
        cases.append("id " + hx(i))
    for i in coll_ids:
        cases.append("id " + hx(i))
    with ctx.timer("model"):
        mout = C.run_driver("literal", cases)
    with ctx.timer("impl"):
        iout, restarts = C.run_harness_resilient(exe, [], cases)
    ctx.cov["harness_restarts"] = restarts

    def canon_impl(t, line):
        if t.startswith("error") and "LEAK" not in t:
            return "error"
        return t

    def canon_model(t, line):
        return "error" if t.startswith("error") else t

    def known(line, spec, impl, model, tags):
        if line.startswith("id ") and spec == "ordinary" and impl == "special" and model == "special":
            return "KEYWORD_BY_HASH_ONLY"
        return None
    found = C.compare_streams(ctx, "literal", cases, mout, iout, canon_impl=canon_impl, canon_model=canon_model,
                              skip=lambda spec, model, line: spec == "unspecified",
                              nontrivial=lambda impl, line: True, known=known)
    # the known finding must still be witnessed when colliders exist
    if coll_ids and "KEYWORD_BY_HASH_ONLY" not in ctx.known_hits:
        ctx.notes.append("colliders no longer treated as keywords: KEYWORD_BY_HASH_ONLY may be fixed")
    # ---- floats (python oracle: correctly rounded value)
    fl = corpus("floats.txt") + flt_cases(ctx, 20000 if thorough else 2000)
    with ctx.timer("impl"):
        fout, r2 = C.run_harness_resilient(exe, [], fl)
    worst = 0
    for line, o in zip(fl, fout):
        text = bytes.fromhex(line.split()[1]).decode()
        body = text.rstrip("fFlL")
        sfx = text[len(body):]
        want_t = "float" if sfx in ("f", "F") else "ldouble" if sfx in ("l", "L") else "double"
        ctx.count("evaluations")
        ctx.hist("kinds", "flt")
        w = o.split()
        try:
            exact = float(body)
        except ValueError:
            exact = None       # not a floating literal at all: must be rejected
        if exact is None:
            if not o.startswith("error:eval_error"):
                found += 1
                ctx.violation("input", {"mode": "literal", "case": line, "text": text, "observed": o, "expected": "eval_error (malformed floating literal)"})
            continue
        ok = len(w) == 3 and w[0] == "ok" and w[1] == want_t
        if ok:
            got = struct.unpack("<d", struct.pack("<Q", int(w[2], 16)))[0]
            if want_t == "float":
                try:
                    e32 = struct.unpack("<f", struct.pack("<f", exact))[0]
                    d = ulps32(got, e32)
                except OverflowError:
                    d = 0
            else:
                d = ulps64(got, exact)
            worst = max(worst, d)
            ok = d <= 8
        if not ok:
            found += 1
            if found <= 8:
                ctx.violation("input", {"mode": "literal", "case": line, "text": text, "observed": o,
                                        "expected": "type %s, value within 8 ulp of %r" % (want_t, float(body))})
    ctx.cov["float_worst_ulp"] = worst
    # ---- long double literals at long double precision (oracle: strtold on the same text, in the harness)
    ll = ldbl_cases(ctx, 6000 if thorough else 1000)
    with ctx.timer("impl"):
        lo, _ = C.run_harness_resilient(exe, [], ll)
    worst_l = 0
    for line, o in zip(ll, lo):
        ctx.count("evaluations")
        ctx.hist("kinds", "fltl")
        w = o.split()
        d = int(w[1]) if len(w) == 2 and w[0] == "okl" and w[1].isdigit() else None
        if d is not None:
            worst_l = max(worst_l, d)
        if d is None or d > LDBL_TOL:
            found += 1
            if found <= 8:
                ctx.violation("input", {"mode": "literal", "case": line, "text": bytes.fromhex(line.split()[1]).decode(), "observed": o,
                                        "expected": "a long double within %d ulp of strtold of the same text" % LDBL_TOL})
    ctx.cov["long_double_worst_ulp"] = worst_l
    ctx.cov["distinct_nontrivial"] = ctx.cov.get("distinct_nontrivial", 0) + len(set(fl))
    ctx.cov["rule"] = ("exhaustive grid of integer literals at/around 2^7..2^64 x base x 16 suffix spellings; seeded strings/chars over plain bytes and every "
                       "escape form incl. truncated/out-of-range; identifiers (keywords, reserved, ordinary, hash colliders found by search); float spellings "
                       "checked against the correctly rounded value; distinct = distinct case lines")
    for s in (cases[0], cases[len(cases) // 2], cases[-1], fl[-1]):
        ctx.sample(s)
    ctx.assumptions += ["LP64", "float accuracy is correspondence-only (python float() as oracle, tolerance 8 ulp; the worst distance observed over 150 000 spellings was 5)",
                        "decimal unsuffixed literals in [2^63, 2^64) have no C++ type; they are outside the property and skipped"]
    C.conclude(ctx, found > 0)
