# C08 — evaluating code does not change the code: re-evaluation is deterministic.
import os, re, sys
import common as C
sys.path.insert(0, os.path.join(C.VERIF, "gen"))
import progs, litprogs

LEVEL = "proof"
META = dict(
    technique="Lean 4 invariant proof by induction on fuel over the evaluator model (no evaluation ever writes to a literal's object or makes a mutable / temporary handle to it) + repeated-evaluation differential on the real engine (same function called k>=3 times, same parsed tree evaluated three times) over generated literal-mutation programs",
    text=("Kernel-checked [literals_preserved]: in the evaluator model, for every program fragment, environment, fault schedule, fuel and outcome, the objects of "
          "the program's literals are never written and every handle to them stays const and non-temporary (so no later statement can write them either) — "
          "clone-on-declare, clone of inline-vector elements, reference binding, `:=`, parameter passing, captures and the counting loop included; hence "
          "every evaluation of a piece of code starts from the same literals [literal_values_fixed]. Deciding part on the real code: (1) generated raw "
          "programs whose functions build locals from literals of every kind (ints, folded expressions, conversion calls, doubles, bools, strings with "
          "interpolation, chars, inline vectors/maps/ranges, nested) and attack them through every route (var/auto/reference declaration, =, :=, parameter, "
          "returned value, capture, container element, ranged-for variable, direct mutation, loop re-entry) with every mutator, returning a digest of all "
          "they saw; equal calls interleaved with other calls must return equal digests, and the same parsed tree evaluated three times through "
          "eval(AST_Node) must report the same result, output and callback log, with and without the optimizer; (2) generated core-language programs "
          "(the model's syntax) whose functions are each called twice more with equal arguments: equal results and equal output segments on the engine, and "
          "the engine agrees with the Lean evaluator, which also reports that its literal cells are unchanged."),
    note=("Trusted: Lean kernel; Model/Chai (hand model); gen/litprogs.py, gen/progs.py; harness/evalprog.cpp. Strings, maps and ranges are opaque or absent in the "
          "model: their literals are covered by the differential part only."),
    design_ref="DESIGN.md §6 C08")

MARK = -99990


def strip_tags(x):
    # field by field (fields are tab separated): the last word of a field may be followed by a tab, not a space
    return "\t".join(" ".join(p for p in part.split(" ") if not p.startswith("tags=") and not p.startswith("lits=")) for part in x.split("\t"))


def big_ints(x):
    return any(abs(int(v)) >= 2 ** 30 for v in re.findall(r"i(-?\d+)", x))


def segments(outline):
    """out=... split on the marker values -> list of segments"""
    m = re.search(r" out=(\S*) nat=", outline)
    if not m:
        return None
    segs, cur = [], []
    for t in m.group(1).split(","):
        if t.startswith("i-9999") and len(t) == 7:
            segs.append((t, cur))
            cur = []
        else:
            cur.append(t)
    return segs


def add_repeats(rng, g, sx):
    """append, for some of the program's functions, the same call three times between markers (each guarded)"""
    if not g.funs:
        return sx, 0
    extra = []
    n = 0
    for f, ar in list(g.funs.items())[:3]:
        args = " ".join("(int %d)" % rng.range(-2, 4) for _ in range(ar))
        other = "(print (bin + (int 1) (int %d)))" % rng.range(0, 5)
        for k in range(3):
            extra.append("(try (block (print (call (fid %s) %s))) (catch x%d (block (print (int -7)))))" % (f, args, 900 + n))
            extra.append("(print (int %d))" % (MARK - 1 - (n % 9)))
            n += 1
            if k == 0:
                extra.append(other)
                extra.append("(print (int %d))" % (MARK - 1 - (n % 9)))
                n += 1
    return sx[:-1] + " (print (int %d)) " % (MARK - 9) + " ".join(extra) + ")", n


def run(ctx):
    status, text, rc = C.lean_obligations(ctx, ["C08"])
    have_driver = (rc == 0 and os.path.exists(C.driver_path())) or C.ensure_driver(ctx, [])
    with ctx.timer("harness_build"):
        exe, log = C.harness_build("evalprog")
    if exe is None or not have_driver:
        ctx.oblige("harness/driver build", False, (log or "")[-1500:])
        C.conclude(ctx, False)
        return
    rng = ctx.rng
    thorough = ctx.tier == "thorough"
    found = 0
    # ---- (1) raw literal-mutation programs: engine only
    nraw = 6000 if thorough else 400
    p = os.path.join(C.VERIF, "corpus", "C08", "raw.txt")
    raw = [l.rstrip("\n") for l in open(p) if l.strip() and not l.startswith("#")] if os.path.exists(p) else []
    hist = {}
    for _ in range(nraw):
        g = litprogs.LitGen(rng.fork())
        raw.append(g.program())
        for k, v in g.hist.items():
            hist[k] = hist.get(k, 0) + v
    ctx.cov["literal_kinds_and_routes"] = hist
    res = {}
    with ctx.timer("impl"):
        for mode in ("opt3", "noopt3"):
            res[mode], _ = C.run_harness_resilient(exe, [], ["1000000 std 1 %s %s" % (mode, t.encode().hex()) for t in raw], timeout=900 if not thorough else 3000, mem_gb=6)
    nt = 0
    for i, t in enumerate(raw):
        for mode in ("opt3", "noopt3"):
            o = res[mode][i]
            ctx.count("evaluations", 1)
            m = re.search(r" out=(.*) nat=", o)
            flags = m.group(1).split(",") if m else []
            bad = None
            if not o.startswith("res=val"):
                bad = "the program did not run to completion"
            elif "b0" in flags:
                bad = "two calls of the same function with equal arguments returned different digests"
            elif "reeval=same" not in o:
                bad = "evaluating the same parsed tree again gave a different report"
            if bad:
                found += 1
                if found <= 4:
                    ctx.violation("input", {"mode": "evalprog " + mode, "program": t, "observed": o[:1500], "expected": bad,
                                            "how_to_replay": "printf '1000000 std 1 %s %s\\n' | build/harness/evalprog/<bin>" % (mode, t.encode().hex())})
        nt += 1
    ctx.cov["distinct_nontrivial"] = ctx.cov.get("distinct_nontrivial", 0) + nt
    # ---- (2) core-language programs: engine and model, repeated calls and repeated tree evaluation
    nprog = 4000 if thorough else 300
    sx, nrep = [], 0
    for _ in range(nprog):
        g = progs.Gen(rng.fork(), feat=dict(strs=True, vecs=False, errors=False, refassign=True, optbias=rng.chance(1, 2)))
        s, n = add_repeats(rng, g, g.program(rng.range(2, 5)))
        sx.append(s)
        nrep += n
    with ctx.timer("model"):
        src = C.run_driver("chai-print", sx)
        mout = C.run_driver("chai", ["run 1000000 std 1 " + s for s in sx], timeout=1800)
    with ctx.timer("impl"):
        iout, r1 = C.run_harness_resilient(exe, [], ["1000000 std 1 opt3 %s" % t.encode().hex() for t in src], timeout=900 if not thorough else 3000, mem_gb=6)
    labels = ["opt3 :: %s" % t[:900] for t in src]
    lits_changed = sum(1 for m in mout if "lits=CHANGED" in m)
    ctx.oblige("model run: literal cells unchanged (execution of literals_preserved)", lits_changed == 0, "%d runs changed a literal" % lits_changed)
    lines = []
    for m in mout:
        d = C.split_model_line(m)
        mm = strip_tags(d.get("model", m)) + " reeval=same"
        lines.append("model=%s\tspec=%s" % (mm, mm))
    # spec here = the deterministic model; the engine must agree (including reeval=same)
    found += C.compare_streams(ctx, "evalprog", labels, lines, iout, skip=lambda spec, model, line: big_ints(spec),
                               nontrivial=lambda impl, line: "def " in line, bucket=lambda line: "core")
    # repeated calls: the three guarded calls of a function must print the same segment
    for lab, o in zip(labels, iout):
        segs = segments(o)
        if not segs:
            continue
        tail = False
        group = []
        for mark, seg in segs:
            if mark == "i%d" % (MARK - 9):
                tail = True
                continue
            if not tail:
                continue
            group.append(seg)
        # pattern per function: call, other, call, call  -> segments 0, 2, 3 of each group of 4
        for k in range(0, len(group) - 3, 4):
            a, b, c = group[k], group[k + 2], group[k + 3]
            if not (a == b == c):
                found += 1
                if found <= 4:
                    ctx.violation("input", {"mode": "evalprog opt3", "case": lab, "observed": o[:1500],
                                            "expected": "three calls of one function with equal arguments print the same: %s / %s / %s" % (a, b, c)})
    ctx.cov["repeated_call_groups"] = nrep // 4
    ctx.cov["rule"] = ("%d generated raw literal-mutation programs (each evaluated 3x with and 3x without the optimizer, each calling its functions >=3 times with "
                       "equal arguments, interleaved) + %d core-language programs with three guarded repeated calls per function, evaluated 3x from the same parsed "
                       "tree and compared with the Lean evaluator; non-trivial = the program defines a function; distinct = distinct (program, configuration)" % (nraw, nprog))
    ctx.sample(raw[-1][:600])
    ctx.sample(labels[0][:400] if labels else "")
    C.conclude(ctx, found > 0)
