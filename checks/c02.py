# C02 — the AST optimizer never changes what a program does.
import glob, os, re, sys
import common as C
sys.path.insert(0, os.path.join(C.VERIF, "gen"))
import progs, numprogs

LEVEL = "proof"
META = dict(
    technique="Lean 4: a whole-program soundness theorem, by induction over the evaluator, for the three passes that preserve outcome AND state exactly (Partial_Fold, If, Dead_Code on constants: applied everywhere in the tree and in every function body) and for Unused_Return (outcome and state up to the write-only saved call parameters), resting on a fuel-independence theorem for the evaluator model; theorems about each rewrite of the other passes of a Lean model of the optimizer pipeline (tied to chaiscript_optimizer.hpp by comparing the trees the real parser builds, optimized and unoptimized, with the model's on every run) + differential execution of the real engine with Optimizer_Default vs an identity optimizer",
    text=("The optimizer's nine passes are modelled in Lean (Model/Chai/Opt.lean) over the evaluator model's syntax; on every run the real parser is run "
          "with Optimizer_Default and with an identity optimizer on generated, optimizer-biased programs and both trees must equal the model's "
          "(`optimizeProgram` / the unoptimized build), node for node. Kernel-checked, for every state, environment and fuel: If selects exactly the "
          "branch evaluation would take [if_pass_sound]; a non-final constant statement can be skipped without any change [dead_constant_skipped, "
          "keepers_last, keepers_sublist, keepers_keeps_live, id_is_not_dead]; `a op <int literal>` evaluates exactly like its Fold_Right form whatever "
          "`a` does [partial_fold_sound]; Constant_Fold precomputes exactly the value (and constness) evaluation yields and never folds an operation "
          "that raises [fold_bin_sound, fold_bin_keeps_errors, fold_neg/not/and/or_sound]; Block, For_Loop, Assign_Decl, Unused_Return fire only under "
          "their side conditions [block_pass_needs_no_decl, for_loop_fires_only, assign_decl_fires_only, reference_decl_untouched, mark_unused_shape]; "
          "Return rewrites nothing [return_pass_inert]. WHOLE PROGRAMS: the result of an evaluation does not depend on the fuel given to the model "
          "[result_independent_of_fuel: sixth induction over the evaluator]; Partial_Fold, If and Dead_Code (constants) applied bottom-up to every node and every "
          "function body and guard leave outcome and the entire state of every evaluation unchanged, from every state with intact literals, for every program "
          "[exact_passes_preserve_evaluation, optimized_program_same_result: seventh induction; ifPassX_is_ifPass, keepersC_is_keepers tie the three passes to the "
          "pipeline's]. Unused_Return on whole programs: setting the flag on EVERY call of the tree and of every function body — and even replacing the saved call "
          "parameters of the start state — leaves the outcome of every evaluation unchanged and the state unchanged except for the contents of call_params, which "
          "nothing reads [unused_return_unobservable, flag_assignments_equivalent, unused_return_pass_only_flags: eighth induction, Lemmas/ChaiRunWp.lean]; combined: "
          "[exact_passes_and_unused_return]. The whole-program equivalence of Block/For_Loop/Assign_Decl/Constant_Fold/Dead_Code-on-noops (which change "
          "temporaries, scope depth of cached lookups and allocation order: a relation between different heaps would be needed) is NOT proved: it is decided by running the real engine both ways. Deciding part on the real code: every generated program (with a C++ exception injected at a "
          "random callback for half of them) and every script of the repository's unit-test corpus must give the same result, output, callback log, "
          "stack shape and surviving names with the default optimizer and with optimization disabled; the Lean evaluator run on the optimized and on "
          "the unoptimized tree must agree with the engine in both configurations."),
    note=("Trusted: Lean kernel; Model/Chai (hand-written evaluator and optimizer model; tied by tree and behaviour correspondence); gen/progs.py; "
          "harness/evalprog.cpp, harness/optree.cpp, harness/unitscript.cpp; hook commits (friend Access). AST reflection scripts are excluded as the property says."),
    design_ref="DESIGN.md §6 C02")

KINDS = ["runtime", "range", "std", "nonstd", "eval", "boxed"]
CONV_CALL = re.compile(r"\b(int|double|float|long|size_t)\s*\(\s*-?[0-9.]")
REF_TO_NOT = re.compile(r"&\s*\w+\s*=\s*!\s*(true|false)\b")
REFLECTION = re.compile(r"\b(parse|get_parse_tree|call_exists)\b|\.children|\.text\b|AST_Node")


def user_operator_programs(rng, n):
    """operators overloaded by the script on operand types the built-ins do not cover (number x string, number x bool, string x number, ...),
    applied to every mix of variable / literal operands: the folding passes look at operand KINDS (constant or not, arithmetic or not) and must
    not change which overload runs.  Outside the Lean model (no user operators there): decided by optimizer on vs off."""
    out = []
    lits = {"int": ["3", "0", "(-2)"], "string": ['"ab"', '""'], "bool": ["true", "false"], "double": ["1.5"]}
    for k in range(n):
        op = rng.choice(["+", "-", "*", "/", "%", "<", "<=", ">", "==", "!=", "<<", "&", "|", "^"])
        ta, tb = rng.choice([("int", "string"), ("int", "bool"), ("string", "int"), ("bool", "int"), ("double", "string"), ("int", "int"), ("string", "string"), ("bool", "bool")])
        if (ta, tb) in (("int", "int"), ("string", "string"), ("bool", "bool")) and op in ("+", "==", "!=", "<", "<=", ">"):
            ta, tb = "int", "string"                       # leave the built-in overloads alone
        body = rng.choice(['"u:" + to_string(a) + ":" + to_string(b)', "%d" % rng.range(100, 999), "[a, b]"])
        prog = "def `%s`(%s a, %s b) { %s }; var va = %s; var vb = %s; " % (op, ta, tb, body, rng.choice(lits[ta]), rng.choice(lits[tb]))
        forms = []
        for la in ("va", rng.choice(lits[ta])):
            for lb in ("vb", rng.choice(lits[tb])):
                forms.append("pr(%s %s %s)" % (la, op, lb))
        forms.append("pr((va %s %s) == (va %s vb))" % (op, rng.choice(lits[tb]), op) if body.startswith('"') or body[0].isdigit() else "pr(1)")
        prog += "; ".join(rng.shuffle(forms)[:rng.range(2, 5)])
        out.append(prog)
    return out


def big_ints(x):
    """the model computes in unbounded integers: runs that leave the int range are outside what it speaks about (C05 covers arithmetic)"""
    return any(abs(int(v)) >= 2 ** 30 for v in re.findall(r"i(-?\d+)", x))


def strip_tags(x):
    # field by field (fields are tab separated): the last word of a field may be followed by a tab, not a space
    return "\t".join(" ".join(p for p in part.split(" ") if not p.startswith("tags=")) for part in x.split("\t"))


def first_diff(a, b):
    n = min(len(a), len(b))
    i = next((k for k in range(n) if a[k] != b[k]), n)
    return "model …%s… / impl …%s…" % (a[max(0, i - 60):i + 80], b[max(0, i - 60):i + 80])


def run(ctx):
    status, text, rc = C.lean_obligations(ctx, ["C02"])
    have_driver = (rc == 0 and os.path.exists(C.driver_path())) or C.ensure_driver(ctx, [])
    with ctx.timer("harness_build"):
        exe, log = C.harness_build("evalprog")
        texe, tlog = C.harness_build("optree")
        uexe, ulog = C.harness_build("unitscript")
    if exe is None or texe is None or uexe is None or not have_driver:
        ctx.oblige("harness/driver build", False, ((log or "") + (tlog or "") + (ulog or ""))[-1500:])
        C.conclude(ctx, False)
        return
    rng = ctx.rng
    thorough = ctx.tier == "thorough"
    nprog = 12000 if thorough else 500
    p = os.path.join(C.VERIF, "corpus", "C02", "progs.txt")
    sx = [l.strip() for l in open(p) if l.strip() and not l.startswith("#")] if os.path.exists(p) else []
    ncorpus = len(sx)
    hist = {}
    for _ in range(nprog):
        g = progs.Gen(rng.fork(), feat=dict(optbias=True, strs=True, refassign=True))
        sx.append(g.program(rng.range(2, 5)))
        for k, v in g.hist.items():
            hist[k] = hist.get(k, 0) + v
    ctx.cov["constructs"] = hist
    faults = [(1000000, "std")] * ncorpus + [((rng.below(6), rng.choice(KINDS)) if rng.chance(1, 2) else (1000000, "std")) for _ in range(nprog)]
    with ctx.timer("model"):
        src = C.run_driver("chai-print", sx)
        mtree = C.run_driver("chai-tree", sx)
        mopt = C.run_driver("chai", ["run %d %s 1 %s" % (k, kind, s) for (k, kind), s in zip(faults, sx)], timeout=1800)
        mno = C.run_driver("chai", ["run %d %s 1n %s" % (k, kind, s) for (k, kind), s in zip(faults, sx)], timeout=1800)
    # ---- (1) structure: the model's optimizer is the code's optimizer
    with ctx.timer("trees"):
        itree, _ = C.run_harness_resilient(texe, [], [t.encode().hex() for t in src], timeout=600)
    # the model prints eval("...") without its text and without the unused-result flag
    itree = [re.sub(r"\(ucall \(id eval\)", "(call (id eval)", re.sub(r"\(str \?[0-9a-f]*\)", "(str ?)", o)) for o in itree]
    tdiff_opt = tdiff_no = 0
    changed = 0
    suspects = set()
    for idx, (a, b) in enumerate(zip(mtree, itree)):
        ma, ia = dict(x.split("=", 1) for x in a.split("\t") if "=" in x), dict(x.split("=", 1) for x in b.split("\t") if "=" in x)
        if ma.get("opt") != ia.get("opt"):
            tdiff_opt += 1
            suspects.add(idx)
            if tdiff_opt <= 2:
                ctx.notes.append("optimized tree differs for: %s :: %s" % (src[idx][:300], first_diff(ma.get("opt", ""), ia.get("opt", ""))))
        if ma.get("noopt") != ia.get("noopt"):
            tdiff_no += 1
            if tdiff_no <= 2:
                ctx.notes.append("unoptimized tree differs for: %s :: %s" % (src[idx][:300], first_diff(ma.get("noopt", ""), ia.get("noopt", ""))))
        if ia.get("opt") != ia.get("noopt"):
            changed += 1
    ctx.cov["programs_the_optimizer_rewrote"] = changed
    ctx.oblige("structure: model optimizeProgram ≡ real Optimizer_Default (trees)", tdiff_opt == 0 and len(itree) == len(sx),
               "" if tdiff_opt == 0 else "%d of %d optimized trees differ" % (tdiff_opt, len(sx)))
    ctx.oblige("structure: model builder ≡ real parser without optimizer (trees)", tdiff_no == 0,
               "" if tdiff_no == 0 else "%d of %d unoptimized trees differ" % (tdiff_no, len(sx)))
    # ---- (2) behaviour: real engine, optimizer on vs off; model on both
    cases_o = ["%d %s 1 opt %s" % (k, kind, t.encode().hex()) for (k, kind), t in zip(faults, src)]
    cases_n = ["%d %s 1 noopt %s" % (k, kind, t.encode().hex()) for (k, kind), t in zip(faults, src)]
    with ctx.timer("impl"):
        io, r1 = C.run_harness_resilient(exe, [], cases_o, timeout=600 if not thorough else 3000, mem_gb=6)
        ino, r2 = C.run_harness_resilient(exe, [], cases_n, timeout=600 if not thorough else 3000, mem_gb=6)
    ctx.cov["harness_restarts"] = r1 + r2
    labels = ["fault@%d/%s :: %s" % (k, kind, t[:700]) for (k, kind), t in zip(faults, src)]
    lines = ["model=%s\tspec=%s" % (strip_tags(C.split_model_line(m).get("model", m)), n) for m, n in zip(mopt, ino)]
    found = C.compare_streams(ctx, "evalprog", labels, lines, io, canon_model=lambda x, line: x,
                              skip=lambda spec, model, line: big_ints(spec) or big_ints(model),
                              nontrivial=lambda impl, line: True, bucket=lambda line: "generated")
    # runs that leave the model's integer range are still compared engine against engine
    for lab, m, a, b in zip(labels, mopt, io, ino):
        if (big_ints(m) or big_ints(b)) and a != b:
            found += 1
            if found <= 5:
                ctx.violation("input", {"mode": "evalprog", "case": lab, "optimized": a, "unoptimized": b})
    nd = 0
    for lab, m, n in zip(labels, mno, ino):
        if strip_tags(C.split_model_line(m).get("model", m)) != n and not (big_ints(m) or big_ints(n)):
            nd += 1
            if nd <= 2:
                ctx.notes.append("unoptimized: model %s / impl %s :: %s" % (C.split_model_line(m).get("model", m)[:200], n[:200], lab[:300]))
    ctx.oblige("correspondence model≡impl (evalprog, optimizer off)", nd == 0, "" if nd == 0 else "%d programs differ" % nd)
    # a structural disagreement narrows the search: replay the suspects under every fault point
    if suspects and not found:
        extra = []
        for idx in sorted(suspects)[:200]:
            for k in range(4):
                for kind in ("std", "boxed"):
                    extra.append((idx, k, kind))
        eo, _ = C.run_harness_resilient(exe, [], ["%d %s 1 opt %s" % (k, kind, src[i].encode().hex()) for i, k, kind in extra], timeout=600, mem_gb=6)
        en, _ = C.run_harness_resilient(exe, [], ["%d %s 1 noopt %s" % (k, kind, src[i].encode().hex()) for i, k, kind in extra], timeout=600, mem_gb=6)
        for (i, k, kind), a, b in zip(extra, eo, en):
            if a != b:
                found += 1
                if found <= 3:
                    ctx.violation("input", {"mode": "evalprog", "program": src[i], "fault": {"callback_invocation": k, "kind": kind},
                                            "optimized": a, "unoptimized": b})
    # ---- (3) raw programs and the repository's unit-test scripts: engine vs engine
    raw = []
    p = os.path.join(C.VERIF, "corpus", "C02", "raw.txt")
    if os.path.exists(p):
        raw = [l.rstrip("\n") for l in open(p) if l.strip() and not l.startswith("#")]
    raw += user_operator_programs(rng, 300 if thorough else 60)
    if raw:
        ro, _ = C.run_harness_resilient(exe, [], ["1000000 std 1 opt %s" % t.encode().hex() for t in raw], timeout=300, mem_gb=6)
        rn, _ = C.run_harness_resilient(exe, [], ["1000000 std 1 noopt %s" % t.encode().hex() for t in raw], timeout=300, mem_gb=6)
        for t, a, b in zip(raw, ro, rn):
            ctx.count("evaluations", 1)
            if a != b:
                if CONV_CALL.search(t) and ctx.known_finding("CONVERSION_CALL_FOLDED", t):
                    continue
                if REF_TO_NOT.search(t) and ctx.known_finding("FOLDED_NOT_IS_CONST", t):
                    continue
                found += 1
                ctx.violation("input", {"mode": "evalprog", "program": t, "optimized": a, "unoptimized": b})
    # numeric-literal programs (every spelling of a number as loop start / bound, operand of a folded operation, conversion argument)
    nnum = 8000 if thorough else 800
    nums = [numprogs.gen_program(rng.fork()) for _ in range(nnum)]
    with ctx.timer("impl"):
        no, _ = C.run_harness_resilient(exe, [], ["1000000 std 1 opt %s" % t.encode().hex() for t in nums], timeout=900, mem_gb=6, stall=30)
        nn, _ = C.run_harness_resilient(exe, [], ["1000000 std 1 noopt %s" % t.encode().hex() for t in nums], timeout=900, mem_gb=6, stall=30)
    for t, a, b in zip(nums, no, nn):
        if a != b:
            if CONV_CALL.search(t) and ctx.known_finding("CONVERSION_CALL_FOLDED", t):
                continue
            found += 1
            if found <= 6:
                ctx.violation("input", {"mode": "evalprog", "program": t, "optimized": a, "unoptimized": b})
    ctx.count("evaluations", nnum)
    ctx.cov["numeric_literal_programs"] = nnum
    ctx.cov["distinct_nontrivial"] = ctx.cov.get("distinct_nontrivial", 0) + len(set(nums))
    files = sorted(glob.glob(os.path.join(C.REPO, "unittests", "*.chai")))
    with ctx.timer("unit_corpus"):
        uo, _ = C.run_harness_resilient(uexe, [], ["1 opt %s" % f.encode().hex() for f in files], timeout=900)
        un, _ = C.run_harness_resilient(uexe, [], ["1 noopt %s" % f.encode().hex() for f in files], timeout=900)
    nscripts = 0
    for f, a, b in zip(files, uo, un):
        body = open(f, errors="replace").read()
        if REFLECTION.search(body):
            ctx.count("skipped_outside_property", 1)
            continue
        nscripts += 1
        if a != b:
            if CONV_CALL.search(body) and ctx.known_finding("CONVERSION_CALL_FOLDED", f):
                continue
            found += 1
            ctx.violation("input", {"mode": "unitscript", "script": f, "optimized": a, "unoptimized": b,
                                    "how_to_replay": "printf '1 opt %s\\n1 noopt %s\\n' | build/harness/unitscript/<bin>" % (f.encode().hex(), f.encode().hex())})
    ctx.count("evaluations", nscripts)
    ctx.cov["unit_scripts_compared"] = nscripts
    ctx.cov["distinct_nontrivial"] = ctx.cov.get("distinct_nontrivial", 0) + nscripts
    ctx.cov["rule"] = ("%d generated optimizer-biased programs (constant conditions, foldable expressions, dead constants, declaration-free blocks, counting "
                       "loops whose variable is captured or advanced, unused call results), half with a C++ exception injected at a random callback, plus raw "
                       "corpus programs and %d unit-test scripts of the repository; each is run with Optimizer_Default and with the identity optimizer; distinct = "
                       "distinct (program, fault); every run is non-trivial (both engines are compared on result, output, callback log, stack shape, names)" % (nprog, nscripts))
    ctx.sample(labels[ncorpus][:500] if len(labels) > ncorpus else labels[0][:500])
    ctx.sample({"optimized_tree": itree[ncorpus][:400] if len(itree) > ncorpus else ""})
    C.conclude(ctx, found > 0)
