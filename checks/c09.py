# C09 — every evaluation leaves the engine's scope/call stack as it found it.
import os, re, sys
import common as C
sys.path.insert(0, os.path.join(C.VERIF, "gen"))
import progs

LEVEL = "proof"
META = dict(
    technique="Lean 4 proof by induction on fuel over the evaluator model (every node kind, every outcome, every fault schedule) + fault enumeration on the real engine with the Stack_Holder read through the verification hook",
    text=("Kernel-checked [eval_restores_shape]: in the evaluator model — one fuel-recursive function over every modelled node kind (blocks, if, while, for, "
          "break/continue/return, defs, lambdas with captures, calls, try/catch/finally, throw, native callbacks, vectors) with scopes/stacks/calls going "
          "through the three RAII combinators — for every program fragment, state, fault schedule, amount of fuel and hence every outcome (value, escaping "
          "break/continue/return, script throw, eval_error, any C++ exception from any callback invocation, or stopping mid-way), the number of stacks, the "
          "scopes per stack, the length of call_params and the call depth are restored. Also kernel-checked, by a second induction over the whole evaluator "
          "[run_frame]: an evaluation only ever appends names to the innermost scope of the current stack — every other scope and every earlier name is exactly "
          "as before [eval_only_extends_innermost_scope, earlier_declarations_survive] — so nothing declared inside a block, a loop or a function call survives "
          "it, however it is left [block_leaves_nothing, loops_leave_nothing, call_leaves_nothing]. The model is tied to the code by correspondence: generated programs "
          "are printed by the model's own printer and run on the real engine, once without faults and once per (callback invocation x exception kind: "
          "runtime_error, out_of_range, logic_error, a non-std type, eval_error, Boxed_Value); result, output, callback log, the Stack_Holder's shape read "
          "through the hook, and the surviving top-level names must equal the model's; independently of the model the shape must be the resting shape, no "
          "saved parameters may remain, inner declarations must be gone and the engine must still evaluate. A third induction [run_pframe] shows that an evaluation changes at most the last entry of call_params and, started outside any call, leaves it "
          "as it was or empty: from a state at rest nothing stays saved [saved_parameters_frame, saved_parameters_released_at_rest]. The RAII discipline the model "
          "assumes is read off the source on every run (extract/e_raii.py -> Gen/Raii.lean): every call of a Stack_Holder push / pop primitive sits in the constructor / "
          "destructor of a guard struct [raii_primitives_only_in_guards], and for every AST node class the model covers the guard objects it constructs are exactly the "
          "combinators `run` uses [guards_as_modelled]; the bodies of the six push / pop primitives and of the Stack_Holder helpers, read as lists of effects on "
          "the scope list, stack list, saved-parameter list and call depth, compose to the model's pushScope / popScope / pushStack / popStack / enterCall / leaveCall "
          "for every state, and the engine's wrappers only forward [primitives_are_the_model's, primitives_present]. Constructs outside the model (argument conversions, "
          "dynamic objects and attribute-held functions called with method syntax, classes, bind, containers of functions, ranged-for, switch, prelude algorithms) are "
          "run inside every scope-owning wrapper under the same model-free oracles."),
    note=("Trusted: Lean kernel, the evaluator model Model/Chai (hand-written from chaiscript_eval.hpp; RAII is modelled by combinators), gen/progs.py, "
          "harness/evalprog.cpp, hook commit (friend Access), extract/e_raii.py (a syntactic census: guard objects constructed per class, in textual order, not the control flow around them). Classes/methods, maps, ranged-for and bind are not in the model yet."),
    design_ref="DESIGN.md §6 C09")

KINDS = ["runtime", "range", "std", "nonstd", "eval", "boxed"]

# calls whose argument goes through a registered type conversion (VSrc -> VDst): the converted object is "saved" until the outermost call
# returns. Not in the model (it has no conversions); the model-independent oracles apply: resting shape, nothing left in call_params.
# (The converted object of the LAST call stays in Type_Conversions' own buffer until the next call on the thread: that buffer is not one of the Stack_Holder's lists the
# property names, and C11 allows it; an oracle that demanded it empty was a false alarm and was removed.)
CONV_BODIES = ["take_dst(mk_src(%d))", "pr(take_dst(mk_src(%d)))", "take_dst(mk_src(%d), cb0(1))", "cb1(take_dst(mk_src(%d)))", "var x%d = take_dst(mk_src(%d))",
               "take_dst(mk_src(%d)) + take_dst(mk_src(%d), 2)", "[take_dst(mk_src(%d)), 2]", "def g%d(a) { take_dst(a) }; g%d(mk_src(3)); g%d(mk_src(4))"]
CONV_WRAPS = ["%s", "{ var q = 1; %s; pr(q) }", "for (var i = 0; i < 3; ++i) { %s }", "for (var i = 0; i < 3; ++i) { var z = i; %s; cb2(z) }", "var x900 = 0; while (x900 < 2) { ++x900; var z = x900; %s }",
              "for (e : [1, 2]) { %s }", "try { var z = 1; %s; cb3(2) } catch (e) { pr(0) }", "try { var z = 1; %s; throw(1) } catch (e) { %s }", "def f() { var z = 1; %s; z }; f(); f()",
              "def f() { %s }; { var q = 2; f(); pr(q) }", "if (true) { var z = 1; %s }", "switch (1) { case (1) { var z = 1; %s; break } }", "var x901 = fun() { var z = 1; %s }; { var y = 0; x901() }",
              "{ var a = 1; { var b = 2; %s } }; pr(1)"]


# constructs outside the model (dynamic objects, attribute-held functions called with method syntax (This_Foist), classes, maps / vectors of functions,
# bind, ranged-for, switch, ternary, prelude algorithms with callbacks): the same model-independent oracles
OBJ_BODIES = ["var x%d = Dynamic_Object(); x%d.cb = fun(a) { cb1(a) }; x%d.cb(2)",
              "var x%d = Dynamic_Object(); x%d.cb = fun(a, b) { cb1(a); cb2(b) }; x%d.cb(mk_src(2), 3)",
              "var x%d = Dynamic_Object(); x%d.f = fun(a) { a + 1 }; pr(x%d.f(cb1(2)))",
              "class C%d { var v; def C%d() { this.v = fun(a) { cb1(a) } } }; var x%d = C%d(); x%d.v(3)",
              "class C%d { def C%d() {} def m(a) { cb1(a) } }; var x%d = C%d(); x%d.m(2); x%d.m(cb2(3))",
              "class C%d { var n; def C%d() { this.n = 0 } def inc() { this.n = this.n + cb1(1); this.n } }; var x%d = C%d(); x%d.inc(); x%d.inc()",
              "var x%d = [\"a\": fun(a) { cb1(a) }]; x%d[\"a\"](1)",
              "var x%d = [fun(a) { cb1(a) }, fun(a) { cb2(a) }]; x%d[0](1); x%d[1](2)",
              "var x%d = bind(fun(a, b) { cb1(a + b) }, 1, _); x%d(2)",
              "for (e : [1, 2, 3]) { cb1(e) }",
              "for (e : [1, 2, 3]) { if (e == 2) { continue }; cb1(e); if (e == 3) { break } }",
              "switch (cb1(1)) { case (1) { cb2(1); break } default { cb3(1) } }",
              "switch (2) { case (1) { cb1(1) } case (2) { cb2(2) } case (3) { cb3(3); break } }",
              "pr(cb1(1) == 1 ? cb2(2) : cb3(3))",
              "for_each([1, 2, 3], fun(a) { cb1(a) })",
              "pr(map([1, 2], fun(a) { cb1(a) }))",
              "pr(foldl([1, 2, 3], fun(a, b) { cb1(a + b) }, 0))",
              "var x%d = \"ab\"; x%d.for_each(fun(c) { cb1(1) })",
              "pr(to_string(cb1(4)).size())",
              "var x%d = [1, 2]; x%d.push_back(cb1(3)); pr(x%d.size())",
              "pr(eval(\"cb1(1) + 1\"))",
              "def g%d(a) : a > cb1(0) { cb2(a) }; def g%d(a) { cb3(a) }; g%d(1); g%d(-1)"]


def obj_scripts(rng, n):
    out, k = [], 300
    for _ in range(n):
        w = rng.choice(CONV_WRAPS)
        parts = []
        for _ in range(w.count("%s")):
            b = rng.choice(OBJ_BODIES)
            k += 1
            parts.append(b.replace("%d", str(k)))
        out.append(w % tuple(parts))
    return out


def conv_scripts(rng, n):
    out, k = [], 100
    for _ in range(n):
        w = rng.choice(CONV_WRAPS)
        parts = []
        for _ in range(w.count("%s")):
            b = rng.choice(CONV_BODIES)
            args = []
            for _ in range(b.count("%d")):
                k += 1
                args.append(k)
            if b.startswith("def g"):
                args = [args[0]] * 3
            if b.startswith("var x"):
                args = [args[0], args[1]]
            parts.append(b % tuple(args))
        out.append(w % tuple(parts))
    return out


def top_level_names(src):
    """names a top-level `var` may leave in scope 0 (a superset: depth-0 declarations of the printed program)"""
    names, depth = set(), 0
    for m in re.finditer(r"[{}]|var &?(x\d+)", src):
        t = m.group(0)
        if t == "{":
            depth += 1
        elif t == "}":
            depth -= 1
        elif depth == 0:
            names.add(m.group(1))
    return names


def run(ctx):
    sys.path.insert(0, os.path.join(C.VERIF, "extract"))
    import e_raii
    C.run_extractor(ctx, "raii", e_raii, "Raii.lean")
    status, text, rc = C.lean_obligations(ctx, ["C09"])
    have_driver = (rc == 0 and os.path.exists(C.driver_path())) or C.ensure_driver(ctx, [])
    with ctx.timer("harness_build"):
        exe, log = C.harness_build("evalprog")
    if exe is None or not have_driver:
        ctx.oblige("harness/driver build", False, (log or "")[-1500:])
        C.conclude(ctx, False)
        return
    rng = ctx.rng
    thorough = ctx.tier == "thorough"
    nprog, maxpts = (1500, 12) if thorough else (120, 6)
    p = os.path.join(C.VERIF, "corpus", "C09", "progs.txt")
    sx = [l.strip() for l in open(p) if l.strip() and not l.startswith("#")] if os.path.exists(p) else []
    gens = []
    for _ in range(nprog):
        g = progs.Gen(rng.fork(), feat=dict(refassign=True))
        sx.append(g.program(rng.range(2, 6)))
        gens.append(g)
    for g in gens:
        for k, v in g.hist.items():
            ctx.cov.setdefault("constructs", {})[k] = ctx.cov.get("constructs", {}).get(k, 0) + v
    with ctx.timer("model"):
        src = C.run_driver("chai-print", sx)
        base = C.run_driver("chai", ["run 1000000 std 1 " + s for s in sx])
    cases, mlines, meta = [], [], []
    for s, text_, b in zip(sx, src, base):
        m = C.split_model_line(b).get("model", "")
        nat = m.split(" nat=")[1].split(" shape=")[0] if " nat=" in m else ""
        n = len([x for x in nat.split(",") if x])
        pts = list(range(n))
        if len(pts) > maxpts:
            pts = sorted(rng.shuffle(pts)[:maxpts])
        plan = [(1000000, "std")] + [(k, kind) for k in pts for kind in KINDS]
        for k, kind in plan:
            mlines.append("run %d %s 1 %s" % (k, kind, s))
            cases.append("%d %s 1 opt %s" % (k, kind, text_.encode().hex()))
            meta.append((s, text_, k, kind))
    with ctx.timer("model"):
        mout = C.run_driver("chai", mlines, timeout=1800)
    with ctx.timer("impl"):
        iout, restarts = C.run_harness_resilient(exe, [], cases, timeout=300 if not thorough else 1800, mem_gb=6)
    ctx.cov["harness_restarts"] = restarts
    ctx.cov["programs"] = len(sx)
    ctx.cov["fault_runs"] = len(cases) - len(sx)
    # conversions: not modelled; the same oracles, with faults at the first callback invocations
    conv = conv_scripts(rng, 400 if thorough else 60) + obj_scripts(rng, 800 if thorough else 120)
    ccases, cmeta = [], []
    for t in conv:
        for k, kind in [(1000000, "std")] + [(k, kind) for k in (0, 1) for kind in ("runtime", "boxed", "eval")]:
            ccases.append("%d %s 1 opt %s" % (k, kind, t.encode().hex()))
            cmeta.append((t, t, k, kind))
    with ctx.timer("impl"):
        cout, _ = C.run_harness_resilient(exe, [], ccases, timeout=300, mem_gb=6)
    ctx.cov["conversion_scripts"] = len(conv)
    ctx.count("evaluations", len(ccases))
    for o in cout:
        ctx.hist("conversion_outcomes", " ".join(o.split(" ")[:2])[:40])
    # model-independent oracles on the real engine
    found = 0
    for (s, text_, k, kind), o in list(zip(meta, iout)) + list(zip(cmeta, cout)):
        bad = None
        if " shape=[1]/1/0 " not in o + " ":
            bad = "the Stack_Holder is not back in its resting shape"
        elif "SAVED-PARAMS-LEFT" in o:
            bad = "saved call parameters were not released"
        elif o.startswith("res=parse-error") or "crash" in o[:12]:
            bad = "unexpected harness answer: " + o[:200]
        elif "ENGINE-BROKEN" in o:
            bad = "the engine no longer evaluates 1 + 1"
        else:
            names = o.split(" names=")[1].split(" ")[0] if " names=" in o else ""
            extra = set(x for x in names.split(",") if x) - top_level_names(text_)
            if extra:
                bad = "names declared in an inner scope are still visible at top level: %s" % sorted(extra)
        if bad:
            found += 1
            if found <= 4:
                ctx.violation("fault_point", {"mode": "evalprog", "program": text_, "sexp": s, "fault": {"callback_invocation": k, "kind": kind},
                                              "observed": o, "expected": bad})
    # the repository's own unit-test scripts (every construct of the language, incl. those outside the model): whatever a script does and
    # however it ends, the Stack_Holder must be back in its resting shape afterwards
    import glob
    uexe, ulog = C.harness_build("unitscript")
    files = sorted(glob.glob(os.path.join(C.REPO, "unittests", "*.chai")))
    if uexe is None:
        ctx.oblige("harness build (unitscript)", False, (ulog or "")[-800:])
    else:
        with ctx.timer("unit_corpus"):
            uo, _ = C.run_harness_resilient(uexe, [], ["1 opt %s" % f.encode().hex() for f in files], timeout=900)
        for f, o in zip(files, uo):
            sh = o.split(" shape=")[1].strip() if " shape=" in o else "missing"
            ctx.hist("unit_script_outcomes", " ".join(o.split(" ")[:1])[:30])
            if sh != "[1]/1/0":
                found += 1
                ctx.violation("input", {"mode": "unitscript", "script": f, "observed": o[:300], "expected": "shape=[1]/1/0 after the script, however it ended",
                                        "how_to_replay": "printf '1 opt %s\\n' | build/harness/unitscript/<bin>" % f.encode().hex()})
        ctx.count("evaluations", len(files))
        ctx.cov["unit_scripts"] = len(files)
    labels = ["fault@%d/%s :: %s" % (k, kind, text_[:400]) for (s, text_, k, kind) in meta]
    def notags(x):
        return "\t".join(" ".join(w for w in part.split(" ") if not w.startswith("tags=")) for part in x.split("\t"))
    found += C.compare_streams(ctx, "evalprog", labels, [notags(m) for m in mout], iout, nontrivial=lambda impl, line: True, bucket=lambda line: line.split(" ")[0].split("/")[-1] if line.startswith("fault@") else "x")
    ctx.cov["rule"] = ("%d generated programs (plus corpus), each run once without faults and once per (callback invocation <= %d points x 6 exception kinds); "
                       "distinct = distinct (program, fault) pairs; every run is non-trivial (the engine state is inspected)" % (nprog, maxpts))
    ctx.sample({"program": src[0][:300], "fault": "none"})
    if len(meta) > 1:
        ctx.sample({"program": meta[-1][1][:300], "fault": {"invocation": meta[-1][2], "kind": meta[-1][3]}})
    C.conclude(ctx, found > 0)
