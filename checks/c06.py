# C06 — C++ functions are only ever entered with correctly typed arguments.
import os, sys
import common as C

LEVEL = "proof"
META = dict(
    technique="Lean 4 proof about the dispatch algorithm for an arbitrary cast relation (soundness, exact-match preference, no-match => error) + exhaustive cast matrix and generated overload-set/argument-tuple correspondence against the real engine",
    text=("Kernel-checked, for every overload set, registration order and argument tuple, and for ANY cast relation: if dispatch enters a function it is a "
          "registered overload with exactly as many parameters as arguments, every parameter accepts the value it receives, and each received value is the "
          "caller's argument or its arithmetic conversion [dispatch_sound]; an overload whose parameters all have exactly the arguments' types and accepts "
          "the call wins with the arguments unchanged [dispatch_exact_preferred]; no compatible overload or a wrong argument count enters nothing "
          "[dispatch_none, dispatch_arity]; the result type admits at most one entry. The model mirrors dispatch()/dispatch_with_conversions (ordering by "
          "number of non-exact parameters, filter on the first two parameters, swallowed cast errors, the const/non-const tie-break). The concrete cast "
          "relation is a specification (actual type or registered base-class conversion, constness, ownership for shared_ptr, Boxed_Value/Boxed_Number "
          "catch-alls) compared exhaustively with the real boxed_cast over 25 value kinds x 26 parameter forms, and the whole model is compared with the "
          "real engine on generated overload sets x orders x argument tuples (each C++ function logs what it received). bind: `Model/Bind.lean` transliterates the two "
          "loops of Bound_Function::build_param_list; for every pattern of stored values and placeholders and every argument list they compute the specification "
          "[bind_loops_are_the_specification], under which a stored value reaches the parameter it was bound to, the call's arguments reach the placeholders' "
          "parameters in order, and the callee receives as many values as bind was given [bind_stored_values_stay, bind_call_arguments_in_order, bind_arity]; tied "
          "to the code by running the real bind over EVERY pattern of up to 4 (thorough: 5) parameters x every number of call arguments x two parameter typings. "
          "Arity, model-free and exhaustive: every callable form (function, function held in a variable, overloaded pair, constructor, member function, data member, script "
          "function) x 0..3 declared parameters x 0..4 call arguments: entered exactly when the counts agree, with the arguments in order; otherwise an error before anything is entered."),
    note=("Trusted: Lean kernel, harness/dispatch.cpp (catalogue of 38 C++ functions and 25 value kinds; the post-sort overload order is read from the "
          "engine, function_less_than is not modelled), Spec/Cast.lean. Catalogue functions never throw bad_boxed_cast themselves (dispatch() would treat "
          "that as 'try the next overload'); std::function parameters, variadic functions and dynamic (script) overloads with guards are not in the catalogue."),
    design_ref="DESIGN.md §6 C06")

KINDS = "int_var int_const int_ref int_cref double_var double_const bool_var string_var string_const string_ref base_var base_const base_ref base_cref base_sp base_spc base_ptr derived_var derived_const derived_ref derived_sp other_var long_var float_var undef both_var both_ref both_sp both_ptr both_cref".split()
ONE = list(range(30))
TWO = list(range(100, 112))


def run(ctx):
    status, text, rc = C.lean_obligations(ctx, ["C06"])
    have_driver = (rc == 0 and os.path.exists(C.driver_path())) or C.ensure_driver(ctx, [])
    with ctx.timer("harness_build"):
        exe, log = C.harness_build("dispatch")
    if exe is None or not have_driver:
        ctx.oblige("harness/driver build", False, (log or "")[-1500:])
        C.conclude(ctx, False)
        return
    rng = ctx.rng
    thorough = ctx.tier == "thorough"
    # 1. exhaustive cast matrix
    casts = ["cast %s %d" % (k, p) for k in KINDS for p in ONE]
    # 2. dispatch cases
    n = 12000 if thorough else 1500
    disp = []
    for _ in range(n):
        if rng.chance(3, 4):
            fids = rng.shuffle(ONE)[:rng.range(1, 5)]
            if rng.chance(1, 3):      # bias towards overloads on related types
                fam = rng.choice([[12, 13, 14, 15, 16, 17, 18, 19, 20, 22], [26, 27, 28, 29, 22], [0, 1, 2, 3, 4, 5, 6, 7, 22, 23, 24, 25], [9, 10, 11, 22], [0, 5, 8, 24, 25, 23]])
                fids = rng.shuffle(fam)[:rng.range(1, 4)]
            args = [rng.choice(KINDS)]
            if rng.chance(1, 12):
                args.append(rng.choice(KINDS))   # wrong arity
        else:
            fids = rng.shuffle(TWO)[:rng.range(1, 4)]
            if rng.chance(1, 4):
                fids.append(rng.choice(ONE))
            args = [rng.choice(KINDS), rng.choice(KINDS)]
            if rng.chance(1, 12):
                args = args[:1]
        disp.append(("disp " + ",".join(map(str, fids)) + " " + ",".join(args), args))
    with ctx.timer("impl"):
        iout, restarts = C.run_harness_resilient(exe, [], casts + [d[0] for d in disp], timeout=3000)
    ctx.cov["harness_restarts"] = restarts
    # model input for dispatch uses the overload order the engine actually holds
    mcases, icanon = list(casts), list(iout[:len(casts)])
    for (line, args), o in zip(disp, iout[len(casts):]):
        order = line.split()[1]
        rest = o
        if o.startswith("order="):
            order, _, rest = o[len("order="):].partition(" ")
        mcases.append("disp %s %s" % (order, ",".join(args)))
        icanon.append(rest)
    with ctx.timer("model"):
        mout = C.run_driver("dispatch", mcases)
    double_entry = [(l, o) for l, o in zip(mcases, icanon) if "AFTER-ENTERING" in o]

    def canon_impl(t, line):
        if t.startswith("error"):
            return "error"
        return t
    shown = [d[0] for d in disp]
    labels = casts + ["%s   (engine order %s)" % (a, m.split()[1]) for a, m in zip(shown, mcases[len(casts):])]
    found = C.compare_streams(ctx, "dispatch", mcases, mout, icanon, canon_impl=canon_impl,
                              nontrivial=lambda impl, line: impl.startswith(("entered", "ok")))
    for l, o in double_entry[:3]:
        found += 1
        ctx.violation("input", {"mode": "dispatch", "case": l, "observed": o, "expected": "a call enters exactly one overload exactly once, or none and raises"})
    # bind: every pattern of stored values / placeholders up to 4 (thorough: 5) parameters x every number of call arguments up to one too many x (all int | int/string)
    import itertools
    bcases = []
    for L in range(1, 6 if thorough else 5):
        for pat in itertools.product("b_", repeat=L):
            holes = pat.count("_")
            for n in range(0, holes + 2):
                for mixed in (0, 1):
                    bcases.append("bind %s %d %d" % ("".join(pat), n, mixed))
    with ctx.timer("impl"):
        bout, _ = C.run_harness_resilient(exe, [], bcases, timeout=1500)
    with ctx.timer("model"):
        bm = C.run_driver("dispatch", bcases)
    found += C.compare_streams(ctx, "dispatch", bcases, bm, bout, nontrivial=lambda impl, line: impl.startswith("entered"), bucket=lambda line: "bind")
    ctx.cov["bind_cases"] = len(bcases)
    # arity: every callable form x 0..3 declared parameters x 0..4 call arguments (non-overloaded names are stored as the bare function: no dispatch pre-filter)
    acases, aexp = [], []
    for form in ("fun", "var", "pair", "ctor", "method", "attr", "script"):
        for k in range(4):
            for n in range(5):
                if form == "attr" and k:
                    continue
                acases.append("arity %s %d %d" % (form, k, n))
                got = " ".join(str(10 + j) for j in range(n))
                if form == "attr":
                    aexp.append("returned-without-entering" if n == 0 else "error")
                elif form == "script":
                    aexp.append("entered %d" % k if n == k else "error")
                elif form == "pair":
                    aexp.append(("entered %d %s" % (n, got)).strip() if n in (k, (k + 2) % 4) else "error")
                else:
                    aexp.append(("entered %d %s" % (k, got)).strip() if n == k else "error")
    with ctx.timer("impl"):
        aout, _ = C.run_harness_resilient(exe, [], acases, timeout=1500)
    abad = [(c, o, e) for c, o, e in zip(acases, aout, aexp) if o != e]
    ctx.count("evaluations", len(acases))
    ctx.cov["arity_cases"] = len(acases)
    for c, o, e in abad[:4]:
        found += 1
        ctx.violation("input", {"mode": "dispatch", "case": c, "observed": o, "expected": e,
                                "rule": "a callable with k declared parameters is entered exactly when it is called with k arguments, and then receives them in order; any other count raises without entering anything",
                                "how_to_replay": "echo '%s' | build/harness/dispatch/<bin>" % c})
    ctx.cov["cast_matrix"] = {"kinds": len(KINDS), "params": len(ONE), "exhaustive": True}
    ctx.cov["rule"] = ("exhaustive (value kind x parameter form) cast matrix (%d cells) + seeded (overload subset, registration order, argument tuple) dispatch cases over a "
                       "catalogue of 30 one-parameter and 12 two-parameter C++ functions; non-trivial = a function was entered / a cast succeeded; distinct = distinct case lines" % len(casts))
    for s in (casts[17], disp[0][0], disp[-1][0]):
        ctx.sample(s)
    C.conclude(ctx, found > 0)
