# C05 — script arithmetic is C++ arithmetic; trapping operations raise arithmetic_error.
import os, struct, sys
import common as C
sys.path.insert(0, os.path.join(C.VERIF, "extract"))
import e_arith

LEVEL = "proof"
META = dict(
    technique="Lean 4 proof over tables regenerated from boxed_number.hpp/chaiscript_algebraic.hpp/bootstrap.hpp + differential correspondence (do_oper and four script routes vs compiled Lean model/spec)",
    text=("Kernel-checked theorems: for every opcode, operand class pair, operand value and lvalue state, Boxed_Number::go/oper as tabulated from "
          "the current source equals the C++ specification (named operator at static types, integer-only regions, in-place narrowing compound "
          "assignment, arithmetic_error exactly where the CPU would trap) [go_is_spec, un_is_spec, go_never_traps]; operator-node, fold and "
          "function routes reach the same opcode and oper overload for every spelling [routes_agree]; get_common_type preserves ABI width/sign "
          "[common_type_is_abi]. The tables are re-extracted from /repo every run; the model and the spec are run against the real code on "
          "~110k cells (quick) incl. all trap corners; floats are correspondence-only."),
    note=("Trusted: Lean kernel (axioms propext, Classical.choice, Quot.sound), extract/e_arith.py, Spec/Cpp.lean (reading of C++ conversions, "
          "LP64; cross-checked against the host compiler), harness/arith.cpp, g++. Value agreement with C++ rests on the code having no arithmetic "
          "of its own (each table row names a C++ operator applied by the compiler); float and long double values are compared, not proved."),
    design_ref="DESIGN.md §6 C05")

INTS = {"i8": (8, True), "u8": (8, False), "i16": (16, True), "u16": (16, False), "i32": (32, True), "u32": (32, False),
        "i64": (64, True), "u64": (64, False)}
FLTS = ["f32", "f64", "f80"]
CTS = list(INTS) + FLTS
BIN_OPS = ["equals", "less_than", "greater_than", "less_than_equal", "greater_than_equal", "not_equal", "sum", "quotient",
           "product", "difference", "shift_left", "shift_right", "remainder", "bitwise_and", "bitwise_or", "bitwise_xor",
           "assign", "assign_product", "assign_sum", "assign_quotient", "assign_difference", "assign_bitwise_and",
           "assign_bitwise_or", "assign_shift_left", "assign_shift_right", "assign_remainder", "assign_bitwise_xor"]
NONBIN = ["pre_increment", "bitwise_complement", "unary_minus", "invalid"]
UN_OPS = ["pre_increment", "pre_decrement", "unary_minus", "unary_plus", "bitwise_complement"]
TXT_BIN = ["eqeq", "lt", "gt", "le", "ge", "ne", "plus", "minus", "mul", "div", "mod", "shl", "shr", "band", "bor", "bxor",
           "asg", "mulasg", "addasg", "divasg", "subasg", "andasg", "orasg", "shlasg", "shrasg", "modasg", "xorasg"]
TXT_VALUE = TXT_BIN[:16]
TXT_UN = ["inc", "dec", "plus", "minus", "compl"]
ASSIGN_TXT = set(TXT_BIN[16:]) | {"inc", "dec"}


def dbits(x):
    return "%016x" % struct.unpack("<Q", struct.pack("<d", x))[0]


def int_values(ct, rng, extra):
    bits, sg = INTS[ct]
    lo, hi = (-(1 << (bits - 1)), (1 << (bits - 1)) - 1) if sg else (0, (1 << bits) - 1)
    vs = {0, 1, 2, lo, hi, lo + 1, hi - 1, 1 << (bits // 2), (1 << (bits // 2)) - 1, 7}
    if sg:
        vs |= {-1, -2, -7}
    for _ in range(extra):
        vs.add(rng.range(lo, hi) if rng.chance(1, 2) else rng.range(max(lo, -64), min(hi, 64)))
    return sorted(v for v in vs if lo <= v <= hi)


def flt_values(ct, rng, extra):
    base = [0.0, -0.0, 1.0, -1.0, 0.5, 1.5, -2.5, 3.0, 1e10, float("inf"), float("-inf"), float("nan"), 127.0, -128.0, 65536.0, 4294967296.0, 1e19]
    for _ in range(extra):
        base.append(float(rng.range(-1000, 1000)) / 4.0)
    if ct == "f32":
        base = [struct.unpack("<f", struct.pack("<f", b))[0] for b in base]
    return base


def values(ct, rng, extra):
    if ct in INTS:
        return [str(v) for v in int_values(ct, rng, extra)]
    return [dbits(v) for v in flt_values(ct, rng, extra)]


def pick(rng, xs, k):
    xs = list(xs)
    if len(xs) <= k:
        return xs
    return [xs[i] for i in sorted(set(rng.below(len(xs)) for _ in range(k * 2)))][:k]


def gen_cases(ctx):
    rng = ctx.rng
    thorough = ctx.tier == "thorough"
    k = 8 if thorough else 5
    extra = 6 if thorough else 2
    cases = []
    vals = {ct: values(ct, rng, extra) for ct in CTS}
    # hand-picked witnesses first (corpus)
    corpus = os.path.join(C.VERIF, "corpus", "C05", "cases.txt")
    if os.path.exists(corpus):
        cases += [l.strip() for l in open(corpus) if l.strip() and not l.startswith("#")]
    # direct2: every opcode x every type pair x sampled boundary values x lvalue state
    for op in BIN_OPS + NONBIN:
        for lt in CTS:
            for rt in CTS:
                la = pick(rng, vals[lt], k)
                rb = pick(rng, vals[rt], k)
                # always include the trap-suspect corners
                if lt in INTS and rt in INTS:
                    bits, sg = INTS[lt]
                    la = list(dict.fromkeys(la + ([str(-(1 << (bits - 1)))] if sg else []) + ["0"]))
                    rb = list(dict.fromkeys(rb + ["0"] + (["-1"] if INTS[rt][1] else [])))
                for a in la:
                    for b in rb:
                        lv = "1" if (op.startswith("assign") and not rng.chance(1, 8)) or rng.chance(1, 4) else "0"
                        cases.append("direct2 %s %s %s %s %s %s" % (op, lv, lt, a, rt, b))
    for op in UN_OPS + ["sum", "invalid"]:
        for lt in CTS:
            for a in vals[lt]:
                for lv in ("0", "1"):
                    cases.append("direct1 %s %s %s %s" % (op, lv, lt, a))
    # script routes, sampled
    n_script = 6000 if thorough else 1500
    lit_types = ["i32", "u32", "i64", "u64", "f32", "f64", "f80"]

    def literal_ok(ct, v):
        if ct in INTS:
            x = int(v)
            if ct == "i32":
                return -(2 ** 31 - 1) <= x <= 2 ** 31 - 1
            if ct == "i64":
                return -(2 ** 63 - 1) <= x <= 2 ** 63 - 1
            return x >= 0
        d = struct.unpack("<d", struct.pack("<Q", int(v, 16)))[0]
        # only literals whose decimal spelling the lexer reads exactly (float-literal accuracy is property C16's subject)
        return d == d and abs(d) < 100000 and d * 4 == int(d * 4) and not (d == 0 and str(d).startswith("-"))
    for i in range(n_script):
        route = rng.choice(["node", "node", "func", "foldr", "fold"])
        unary = rng.chance(1, 6)
        if route in ("fold", "foldr"):
            unary = unary and route == "fold"
        if unary:
            op = rng.choice(TXT_UN if route != "fold" else ["plus", "minus", "compl"])
            lt = rng.choice(lit_types if route == "fold" else CTS)
            a = rng.choice(vals[lt])
            if route == "fold" and not literal_ok(lt, a):
                continue
            if route == "fold" and a.startswith("-"):
                continue
            lv = "0" if route == "fold" else rng.choice(["0", "1", "1"])
            cases.append("%s %s %s %s %s" % (route, op, lv, lt, a))
        else:
            op = rng.choice(TXT_VALUE if route in ("fold", "foldr") else TXT_BIN)
            lt = rng.choice(lit_types if route == "fold" else CTS)
            rt = rng.choice(lit_types if route in ("fold", "foldr") else CTS)
            a, b = rng.choice(vals[lt]), rng.choice(vals[rt])
            if rng.chance(1, 5) and rt in INTS:
                b = "0"
            if route == "fold" and not literal_ok(lt, a):
                continue
            if route in ("fold", "foldr") and not literal_ok(rt, b):
                continue
            lv = "0" if route == "fold" else rng.choice(["0", "1", "1", "1"])
            cases.append("%s %s %s %s %s %s %s" % (route, op, lv, lt, a, rt, b))
    return cases


def canon_model(tok, line):
    w = line.split()
    route, op = w[0], w[1]
    if tok == "badCast":
        return "err"
    if tok == "arithErr" and route in ("node",) and op in ASSIGN_TXT and op != "divasg":
        # ("/=" is missing from to_operator, so the node falls back to plain dispatch, which lets arithmetic_error through)
        return "err"          # Equation_AST_Node reports every std::exception as eval_error
    if tok.startswith("lhs") and route in ("node", "foldr", "fold") and op in ("inc", "dec") and False:
        return tok
    return tok


def canon_impl(tok):
    if tok.startswith(("badCast", "evalErr", "dispatchErr", "stdErr", "badBoxedCast")):
        return "err"
    return tok


def run(ctx):
    gen_ok, same = C.run_extractor(ctx, "arith", e_arith, "Arith.lean")
    status, text, rc = C.lean_obligations(ctx, ["C05"])
    have_driver = os.path.exists(C.driver_path()) and rc == 0
    if not have_driver:
        have_driver = C.ensure_driver(ctx, ["Arith.lean"])
    with ctx.timer("harness_build"):
        exe, log = C.harness_build("arith")
    if exe is None:
        ctx.oblige("harness.arith builds", False, log[-1500:])
        C.conclude(ctx, False)
        return
    if not have_driver:
        ctx.oblige("driver builds", False, "chaimodel could not be built even with the pinned tables")
        C.conclude(ctx, False)
        return
    cases = gen_cases(ctx)
    drv_cases = [("node" + l[len(l.split()[0]):]) if l.split()[0] in ("fold", "foldr") else l for l in cases]
    with ctx.timer("model"):
        mout = C.run_driver("arith", drv_cases)
    with ctx.timer("impl"):
        iout = []
        start = 0
        restarts = 0
        while start < len(cases):
            rcode, out, err = C.run_harness(exe, [], cases[start:], timeout=900)
            iout += out
            start = len(iout)
            if rcode == 0 and start >= len(cases):
                break
            if rcode != 0 and start < len(cases):
                # the harness died on case `start` (a signal the handler could not turn into `trap`)
                iout.append("crash:rc=%s" % rcode)
                start += 1
                restarts += 1
                if restarts > 50:
                    break
    ctx.cov["harness_restarts"] = restarts
    if len(mout) != len(cases) or len(iout) < len(cases):
        ctx.oblige("streams complete", False, "model lines %d impl lines %d cases %d" % (len(mout), len(iout), len(cases)))
    nontrivial = set()
    found = 0
    skipped_ub = 0
    model_diffs = 0
    for line, m, i in zip(cases, mout, iout):
        d = C.split_model_line(m)
        route = line.split()[0]
        ctx.hist("routes", route)
        if "spec" not in d:
            ctx.oblige("driver accepts case", False, "%s -> %s" % (line, m))
            continue
        spec_raw, model_raw = d["spec"], d["model"]
        if spec_raw == "ub" or model_raw == "ub":
            skipped_ub += 1
            continue
        spec, model, impl = canon_model(spec_raw, line), canon_model(model_raw, line), canon_impl(i)
        if "f80" in line:   # long double: Lean has no 80-bit float; compare outcome class and result type only
            spec, model, impl = [" ".join(x.split()[:1 if x.startswith("bool") else 2]) for x in (spec, model, impl)]
        ctx.hist("outcomes", impl.split()[0])
        if impl.split()[0] in ("val", "lhs", "bool", "arithErr"):
            nontrivial.add(line)
        if impl != spec:
            found += 1
            if found <= 5:
                ctx.violation("input", {"mode": "arith", "case": line, "expected_spec": spec_raw, "observed": i,
                                        "model_predicts": model_raw,
                                        "how_to_replay": "echo '%s' | build/harness/arith/<bin>  (and | lean/.lake/build/bin/chaimodel arith)" % line})
        elif impl != model:
            model_diffs += 1
            if model_diffs <= 3:
                ctx.notes.append("model/impl differ (spec agrees with impl): %s model=%s impl=%s" % (line, model_raw, i))
    ctx.cov["evaluations"] = len(cases)
    ctx.cov["distinct_nontrivial"] = len(nontrivial)
    ctx.cov["skipped_undefined_behaviour"] = skipped_ub
    ctx.cov["spec_disagreements"] = found
    ctx.cov["model_only_disagreements"] = model_diffs
    ctx.cov["rule"] = ("every (opcode, lhs class, rhs class) cell of Boxed_Number::go/oper with boundary+seeded operand values through "
                       "do_oper (direct), plus sampled operator-node / function / fold-right / constant-fold script routes; a case is "
                       "non-trivial when the implementation produced a value, a bool, an in-place update or arithmetic_error; "
                       "cases whose C++ result is undefined-but-not-trapping are skipped; distinct = distinct case lines")
    for s in (cases[0], cases[len(cases) // 3], cases[-1]):
        ctx.sample(s)
    if model_diffs:
        ctx.oblige("correspondence model≡impl", False, "%d cases where the table-interpreted model differs from the implementation" % model_diffs)
    else:
        ctx.oblige("correspondence model≡impl", True)
    abi_check(ctx, exe)
    ctx.assumptions += ["LP64 / x86-64 ABI for sizeof and signedness (cross-checked against the host compiler in this run)",
                        "floating results compared bit-for-bit only for + - * / and comparisons; long double by type only",
                        "C++20 semantics assumed for signed left shift and narrowing conversions (what gcc implements)"]
    C.conclude(ctx, found > 0)


def abi_check(ctx, exe):
    rcode, out, err = C.run_harness(exe, ["--abi"], [], timeout=60)
    # the harness prints "<SrcType> <sizeof> <signed>" per line; compare with Spec (queried from the driver)
    try:
        spec = C.run_driver("arith-abi", ["x"])
    except Exception as ex:
        ctx.oblige("abi cross-check", False, str(ex))
        return
    got = sorted(l for l in out if l.strip())
    want = sorted(l for l in spec if l.strip())
    ctx.oblige("abi cross-check (Spec.sizeSigned vs host compiler)", got == want and len(got) > 0,
               "" if got == want else "host: %s spec: %s" % (got[:30], want[:30]))
