# C03 — core language semantics match the documented (C++-like) model.
import os, re, sys
import common as C
sys.path.insert(0, os.path.join(C.VERIF, "gen"))
import progs, pyref, core, coregen, precgen
sys.path.insert(0, os.path.join(C.VERIF, "extract"))
import e_prec

LEVEL = "proof"
META = dict(
    technique="differential execution of the real engine against TWO independent reference interpreters of the documented semantics (Python) and the Lean 4 evaluator model, on grammar-directed programs printed with the fewest parentheses C allows; Lean theorems fix the laws of the evaluator model (short-circuit, selection, copy versus alias, block scoping); Lean 4 proof that the operator-precedence core of the parser (model M-PREC of Operator/Prefix over the operator tables regenerated from the source, which are proved to be C's) reads back every expression tree from its minimal-parentheses token string",
    text=("Deciding part: (A) programs over the rich core (C operator table incl. bitwise/shift, unary, ternary; if / else-if / else chains; while, for, ranged-for with "
          "break/continue; switch with fall-through and default; functions with recursion, typed parameters, guards, early return; lambdas with aliasing captures; "
          "references; script classes with attributes, constructor, methods, copies and references of objects; vectors, maps, strings; try/throw) are generated as trees, "
          "printed with MINIMAL parentheses (so the engine's precedence and associativity are what is tested) and run on the real engine; result class and everything "
          "printed must equal gen/core.py's reference interpreter, which evaluates the TREE under C semantics. (B) programs in the Lean model's syntax are run on "
          "the engine, the Lean evaluator and gen/pyref.py; all three must agree. Kernel-checked laws of the evaluator model: && / || short-circuit and otherwise "
          "yield the right operand's truth value, if selects exactly one branch and needs a bool, a false while runs nothing, `var x = y` gives x an object of its "
          "own, a reference shares the object (writes seen through aliases and nowhere else), a block leaves no scope behind however it is left, declarations go to "
          "the innermost scope. PRECEDENCE AND ASSOCIATIVITY [Props/C03Prec, Lemmas/Prec]: the symbol arrays of every precedence level, the prefix operators, the node kind "
          "each level builds and the shape of Operator(t_precedence) (operands one level tighter, else branch of ?: at the same level, the while loop) are regenerated from "
          "chaiscript_parser.hpp on every run and are exactly C's [operator_table_is_C, operator_function_shape, binary_levels_disjoint]; for EVERY well-formed expression tree "
          "(atoms, prefix, binary of any level, conditionals; any size and nesting) the model of Operator(0) rebuilds exactly the tree from its token string printed with the "
          "fewest parentheses C allows and stops before whatever follows [precedence_roundtrip, chai_precedence_roundtrip: induction over the tree with a descent lemma over the "
          "levels]; chains of assignments (the twelve symbols of Equation(), regenerated [assignment_symbols_are_C]) nest to the right around such expressions [equation_roundtrip]; so two different trees never share a token string [tokens_determine_tree]; a run that ends, ends the same way with any larger fuel [precedence_result_independent_of_fuel, precedence_roundtrip_any_fuel]; grouping spelled out on the table [grouping_on_chai_table]. BETWEEN BYTES AND TOKENS [Props/C03Sym over Model/Sym = Symbol()'s look-ahead rule; the function's text and the symbol alphabet are regenerated "
          "and pinned: symbol_function_shape]: for every binary / ternary operator followed directly by every prefix operator, '(' or an identifier, Symbol() accepts the "
          "operator exactly when C's maximal munch reads two tokens [glued_operators_split_as_in_C, kernel evaluation of the whole table]; the ':' of ?: is the exception "
          "[colon_glued_to_sign_counterexample = known finding COLON_GLUED_TO_SIGN]; Equation() switches the look-ahead off [assignment_symbols_ignore_lookahead]. Tie: (C) printed trees "
          "and token soups (redundant / missing parentheses, doubled operators) through the real parser without optimizer, `chaimodel prec` and an independent precedence-climbing "
          "reference with C's table: trees, node kinds (Logical_And / Logical_Or / Binary / If / Prefix) and accept / reject must agree."),
    note=("Trusted: the two Python reference interpreters (independent of the engine and of each other), gen/coregen.py, gen/progs.py, harness/evalprog.cpp; Lean kernel and "
          "Model/Chai for part (B) and the laws; Model/Prec (tokens stand for what Symbol/Id deliver; Model/Sym is the look-ahead rule of Symbol() alone; white space is M-WS of C01; the statement grammar around Equation() is not modelled), extract/e_prec.py, gen/precgen.py. Integer values are kept inside int range (runs that leave it are skipped: C05 covers arithmetic); size() is wrapped in int()."),
    design_ref="DESIGN.md §6 C03")


def big_ints(x):
    return any(abs(int(v)) >= 2 ** 30 for v in re.findall(r"i(-?\d+)", x))


def strip_shape(x):
    return " ".join(p for p in x.split(" ") if not p.startswith(("shape=", "tags=", "lits=")))


def tags_of(x):
    m = re.search(r" tags=(\S+)", x)
    return m.group(1) if m else ""


def canon_core(o):
    o = o.split(" nat=")[0]
    if o.startswith("res=val"):
        o = "res=val" + o[o.index(" out="):]
    return o


def prec_stage(ctx, n):
    """expression trees printed with the fewest parentheses (expected: the tree itself) and token soups (expected: what precedence climbing with C's
    table says): the real parser without optimizer (harness optree, generic dump) and `chaimodel prec` (M-PREC over the regenerated tables)"""
    rng = ctx.rng
    with ctx.timer("harness_build"):
        exe, log = C.harness_build("optree")
    if exe is None:
        ctx.oblige("harness build (optree)", False, (log or "")[-1500:])
        return 0
    cases, specs, texts = [], [], []
    for i in range(n):
        if i % 3 != 2:
            if i % 7 == 3:
                ts, want = precgen.gen_chain(rng, rng.range(1, 4))
            else:
                e = precgen.gen_tree(rng, rng.range(1, 6))
                ts = precgen.toks(e)
                want = "ok " + precgen.show(e)
            ref = precgen.ref_parse(ts)
            if ref != want:      # the two specifications (printer and reference parser) must agree with each other first
                ctx.oblige("reference parser reads back the printer", False, "%s: %s vs %s" % (precgen.text(ts), ref, want))
            glued = i % 3 == 1
            ctx.hist("prec_kinds", "printed-tree-no-blanks" if glued else "printed-tree")
            texts.append(precgen.glued_text(ts, rng) if glued else precgen.text(ts))     # blanks only where C's maximal munch needs them
        else:
            ts = precgen.soup(rng)
            want = precgen.ref_parse(ts)
            ctx.hist("prec_kinds", "soup-" + want.split()[0])
            texts.append(precgen.text(ts))
        cases.append(ts)
        specs.append(want)
    with ctx.timer("model"):
        mout = C.run_driver("prec", [precgen.model_line(ts) for ts in cases])
    with ctx.timer("impl"):
        iout, _ = C.run_harness_resilient(exe, [], ["raw " + tx.encode().hex() for tx in texts], timeout=900)
    # known finding COLON_GLUED_TO_SIGN: a ':' written directly in front of '+' / '-' is not recognised (a loud parse error); the token model is above that layer
    extra = 0
    keep = []
    for k, (tx, o, s) in enumerate(zip(texts, iout, specs)):
        if re.search(r":[+-]", tx):
            got = precgen.canon_impl(o)
            ctx.count("evaluations", 1)
            if got == s:
                continue
            if got == "error" and ctx.known_finding("COLON_GLUED_TO_SIGN", tx[:120]):
                continue
            extra += 1
            if extra <= 3:
                ctx.violation("input", {"mode": "optree", "case": tx, "expected_spec": s, "observed": o, "how_to_replay": "echo 'raw %s' | build/harness/optree/<bin>" % tx.encode().hex()})
        else:
            keep.append(k)
    cases, specs, texts, mout, iout = ([x[k] for k in keep] for x in (cases, specs, texts, mout, iout))
    lines = ["model=%s\tspec=%s" % (precgen.canon_model(m), s) for m, s in zip(mout, specs)]
    sizes = {}
    for ts in cases:
        b = min(len(ts) // 10 * 10, 100)
        sizes[b] = sizes.get(b, 0) + 1
    ctx.cov["prec_token_counts"] = {("%d-%d" % (k, k + 9)): v for k, v in sorted(sizes.items())}
    return extra + C.compare_streams(ctx, "optree", texts, lines, iout, canon_impl=lambda o, line: precgen.canon_impl(o), bucket=lambda line: "prec")


def run(ctx):
    C.run_extractor(ctx, "operator tables and the shape of Operator()", e_prec, "Prec.lean")
    status, text, rc = C.lean_obligations(ctx, ["C03", "C03Prec", "C03Sym"])
    have_driver = (rc == 0 and os.path.exists(C.driver_path())) or C.ensure_driver(ctx, [])
    with ctx.timer("harness_build"):
        exe, log = C.harness_build("evalprog")
    if exe is None or not have_driver:
        ctx.oblige("harness/driver build", False, (log or "")[-1500:])
        C.conclude(ctx, False)
        return
    rng = ctx.rng
    thorough = ctx.tier == "thorough"
    found = 0
    # ---------------- (A) rich core programs: engine vs reference interpreter of the tree
    na = 12000 if thorough else 700
    trees, gens = [], []
    p = os.path.join(C.VERIF, "corpus", "C03", "raw.txt")
    corpus = [l.rstrip("\n").split("\t") for l in open(p) if l.strip() and not l.startswith("#")] if os.path.exists(p) else []
    hist = {}
    for _ in range(na):
        g = coregen.CoreGen(rng.fork())
        trees.append(g.program(rng.range(3, 7)))
        gens.append(g)
        for k, v in g.hist.items():
            hist[k] = hist.get(k, 0) + v
    ctx.cov["constructs_rich"] = hist
    texts = [core.program_text(t) for t in trees]
    with ctx.timer("reference"):
        spec = []
        for t in trees:
            try:
                spec.append(core.run_reference(t))
            except RuntimeError:
                spec.append("REF-STEPS")
    with ctx.timer("impl"):
        out, r1 = C.run_harness_resilient(exe, [], ["1000000 std 1 opt %s" % t.encode().hex() for t in texts] +
                                          ["1000000 std 1 opt %s" % c[0].encode().hex() for c in corpus], timeout=900 if not thorough else 3000, mem_gb=6)
    nt = set()
    skipped = known = 0
    for g, tree, t, s, o in zip(gens, trees, texts, spec, out):
        co = canon_core(o)
        ctx.hist("outcomes_rich", co.split(" out=")[0][4:])
        if s == "REF-STEPS" or big_ints(s) or big_ints(co):
            skipped += 1
            continue
        nt.add(t)
        if co != s:
            if "container-copy-element-write" in g.flags and co == core.run_reference(tree, shallow_containers=True) and ctx.known_finding("CONTAINER_COPY_SHALLOW", t[:200]):
                known += 1
                continue
            found += 1
            if found <= 5:
                ctx.violation("input", {"mode": "evalprog", "program": t, "expected_reference": s, "observed": co,
                                        "how_to_replay": "printf '1000000 std 1 opt %s\\n' | build/harness/evalprog/<bin>" % t.encode().hex()})
    for (src, want), o in zip(corpus, out[len(texts):]):
        co = canon_core(o)
        ctx.count("evaluations", 1)
        if co != want:
            if "CONTAINER_COPY_SHALLOW" in want and ctx.known_finding("CONTAINER_COPY_SHALLOW", src):
                continue
            found += 1
            ctx.violation("input", {"mode": "evalprog", "program": src, "expected_reference": want, "observed": co})
    ctx.count("evaluations", len(texts))
    ctx.count("skipped_outside_property", skipped)
    ctx.count("known_finding_cases", known)
    ctx.cov["distinct_nontrivial"] = ctx.cov.get("distinct_nontrivial", 0) + len(nt)
    # ---------------- (B) programs in the model's syntax: engine vs python reference vs Lean evaluator
    nb = 8000 if thorough else 500
    sx = []
    hist2 = {}
    for _ in range(nb):
        g = progs.Gen(rng.fork(), feat=dict(strs=True, refassign=rng.chance(1, 2)))
        sx.append(g.program(rng.range(2, 5)))
        for k, v in g.hist.items():
            hist2[k] = hist2.get(k, 0) + v
    ctx.cov["constructs_model_syntax"] = hist2
    with ctx.timer("model"):
        src = C.run_driver("chai-print", sx)
        mout = C.run_driver("chai", ["run 1000000 std 1 " + s for s in sx], timeout=1800)
    with ctx.timer("reference"):
        spec2 = []
        for s in sx:
            try:
                spec2.append(pyref.run_program(s, 1000000, "std"))
            except Exception as ex:
                spec2.append("PYREF-ERROR %r" % ex)
    with ctx.timer("impl"):
        iout, r2 = C.run_harness_resilient(exe, [], ["1000000 std 1 opt %s" % t.encode().hex() for t in src], timeout=900 if not thorough else 3000, mem_gb=6)
    ctx.cov["harness_restarts"] = r1 + r2
    lines = []
    for m, sp in zip(mout, spec2):
        d = C.split_model_line(m)
        lines.append("model=%s\tspec=%s\ttags=%s" % (strip_shape(d.get("model", m)), sp, tags_of(d.get("model", ""))))
    def known_b(line, spec, impl, model, tags):
        if impl == model and "1" in tags.split(","):
            return "PARAM_TEMPORARY_ALIASED"
        return None
    found += C.compare_streams(ctx, "evalprog", [t[:900] for t in src], lines, [strip_shape(o) for o in iout], known=known_b,
                               skip=lambda spec, model, line: big_ints(spec) or big_ints(model),
                               nontrivial=lambda impl, line: True, bucket=lambda line: "model-syntax")
    # ---------------- (C) the precedence core: real parser vs C's table (independent precedence-climbing reference) vs M-PREC
    found += prec_stage(ctx, 30000 if thorough else 2500)
    ctx.cov["rule"] = ("(A) %d generated rich-core programs printed with minimal parentheses, engine vs gen/core.py reference; (B) %d generated programs in the model's syntax, "
                       "engine vs gen/pyref.py vs the Lean evaluator; distinct = distinct program texts; every program is non-trivial (it prints and is compared in full); "
                       "runs whose integers leave the int range are skipped" % (na, nb))
    ctx.sample(texts[0][:600])
    ctx.sample(src[0][:400])
    C.conclude(ctx, found > 0)
