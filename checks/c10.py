# C10 — exceptions are delivered, not lost or altered.
import os, sys
import common as C
sys.path.insert(0, os.path.join(C.VERIF, "gen"))
import progs, pyref

LEVEL = "proof"
META = dict(
    technique="Lean 4 theorems about the Try node of the evaluator model (clause scan, first match, rethrow of unmatched exceptions, finally placement) + differential correspondence of generated try/throw nests against the real engine AND an independent Python reference interpreter",
    text=("Kernel-checked on the evaluator model, for every state and sufficient fuel: clauses that reject the exception are skipped without running any "
          "block or changing the state [catches_all_reject]; the first accepting clause runs once with the value bound and later clauses are not looked at "
          "[catches_first_match]; an exception no clause accepts leaves the try statement as the very same exception, after the finally block has run once "
          "[try_unmatched_rethrows, try_unmatched_finally_then_rethrows]; return/break/continue pass through finally [try_escape_runs_finally]; the "
          "catchable kinds are script values, eval_error and std::exception-derived exceptions, a non-std C++ type is not [catchable_kinds]. Deciding part: "
          "generated nests of try / typed and untyped catch / finally across defs and lambdas, throwing ints, bools, strings, arithmetic errors, lookup "
          "errors, and C++ exceptions of five kinds from callbacks at a random invocation; outcome class and payload leaving eval, printed trace and callback "
          "log on the real engine must equal (a) the Lean model and (b) an independent Python interpreter that uses Python's own try/except/finally. Regenerated "
          "from the source on every run (extract/e_catches.py -> Gen/Catches.lean, every catch clause of the dispatch kit, evaluator, engine and optimizer): a handler "
          "whose type can be a user's exception (`...`, std::exception and subclasses, eval_error, Boxed_Value) either rethrows or is one of the pinned, commented "
          "sites of Model/Chai/Catches.lean [no_new_absorbing_handlers]. Outside the model: conversion-dispatch pairs — the same script with a call argument in the "
          "parameter's own type and in another arithmetic type, under every injected exception kind, inside typed catch ladders / finally / nested calls / for_each — "
          "must deliver the same outcome."),
    note=("Trusted: Lean kernel, Model/Chai (hand model), gen/pyref.py (independent oracle), harness/evalprog.cpp, extract/e_catches.py (a syntactic census: caught "
          "type and whether the handler body contains `throw;` / another throw). Methods, bound functions, user C++ exception types and exception_specification unboxing are not covered yet (planned, DESIGN §6 C10)."),
    design_ref="DESIGN.md §6 C10")

KINDS = ["runtime", "range", "std", "nonstd", "eval", "boxed"]


import re


def strip_shape(x):
    return " ".join(p for p in x.split(" ") if not p.startswith(("shape=", "tags=")))


def tags_of(x):
    m = re.search(r" tags=(\S+)", x)
    return m.group(1) if m else ""


def big_ints(x):
    return any(abs(int(v)) >= 2 ** 30 for v in re.findall(r"i(-?\d+)", x))


# ---- exceptions crossing a call that needed an arithmetic conversion (dispatch_with_conversions) or a multi-candidate dispatch: outside the model.
# Metamorphic oracle: the SAME script with the argument spelled in the parameter's own type (exact dispatch) and in another arithmetic type
# (converting dispatch) must deliver the same exception (kind, value, output, callback log) under the same injected fault.
CONV_FUNS = [("def g%d(double d) { cb1(1); 5 }", "g%d(%s)", "1.5", "1"), ("def g%d(int d) { cb1(1); pr(d); d }", "g%d(%s)", "2", "2.0"),
             ("def g%d(double d) { no_such_%d(1) }", "g%d(%s)", "1.5", "1"), ("def g%d(double d) { throw(d) }", "g%d(%s)", "2.0", "2"),
             ("def g%d(double d) { cb1(1); cb2(2) }; def h%d(double d) { g%d(d) + 1 }", "h%d(%s)", "1.5", "1"),
             ("def g%d(int d) { var v = [1, 2, 3]; v[d] }", "g%d(%s)", "7", "7.0"),
             ("def g%d(double a, int b) { cb1(b) }", "g%d(1.5, %s)", "2", "2.0"),
             ("def g%d(double d) { cb1(1) }; def g%d(string s) { cb2(2) }", "g%d(%s)", "1.5", "1"),
             ("var v%d = [1, 2, 3]", "v%d[%s]", "5", "5l"), ("var v%d = [1, 2, 3]", "v%d[%s]", "1", "1l"),
             ("var s%d = \"abc\"", "cb1(s%d[%s])", "1", "1l"), ("def g%d(double d) { [1, 2].for_each(fun(e) { cb1(e) }) }", "g%d(%s)", "1.5", "1")]
CONV_USE = ["%s", "try { %s } catch (runtime_error e) { pr(1) } catch (eval_error e) { pr(2) } catch (e) { pr(3) }",
            "try { %s } catch (eval_error e) { pr(2) } catch (out_of_range e) { pr(4) }", "try { %s } catch (e) { pr(3); throw(e) }",
            "try { %s } catch (int e) { pr(5) } finally { pr(6) }", "def w%d() { %s }; w%d()", "[1].for_each(fun(q) { %s })",
            "try { %s } catch (logic_error e) { pr(8) } catch (exception e) { pr(9) }"]


def conv_dispatch_pairs(rng, n):
    out, k = [], 500
    for _ in range(n):
        k += 1
        d, call, exact, conv = rng.choice(CONV_FUNS)
        u = rng.choice(CONV_USE).replace("%d", str(k))
        pair = []
        for arg in (exact, conv):
            pair.append(d.replace("%d", str(k)) + "; " + u.replace("%s", call.replace("%d", str(k)).replace("%s", arg)))
        out.append(tuple(pair))
    return out


def run(ctx):
    sys.path.insert(0, os.path.join(C.VERIF, "extract"))
    import e_catches
    C.run_extractor(ctx, "catches", e_catches, "Catches.lean")
    status, text, rc = C.lean_obligations(ctx, ["C10"])
    have_driver = (rc == 0 and os.path.exists(C.driver_path())) or C.ensure_driver(ctx, [])
    with ctx.timer("harness_build"):
        exe, log = C.harness_build("evalprog")
    if exe is None or not have_driver:
        ctx.oblige("harness/driver build", False, (log or "")[-1500:])
        C.conclude(ctx, False)
        return
    rng = ctx.rng
    thorough = ctx.tier == "thorough"
    nprog = 20000 if thorough else 600
    p = os.path.join(C.VERIF, "corpus", "C10", "progs.txt")
    sx = [l.strip() for l in open(p) if l.strip() and not l.startswith("#")] if os.path.exists(p) else []
    ncorpus = len(sx)
    hist = {}
    for _ in range(nprog):
        g = progs.Gen(rng.fork(), feat=dict(strs=True, trybias=True, refs=False, exctypes=True))
        sx.append(g.program(rng.range(2, 5)))
        for k, v in g.hist.items():
            hist[k] = hist.get(k, 0) + v
    ctx.cov["constructs"] = hist
    faults = [(1000000, "std")] * ncorpus + [((rng.below(6), rng.choice(KINDS)) if rng.chance(1, 2) else (1000000, "std")) for _ in range(nprog)]
    with ctx.timer("model"):
        src = C.run_driver("chai-print", sx)
        mout = C.run_driver("chai", ["run %d %s 1 %s" % (k, kind, s) for (k, kind), s in zip(faults, sx)], timeout=1800)
    with ctx.timer("pyref"):
        spec = []
        for (k, kind), s in zip(faults, sx):
            try:
                spec.append(pyref.run_program(s, k, kind))
            except Exception as ex:
                spec.append("PYREF-ERROR %r" % ex)
    cases = ["%d %s 1 opt %s" % (k, kind, t.encode().hex()) for (k, kind), t in zip(faults, src)]
    with ctx.timer("impl"):
        iout, restarts = C.run_harness_resilient(exe, [], cases, timeout=600 if not thorough else 3000, mem_gb=6)
    lines = []
    for m, sp in zip(mout, spec):
        d = C.split_model_line(m)
        lines.append("model=%s\tspec=%s\ttags=%s" % (strip_shape(d.get("model", m)), sp, tags_of(d.get("model", ""))))
    labels = ["fault@%d/%s :: %s" % (k, kind, t[:600]) for (k, kind), t in zip(faults, src)]
    def known(line, spec, impl, model, tags):
        # the model reproduces the implementation and says which known rule fired
        if impl == model and "1" in tags.split(","):
            return "PARAM_TEMPORARY_ALIASED"
        return None
    found = C.compare_streams(ctx, "evalprog", labels, lines, [strip_shape(o) for o in iout], known=known,
                              skip=lambda spec, model, line: big_ints(spec) or big_ints(model),
                              nontrivial=lambda impl, line: "try" in line, bucket=lambda line: "try-nest" if "try" in line else "no-try")
    # conversions / multi-candidate dispatch on the way of an exception
    pairs = conv_dispatch_pairs(rng, 1500 if thorough else 150)
    pcases, pmeta = [], []
    for a, b in pairs:
        for k, kind in [(1000000, "std")] + [(k, kind) for k in (0, 1) for kind in KINDS]:
            pcases.append("%d %s 1 opt %s" % (k, kind, a.encode().hex()))
            pcases.append("%d %s 1 opt %s" % (k, kind, b.encode().hex()))
            pmeta.append((a, b, k, kind))
    with ctx.timer("impl"):
        pout, _ = C.run_harness_resilient(exe, [], pcases, timeout=600, mem_gb=6)
    ctx.count("evaluations", len(pcases))
    ndiff = 0
    for i, (a, b, k, kind) in enumerate(pmeta):
        oa, ob = pout[2 * i], pout[2 * i + 1]
        ctx.hist("conversion_pair_outcomes", " ".join(oa.split(" ")[:2])[:40])
        if oa != ob or oa.startswith("res=parse-error") or "crash" in oa[:12]:
            ndiff += 1
            found += 1
            if ndiff <= 4:
                ctx.violation("input", {"mode": "evalprog", "fault": {"callback_invocation": k, "kind": kind}, "script_exact_argument": a, "observed_exact": oa,
                                        "script_converted_argument": b, "observed_converted": ob,
                                        "expected": "the same exception / result whether or not the call needed an arithmetic conversion"})
    ctx.cov["conversion_pairs"] = len(pairs)
    ctx.cov["harness_restarts"] = restarts
    ctx.cov["rule"] = ("generated programs biased towards try/catch/finally nests and throws, half of them with a C++ exception injected at a random callback invocation; "
                       "spec = independent Python interpreter, model = Lean evaluator; non-trivial = the program contains a try; distinct = distinct (program, fault)")
    ctx.sample(labels[ncorpus][:400] if len(labels) > ncorpus else labels[0][:400])
    ctx.sample(labels[-1][:400])
    C.conclude(ctx, found > 0)
