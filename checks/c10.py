# C10 — exceptions are delivered, not lost or altered.
import os, sys
import common as C
sys.path.insert(0, os.path.join(C.VERIF, "gen"))
import progs, pyref

LEVEL = "proof"
META = dict(
    technique="Lean 4 theorems about the Try node of the evaluator model (clause scan, first match, rethrow of unmatched exceptions, finally placement) + differential correspondence of generated try/throw nests against the real engine AND an independent Python reference interpreter",
    text=("Kernel-checked on the evaluator model, for every state and sufficient fuel: clauses that reject the exception are skipped without running any "
          "block or changing the state [catches_all_reject]; the first accepting clause runs once with the value bound and later clauses are not looked at "
          "[catches_first_match]; an exception no clause accepts leaves the try statement as the very same exception, after the finally block has run once "
          "[try_unmatched_rethrows, try_unmatched_finally_then_rethrows]; return/break/continue pass through finally [try_escape_runs_finally]; the "
          "catchable kinds are script values, eval_error and std::exception-derived exceptions, a non-std C++ type is not [catchable_kinds]. Deciding part: "
          "generated nests of try / typed and untyped catch / finally across defs and lambdas, throwing ints, bools, strings, arithmetic errors, lookup "
          "errors, and C++ exceptions of five kinds from callbacks at a random invocation; outcome class and payload leaving eval, printed trace and callback "
          "log on the real engine must equal (a) the Lean model and (b) an independent Python interpreter that uses Python's own try/except/finally."),
    note=("Trusted: Lean kernel, Model/Chai (hand model), gen/pyref.py (independent oracle), harness/evalprog.cpp. Methods, bound functions, library callbacks "
          "(for_each/map), user C++ exception types and exception_specification unboxing are not covered yet (planned, DESIGN §6 C10)."),
    design_ref="DESIGN.md §6 C10")

KINDS = ["runtime", "range", "std", "nonstd", "eval", "boxed"]


import re


def strip_shape(x):
    return " ".join(p for p in x.split(" ") if not p.startswith(("shape=", "tags=")))


def tags_of(x):
    m = re.search(r" tags=(\S+)", x)
    return m.group(1) if m else ""


def big_ints(x):
    return any(abs(int(v)) >= 2 ** 30 for v in re.findall(r"i(-?\d+)", x))


def run(ctx):
    status, text, rc = C.lean_obligations(ctx, ["C10"])
    have_driver = (rc == 0 and os.path.exists(C.driver_path())) or C.ensure_driver(ctx, [])
    with ctx.timer("harness_build"):
        exe, log = C.harness_build("evalprog")
    if exe is None or not have_driver:
        ctx.oblige("harness/driver build", False, (log or "")[-1500:])
        C.conclude(ctx, False)
        return
    rng = ctx.rng
    thorough = ctx.tier == "thorough"
    nprog = 20000 if thorough else 600
    p = os.path.join(C.VERIF, "corpus", "C10", "progs.txt")
    sx = [l.strip() for l in open(p) if l.strip() and not l.startswith("#")] if os.path.exists(p) else []
    ncorpus = len(sx)
    hist = {}
    for _ in range(nprog):
        g = progs.Gen(rng.fork(), feat=dict(strs=True, trybias=True, refs=False, exctypes=True))
        sx.append(g.program(rng.range(2, 5)))
        for k, v in g.hist.items():
            hist[k] = hist.get(k, 0) + v
    ctx.cov["constructs"] = hist
    faults = [(1000000, "std")] * ncorpus + [((rng.below(6), rng.choice(KINDS)) if rng.chance(1, 2) else (1000000, "std")) for _ in range(nprog)]
    with ctx.timer("model"):
        src = C.run_driver("chai-print", sx)
        mout = C.run_driver("chai", ["run %d %s 1 %s" % (k, kind, s) for (k, kind), s in zip(faults, sx)], timeout=1800)
    with ctx.timer("pyref"):
        spec = []
        for (k, kind), s in zip(faults, sx):
            try:
                spec.append(pyref.run_program(s, k, kind))
            except Exception as ex:
                spec.append("PYREF-ERROR %r" % ex)
    cases = ["%d %s 1 opt %s" % (k, kind, t.encode().hex()) for (k, kind), t in zip(faults, src)]
    with ctx.timer("impl"):
        iout, restarts = C.run_harness_resilient(exe, [], cases, timeout=600 if not thorough else 3000, mem_gb=6)
    lines = []
    for m, sp in zip(mout, spec):
        d = C.split_model_line(m)
        lines.append("model=%s\tspec=%s\ttags=%s" % (strip_shape(d.get("model", m)), sp, tags_of(d.get("model", ""))))
    labels = ["fault@%d/%s :: %s" % (k, kind, t[:600]) for (k, kind), t in zip(faults, src)]
    def known(line, spec, impl, model, tags):
        # the model reproduces the implementation and says which known rule fired
        if impl == model and "1" in tags.split(","):
            return "PARAM_TEMPORARY_ALIASED"
        return None
    found = C.compare_streams(ctx, "evalprog", labels, lines, [strip_shape(o) for o in iout], known=known,
                              skip=lambda spec, model, line: big_ints(spec) or big_ints(model),
                              nontrivial=lambda impl, line: "try" in line, bucket=lambda line: "try-nest" if "try" in line else "no-try")
    ctx.cov["harness_restarts"] = restarts
    ctx.cov["rule"] = ("generated programs biased towards try/catch/finally nests and throws, half of them with a C++ exception injected at a random callback invocation; "
                       "spec = independent Python interpreter, model = Lean evaluator; non-trivial = the program contains a try; distinct = distinct (program, fault)")
    ctx.sample(labels[ncorpus][:400] if len(labels) > ncorpus else labels[0][:400])
    ctx.sample(labels[-1][:400])
    C.conclude(ctx, found > 0)
