# C18 — JSON conversion round-trips and tolerates any input.
import os, sys
import common as C
sys.path.insert(0, os.path.join(C.VERIF, "extract"))
import e_json

LEVEL = "proof"
META = dict(
    technique="Lean 4 proof: from_json(to_json(v)) = v for every value of null / bool / 64-bit int / byte strings / nested arrays / string-keyed objects, by induction over the whole recursive-descent parser model against the printer, and idempotence from_json∘to_json∘from_json = from_json on every accepted double-free text by a second induction over the parser (plus the leaf round trips and the nesting bound; tables and read census regenerated from utility/json.hpp) + ASan differential correspondence of from_json/to_json on generated trees and mutated texts",
    text=("Kernel-checked: for every byte string s, parse_string applied to the quoted json_escape of s — anywhere in the input — returns exactly s and stops "
          "after the closing quote [unescape_escape]; decimal printing and parse_num<int64_t> round-trip every value below 2^63 [int_text_roundtrip]; a "
          "parse_next frame beyond depth 512 is an error, never deeper recursion [parse_depth_bounded]; the escape/unescape tables of the model are the "
          "source's, every character read in JSONParser is bounds-checked (str.at/substr census) and out_of_range is mapped to runtime_error "
          "[json_tables_and_census]. WHOLE VALUES [value_roundtrip_partial; Lemmas/JsonRoundtrip.lean]: for every value built from null, booleans, integers strictly "
          "inside the 64-bit range, strings of arbitrary bytes, arrays and string-keyed objects with pairwise different keys, nested below the parser's limit, "
          "parsing the text dump prints returns exactly the value — white space, first-character dispatch, the number scanner and its terminator rule, the array "
          "and object loops with their separators and indentation, operator[] on the flat map, the depth guard and the fuel are all inside the proof. ACCEPTED TEXTS [accepted_text_gives_plain_value, text_idempotent_partial; Lemmas/JsonIdem.lean]: "
          "whatever text the parser accepts — any bytes, white space, repeated keys, escapes — the value it returns nests no deeper than the guard allows and has no "
          "key twice (induction over every branch of parse_next and both loops), hence from_json(to_json(from_json(t))) = from_json(t) for every accepted text whose "
          "value holds no floating-point number and no INT64_MIN. Not proved: doubles (the property allows 1e-6). The executable model of "
          "JSONParser/dump/from_json (objects as key-sorted maps) is also compared with the real from_json/to_json on generated value trees (strings over all "
          "byte values) and on mutated/truncated/arbitrary texts, together with the property's own oracles from_json(to_json(v)) = v and idempotence, "
          "under ASan+UBSan; nesting bombs must raise, not crash. Doubles: 1e-6 tolerance, compared outside Lean."),
    note=("Trusted: Lean kernel, extract/e_json.py, harness/json.cpp (structural equality with the 1e-6 tolerance), python tree oracle. The json harness is "
          "built without -fsanitize=signed-integer-overflow: parse_num<int64_t> overflows (undefined, wraps in practice) on >19-digit integers; the result is "
          "still 'a value', which is all the property demands there (recorded in DESIGN.md as an observation)."),
    design_ref="DESIGN.md §6 C18")

ESC = {34: b'\\"', 92: b"\\\\", 8: b"\\b", 12: b"\\f", 10: b"\\n", 13: b"\\r", 9: b"\\t"}


def esc(bs):
    return b"".join(ESC.get(c, bytes([c])) for c in bs)


def gen_str(rng):
    n = rng.choice([0, 1, 2, 3, 5, 8])
    return bytes(rng.choice([rng.range(32, 126), rng.range(1, 255), 34, 92, 10, 9, 47, 0x7f, 0x80, 0xff, 0, 8, 12, 13]) for _ in range(n))


def gen_tree(rng, depth):
    k = rng.below(10 if depth > 0 else 6)
    if k == 0:
        return None
    if k == 1:
        return rng.chance(1, 2)
    if k in (2, 3):
        return rng.choice([0, 1, -1, rng.range(-1000, 1000), 2 ** 31, -2 ** 31, 2 ** 63 - 1, -(2 ** 63) + 1, rng.range(-2 ** 62, 2 ** 62)])
    if k in (4, 5):
        return gen_str(rng)
    if k in (6, 7):
        return [gen_tree(rng, depth - 1) for _ in range(rng.range(0, 4))]
    return {"__obj__": [(gen_str(rng), gen_tree(rng, depth - 1)) for _ in range(rng.range(0, 4))]}


def ws(rng):
    return rng.choice([b"", b"", b" ", b"\n", b"\t ", b"  "])


def text_of(t, rng):
    if t is None:
        return b"null"
    if t is True:
        return b"true"
    if t is False:
        return b"false"
    if isinstance(t, int):
        return str(t).encode()
    if isinstance(t, bytes):
        return b'"' + esc(t) + b'"'
    if isinstance(t, list):
        return b"[" + ws(rng) + (b"," + ws(rng)).join(text_of(x, rng) + ws(rng) for x in t) + b"]"
    kv = t["__obj__"]
    return b"{" + ws(rng) + (b"," + ws(rng)).join(text_of(k, rng) + ws(rng) + b":" + ws(rng) + text_of(v, rng) + ws(rng) for k, v in kv) + b"}"


def canon_of(t):
    if t is None:
        return "n"
    if t is True:
        return "b1"
    if t is False:
        return "b0"
    if isinstance(t, int):
        return "i%d" % t
    if isinstance(t, bytes):
        return "s" + t.hex()
    if isinstance(t, list):
        return "[" + ",".join(canon_of(x) for x in t) + "]"
    d = {}
    for k, v in t["__obj__"]:
        d[k] = v
    return "{" + ",".join(k.hex() + ":" + canon_of(d[k]) for k in sorted(d)) + "}"


def mutate(rng, b):
    b = bytearray(b)
    for _ in range(rng.range(1, 3)):
        k = rng.below(6)
        if k == 0 and b:
            del b[rng.below(len(b))]
        elif k == 1:
            b.insert(rng.below(len(b) + 1), rng.choice(list(b'[]{}",:\\0123456789-+.eEtfn \n\x00\xff') + [rng.below(256)]))
        elif k == 2 and b:
            b = b[:rng.below(len(b))]
        elif k == 3 and b:
            b[rng.below(len(b))] = rng.below(256)
        elif k == 4:
            i = rng.below(len(b) + 1)
            b[i:i] = rng.choice([b"1e5", b"-", b"1.5", b"\\u12G4", b"\\u00e9", b"\\q", b"99999999999999999999999", b"1e400", b"tru", b"nul", b"[[", b"}}", b"1.2.3", b"-0", b"0e", b"\\"])
        else:
            b = b + b[: rng.below(len(b) + 1)]
    return bytes(b)


def run(ctx):
    C.run_extractor(ctx, "json", e_json, "Json.lean")
    status, text, rc = C.lean_obligations(ctx, ["C18"])
    have_driver = (rc == 0 and os.path.exists(C.driver_path())) or C.ensure_driver(ctx, ["Json.lean"])
    with ctx.timer("harness_build"):
        exe, log = C.harness_build("json")
    if exe is None or not have_driver:
        ctx.oblige("harness/driver build", False, (log or "")[-1500:])
        C.conclude(ctx, False)
        return
    rng = ctx.rng
    thorough = ctx.tier == "thorough"
    ntree, nmut = (20000, 40000) if thorough else (1000, 2000)
    p = os.path.join(C.VERIF, "corpus", "C18", "cases.txt")
    cases = [l.strip() for l in open(p) if l.strip() and not l.startswith("#")] if os.path.exists(p) else []
    oracle = {}
    trees = []
    for _ in range(ntree):
        t = gen_tree(rng, 4)
        txt = text_of(t, rng)
        line = "parse " + (txt.hex() or "-")
        oracle[line] = canon_of(t)
        trees.append(txt)
        cases.append(line)
    for _ in range(nmut):
        base = rng.choice(trees) if rng.chance(4, 5) else bytes(rng.below(256) for _ in range(rng.range(0, 12)))
        cases.append("parse " + (mutate(rng, base).hex() or "-"))
    # nesting bombs (implementation only needs to answer; the model is given them too up to a size it handles quickly)
    bombs = []
    for d in ([100, 511, 512, 513, 5000, 200000] if thorough else [511, 512, 513, 100000]):
        for opener in (b"[", b'{"a":'):
            bombs.append("parse " + (opener * d).hex())
    # history independence: the same text must get the same answer before and after rejected over-deep inputs
    # (the parser keeps a per-thread depth counter between calls)
    probes = ["parse " + (b"[" * d + b"1" + b"]" * d).hex() for d in (1, 100, 500, 505, 508, 510, 511, 512, 513)]
    probes += cases[:150]
    with ctx.timer("model"):
        mout = C.run_driver("json", cases)
    with ctx.timer("impl"):
        iout, restarts = C.run_harness_resilient(exe, [], cases + probes + bombs + probes, timeout=1200)
    ctx.cov["harness_restarts"] = restarts
    n0 = len(cases)
    pre, bomb_out, post = iout[n0:n0 + len(probes)], iout[n0 + len(probes):n0 + len(probes) + len(bombs)], iout[n0 + len(probes) + len(bombs):]
    iout = iout[:n0]
    hist_bad = [(l, a, b_) for l, a, b_ in zip(probes, pre, post) if a != b_]
    extra = []

    def canon_impl(t, line):
        # split the implementation's own oracles off; keep value + dump for the model comparison
        if t.startswith("ok "):
            w = t.split(" ")
            flags = [x for x in w if x.startswith(("rt=", "idem="))]
            if any(f not in ("rt=same", "idem=same", "rt=nonfinite") for f in flags):
                extra.append((line, t, "from_json(to_json(v)) = v and idempotence"))
            core = " ".join(x for x in w if not x.startswith(("rt=", "idem=")))
            if line in oracle and w[1] != oracle[line]:
                extra.append((line, t, "from_json of the generated text must be the generated tree %s" % oracle[line][:200]))
            return core
        if t.startswith("error") and "LEAK" not in t:
            return "error"
        return t

    def canon_model(t, line):
        return "error" if t.startswith("error") else t
    found = C.compare_streams(ctx, "json", cases, mout, iout, canon_impl=canon_impl, canon_model=canon_model,
                              nontrivial=lambda impl, line: impl.startswith("ok"))
    for line, t, why in extra[:5]:
        found += 1
        ctx.violation("input", {"mode": "json", "case": line, "text": bytes.fromhex(line.split()[1].replace("-", "")).decode("latin-1"), "observed": t[:400], "expected": why})
    ctx.count("oracle_disagreements", len(extra))
    for line, o in zip(bombs, bomb_out):
        ctx.count("evaluations")
        if not (o.startswith("error:runtime_error") or o.startswith("ok")):
            found += 1
            ctx.violation("input", {"mode": "json", "case": line[:80] + "...", "nesting": len(line) // 2, "observed": o[:300], "expected": "a value or an exception, never a crash"})
    ctx.count("evaluations", 2 * len(probes))
    ctx.count("history_probe_disagreements", len(hist_bad))
    for l, a_, b_ in hist_bad[:3]:
        found += 1
        ctx.violation("history", {"mode": "json", "history": "%d earlier texts, then %d rejected over-deep texts, then the same text again" % (n0, len(bombs)),
                                  "case": l[:120] + ("..." if len(l) > 120 else ""), "answer_before": a_[:200], "answer_after": b_[:200],
                                  "expected": "from_json of a text does not depend on what was parsed (and rejected) before"})
    ctx.cov["nesting_bombs"] = [(len(l.split()[1]) // 2, o[:40]) for l, o in zip(bombs, bomb_out)]
    ctx.cov["rule"] = ("generated value trees (depth <= 4; strings over all byte values) printed as JSON with varied whitespace: from_json must equal the tree, "
                       "to_json/from_json must round-trip and be idempotent, and model = implementation on value and dump text; mutated/truncated/arbitrary "
                       "texts: value-or-exception, same oracles when accepted; nesting bombs; non-trivial = accepted texts; distinct = distinct texts")
    for s in (cases[0], cases[len(cases) // 2], cases[-1]):
        ctx.sample(s[:200])
    C.conclude(ctx, found > 0)
