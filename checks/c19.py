# C19 — evaluating a file means evaluating its bytes; use() evaluates once.
import itertools, os, sys
import common as C
sys.path.insert(0, os.path.join(C.VERIF, "extract"))
import e_file

LEVEL = "proof"
META = dict(
    technique="Lean 4 proof over a stream-with-fail-bit model of skip_bom/load_file and an abstract-world model of use(), flags regenerated from chaiscript_engine.hpp + differential correspondence on real files",
    text=("Kernel-checked: for every byte string (lengths 0, 1, 2 included) load_file — with the stream call sequence extracted from the current source — "
          "returns the file's bytes minus one leading BOM [loadFile_strips_bom; short_file_counterexample shows the dependence on the extracted flag]; "
          "use() evaluates the first search path under which the file exists, exactly once, records it only after a successful evaluation, is a no-op "
          "for a recorded path, propagates nested failures and raises file_not_found when nothing matches [use_search_order, use_recorded_is_noop, "
          "use_records_on_success_only, use_missing_file]. eval_file = eval(load_file(path)) is a census fact. Correspondence: every content of length "
          "<= 4 over {7, space, LF, EF, BB, BF, NUL} plus generated programs (BOM/CRLF/shebang/trailing NUL): load_file's bytes vs model/spec and "
          "eval_file vs eval of the stripped bytes on the real engine; generated use() histories over several files and search paths vs the model."),
    note=("Trusted: Lean kernel, extract/e_file.py, the three iostream rules encoded in Model/File.lean (short read sets fail; seekg/read on a failed "
          "stream do nothing), harness/file.cpp. The evaluator is abstract in the use() theorems (a World with exists/eval functions)."),
    design_ref="DESIGN.md §6 C19")

ALPHA = [0x37, 0x20, 0x0a, 0xEF, 0xBB, 0xBF, 0x00]
PROGS = [b"log(1); 7", b"var x = 3\nx * 2", b"#!/usr/bin/chai\nlog(2)\n5", b"", b" ", b"7", b"x", b"\n", b"log(3)\r\nlog(4)\r\n9", b"1 +", b"\"abc\"",
         b"def f(a) { a + 1 }\nf(2)", b"true", b"7\x00", b"7\x00\x00\x00", b"log(5)\n\n\n", b"// only a comment", b"/* c */ 4", b"3.5", b"\xef\xbb", b"\xef",
         b"throw(42)", b"log(6); throw(\"boom\")", b"throw(2.5)", b"throw(true)", b"log(7)\nthrow([1])", b"def g() { throw(3) }\ng()", b"try { throw(1) } catch (e) { log(8); throw(e + 1) }",
         b"\"a string result\"", b"var v = [1, 2]\nv[5]", b"1 / 0", b"no_such_function(1)"]


def run(ctx):
    C.run_extractor(ctx, "file", e_file, "File.lean")
    status, text, rc = C.lean_obligations(ctx, ["C19"])
    have_driver = (rc == 0 and os.path.exists(C.driver_path())) or C.ensure_driver(ctx, ["File.lean"])
    with ctx.timer("harness_build"):
        exe, log = C.harness_build("file")
    if exe is None or not have_driver:
        ctx.oblige("harness/driver build", False, (log or "")[-1500:])
        C.conclude(ctx, False)
        return
    rng = ctx.rng
    thorough = ctx.tier == "thorough"
    cases = []
    maxlen = 5 if thorough else 4
    for n in range(0, maxlen + 1):
        for t in itertools.product(ALPHA, repeat=n):
            cases.append("load " + (bytes(t).hex() or "-"))
    for p in PROGS:
        for pre in (b"", b"\xef\xbb\xbf", b"\xef\xbb\xbf\xef\xbb\xbf"):
            cases.append("load " + ((pre + p).hex() or "-"))
    nhist = 3000 if thorough else 250
    for _ in range(nhist):
        nd = rng.range(1, 3)
        ops = []
        for _ in range(rng.range(2, 14)):
            k = rng.below(10)
            f = rng.range(0, 2)
            if k < 4:
                ops.append("w:%d:%d:%d" % (rng.below(nd), f, rng.choice([0, 0, 0, 1, 2])))
            elif k < 5:
                ops.append("rm:%d:%d" % (rng.below(nd), f))
            else:
                ops.append("u:%d" % f)
        if not any(o.startswith("u:") for o in ops):
            ops.append("u:0")
        cases.append("use %d %s" % (nd, ";".join(ops)))
    with ctx.timer("model"):
        mout = C.run_driver("file", cases)
    with ctx.timer("impl"):
        iout, restarts = C.run_harness_resilient(exe, [], cases)
    ctx.cov["harness_restarts"] = restarts
    disagree = []

    def canon_impl(t, line):
        if line.startswith("load "):
            w = t.split(" ", 2)
            if len(w) >= 2 and w[1] != "agree=1":
                disagree.append((line, t))
            return w[0]
        return t
    found = C.compare_streams(ctx, "file", cases, mout, iout, canon_impl=canon_impl)
    for line, t in disagree[:5]:
        found += 1
        ctx.violation("input", {"mode": "file", "case": line, "observed": t,
                                "expected": "every overload of eval_file (plain, with an exception handler, typed, typed with a handler) behaves like the same overload of eval on the bytes minus one leading BOM: same result, same side effects, same exception"})
    ctx.count("eval_file_vs_eval_disagreements", len(disagree))
    ctx.cov["exhaustive"] = False
    ctx.cov["exhaustive_part"] = "all %d file contents of length <= %d over 7 symbols" % (sum(7 ** n for n in range(maxlen + 1)), maxlen)
    ctx.cov["rule"] = ("exhaustive short contents + program corpus x {no BOM, BOM, double BOM}; seeded use()/write/remove histories over <=3 files and <=3 search "
                       "paths; distinct = distinct case lines; all non-trivial")
    for s in (cases[5], cases[-1]):
        ctx.sample(s)
    C.conclude(ctx, found > 0)
