#!/usr/bin/env python3
# E15: RAII census of the scope / stack / call bookkeeping -> Gen/Raii.lean
#   (a) every call of a push / pop primitive of the Stack_Holder (new_scope, pop_scope, new_stack, pop_stack, new_function_call,
#       pop_function_call): in which struct, and whether in its constructor, its destructor, a same-named forwarder, or elsewhere;
#   (b) for every AST node class of chaiscript_eval.hpp (and the helpers eval_function / get_scoped_bool_condition, and the compiled
#       loop of the optimizer): the guard objects (Scope_Push_Pop, Function_Push_Pop, Stack_Push_Pop) it constructs, in textual order.
import re, sys, os, json
sys.path.insert(0, os.path.dirname(os.path.abspath(__file__)))
from cpptok import *

PRIMS = ["new_scope", "pop_scope", "new_stack", "pop_stack", "new_function_call", "pop_function_call"]
GUARDS = ["Scope_Push_Pop", "Function_Push_Pop", "Stack_Push_Pop"]
FILES = ["include/chaiscript/language/chaiscript_eval.hpp", "include/chaiscript/language/chaiscript_common.hpp", "include/chaiscript/language/chaiscript_optimizer.hpp",
         "include/chaiscript/language/chaiscript_engine.hpp", "include/chaiscript/dispatchkit/dispatchkit.hpp", "include/chaiscript/dispatchkit/proxy_functions.hpp",
         "include/chaiscript/dispatchkit/dynamic_object_detail.hpp", "include/chaiscript/language/chaiscript_parser.hpp"]
STRUCT = re.compile(r"\b(struct|class)\s+([A-Za-z_]\w*)\b[^;{()]*\{")
FUNC = re.compile(r"(~?[A-Za-z_]\w*)\s*\(([^;{}()]|\([^()]*\))*\)\s*(const)?\s*(noexcept)?\s*(override|final)?\s*(->\s*[\w:<>&\s\*]+)?\s*(:[^{};]*)?\{")
KEYWORDS = {"if", "for", "while", "switch", "catch", "return", "sizeof", "decltype"}


def enclosing(src, pos):
    """(innermost struct/class name, innermost function name) whose braces contain pos"""
    best_s, best_f = ("", -1), ("", -1)
    for m in STRUCT.finditer(src):
        o = m.end() - 1
        if o < pos:
            c = match_close(src, o)
            if c > pos and o > best_s[1]:
                best_s = (m.group(2), o)
    for m in FUNC.finditer(src):
        if m.group(1) in KEYWORDS:
            continue
        o = m.end() - 1
        if o < pos:
            c = match_close(src, o)
            if c > pos and o > best_f[1]:
                best_f = (m.group(1), o)
    return best_s[0], best_f[0]


def extract(repo):
    calls, census = [], []
    for rel in FILES:
        p = os.path.join(repo, rel)
        if not os.path.exists(p):
            continue
        src = strip_comments(open(p).read())
        base = os.path.basename(rel)
        for prim in PRIMS:
            for m in re.finditer(r"(?<![\w])" + prim + r"\s*\(", src):
                # skip definitions / declarations: preceded by a type (void / static void) on the same statement
                pre = src[max(0, m.start() - 40):m.start()]
                if re.search(r"\bvoid\s+$", pre):
                    continue
                st, fn = enclosing(src, m.start())
                kind = "ctor" if fn == st and st else "dtor" if fn == "~" + st and st else "forwarder" if fn == prim else "other"
                calls.append({"file": base, "struct": st, "fn": fn, "kind": kind, "prim": prim})
    # (b) guards per AST node class
    ev = strip_comments(open(os.path.join(repo, FILES[0])).read())
    for m in STRUCT.finditer(ev):
        name = m.group(2)
        if not (name.endswith("_AST_Node") or name == "AST_Node_Impl"):
            continue
        o = m.end() - 1
        body = ev[o:match_close(ev, o) + 1]
        gs = [g.group(1) for g in re.finditer(r"\b(" + "|".join(GUARDS) + r")\s+[A-Za-z_]\w*\s*[({]", body)]
        census.append({"node": name, "guards": gs})
    for fn in ["eval_function"]:
        m = re.search(r"\b" + fn + r"\s*\(", ev)
        if m:
            o = ev.index("{", m.end())
            body = ev[o:match_close(ev, o) + 1]
            census.append({"node": fn, "guards": [g.group(1) for g in re.finditer(r"\b(" + "|".join(GUARDS) + r")\s+[A-Za-z_]\w*\s*[({]", body)]})
    op = strip_comments(open(os.path.join(repo, FILES[2])).read())
    m = re.search(r"struct\s+For_Loop\b[^{]*\{", op)
    if m:
        o = m.end() - 1
        body = op[o:match_close(op, o) + 1]
        census.append({"node": "optimizer::For_Loop", "guards": [g.group(1) for g in re.finditer(r"\b(" + "|".join(GUARDS) + r")\s+[A-Za-z_]\w*\s*[({]", body)]})
    # (c) what each DEFINITION of a primitive (and of the Stack_Holder helpers they use) does to the Stack_Holder, in textual order
    dk = strip_comments(open(os.path.join(repo, "include/chaiscript/dispatchkit/dispatchkit.hpp")).read())
    EFFECTS = [("push_scope_data", r"\bpush_stack_data\s*\("), ("push_params", r"\bpush_call_params\s*\("), ("pop_params", r"\bcall_params\s*\.\s*pop_back\s*\("),
               ("pop_scope_data", r"(\bstack\b|get_stack_data\s*\([^()]*\))\s*\.\s*pop_back\s*\("), ("push_stack", r"\bpush_stack\s*\(\s*\)"),
               ("pop_stack", r"\bstacks\s*\.\s*pop_back\s*\("), ("inc_depth", r"\+\+\s*\w+\s*\.\s*call_depth|\bcall_depth\s*\+\+|\bcall_depth\s*\+="),
               ("dec_depth", r"--\s*\w+\s*\.\s*call_depth|\bcall_depth\s*--|\bcall_depth\s*-="), ("clear_params", r"\bcall_params\s*\.\s*back\s*\(\s*\)\s*\.\s*clear\s*\("),
               ("emplace_scope", r"\bstacks\s*\.\s*back\s*\(\s*\)\s*\.\s*emplace_back\s*\("), ("emplace_stack", r"\bstacks\s*\.\s*emplace_back\s*\("),
               ("emplace_params", r"\bcall_params\s*\.\s*emplace_back\s*\("), ("erase", r"\b(stacks|call_params)\s*\.\s*(clear|erase|resize|assign)\s*\(|\bcall_depth\s*=[^=]")]
    defs = []
    for name in PRIMS + ["push_stack_data", "push_stack", "push_call_params"]:
        for m in re.finditer(r"\bvoid\s+" + name + r"\s*\(([^()]*)\)\s*(const)?\s*(noexcept)?\s*\{", dk):
            o = m.end() - 1
            body = dk[o + 1:match_close(dk, o)]
            found = []
            for eff, rx in EFFECTS:
                if eff == "push_stack" and name == "push_stack":
                    continue
                for e in re.finditer(rx, body):
                    found.append((e.start(), eff))
            if name in PRIMS:
                for e in re.finditer(r"(?<![\w.>])" + name + r"\s*\(", body):
                    found.append((e.start(), "forward"))
            defs.append({"prim": name, "holder_param": "Stack_Holder" in m.group(1), "effects": [e for _, e in sorted(found)]})
    defs.sort(key=lambda r: (r["prim"], not r["holder_param"]))
    if len(defs) < 9:
        raise ValueError("only %d primitive definitions recognised" % len(defs))
    if len(census) < 30 or len(calls) < 6:
        raise ValueError("census too small: %d nodes, %d calls" % (len(census), len(calls)))
    calls.sort(key=lambda r: (r["file"], r["struct"], r["fn"], r["prim"]))
    census.sort(key=lambda r: r["node"])
    return {"calls": calls, "census": census, "defs": defs}


def to_lean(x):
    L = ["-- GENERATED by extract/e_raii.py from chaiscript_eval.hpp, chaiscript_common.hpp, chaiscript_optimizer.hpp, dispatchkit.hpp, ... Do not edit.",
         "namespace ChaiVerif.Gen", "", "/-- (file, struct, function, kind, primitive) for every call of a Stack_Holder push / pop primitive -/",
         "def raiiPrimitiveCalls : List (String × String × String × String × String) := ["]
    rows = ["  (%s, %s, %s, %s, %s)" % (lean_str(r["file"]), lean_str(r["struct"]), lean_str(r["fn"]), lean_str(r["kind"]), lean_str(r["prim"])) for r in x["calls"]]
    L.append(",\n".join(rows))
    L += ["]", "", "/-- the guard objects each AST node class constructs, in textual order -/", "def raiiGuards : List (String × List String) := ["]
    rows = ["  (%s, [%s])" % (lean_str(r["node"]), ", ".join(lean_str(g) for g in r["guards"])) for r in x["census"]]
    L.append(",\n".join(rows))
    L += ["]", "", "/-- (primitive, takes the Stack_Holder as a parameter, what its body does to the Stack_Holder in textual order) for every definition -/",
          "def raiiPrimDefs : List (String × Bool × List String) := ["]
    rows = ["  (%s, %s, [%s])" % (lean_str(r["prim"]), lean_bool(r["holder_param"]), ", ".join(lean_str(e) for e in r["effects"])) for r in x["defs"]]
    L.append(",\n".join(rows))
    L += ["]", "end ChaiVerif.Gen"]
    return "\n".join(L) + "\n"


def main(repo, outdir):
    x = extract(repo)
    with open(os.path.join(outdir, "Raii.json"), "w") as f:
        json.dump(x, f, indent=1)
    return to_lean(x)


if __name__ == "__main__":
    print(main(sys.argv[1] if len(sys.argv) > 1 else "/repo", sys.argv[2] if len(sys.argv) > 2 else "/tmp"))
