#!/usr/bin/env python3
# E18: the operator-precedence core of ChaiScript_Parser -> Gen/Prec.lean
#   * the arrays m_0 … m_<k> of Operator_Matches (the symbols of every precedence level) and the order of `create_operators()`
#   * the array `prefix_opers` in Prefix() and the level Prefix() re-enters (`Operator(m_operators.size() - 1)`)
#   * the shape of Operator(t_precedence): which level each recursive call names, the loop, the kind of node each level builds
# Anything not recognised raises (reported as an obligation failure; the committed snapshot keeps the library building).
import re, sys, os
sys.path.insert(0, os.path.dirname(os.path.abspath(__file__)))
from cpptok import *

PATH = "include/chaiscript/language/chaiscript_parser.hpp"


def sym_id(s):
    """symbol -> Nat: its bytes as a little-endian base-256 number (injective on non-empty strings without NUL)"""
    n = 0
    for i, ch in enumerate(s.encode()):
        n += ch << (8 * i)
    return n


def fn_body(src, pat):
    m = re.search(pat, src)
    if not m:
        raise ValueError("not found: " + pat)
    o = src.index("{", m.end() - 1)
    return src[o + 1:match_close(src, o)]


def extract(repo):
    src = strip_comments(open(os.path.join(repo, PATH)).read())
    # --- symbol arrays
    levels = {}
    for m in re.finditer(r"std::array<utility::Static_String,\s*(\d+)>\s*m_(\d+)\s*\{\{(.*?)\}\};", src, re.S):
        syms = re.findall(r'SS\("((?:[^"\\]|\\.)*)"\)', m.group(3))
        if len(syms) != int(m.group(1)):
            raise ValueError("array m_%s: declared %s symbols, read %d" % (m.group(2), m.group(1), len(syms)))
        levels[int(m.group(2))] = syms
    if sorted(levels) != list(range(len(levels))) or not levels:
        raise ValueError("operator arrays are not m_0 … m_k: %s" % sorted(levels))
    # every switch over t_group must map case i -> m_i
    for m in re.finditer(r"case\s+(\d+)\s*:\s*return\s+match\s*\(\s*m_(\d+)\s*\)", src):
        if m.group(1) != m.group(2):
            raise ValueError("group %s is matched against m_%s" % (m.group(1), m.group(2)))
    # --- level kinds
    body = fn_body(src, r"create_operators\s*\(\s*\)\s*noexcept\s*")
    kinds = re.findall(r"Operator_Precedence::(\w+)", body)
    if len(kinds) != len(levels):
        raise ValueError("%d operator arrays but %d precedence levels" % (len(levels), len(kinds)))
    # --- Prefix()
    pbody = fn_body(src, r"\bbool\s+Prefix\s*\(\s*\)\s*")
    m = re.search(r"prefix_opers\s*\{\{(.*?)\}\};", pbody, re.S)
    if not m:
        raise ValueError("prefix_opers not found")
    prefix = re.findall(r'SS\{"((?:[^"\\]|\\.)*)"\}', m.group(1))
    prefix_reenters_last = bool(re.search(r"Operator\s*\(\s*m_operators\.size\(\)\s*-\s*1\s*\)", pbody))
    # --- Operator()
    obody = fn_body(src, r"\bbool\s+Operator\s*\(\s*const\s+size_t\s+t_precedence\s*=\s*0\s*\)\s*")
    calls = [re.sub(r"\s+", "", a) for a in re.findall(r"\bOperator\s*\(([^()]*)\)", obody)]
    sw = obody.find("switch")
    pre_switch = [re.sub(r"\s+", "", a) for a in re.findall(r"\bOperator\s*\(([^()]*)\)", obody[:sw])]
    loop = bool(re.search(r"while\s*\(\s*Operator_Helper\s*\(\s*t_precedence\s*,\s*oper\s*\)\s*\)", obody))
    value_at_prefix = bool(re.search(r"if\s*\(\s*m_operators\[t_precedence\]\s*!=\s*Operator_Precedence::Prefix\s*\)", obody)) and bool(re.search(r"else\s*\{\s*return\s+Value\s*\(\s*\)\s*;", obody))
    # per case label: which node is built
    built = {}
    labels = []
    for m in re.finditer(r"case\s*\(\s*Operator_Precedence::(\w+)\s*\)\s*:|build_match<eval::(\w+)<Tracer>>|break\s*;", obody[sw:]):
        if m.group(1):
            labels.append(m.group(1))
        elif m.group(2):
            for l in labels:
                built[l] = m.group(2)
        else:
            labels = []
    tern = re.search(r"case\s*\(\s*Operator_Precedence::Ternary_Cond\s*\)\s*:(.*?)break\s*;", obody[sw:], re.S)
    tern_calls = [re.sub(r"\s+", "", a) for a in re.findall(r"\bOperator\s*\(([^()]*)\)", tern.group(1))] if tern else []
    tern_colon = bool(tern and re.search(r'if\s*\(\s*Symbol\s*\(\s*":"\s*\)\s*\)', tern.group(1)))
    # --- Equation()
    ebody = fn_body(src, r"\bbool\s+Equation\s*\(\s*\)\s*")
    m = re.search(r"for\s*\(\s*const\s+auto\s*&\s*sym\s*:\s*\{(.*?)\}\s*\)\s*\{", ebody, re.S)
    if not m:
        raise ValueError("the symbol list of Equation() not found")
    assign = re.findall(r'SS\{"((?:[^"\\]|\\.)*)"\}', m.group(1))
    eq_shape = (bool(re.search(r"if\s*\(\s*Operator\s*\(\s*\)\s*\)", ebody)) and bool(re.search(r"if\s*\(\s*!\s*Equation\s*\(\s*\)\s*\)", ebody))
                and "build_match<eval::Equation_AST_Node<Tracer>>(prev_stack_top, sym.c_str())" in re.sub(r"\s+", " ", ebody))
    # --- Symbol(): the symbol alphabet and the look-ahead rule
    sym_alpha = sorted(set(ord(c) for c in re.findall(r"set_alphabet\(\s*alphabet\s*,\s*detail::symbol_alphabet\s*,\s*'(.)'\s*\)", src)))
    if not sym_alpha:
        raise ValueError("symbol alphabet not found")
    sbody = re.sub(r"\s+", " ", fn_body(src, r"\bbool\s+Symbol\s*\(\s*const\s+utility::Static_String\s*&\s*t_s\s*,\s*const\s+bool\s+t_disallow_prevention\s*=\s*false\s*\)\s*"))
    want = ("Depth_Counter dc{this}; SkipWS(); const auto start = m_position; bool retval = Symbol_(t_s); "
            "if (retval && m_position.has_more() && (t_disallow_prevention == false) && char_in_alphabet(*m_position, detail::symbol_alphabet)) { "
            "if (*m_position != '=' && is_operator(Position::str(start, m_position)) && !is_operator(Position::str(start, m_position + 1))) { } "
            "else { m_position = start; retval = false; } } return retval;")
    sym_shape = sbody.strip() == want
    return {"sym_alpha": sym_alpha, "sym_shape": sym_shape, "assign": assign, "eq_shape": eq_shape, "levels": [levels[i] for i in range(len(levels))], "kinds": kinds, "prefix": prefix, "prefix_reenters_last": prefix_reenters_last,
            "calls": calls, "pre_switch": pre_switch, "loop": loop, "value_at_prefix": value_at_prefix, "built": built,
            "tern_calls": tern_calls, "tern_colon": tern_colon}


KIND = {"Ternary_Cond": 0, "Logical_Or": 1, "Logical_And": 2, "Bitwise_Or": 3, "Bitwise_Xor": 4, "Bitwise_And": 5, "Equality": 6, "Comparison": 7,
        "Shift": 8, "Addition": 9, "Multiplication": 10, "Prefix": 11}
NODE = {"If_AST_Node": 0, "Binary_Operator_AST_Node": 1, "Logical_And_AST_Node": 2, "Logical_Or_AST_Node": 3}


def to_lean(x):
    L = ["-- GENERATED by extract/e_prec.py from language/chaiscript_parser.hpp. Do not edit.", "namespace ChaiVerif.Gen", ""]
    L.append("/-- the symbols of every precedence level (m_0 … m_k), each symbol as the little-endian base-256 number of its bytes:")
    for i, syms in enumerate(x["levels"]):
        L.append("      level %d (%s): %s" % (i, x["kinds"][i], " ".join(syms)))
    L.append("-/")
    L.append("def precLevels : List (List Nat) := [" + ", ".join("[" + ", ".join(str(sym_id(s)) for s in syms) + "]" for syms in x["levels"]) + "]")
    L.append("/-- `create_operators()`: the kind of every level, coded as in extract/e_prec.py:KIND (unknown kinds are 99) -/")
    L.append("def precKinds : List Nat := [" + ", ".join(str(KIND.get(k, 99)) for k in x["kinds"]) + "]")
    L.append("/-- `prefix_opers` of Prefix(): %s -/" % " ".join(x["prefix"]))
    L.append("def precPrefix : List Nat := [" + ", ".join(str(sym_id(s)) for s in x["prefix"]) + "]")
    L.append("def precPrefixReentersLast : Bool := %s" % lean_bool(x["prefix_reenters_last"]))
    L.append("/-- Operator(t_precedence): the recursive calls before the switch name these levels (0 = t_precedence, 1 = t_precedence + 1, 9 = other) -/")
    code = lambda a: {"t_precedence": 0, "t_precedence+1": 1}.get(a, 9)
    L.append("def precOperandCalls : List Nat := [" + ", ".join(str(code(a)) for a in x["pre_switch"]) + "]")
    L.append("def precTernaryCalls : List Nat := [" + ", ".join(str(code(a)) for a in x["tern_calls"]) + "]")
    L.append("def precAllCallsCount : Nat := %d" % len(x["calls"]))
    L.append("def precTernaryNeedsColon : Bool := %s" % lean_bool(x["tern_colon"]))
    L.append("def precLoopIsWhileHelper : Bool := %s" % lean_bool(x["loop"]))
    L.append("def precValueAtPrefixLevel : Bool := %s" % lean_bool(x["value_at_prefix"]))
    L.append("/-- (kind of level, node built by its case of the switch; 0 If, 1 Binary_Operator, 2 Logical_And, 3 Logical_Or, 99 other) -/")
    L.append("def precBuilt : List (Nat × Nat) := [" + ", ".join("(%d, %d)" % (KIND.get(k, 99), NODE.get(v, 99)) for k, v in sorted(x["built"].items(), key=lambda kv: KIND.get(kv[0], 99))) + "]")
    L.append("/-- the assignment symbols Equation() tries after an operator expression: %s -/" % " ".join(x["assign"]))
    L.append("def precAssignSymbols : List Nat := [" + ", ".join(str(sym_id(s)) for s in x["assign"]) + "]")
    L.append("/-- Equation(): `if (Operator())`, then for a matching symbol `Equation()` again (or throw) and an Equation node over everything matched -/")
    L.append("def precEquationRecursesIntoEquation : Bool := %s" % lean_bool(x["eq_shape"]))
    L.append("/-- detail::symbol_alphabet: %s -/" % " ".join(chr(c) for c in x["sym_alpha"]))
    L.append("def precSymbolAlphabet : List Nat := [" + ", ".join(str(c) for c in x["sym_alpha"]) + "]")
    L.append("/-- Symbol(t_s, t_disallow_prevention) is, token for token, the function Model/Sym.lean transcribes -/")
    L.append("def precSymbolShape : Bool := %s" % lean_bool(x["sym_shape"]))
    L.append("end ChaiVerif.Gen")
    return "\n".join(L) + "\n"


def main(repo, outdir):
    return to_lean(extract(repo))


if __name__ == "__main__":
    sys.stdout.write(main(sys.argv[1] if len(sys.argv) > 1 else "/repo", None))
