#!/usr/bin/env python3
# E9: bootstrap_stl.hpp (+ chaiscript_stdlib.hpp) -> Gen/Stl.lean : census of registered container operations and their guards
import re, sys, os, json
sys.path.insert(0, os.path.dirname(os.path.abspath(__file__)))
from cpptok import *

MEMBERS = ["front", "back", "pop_back", "pop_front", "push_back", "push_front", "index", "at", "insert", "erase", "resize", "reserve",
           "capacity", "size", "empty", "clear", "find", "rfind", "find_first_of", "find_last_of", "find_last_not_of", "find_first_not_of",
           "substr", "c_str", "data", "append_char", "first", "second", "count", "assign", "insert_at", "erase_at", "mapIndex", "wait", "get", "valid", "other"]


class Unrecognised(Exception):
    pass


def split_args(s):
    """split top-level commas"""
    out, depth, cur = [], 0, ""
    i = 0
    while i < len(s):
        c = s[i]
        if c in "([{<" and not (c == "<" and (i + 1 < len(s) and s[i + 1] in "=<")):
            depth += 1
        elif c in ")]}>" and not (c == ">" and i > 0 and s[i - 1] in "-="):
            depth -= 1
        if c == '"':
            j = s.index('"', i + 1)
            cur += s[i:j + 1]
            i = j + 1
            continue
        if c == "," and depth == 0:
            out.append(cur)
            cur = ""
        else:
            cur += c
        i += 1
    out.append(cur)
    return out


def classify_fun(arg):
    """-> (member, guard, kind)"""
    a = norm(arg)
    m = re.fullmatch(r"fun\((.*)\)", a, re.S)
    if not m:
        m2 = re.fullmatch(r"constructor<(.*)>\(\)", a)
        if m2:
            return ("ctor", "na", "ctor")
        m2 = re.fullmatch(r"user_type<.*>\(\)", a)
        if m2:
            return ("type", "na", "type")
        raise Unrecognised("m.add first argument: " + a[:80])
    inner = m.group(1).strip()
    mm = re.fullmatch(r"&detail::(insert_at|erase_at|insert|insert_ref|count)<\w+>|detail::(count)<\w+>", inner)
    if mm:
        nm = mm.group(1) or mm.group(2)
        return ({"insert_ref": "insert", "insert": "insert"}.get(nm, nm), "helper", "helper")
    mm = re.fullmatch(r"(?:static_cast<\w+>\()?&(\w+)::(operator\[\]|\w+)\)?", inner)
    if mm:
        mem = mm.group(2)
        mem = "mapIndex" if mem == "operator[]" else mem
        return (mem if mem in MEMBERS else "other", "none", "direct:" + mm.group(1))
    if inner.startswith("["):
        # lambda
        b = inner.index("{")
        e = match_close(inner, b)
        body = norm(inner[b + 1:e])
        guard = "none"
        if re.match(r"if \((\w+)\.empty\(\)\) \{ throw std::range_error\(\"Container empty\"\); \}", body):
            guard = "emptyCheck"
        calls = re.findall(r"(?:\.|->)(\w+)\(", body)
        calls = [c for c in calls if c != "empty" or guard == "none"]
        mem = calls[-1] if calls else "other"
        if re.search(r"return \(?\*s \+= c\)?;", body):
            mem = "append_char"
        if mem == "at":
            if re.fullmatch(r"return c\.at\(static_cast<typename ContainerType::size_type>\(index\)\);", body):
                return ("index", "atCall", "lambda")
            raise Unrecognised("[] lambda body: " + body)
        return (mem if mem in MEMBERS else "other", guard, "lambda")
    raise Unrecognised("fun argument: " + inner[:80])


def names_of(expr):
    e = norm(expr)
    if e.startswith('"'):
        return [e.strip('"')]
    return re.findall(r'return "([^"]+)";', e)


def extract(repo):
    src = strip_comments(open(os.path.join(repo, "include/chaiscript/dispatchkit/bootstrap_stl.hpp")).read())
    std = strip_comments(open(os.path.join(repo, "include/chaiscript/chaiscript_stdlib.hpp")).read())
    out = {"concepts": {}, "calls": {}}
    for m in re.finditer(r"template<typename \w+>\s*void\s+(\w+)\s*\(\s*const\s+std::string\s*&\s*(?:/\*type\*/|type)?\s*,\s*Module\s*&\s*m\s*\)\s*\{", src):
        name = m.group(1)
        b, e = body_after(src, m.end() - 1)
        body = src[b:e]
        rows = []
        i = 0
        while True:
            k = body.find("m.add(", i)
            if k < 0:
                break
            p = body.index("(", k)
            q = match_close(body, p, "(", ")")
            args = split_args(body[p + 1:q])
            i = q + 1
            if len(args) < 2:
                raise Unrecognised("m.add arity in " + name)
            try:
                mem, guard, kind = classify_fun(args[0])
            except ValueError:
                raise Unrecognised("m.add parse in " + name)
            if kind in ("ctor", "type"):
                continue
            for nm in names_of(",".join(args[1:])) or ["?"]:
                rows.append(dict(name=nm, member=mem, guard=guard, kind=kind))
        out["concepts"][name] = rows
        out["calls"][name] = re.findall(r"(?:detail::)?(\w+_type(?:_impl)?)<", body)
    # helpers
    for h, want in (("insert_at", "pos < 0 || std::distance(itr, end) < pos"), ("erase_at", "pos < 0 || std::distance(itr, end) <= pos")):
        f = find_function(src, r"void\s+%s\s*\(\s*Type\s*&\s*container\s*,\s*int\s+pos[^)]*\)\s*\{" % h)
        hb = norm(src[f[1]:f[2]])
        mm = re.search(r"auto itr = container\.begin\(\); auto end = container\.end\(\); if \((.*?)\) \{ throw std::range_error\(", hb)
        tail_ok = bool(re.search(r"std::advance\(itr, pos\); container\.(insert\(itr, v\)|erase\(itr\));$", hb))
        g = "none"
        if mm and tail_ok:
            g = {"pos < 0 || std::distance(itr, end) < pos": "posLe", "pos < 0 || std::distance(itr, end) <= pos": "posLt"}.get(mm.group(1), "other")
        out[h + "_guard"] = g
    # Bidir_Range members
    m = re.search(r"struct\s+Bidir_Range\s*\{", src)
    b, e = body_after(src, m.end() - 1)
    br = src[b:e]
    rg = {}
    for mem, action in (("pop_front", r"\+\+m_begin;"), ("pop_back", r"--m_end;"), ("front", r"return \(\*m_begin\);"), ("back", r"auto pos = m_end; --pos; return \(\*\(pos\)\);")):
        f = find_function(br, r"constexpr\s+(?:void|decltype\(auto\))\s+%s\s*\(\s*\)\s*(?:const\s*)?\{" % mem)
        fb = norm(br[f[1]:f[2]])
        rg[mem] = bool(re.fullmatch(r"if \(empty\(\)\) \{ throw std::range_error\(\"Range empty\"\); \} " + action, fb))
    out["range_guards"] = rg
    out["range_empty_def"] = bool(re.search(r"constexpr bool empty\(\) const noexcept \{ return m_begin == m_end; \}", norm(br)))
    # stdlib instantiations
    out["instances"] = re.findall(r"bootstrap::standard_library::(\w+)<([^(]*)>\(\"(\w+)\"", std)
    return out


def closure(calls, root):
    seen, todo = [], [root]
    while todo:
        c = todo.pop(0)
        if c in seen:
            continue
        seen.append(c)
        todo += [x for x in calls.get(c, []) if x in calls]
    return seen


def to_lean(x):
    L = ["-- GENERATED by extract/e_stl.py from bootstrap_stl.hpp / chaiscript_stdlib.hpp. Do not edit.",
         "import ChaiVerif.Model.StlTypes", "namespace ChaiVerif.Gen", "open ChaiVerif"]
    rows = []
    for root, targ, script in x["instances"]:
        kind = {"vector_type": "vector", "string_type": "string", "map_type": "map", "pair_type": "pair", "list_type": "list"}.get(root)
        if not kind:
            continue
        for c in closure(x["calls"], root):
            for r in x["concepts"].get(c, []):
                owner = "container"
                if r["kind"].startswith("direct:"):
                    cls = r["kind"].split(":")[1]
                    owner = "range" if cls == "Bidir_Type" else "pair" if cls == "PairType" else "container"
                rows.append("{ container := .%s, owner := .%s, member := .%s, guard := .%s, direct := %s }  -- %s" % (
                    kind, owner, r["member"] if r["member"] in MEMBERS else "other", r["guard"], lean_bool(r["kind"].startswith("direct")), r["name"]))
    body = []
    for k, r in enumerate(rows):
        code, _, cm = r.partition("  -- ")
        body.append("  " + code + ("," if k + 1 < len(rows) else "]") + "  -- " + cm)
    L.append("def stlRows : List StlRow := [\n" + "\n".join(body))
    L.append("def insertAtGuard : PosGuard := .%s" % x["insert_at_guard"])
    L.append("def eraseAtGuard : PosGuard := .%s" % x["erase_at_guard"])
    rg = x["range_guards"]
    L.append("def rangeGuards : Bool × Bool × Bool × Bool := (%s, %s, %s, %s)  -- pop_front, pop_back, front, back" % tuple(
        lean_bool(rg[k]) for k in ("pop_front", "pop_back", "front", "back")))
    L.append("def rangeEmptyDef : Bool := " + lean_bool(x["range_empty_def"]))
    L.append("end ChaiVerif.Gen")
    return "\n".join(L) + "\n"


def main(repo, outdir):
    x = extract(repo)
    with open(os.path.join(outdir, "Stl.json"), "w") as f:
        json.dump(x, f, indent=1)
    return to_lean(x)


if __name__ == "__main__":
    print(main(sys.argv[1] if len(sys.argv) > 1 else "/repo", "/tmp"))
