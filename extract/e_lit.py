#!/usr/bin/env python3
# E4+E5 (+keyword part of E3): chaiscript_parser.hpp, chaiscript_common.hpp, hash.hpp -> Gen/Lit.lean
import re, sys, os, json
sys.path.insert(0, os.path.dirname(os.path.abspath(__file__)))
from cpptok import *

LT = {"int": ".int", "unsigned int": ".uint", "long": ".long", "unsigned long": ".ulong", "long long": ".llong", "unsigned long long": ".ullong"}


class Unrecognised(Exception):
    pass


def if_chain(body, start=0):
    """Parse `if (c) { b } else if (c) { b } ... else { b }` starting at/after `start`. -> [(cond|None, block)] , end"""
    out = []
    m = re.compile(r"\s*if\s*\(").match(body, start)
    if not m:
        raise Unrecognised("if chain expected at: " + body[start:start + 60])
    i = m.end() - 1
    while True:
        j = match_close(body, i, "(", ")")
        cond = norm(body[i + 1:j])
        b, e = body_after(body, j)
        out.append((cond, body[b:e]))
        m = re.compile(r"\s*else\s+if\s*\(").match(body, e + 1)
        if m:
            i = m.end() - 1
            continue
        m = re.compile(r"\s*else\s*\{").match(body, e + 1)
        if m:
            b2, e2 = body_after(body, m.end() - 1)
            out.append((None, body[b2:e2]))
            return out, e2 + 1
        return out, e + 1


def parse_ladder_cond(cond):
    """-> dict(notU, uOrNonDec, notL, notLL, rangeType|None)"""
    atoms = [norm(a) for a in cond.split("&&")]
    d = dict(notU=False, uOrNonDec=False, notL=False, notLL=False, lo=None, hi=None)
    for a in atoms:
        if a == "!unsigned_":
            d["notU"] = True
        elif a == "(unsigned_ || base != 10)":
            d["uOrNonDec"] = True
        elif a == "!long_":
            d["notL"] = True
        elif a == "!longlong_":
            d["notLL"] = True
        else:
            m = re.fullmatch(r"u (>=|<=) std::numeric_limits<([^>]+)>::(min|max)\(\)", a)
            if not m or (m.group(1), m.group(3)) not in ((">=", "min"), ("<=", "max")):
                raise Unrecognised("ladder atom: " + a)
            d["lo" if m.group(3) == "min" else "hi"] = norm(m.group(2))
    if d["lo"] != d["hi"] or d["lo"] is None or d["lo"] not in LT:
        raise Unrecognised("ladder range: " + cond)
    return d


def ret_type(block):
    m = re.fullmatch(r"return const_var\(static_cast<([^>]+)>\(u\)\);", norm(block))
    if not m or norm(m.group(1)) not in LT:
        raise Unrecognised("ladder return: " + norm(block))
    return norm(m.group(1))


def char_code(lit):
    """C char literal text like 'a' or '\\n' or '\\'' -> code"""
    inner = lit[1:-1]
    esc = {"\\'": 39, '\\"': 34, "\\\\": 92, "\\a": 7, "\\b": 8, "\\f": 12, "\\n": 10, "\\r": 13, "\\t": 9, "\\v": 11, "\\?": 63, "\\0": 0}
    if inner in esc:
        return esc[inner]
    if len(inner) == 1:
        return ord(inner)
    raise Unrecognised("char literal " + lit)


def extract(repo):
    ps = strip_comments(open(os.path.join(repo, "include/chaiscript/language/chaiscript_parser.hpp")).read())
    cs = strip_comments(open(os.path.join(repo, "include/chaiscript/language/chaiscript_common.hpp")).read())
    hs = strip_comments(open(os.path.join(repo, "include/chaiscript/utility/hash.hpp")).read())
    out = {}
    # ---------------- buildInt
    f = find_function(ps, r"static\s+Boxed_Value\s+buildInt\s*\(\s*const\s+int\s+base\s*,\s*std::string_view\s+t_val\s*,\s*const\s+bool\s+prefixed\s*\)\s*\{")
    body = ps[f[1]:f[2]]
    # suffix scan
    m = re.search(r"for\s*\(\s*;\s*i\s*>\s*0\s*;\s*--i\s*\)\s*\{", body)
    b, e = body_after(body, m.end() - 1)
    scan = norm(body[b:e])
    want = ("const char val = t_val[i - 1]; if (val == 'u' || val == 'U') { unsigned_ = true; } else if (val == 'l' || val == 'L') "
            "{ if (long_) { longlong_ = true; } long_ = true; } else { break; }")
    out["suffix_scan_ok"] = scan == want
    if not out["suffix_scan_ok"]:
        raise Unrecognised("buildInt suffix scan: " + scan)
    out["prefix_removed"] = bool(re.search(r"if\s*\(\s*prefixed\s*\)\s*\{\s*t_val\.remove_prefix\(2\);\s*\}", body))
    # outer try
    t = body.index("try", e)
    tb, te = body_after(body, t)
    tryb = body[tb:te]
    m = re.search(r"auto\s+u\s*=\s*std::stoll\(std::string\(t_val\),\s*nullptr,\s*base\);", tryb)
    if not m:
        raise Unrecognised("stoll call")
    chain, end = if_chain(tryb, m.end())
    ladder = []
    for cond, blk in chain:
        if cond is None:
            out["ladder_else"] = ret_type(blk)
        else:
            d = parse_ladder_cond(cond)
            d["ty"] = ret_type(blk)
            ladder.append(d)
    out["ladder"] = ladder
    m = re.compile(r"\s*catch\s*\(\s*const\s+std::out_of_range\s*&\s*\)\s*\{").match(body, te + 1)
    if not m:
        raise Unrecognised("catch out_of_range after stoll")
    cb, ce = body_after(body, m.end() - 1)
    catchb = body[cb:ce]
    t2 = catchb.index("try")
    t2b, t2e = body_after(catchb, t2)
    try2 = catchb[t2b:t2e]
    m = re.search(r"auto\s+u\s*=\s*std::stoull\(std::string\(t_val\),\s*nullptr,\s*base\);", try2)
    if not m:
        raise Unrecognised("stoull call")
    chain2, _ = if_chain(try2, m.end())
    fb = []
    for cond, blk in chain2:
        if cond is None:
            out["fallback_else"] = ret_type(blk)
        else:
            d = parse_ladder_cond(cond)
            d["ty"] = ret_type(blk)
            fb.append(d)
    out["fallback"] = fb
    m = re.compile(r"\s*catch\s*\(\s*const\s+std::out_of_range\s*&\s*\)\s*\{").match(catchb, t2e + 1)
    cb2, ce2 = body_after(catchb, m.end() - 1)
    tb2 = norm(catchb[cb2:ce2])
    if tb2 == "return const_var(std::numeric_limits<long long>::max());":
        out["too_big"] = "clampLLongMax"
    elif tb2.startswith("throw exception::eval_error("):
        out["too_big"] = "error"
    else:
        raise Unrecognised("too-big handler: " + tb2)
    # ---------------- Num(): which base for which lexer
    f = find_function(ps, r"bool\s+Num\s*\(\s*\)\s*\{")
    nb = norm(ps[f[1]:f[2]])
    out["num_bases"] = dict(
        hex=bool(re.search(r"if \(Hex_\(\)\) \{ auto match = Position::str\(start, m_position\); auto bv = buildInt\(16, match, true\);", nb)),
        bin=bool(re.search(r"if \(Binary_\(\)\) \{ auto match = Position::str\(start, m_position\); auto bv = buildInt\(2, match, true\);", nb)),
        oct=bool(re.search(r"if \(!match\.empty\(\) && \(match\[0\] == '0'\)\) \{ auto bv = buildInt\(8, match, false\);", nb)),
        dec=bool(re.search(r"else if \(!match\.empty\(\)\) \{ auto bv = buildInt\(10, match, false\);", nb)))
    # ---------------- buildFloat suffix rules
    f = find_function(ps, r"static\s+Boxed_Value\s+buildFloat\s*\(\s*std::string_view\s+t_val\s*\)\s*\{")
    fb_ = norm(ps[f[1]:f[2]])
    out["float_suffix_ok"] = ("if (val == 'f' || val == 'F') { float_ = true; } else if (val == 'l' || val == 'L') { long_ = true; } else { break; }" in fb_
                              and "if (float_) { return const_var(parse_num<float>(t_val.substr(0, i))); } else if (long_) { return const_var(parse_num<long double>(t_val.substr(0, i))); } else { return const_var(parse_num<double>(t_val.substr(0, i))); }" in fb_)
    # exponent without digits
    f = find_function(ps, r"bool\s+read_exponent_and_suffix\s*\(\s*\)\s*(?:noexcept\s*)?\{")
    eb = norm(ps[f[1]:f[2]])
    m = re.search(r"if \(m_position == exponent_pos\) \{ (.*?) \}", eb)
    out["empty_exponent"] = "error" if m and m.group(1).startswith("throw exception::eval_error(") else ("returnFalse" if m and m.group(1) == "return false;" else "unknown")
    # ---------------- Char_Parser
    m = re.search(r"struct\s+Char_Parser\s*\{", ps)
    cb, ce = body_after(ps, m.end() - 1)
    cp = ps[cb:ce]
    # simple escapes: switch(t_char) cases
    sm = re.search(r"switch\s*\(\s*t_char\s*\)\s*\{", cp)
    sb, se = body_after(cp, sm.end() - 1)
    sw = cp[sb:se]
    simple = []
    for m in re.finditer(r"case\s*\(\s*('(?:\\.|[^'])+')\s*\)\s*:\s*match\.push_back\(\s*('(?:\\.|[^'])+')\s*\);\s*break;", sw):
        simple.append((char_code(m.group(1)), char_code(m.group(2))))
    dm = re.search(r"default\s*:\s*(.*?);", sw, re.S)
    out["simple_default_throws"] = bool(dm and norm(dm.group(1)).startswith("throw exception::eval_error("))
    out["simple"] = simple
    # starts of the multi-char escapes
    pm = find_function(cp, r"void\s+parse\s*\(\s*const\s+char_type\s+t_char\s*,[^)]*\)\s*\{")
    pb = norm(cp[pm[1]:pm[2]])
    out["octal_char"] = "const bool is_octal_char = t_char >= '0' && t_char <= '7';" in pb
    out["hex_char"] = "const bool is_hex_char = (t_char >= '0' && t_char <= '9') || (t_char >= 'a' && t_char <= 'f') || (t_char >= 'A' && t_char <= 'F');" in pb
    m = re.search(r"if \(octal_matches\.size\(\) == (\d+)\) \{ process_octal\(\); \}", pb)
    out["octal_max"] = int(m.group(1)) if m else 0
    m = re.search(r"if \(hex_matches\.size\(\) == (\d+) \* sizeof\(char_type\)\) \{", pb)
    out["hex_max"] = int(m.group(1)) if m else 0
    out["starts"] = dict(
        x=bool(re.search(r"else if \(t_char == 'x'\) \{ is_hex = true; \}", pb)),
        u=(re.search(r"else if \(t_char == 'u'\) \{ unicode_size = (\d+); \}", pb) or [None, "0"])[1],
        U=(re.search(r"else if \(t_char == 'U'\) \{ unicode_size = (\d+); \}", pb) or [None, "0"])[1],
        octal=bool(re.search(r"if \(is_escaped\) \{ if \(is_octal_char\) \{ is_octal = true; octal_matches\.push_back\(t_char\); \}", pb)))
    out["backslash"] = bool(re.search(r"if \(t_char == '\\\\'\) \{ if \(is_escaped\) \{ match\.push_back\('\\\\'\); is_escaped = false; \} else \{ is_escaped = true; \} \}", pb))
    out["interp"] = bool(re.search(r"else if \(interpolation_allowed && t_char == '\$'\) \{ saw_interpolation_marker = true; \}", pb))
    # how pending escapes are flushed at the end
    has_finish = find_function(cp, r"void\s+finish\s*\(\s*\)\s*\{")
    dtor = find_function(cp, r"~Char_Parser\s*\(\s*\)\s*\{")
    if has_finish and not dtor:
        fb2 = norm(cp[has_finish[1]:has_finish[2]])
        ok = fb2 == "if (is_octal) { process_octal(); } if (is_hex) { process_hex(); } if (unicode_size > 0) { process_unicode(); }"
        calls = len(re.findall(r"cparser\.finish\(\);", ps))
        users = len(re.findall(r"Char_Parser<std::string>\s+cparser\(", ps))
        out["flush"] = "finishReports" if ok and calls == users and users > 0 else "unknown"
    elif dtor:
        out["flush"] = "destructorSwallows" if "catch" in cp[dtor[1]:dtor[2]] else "destructor"
    else:
        out["flush"] = "none"
    # process_hex: empty digits
    ph = find_function(cp, r"void\s+process_hex\s*\(\s*\)\s*\{")
    phb = norm(cp[ph[1]:ph[2]])
    out["hex_empty"] = "error" if re.search(r"if \(empty\) \{ throw exception::eval_error\(", phb) else "ignored"
    out["hex_value"] = "auto val = stoll(hex_matches, nullptr, 16); match.push_back(char_type(val));" in phb
    po = find_function(cp, r"void\s+process_octal\s*\(\s*\)\s*\{")
    pob = norm(cp[po[1]:po[2]])
    out["octal_value"] = "auto val = stoll(octal_matches, nullptr, 8); match.push_back(char_type(val));" in pob
    # process_unicode
    pu = find_function(cp, r"void\s+process_unicode\s*\(\s*\)\s*\{")
    pub = norm(cp[pu[1]:pu[2]])
    if "std::stoi(hex_matches, nullptr, 16)" in pub:
        out["unicode_read"] = "stoiBeforeLengthCheck"
    elif re.search(r"match_size == 0 \? uint32_t\(0\) : static_cast<uint32_t>\(std::stoul\(hex_matches, nullptr, 16\)\)", pub):
        out["unicode_read"] = "stoulGuarded"
    else:
        raise Unrecognised("process_unicode digit read")
    out["unicode_len_check"] = bool(re.search(r"if \(u_size != match_size\) \{ throw exception::eval_error\(\"Incomplete unicode escape sequence\"\); \}", pub))
    m = re.search(r"if \((u_size == 4 && )?ch >= 0xD800 && ch <= 0xDFFF\) \{ throw exception::eval_error\(", pub)
    out["surrogate"] = "none" if not m else ("only4" if m.group(1) else "all")
    # utf8 ladder
    rows = []
    chain, _ = if_chain(cp[pu[1]:pu[2]], cp[pu[1]:pu[2]].index("if (ch < 0x80)") if "if (ch < 0x80)" in cp[pu[1]:pu[2]] else 0)
    for cond, blk in chain:
        if cond is None:
            out["utf8_else_throws"] = norm(blk).startswith("throw exception::eval_error(")
            continue
        m = re.fullmatch(r"ch < (0x[0-9A-Fa-f]+)", cond)
        if not m:
            raise Unrecognised("utf8 cond " + cond)
        limit = int(m.group(1), 16)
        nb_ = norm(blk)
        if nb_ == "match += static_cast<char>(ch);":
            rows.append((limit, [(0, 0, 0xFFFFFFFF)]))
            continue
        bs = []
        for m2 in re.finditer(r"buf\[(\d)\] = static_cast<char>\((0x[0-9A-Fa-f]+) \| \((.*?)\)\);", nb_):
            ex = m2.group(3)
            m3 = re.fullmatch(r"ch >> (\d+)", ex)
            m4 = re.fullmatch(r"\(ch >> (\d+)\) & (0x[0-9A-Fa-f]+)", ex)
            m5 = re.fullmatch(r"ch & (0x[0-9A-Fa-f]+)", ex)
            if m3:
                bs.append((int(m2.group(2), 16), int(m3.group(1)), 0xFFFFFFFF))
            elif m4:
                bs.append((int(m2.group(2), 16), int(m4.group(1)), int(m4.group(2), 16)))
            elif m5:
                bs.append((int(m2.group(2), 16), 0, int(m5.group(1), 16)))
            else:
                raise Unrecognised("utf8 byte expr " + ex)
        ma = re.search(r"match\.append\(buf, (\d)\);", nb_)
        if not ma or int(ma.group(1)) != len(bs):
            raise Unrecognised("utf8 append " + nb_)
        rows.append((limit, bs))
    out["utf8"] = rows
    # ---------------- keywords in Id()
    f = find_function(ps, r"bool\s+Id\s*\(\s*const\s+bool\s+validate\s*\)\s*\{")
    idb = ps[f[1]:f[2]]
    out["keywords"] = re.findall(r'case\s+utility::hash\("([^"]+)"\)\s*:', idb)
    out["id_uses_hash_only"] = bool(re.search(r"const auto text_hash = utility::hash\(text\);", idb)) and bool(re.search(r"switch\s*\(\s*text_hash\s*\)", idb))
    # reserved words
    m = re.search(r"words\s*\{(.*?)\};", cs, re.S)
    out["reserved"] = re.findall(r'utility::hash\("([^"]+)"\)', m.group(1))
    out["reserved_by_hash_only"] = bool(re.search(r"return words\.count\(utility::hash\(s\)\) == 1;", cs))
    # ---------------- fnv1a constants
    m = re.search(r"std::uint32_t h = (0x[0-9a-fA-F]+);\s*while \(begin != end\) \{\s*h = \(h \^ \(\*begin\)\) \* (0x[0-9a-fA-F]+);", hs)
    if not m:
        raise Unrecognised("fnv1a loop")
    out["fnv"] = (int(m.group(1), 16), int(m.group(2), 16))
    out["hash_is_fnv"] = "using fnv1a::hash;" in hs
    return out


def row(d):
    return "{ notU := %s, uOrNonDec := %s, notL := %s, notLL := %s, range := %s, ty := %s }" % (
        lean_bool(d["notU"]), lean_bool(d["uOrNonDec"]), lean_bool(d["notL"]), lean_bool(d["notLL"]), LT[d["lo"]], LT[d["ty"]])


def bytes_lit(s):
    return "[" + ", ".join(str(b) for b in s.encode()) + "]"


def to_lean(x):
    L = ["-- GENERATED by extract/e_lit.py from chaiscript_parser.hpp, chaiscript_common.hpp, hash.hpp. Do not edit.",
         "import ChaiVerif.Model.LitTypes", "namespace ChaiVerif.Gen", "open ChaiVerif"]
    L.append("def ladder : List LadderRow := " + lean_list([row(d) for d in x["ladder"]]))
    L.append("def ladderElse : LitType := " + LT[x["ladder_else"]])
    L.append("def fallback : List LadderRow := " + lean_list([row(d) for d in x["fallback"]]))
    L.append("def fallbackElse : LitType := " + LT[x["fallback_else"]])
    L.append("def tooBig : TooBig := ." + x["too_big"])
    L.append("def suffixScanOk : Bool := " + lean_bool(x["suffix_scan_ok"] and x["prefix_removed"]))
    nb = x["num_bases"]
    L.append("def numBasesOk : Bool := " + lean_bool(nb["hex"] and nb["bin"] and nb["oct"] and nb["dec"]))
    L.append("def floatSuffixOk : Bool := " + lean_bool(x["float_suffix_ok"]))
    L.append("def emptyExponent : EmptyExp := ." + x["empty_exponent"])
    L.append("def simpleEscapes : List (Nat × Nat) := " + lean_list(["(%d, %d)" % p for p in x["simple"]]))
    L.append("def simpleDefaultThrows : Bool := " + lean_bool(x["simple_default_throws"]))
    L.append("def octalMax : Nat := %d" % x["octal_max"])
    L.append("def hexMax : Nat := %d" % x["hex_max"])
    L.append("def unicodeSmall : Nat := %s" % x["starts"]["u"])
    L.append("def unicodeBig : Nat := %s" % x["starts"]["U"])
    L.append("def charClassesOk : Bool := " + lean_bool(x["octal_char"] and x["hex_char"] and x["starts"]["x"] and x["starts"]["octal"] and x["backslash"] and x["interp"] and x["hex_value"] and x["octal_value"]))
    L.append("def flush : Flush := ." + x["flush"])
    L.append("def hexEmpty : HexEmpty := ." + x["hex_empty"])
    L.append("def unicodeRead : UniRead := ." + x["unicode_read"])
    L.append("def unicodeLenCheck : Bool := " + lean_bool(x["unicode_len_check"]))
    L.append("def surrogate : Surrogate := ." + x["surrogate"])
    L.append("def utf8Rows : List (Nat × List (Nat × Nat × Nat)) := " + lean_list(
        ["(%d, [%s])" % (lim, ", ".join("(%d, %d, %d)" % b for b in bs)) for lim, bs in x["utf8"]]))
    L.append("def utf8ElseThrows : Bool := " + lean_bool(x.get("utf8_else_throws", False)))
    L.append("def keywords : List (List Nat) := " + lean_list([bytes_lit(k) for k in x["keywords"]]))
    L.append("def idUsesHashOnly : Bool := " + lean_bool(x["id_uses_hash_only"]))
    L.append("def reserved : List (List Nat) := " + lean_list([bytes_lit(k) for k in x["reserved"]]))
    L.append("def reservedByHashOnly : Bool := " + lean_bool(x["reserved_by_hash_only"]))
    L.append("def fnvBasis : Nat := %d" % x["fnv"][0])
    L.append("def fnvPrime : Nat := %d" % x["fnv"][1])
    L.append("def hashIsFnv : Bool := " + lean_bool(x["hash_is_fnv"]))
    L.append("end ChaiVerif.Gen")
    return "\n".join(L) + "\n"


def main(repo, outdir):
    x = extract(repo)
    with open(os.path.join(outdir, "Lit.json"), "w") as f:
        json.dump(x, f, indent=1)
    return to_lean(x)


if __name__ == "__main__":
    print(main(sys.argv[1] if len(sys.argv) > 1 else "/repo", "/tmp"))
