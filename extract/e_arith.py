#!/usr/bin/env python3
# E1+E2: chaiscript_algebraic.hpp, boxed_number.hpp, bootstrap.hpp  ->  Gen/Arith.lean
import re, sys, os, json
sys.path.insert(0, os.path.dirname(os.path.abspath(__file__)))
from cpptok import *

CPPOPS = {"==": "eq", "<": "lt", ">": "gt", "<=": "le", ">=": "ge", "!=": "ne", "+": "add", "-": "sub", "*": "mul",
          "/": "div", "%": "mod", "<<": "shl", ">>": "shr", "&": "band", "|": "bor", "^": "bxor"}
TYPES = {"int": "int", "double": "double", "long double": "longdouble", "float": "float", "char": "char",
         "unsigned char": "uchar", "unsigned int": "uint", "long": "long", "long long": "llong",
         "unsigned long": "ulong", "unsigned long long": "ullong", "std::int8_t": "int8", "std::int16_t": "int16",
         "std::int32_t": "int32", "std::int64_t": "int64", "std::uint8_t": "uint8", "std::uint16_t": "uint16",
         "std::uint32_t": "uint32", "std::uint64_t": "uint64", "wchar_t": "wchar", "char16_t": "char16", "char32_t": "char32"}
CT = {"t_int32": ".i32", "t_double": ".f64", "t_uint8": ".u8", "t_int8": ".i8", "t_uint16": ".u16", "t_int16": ".i16",
      "t_uint32": ".u32", "t_uint64": ".u64", "t_int64": ".i64", "t_float": ".f32", "t_long_double": ".f80"}


class Unrecognised(Exception):
    pass


def split_cases(body):
    """[(label, text)] for 'case Operators::Opers::X:' blocks directly in a switch body."""
    res = []
    ms = list(re.finditer(r"\b(case\s+Operators::Opers::(\w+)|default)\s*:", body))
    for k, m in enumerate(ms):
        end = ms[k + 1].start() if k + 1 < len(ms) else len(body)
        res.append((m.group(2) or "default", body[m.end():end]))
    return res


def walk_go(block, ctx, rows, src_off, full):
    """Walk statements of a block of `go`, descending into if/if constexpr, collecting switch cases."""
    i = 0
    while i < len(block):
        m = re.compile(r"\s*(switch\s*\(\s*t_oper\s*\)|if\s+constexpr\s*\(|if\s*\()").match(block, i)
        if not m:
            # skip one statement
            j = block.find(";", i)
            if j < 0:
                break
            i = j + 1
            continue
        kw = m.group(1)
        if kw.startswith("switch"):
            b, e = body_after(block, m.end())
            for label, text in split_cases(block[b:e]):
                if label == "default":
                    if norm(text) not in ("break;", ""):
                        raise Unrecognised("default case does something: " + norm(text))
                    continue
                rows.append(parse_case(label, text, ctx, line_of(full, src_off + b)))
            i = e + 1
        else:
            p = block.index("(", m.start())
            q = match_close(block, p, "(", ")")
            cond = norm(block[p + 1:q])
            b, e = body_after(block, q)
            if kw.startswith("if constexpr") or "constexpr" in kw:
                if re.fullmatch(r"!std::is_floating_point<LHS>::value && !std::is_floating_point<RHS>::value", cond):
                    nctx = ctx + ["intOnly"]
                else:
                    raise Unrecognised("if constexpr condition: " + cond)
            else:
                if cond == "t_lhs":
                    nctx = ctx + ["lvalue"]
                else:
                    raise Unrecognised("if condition: " + cond)
            walk_go(block[b:e], nctx, rows, src_off + b, full)
            i = e + 1
            # an else branch would change meaning
            if re.match(r"\s*else\b", block[i:]):
                raise Unrecognised("else branch in go")


def parse_case(label, text, ctx, line):
    stmts = [norm(s) for s in text.split(";") if norm(s)]
    zero = ovf = False
    form = cpp = None
    order_ok = True
    for s in stmts:
        if s in ("check_divide_by_zero(c_rhs)", "check_divide_by_zero<LHS>(c_rhs)"):
            if form:
                raise Unrecognised("check after operation in " + label)
            zero = True
        elif s == "check_divide_overflow(c_lhs, c_rhs)":
            if form:
                raise Unrecognised("check after operation in " + label)
            ovf = True
        elif s.startswith("return const_var("):
            m = re.fullmatch(r"return const_var\((\w+) (\S+) (\w+)\)", s)
            if not m or m.group(2) not in CPPOPS:
                raise Unrecognised("value expression in %s: %s" % (label, s))
            form, cpp = "value", CPPOPS[m.group(2)]
            order_ok = (m.group(1), m.group(3)) == ("c_lhs", "c_rhs")
        elif s.startswith("*t_lhs"):
            m = re.fullmatch(r"\*t_lhs (\S*)= (\w+)", s)
            if not m:
                raise Unrecognised("assignment in %s: %s" % (label, s))
            if m.group(1) == "":
                form, cpp = "assign", None
            elif m.group(1) in CPPOPS:
                form, cpp = "compound", CPPOPS[m.group(1)]
            else:
                raise Unrecognised("compound operator in %s: %s" % (label, s))
            order_ok = m.group(2) == "c_rhs"
        elif s == "return t_bv":
            if form not in ("assign", "compound"):
                raise Unrecognised("return t_bv without assignment in " + label)
        elif s == "break":
            pass
        else:
            raise Unrecognised("statement in %s: %s" % (label, s))
    if form is None:
        raise Unrecognised("no operation in case " + label)
    return dict(opcode=label, intOnly="intOnly" in ctx, lvalue="lvalue" in ctx, form=form, cpp=cpp,
                operandsInOrder=order_ok, zeroCheck=zero, ovfCheck=ovf, line=line)


def extract(repo):
    out = {}
    alg = strip_comments(open(os.path.join(repo, "include/chaiscript/language/chaiscript_algebraic.hpp")).read())
    bn = strip_comments(open(os.path.join(repo, "include/chaiscript/dispatchkit/boxed_number.hpp")).read())
    bs = strip_comments(open(os.path.join(repo, "include/chaiscript/dispatchkit/bootstrap.hpp")).read())
    # --- Opers enum
    m = re.search(r"enum\s+class\s+Opers\s*\{([^}]*)\}", alg)
    opers = [norm(x) for x in m.group(1).split(",") if norm(x)]
    out["opers"] = opers
    # --- to_string table
    m = re.search(r"opers\[\]\s*=\s*\{([^}]*)\}", alg)
    out["to_string"] = re.findall(r'"([^"]*)"', m.group(1))
    # --- to_operator switch
    f = find_function(alg, r"Opers\s+to_operator\s*\([^)]*\)\s*noexcept\s*\{")
    body = alg[f[1]:f[2]]
    toop = []
    for m in re.finditer(r'case\s+utility::hash\("([^"]*)"\)\s*:\s*\{(.*?)\}', body, re.S):
        t = norm(m.group(2))
        m1 = re.fullmatch(r"return Opers::(\w+);", t)
        m2 = re.fullmatch(r"return t_is_unary \? Opers::(\w+) : Opers::(\w+);", t)
        if m1:
            toop.append((m.group(1), m1.group(1), m1.group(1)))
        elif m2:
            toop.append((m.group(1), m2.group(2), m2.group(1)))
        else:
            raise Unrecognised("to_operator case: " + t)
    out["to_operator"] = toop
    # --- get_common_type(bv) chain
    f = find_function(bn, r"static\s+Common_Types\s+get_common_type\s*\(\s*const\s+Boxed_Value\s*&\s*t_bv\s*\)\s*\{")
    body = bn[f[1]:f[2]]
    chain = []
    for m in re.finditer(r"inp_\s*==\s*user_type<([^>]+)>\(\)\s*\)\s*\{\s*return\s+(.*?);", body, re.S):
        ty, ex = norm(m.group(1)), norm(m.group(2))
        m1 = re.fullmatch(r"Common_Types::(\w+)", ex)
        m2 = re.fullmatch(r"get_common_type\(sizeof\(([^)]+)\), (true|false|std::is_signed<([^>]+)>::value)\)", ex)
        if ty not in TYPES:
            raise Unrecognised("get_common_type type " + ty)
        if m1:
            chain.append((TYPES[ty], "direct", CT[m1.group(1)]))
        elif m2:
            if norm(m2.group(1)) != ty or (m2.group(3) and norm(m2.group(3)) != ty):
                raise Unrecognised("get_common_type row for %s uses sizeof/is_signed of another type" % ty)
            sg = {"true": "some true", "false": "some false"}.get(m2.group(2), "none")
            chain.append((TYPES[ty], "sized", sg))
        else:
            raise Unrecognised("get_common_type row: " + ex)
    out["common_chain"] = chain
    f = find_function(bn, r"constexpr\s+static\s+Common_Types\s+get_common_type\s*\(\s*size_t\s+t_size\s*,\s*bool\s+t_signed\s*\)\s*noexcept\s*\{")
    sz = norm(bn[f[1]:f[2]])
    sized = re.findall(r"\(t_size == (\d)( && t_signed)?\) \? \(Common_Types::(\w+)\)", sz)
    tail = re.search(r": \(Common_Types::(\w+)\); *$", sz)
    out["sized"] = [(int(a), bool(b), CT[c]) for a, b, c in sized] + [(0, False, CT[tail.group(1)])]
    # --- check_divide_by_zero guard
    f = find_function(bn, r"void\s+check_divide_by_zero\s*\(([^)]*)\)\s*\{")
    zb = norm(bn[f[1]:f[2]])
    calls = set(re.findall(r"check_divide_by_zero(?:<\w+>)?\(c_rhs\)", bn))
    if re.search(r"if constexpr \(!std::is_floating_point<T>::value\) \{ if \(t == 0\) \{ throw chaiscript::exception::arithmetic_error", zb) and calls == {"check_divide_by_zero(c_rhs)"}:
        out["zero_guard"] = "rhsNotFloat"
    elif (re.search(r"if constexpr \(!std::is_floating_point<LHS>::value && !std::is_floating_point<T>::value\) \{ if \(t == 0\) \{ throw chaiscript::exception::arithmetic_error", zb)
          and calls == {"check_divide_by_zero<LHS>(c_rhs)"} and re.search(r"template<typename LHS, typename T>\s*constexpr static inline void check_divide_by_zero", bn)):
        out["zero_guard"] = "bothNotFloat"
    else:
        raise Unrecognised("check_divide_by_zero body: " + zb)
    out["protect_macro"] = "#ifndef CHAISCRIPT_NO_PROTECT_DIVIDEBYZERO" in bn
    f = find_function(bn, r"void\s+check_divide_overflow\s*\(([^)]*)\)\s*\{")
    if f:
        ob = norm(bn[f[1]:f[2]])
        ok = ("std::is_integral_v<LHS> && std::is_integral_v<RHS>" in ob and "decltype(lhs / rhs)" in ob
              and "std::is_signed_v<Common>" in ob and "static_cast<Common>(rhs) == -1" in ob
              and "static_cast<Common>(lhs) == std::numeric_limits<Common>::min()" in ob and "throw chaiscript::exception::arithmetic_error" in ob)
        if not ok:
            raise Unrecognised("check_divide_overflow body: " + ob)
        out["ovf_guard"] = True
    else:
        out["ovf_guard"] = False
    # --- go
    f = find_function(bn, r"static\s+auto\s+go\s*\(\s*Operators::Opers\s+t_oper\s*,\s*const\s+Boxed_Value\s*&\s*t_bv\s*,\s*LHS\s*\*\s*t_lhs\s*,\s*const\s+LHS\s*&\s*c_lhs\s*,\s*const\s+RHS\s*&\s*c_rhs\s*\)\s*\{")
    if not f:
        raise Unrecognised("go() signature")
    rows = []
    walk_go(bn[f[1]:f[2]], [], rows, f[1], bn)
    if not re.search(r"throw\s+chaiscript::detail::exception::bad_any_cast\(\);\s*$", bn[f[1]:f[2]]):
        raise Unrecognised("go() no longer ends in throw bad_any_cast")
    out["go"] = rows
    # --- binary oper(): lhs pointer is null for return values / const
    f = find_function(bn, r"static\s+Boxed_Value\s+oper\s*\(\s*Operators::Opers\s+t_oper\s*,\s*const\s+Boxed_Value\s*&\s*t_lhs\s*,\s*const\s+Boxed_Value\s*&\s*t_rhs\s*\)\s*\{")
    ob = norm(bn[f[1]:f[2]])
    out["binary_lhs_ptr"] = bool(re.search(r"auto \*lhs = t_lhs\.is_return_value\(\) \? nullptr : static_cast<std::decay_t<decltype\(c_lhs\)> \*>\(t_lhs\.get_ptr\(\)\);", ob))
    out["binary_visit_order"] = bool(re.search(r"return go\(t_oper, t_lhs, lhs, c_lhs, c_rhs\);", ob)) and "visit(t_rhs, rhs_visit)" in ob and ob.rstrip().endswith("return visit(t_lhs, lhs_visit);")
    # --- unary oper
    f = find_function(bn, r"static\s+Boxed_Value\s+oper\s*\(\s*Operators::Opers\s+t_oper\s*,\s*const\s+Boxed_Value\s*&\s*t_lhs\s*\)\s*\{")
    ub = bn[f[1]:f[2]]
    un = []
    UN = {"++(*lhs)": "preinc", "--(*lhs)": "predec", "const_var(-c_lhs)": "neg", "const_var(+c_lhs)": "pos", "const_var(~c_lhs)": "compl"}
    # three regions, by their guards
    for guard, region in ((r"if\s*\(\s*lhs\s*\)\s*\{", "lvalue"), (None, "plain"), (r"if\s+constexpr\s*\(\s*!std::is_floating_point_v<std::decay_t<decltype\(c_lhs\)>>\s*\)\s*\{", "intOnly")):
        pass
    # generic: find each switch and classify by the nearest enclosing guard text
    for m in re.finditer(r"switch\s*\(\s*t_oper\s*\)", ub):
        b, e = body_after(ub, m.end())
        pre = ub[:m.start()]
        # enclosing guard = last unclosed '{' header before the switch
        depth, k, hdr = 0, len(pre) - 1, ""
        while k >= 0:
            if pre[k] == "}":
                depth += 1
            elif pre[k] == "{":
                if depth == 0:
                    ls = pre.rfind(";", 0, k)
                    ls2 = pre.rfind("}", 0, k)
                    ls3 = pre.rfind("{", 0, k)
                    hdr = norm(pre[max(ls, ls2, ls3) + 1:k])
                    break
                depth -= 1
            k -= 1
        if hdr == "if (lhs)":
            region = "lvalue"
        elif hdr.startswith("if constexpr (!std::is_floating_point_v<std::decay_t<decltype(c_lhs)>>)"):
            region = "intOnly"
        elif hdr.startswith("auto unary_operator =") or hdr.endswith("(const auto &c_lhs)"):
            region = "plain"
        else:
            raise Unrecognised("unary oper guard: " + hdr)
        for label, text in split_cases(ub[b:e]):
            if label == "default":
                continue
            stmts = [norm(s) for s in text.split(";") if norm(s)]
            act = stmts[0]
            if act.startswith("return "):
                act = act[len("return "):]
            if act not in UN:
                raise Unrecognised("unary action: " + act)
            un.append(dict(opcode=label, region=region, op=UN[act]))
    out["unary"] = un
    out["unary_lhs_ptr"] = bool(re.search(r"auto \*lhs = static_cast<std::decay_t<decltype\(c_lhs\)> \*>\(t_lhs\.get_ptr\(\)\);", norm(ub)))
    # --- static wrappers
    wr = []
    for m in re.finditer(r"static\s+(?:const\s+)?(bool|Boxed_Number)\s+(\w+)\s*\(([^)]*)\)\s*\{\s*return\s+(.*?);\s*\}", bn, re.S):
        name, params, ex = m.group(2), norm(m.group(3)), norm(m.group(4))
        mo = re.search(r"oper\(Operators::Opers::(\w+), t_lhs\.bv(?:, (.*?))?\)\)?$", ex)
        if not mo:
            continue
        second = mo.group(2)
        nparams = len([p for p in params.split(",") if p.strip()])
        if second is None:
            form = "unary"
        elif second.strip() == "t_rhs.bv":
            form = "binary"
        else:
            form = "binaryDummy"
        wr.append(dict(name=name, opcode=mo.group(1), form=form, nparams=nparams, ret=m.group(1)))
    out["wrappers"] = wr
    # --- opers_arithmetic_pod
    f = find_function(bs, r"static\s+void\s+opers_arithmetic_pod\s*\(\s*Module\s*&\s*m\s*\)\s*\{")
    regs = re.findall(r'm\.add\(fun\(&Boxed_Number::(\w+)\),\s*"([^"]+)"\)', bs[f[1]:f[2]])
    out["registered"] = regs
    return out


def to_lean(x):
    L = []
    L.append("-- GENERATED by extract/e_arith.py from boxed_number.hpp, chaiscript_algebraic.hpp, bootstrap.hpp. Do not edit.")
    L.append("import ChaiVerif.Model.ArithTypes")
    L.append("namespace ChaiVerif.Gen")
    L.append("open ChaiVerif")
    L.append("def opersOrder : List Oper := " + lean_list(["." + o for o in x["opers"]]))
    L.append("def toStringTable : List OpText := " + lean_list([optext(s) for s in x["to_string"]]))
    L.append("def toOperatorCases : List (OpText × Oper × Oper) := " + lean_list(["(%s, .%s, .%s)" % (optext(t), b, u) for t, b, u in x["to_operator"]]))
    L.append("def commonChain : List (SrcType × Option (Option Bool) × Option CT) := " + lean_list(
        ["(.%s, %s, %s)" % (t, "none" if k == "direct" else "some (%s)" % v, "some %s" % v if k == "direct" else "none") for t, k, v in x["common_chain"]]))
    L.append("def sizedTable : List (Nat × Bool × CT) := " + lean_list(["(%d, %s, %s)" % (a, lean_bool(b), c) for a, b, c in x["sized"]]))
    L.append("def zeroGuard : ZeroGuard := .%s" % x["zero_guard"])
    L.append("def ovfGuardDefined : Bool := %s" % lean_bool(x["ovf_guard"]))
    L.append("def protectMacro : Bool := %s" % lean_bool(x["protect_macro"]))
    L.append("def binaryLhsPtrNullForTemporaries : Bool := %s" % lean_bool(x["binary_lhs_ptr"]))
    L.append("def binaryVisitOrder : Bool := %s" % lean_bool(x["binary_visit_order"]))
    L.append("def unaryLhsPtr : Bool := %s" % lean_bool(x["unary_lhs_ptr"]))
    rows = []
    for r in x["go"]:
        rows.append("{ opcode := .%s, intOnly := %s, lvalue := %s, form := .%s, cpp := %s, inOrder := %s, zeroCheck := %s, ovfCheck := %s }" % (
            r["opcode"], lean_bool(r["intOnly"]), lean_bool(r["lvalue"]), r["form"], ("some .%s" % r["cpp"]) if r["cpp"] else "none",
            lean_bool(r["operandsInOrder"]), lean_bool(r["zeroCheck"]), lean_bool(r["ovfCheck"])))
    L.append("def goRows : List GoRow := " + lean_list(rows))
    L.append("def unaryRows : List UnRow := " + lean_list(["{ opcode := .%s, region := .%s, op := .%s }" % (r["opcode"], r["region"], r["op"]) for r in x["unary"]]))
    L.append("def wrappers : List Wrapper := " + lean_list(["{ name := .%s, opcode := .%s, form := .%s, nparams := %d }" % (w["name"], w["opcode"], w["form"], w["nparams"]) for w in x["wrappers"]]))
    L.append("def registered : List (Oper × OpText) := " + lean_list(["(.%s, %s)" % (n, optext(t)) for n, t in x["registered"]]))
    L.append("end ChaiVerif.Gen")
    return "\n".join(L) + "\n"


OPTEXT = {"": "none_", "==": "eqeq", "<": "lt", ">": "gt", "<=": "le", ">=": "ge", "!=": "ne", "=": "asg", "++": "inc", "--": "dec",
          "*=": "mulasg", "+=": "addasg", "/=": "divasg", "-=": "subasg", "&=": "andasg", "|=": "orasg", "<<=": "shlasg",
          ">>=": "shrasg", "%=": "modasg", "^=": "xorasg", "<<": "shl", ">>": "shr", "%": "mod", "&": "band", "|": "bor",
          "^": "bxor", "~": "compl", "+": "plus", "/": "div", "*": "mul", "-": "minus"}


def optext(s):
    if s not in OPTEXT:
        raise Unrecognised("operator text " + repr(s))
    return "." + OPTEXT[s]


def main(repo, outdir):
    x = extract(repo)
    with open(os.path.join(outdir, "Arith.json"), "w") as f:
        json.dump(x, f, indent=1)
    return to_lean(x)


if __name__ == "__main__":
    print(main(sys.argv[1] if len(sys.argv) > 1 else "/repo", "/tmp"))
