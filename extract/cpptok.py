# Tolerant C++ helpers shared by the translators: comment stripping, brace matching, tokens.
import re


def strip_comments(src):
    """Remove // and /* */ comments, keep string/char literals and line structure."""
    out, i, n = [], 0, len(src)
    while i < n:
        c = src[i]
        if src.startswith("//", i):
            j = src.find("\n", i)
            i = n if j < 0 else j
        elif src.startswith("/*", i):
            j = src.find("*/", i + 2)
            seg = src[i:(n if j < 0 else j + 2)]
            out.append("\n" * seg.count("\n"))
            i = n if j < 0 else j + 2
        elif c == '"' or c == "'":
            # raw strings R"x( ... )x"
            if c == '"' and i > 0 and src[i - 1] == "R":
                m = re.match(r'"([^(\s]*)\(', src[i:])
                if m:
                    end = src.find(")" + m.group(1) + '"', i)
                    end = n if end < 0 else end + len(m.group(1)) + 2
                    out.append(src[i:end])
                    i = end
                    continue
            j = i + 1
            while j < n and src[j] != c:
                if src[j] == "\\":
                    j += 1
                j += 1
            out.append(src[i:j + 1])
            i = j + 1
        else:
            out.append(c)
            i += 1
    return "".join(out)


def match_close(src, i, open_ch="{", close_ch="}"):
    """src[i] == open_ch; return index of the matching close (skipping string/char literals)."""
    assert src[i] == open_ch, (src[i - 20:i + 20],)
    depth, n = 0, len(src)
    while i < n:
        c = src[i]
        if c == '"' or c == "'":
            j = i + 1
            while j < n and src[j] != c:
                if src[j] == "\\":
                    j += 1
                j += 1
            i = j + 1
            continue
        if c == open_ch:
            depth += 1
        elif c == close_ch:
            depth -= 1
            if depth == 0:
                return i
        i += 1
    raise ValueError("unbalanced")


def body_after(src, pos):
    """Return (start, end) of the {...} block that starts at/after pos (exclusive of braces)."""
    i = src.index("{", pos)
    j = match_close(src, i)
    return i + 1, j


def find_function(src, signature_regex, start=0):
    """Find a function whose header matches the regex; return (header_start, body_start, body_end)."""
    m = re.compile(signature_regex, re.S).search(src, start)
    if not m:
        return None
    b, e = body_after(src, m.end() - 1 if src[m.end() - 1] == "{" else m.end())
    return m.start(), b, e


def line_of(src, idx):
    return src.count("\n", 0, idx) + 1


def norm(s):
    return re.sub(r"\s+", " ", s).strip()


def lean_str(s):
    return '"' + s.replace("\\", "\\\\").replace('"', '\\"').replace("\n", "\\n") + '"'


def lean_bool(b):
    return "true" if b else "false"


def lean_list(items, indent="  "):
    if not items:
        return "[]"
    return "[\n" + ",\n".join(indent + it for it in items) + "]"
