#!/usr/bin/env python3
# E14: chaiscript_engine.hpp (skip_bom, load_file, use, eval_file, internal_eval_file) -> Gen/File.lean
import re, sys, os, json
sys.path.insert(0, os.path.dirname(os.path.abspath(__file__)))
from cpptok import *


class Unrecognised(Exception):
    pass


def extract(repo):
    s = strip_comments(open(os.path.join(repo, "include/chaiscript/language/chaiscript_engine.hpp")).read())
    out = {}
    f = find_function(s, r"static\s+bool\s+skip_bom\s*\(\s*std::ifstream\s*&\s*infile\s*\)\s*\{")
    b = norm(s[f[1]:f[2]])
    # call sequence on the stream
    calls = re.findall(r"infile\.(read|seekg|clear)\(([^;]*)\);", b)
    seq = [c[0] + ":" + norm(c[1]) for c in calls]
    out["skip_bom_seq"] = seq
    want_old = ["read:buffer, static_cast<std::streamsize>(bytes_needed)", "seekg:3", "seekg:0"]
    want_new = ["read:buffer, static_cast<std::streamsize>(bytes_needed)", "seekg:3", "clear:", "seekg:0"]
    if seq == want_new:
        out["clear_before_seek"] = True
    elif seq == want_old:
        out["clear_before_seek"] = False
    else:
        raise Unrecognised("skip_bom stream calls: %s" % seq)
    out["bom_test"] = bool(re.search(r"if \(\(buffer\[0\] == '\\xef'\) && \(buffer\[1\] == '\\xbb'\) && \(buffer\[2\] == '\\xbf'\)\) \{ infile\.seekg\(3\); return true; \}", b))
    out["buffer_zeroed"] = "size_t bytes_needed = 3; char buffer[3]; memset(buffer, '\\0', bytes_needed);" in b
    f = find_function(s, r"static\s+std::string\s+load_file\s*\(\s*const\s+std::string\s*&\s*t_filename\s*\)\s*\{")
    b = norm(s[f[1]:f[2]])
    out["load_file_shape"] = all(x in b for x in [
        "std::ifstream infile(t_filename.c_str(), std::ios::in | std::ios::ate | std::ios::binary);",
        "if (!infile.is_open()) { throw chaiscript::exception::file_not_found_error(t_filename); }",
        "auto size = infile.tellg(); infile.seekg(0, std::ios::beg);",
        "if (skip_bom(infile)) { size -= 3;",
        "if (size == std::streampos(0)) { return std::string(); } else { std::vector<char> v(static_cast<size_t>(size)); infile.read(&v[0], static_cast<std::streamsize>(size)); return std::string(v.begin(), v.end()); }"])
    # eval_file = eval(load_file)
    out["eval_file_is_eval_of_load"] = bool(re.search(r"Boxed_Value eval_file\(const std::string &t_filename, const Exception_Handler &t_handler = Exception_Handler\(\)\) \{ return eval\(load_file\(t_filename\), t_handler, t_filename\); \}", norm(s)))
    f = find_function(s, r"Boxed_Value\s+use\s*\(\s*const\s+std::string\s*&\s*t_filename\s*\)\s*\{")
    b = norm(s[f[1]:f[2]])
    out["use_shape"] = dict(
        loop_paths="for (const auto &path : m_use_paths) { const auto appendedpath = path + t_filename;" in b,
        locks=("unique_lock<chaiscript::detail::threading::recursive_mutex> l(m_use_mutex);" in b),
        check_then_eval_then_insert=bool(re.search(r"if \(m_used_files\.count\(appendedpath\) == 0\) \{ l2\.unlock\(\); retval = eval_file\(appendedpath\); l2\.lock\(\); m_used_files\.insert\(appendedpath\); \}", b)),
        rethrow_nested=bool(re.search(r"catch \(const exception::file_not_found_error &e\) \{ if \(e\.filename != appendedpath\) \{ throw; \} \}", b)),
        final_throw=b.rstrip().endswith("throw exception::file_not_found_error(t_filename);"))
    f = find_function(s, r"Boxed_Value\s+internal_eval_file\s*\(\s*const\s+std::string\s*&\s*t_filename\s*\)\s*\{")
    b = norm(s[f[1]:f[2]])
    out["internal_eval_file_shape"] = ("return do_eval(load_file(appendedpath), appendedpath, true);" in b and "catch (const exception::file_not_found_error &) { }" in b.replace("{ }", "{ }"))
    # the public evaluation wrappers of the engine (eval / eval_file / operator(), all overloads): which of their named parameters the body never mentions
    wr = []
    for m in re.finditer(r"\b(eval|eval_file|operator\s*\(\s*\))\s*\(([^(){};]*(?:\([^()]*\)[^(){};]*)*)\)\s*(const)?\s*(noexcept)?\s*\{", s):
        name = re.sub(r"\s+", "", m.group(1))
        params = []
        for part in split_top(m.group(2)):
            part = part.split("=")[0].strip()
            pm = re.search(r"([A-Za-z_]\w*)\s*$", part)
            if part and pm and pm.group(1) not in ("void",):
                params.append(pm.group(1))
        o = m.end() - 1
        body = s[o + 1:match_close(s, o)]
        unused = [q for q in params if not re.search(r"\b" + re.escape(q) + r"\b", body)]
        wr.append({"fn": name, "params": params, "unused": unused})
    if len(wr) < 6:
        raise Unrecognised("only %d eval / eval_file / operator() definitions recognised" % len(wr))
    out["wrappers"] = wr
    return out


def split_top(text):
    parts, depth, cur = [], 0, ""
    for ch in text:
        if ch in "(<[":
            depth += 1
        elif ch in ")>]":
            depth -= 1
        if ch == "," and depth == 0:
            parts.append(cur)
            cur = ""
        else:
            cur += ch
    if cur.strip():
        parts.append(cur)
    return parts


def to_lean(x):
    u = x["use_shape"]
    L = ["-- GENERATED by extract/e_file.py from chaiscript_engine.hpp. Do not edit.",
         "namespace ChaiVerif.Gen",
         "def clearBeforeSeek : Bool := " + lean_bool(x["clear_before_seek"]),
         "def bomTestExact : Bool := " + lean_bool(x["bom_test"] and x["buffer_zeroed"]),
         "def loadFileShape : Bool := " + lean_bool(x["load_file_shape"]),
         "def evalFileIsEvalOfLoad : Bool := " + lean_bool(x["eval_file_is_eval_of_load"]),
         "def useLoopsPaths : Bool := " + lean_bool(u["loop_paths"] and u["final_throw"]),
         "def useHoldsUseMutex : Bool := " + lean_bool(u["locks"]),
         "def useCheckEvalInsert : Bool := " + lean_bool(u["check_then_eval_then_insert"]),
         "def useRethrowsNested : Bool := " + lean_bool(u["rethrow_nested"]),
         "", "/-- (function, its named parameters, those the body never mentions) for every definition of eval / eval_file / operator() in chaiscript_engine.hpp -/",
         "def engineWrappers : List (String × List String × List String) := [",
         ",\n".join("  (%s, [%s], [%s])" % (lean_str(w["fn"]), ", ".join(lean_str(q) for q in w["params"]), ", ".join(lean_str(q) for q in w["unused"])) for w in x["wrappers"]),
         "]",
         "end ChaiVerif.Gen"]
    return "\n".join(L) + "\n"


def main(repo, outdir):
    x = extract(repo)
    with open(os.path.join(outdir, "File.json"), "w") as f:
        json.dump(x, f, indent=1)
    return to_lean(x)


if __name__ == "__main__":
    print(main(sys.argv[1] if len(sys.argv) > 1 else "/repo", "/tmp"))
