import ChaiVerif.Props.C05
import ChaiVerif.Drv.Arith
