import ChaiVerif.Props.C05
import ChaiVerif.Drv.Arith
import ChaiVerif.Props.C16
import ChaiVerif.Drv.Lit
import ChaiVerif.Props.C12
import ChaiVerif.Drv.Stl
import ChaiVerif.Props.C19
import ChaiVerif.Drv.File
