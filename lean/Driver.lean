import ChaiVerif.Drv.Arith
import ChaiVerif.Drv.Lit
import ChaiVerif.Drv.Stl
import ChaiVerif.Drv.File
import ChaiVerif.Drv.Json
import ChaiVerif.Drv.Prelude
import ChaiVerif.Drv.Env
import ChaiVerif.Drv.Dispatch
import ChaiVerif.Drv.Chai
import ChaiVerif.Drv.Pos
import ChaiVerif.Drv.Rc
import ChaiVerif.Drv.Tls
import ChaiVerif.Drv.Prec
import ChaiVerif.Drv.Ws
open ChaiVerif.Drv

def main (args : List String) : IO UInt32 := do
  match args with
  | ["arith"] => lineLoop arithLine; return 0
  | ["literal"] => lineLoop litLine; return 0
  | ["stl"] => lineLoop stlLine; return 0
  | ["file"] => lineLoop fileLine; return 0
  | ["json"] => lineLoop jsonLine; return 0
  | ["prelude"] => lineLoop preludeLine; return 0
  | ["state"] => lineLoop stateLine; return 0
  | ["dispatch"] => lineLoop dispLine; return 0
  | ["chai"] => lineLoop (fun l => let r := (chaiLine l).replace "\n" " "; "model=" ++ r ++ "\tspec=" ++ r); return 0
  | ["chai-print"] => lineLoop (fun l => (chaiLine ("print " ++ l)).replace "\n" " "); return 0
  | ["pos"] => lineLoop posLine; return 0
  | ["rc"] => lineLoop rcLine; return 0
  | ["tls"] => lineLoop tlsLine; return 0
  | ["prec"] => lineLoop precLine; return 0
  | ["ws"] => lineLoop wsLine; return 0
  | ["chai-tree"] => lineLoop (fun l => (chaiLine ("tree " ++ l)).replace "\n" " "); return 0
  | ["arith-abi"] => (abiLines.forM IO.println); return 0
  | _ => IO.eprintln "usage: chaimodel <mode>"; return 2
