/-
Property C01, clause "never reads outside the input buffer … never silently drops text it could not parse", for the bottom layer of the
lexer (M-WS, Model/Ws.lean = `SkipWS` / `SkipComment`): every token function of the parser first calls `SkipWS`, so what this loop
passes over is exactly the text that never reaches the grammar.
-/
import ChaiVerif.Model.Ws
namespace ChaiVerif.C01Ws
open ChaiVerif.Ws

theorem symAt_le {s : List Nat} {i : Nat} {sym : List Nat} (h : symAt s i sym = true) : i + sym.length ≤ s.length := by
  simp only [symAt, Bool.and_eq_true, decide_eq_true_eq] at h
  exact h.1

theorem multi_bounds (s : List Nat) : ∀ (f i : Nat), i ≤ s.length → i ≤ multi s f i ∧ multi s f i ≤ s.length := by
  intro f
  induction f with
  | zero => intro i h; simp [multi, h]
  | succ f ih =>
    intro i h
    unfold multi
    split
    · split
      · rename_i _ hs; have := symAt_le hs; simp at this; omega
      · split
        · rename_i _ _ hs; have := symAt_le hs; simp at this
          have := ih (i + 2) (by omega); omega
        · have := ih (i + 1) (by omega); omega
    · omega

theorem single_bounds (s : List Nat) : ∀ (f i : Nat), i ≤ s.length → i ≤ single s f i ∧ single s f i ≤ s.length := by
  intro f
  induction f with
  | zero => intro i h; simp [single, h]
  | succ f ih =>
    intro i h
    unfold single
    split
    · split
      · omega
      · split
        · omega
        · have := ih (i + 1) (by omega); omega
    · omega

theorem skipComment_bounds (s : List Nat) (i j : Nat) (h : skipComment s i = some j) : i < j ∧ j ≤ s.length := by
  unfold skipComment at h
  split at h
  · rename_i hs; have := symAt_le hs; simp at this
    injection h with h; subst h
    have := multi_bounds s s.length (i + 2) (by omega); omega
  · split at h
    · rename_i _ hs; have := symAt_le hs; simp at this
      injection h with h; subst h
      have := single_bounds s s.length (i + 2) (by omega); omega
    · split at h
      · rename_i _ _ hs; have := symAt_le hs; simp at this
        injection h with h; subst h
        have := single_bounds s s.length (i + 1) (by omega); omega
      · simp at h

/-- the step SkipWS takes over a blank or a line end stays inside the buffer -/
theorem blank_step_bounds (s : List Nat) (i : Nat) (h : i < s.length) :
    i < (if endLine s i && byteAt s i == 13 then i + 2 else i + 1) ∧ (if endLine s i && byteAt s i == 13 then i + 2 else i + 1) ≤ s.length := by
  split
  · rename_i hc
    simp only [endLine, Bool.and_eq_true, bne_iff_ne, ne_eq, Bool.or_eq_true, beq_iff_eq] at hc
    have h13 := hc.2
    have : byteAt s (i + 1) = 10 := by
      rcases hc.1.2 with h10 | h; · omega
      · exact h.2
    have : i + 1 < s.length := by
      by_cases hn : i + 1 < s.length
      · exact hn
      · exfalso
        simp [byteAt, List.getD, List.getElem?_eq_none (by omega : s.length ≤ i + 1)] at this
    omega
  · omega

/-- **The cursor stays inside the input**: whatever the bytes, wherever SkipWS starts and whichever flavour is called, it ends with the
    cursor between its start and the end of the buffer. -/
theorem skipWS_stays_in_buffer (s : List Nat) (cr : Bool) : ∀ (f i : Nat) (m m' : Bool) (j : Nat), i ≤ s.length →
    skipWS s cr f i m = .ok m' j → i ≤ j ∧ j ≤ s.length := by
  intro f
  induction f with
  | zero => intro i m m' j _ h; simp [skipWS] at h
  | succ f ih =>
    intro i m m' j hi h
    unfold skipWS at h
    split at h
    · rename_i hlt
      split at h
      · simp at h
      · split at h
        · have hb := blank_step_bounds s i hlt
          have := ih _ _ _ _ hb.2 h; omega
        · split at h
          · rename_i k hk
            have hb := skipComment_bounds s i k hk
            have := ih _ _ _ _ hb.2 h; omega
          · injection h with _ h; omega
    · injection h with _ h; omega

/-- **SkipWS terminates**: the fuel `skip` gives it (the number of bytes left, plus one) is never used up — every pass of the loop
    moves the cursor forward. -/
theorem skipWS_never_out_of_fuel (s : List Nat) (cr : Bool) : ∀ (f i : Nat) (m : Bool), i ≤ s.length → s.length - i < f →
    skipWS s cr f i m ≠ .fuel := by
  intro f
  induction f with
  | zero => intro i m _ h; omega
  | succ f ih =>
    intro i m hi hf
    unfold skipWS
    split
    · rename_i hlt
      split
      · simp
      · split
        · have hb := blank_step_bounds s i hlt
          exact ih _ _ hb.2 (by omega)
        · split
          · rename_i k hk
            have hb := skipComment_bounds s i k hk
            exact ih _ _ hb.2 (by omega)
          · simp
    · simp

theorem skip_total (s : List Nat) (cr : Bool) (i : Nat) (hi : i ≤ s.length) : skip s cr i ≠ .fuel :=
  skipWS_never_out_of_fuel s cr _ i false hi (by omega)

/-- what SkipWS may pass over: blanks, line ends when asked to, and comments — nothing else -/
inductive Skippable (s : List Nat) (cr : Bool) : Nat → Nat → Prop
  | done (i : Nat) : Skippable s cr i i
  | blank (i j : Nat) : white (byteAt s i) = true → Skippable s cr (i + 1) j → Skippable s cr i j
  | newline (i j : Nat) : cr = true → byteAt s i = 10 → Skippable s cr (i + 1) j → Skippable s cr i j
  | crlf (i j : Nat) : cr = true → byteAt s i = 13 → byteAt s (i + 1) = 10 → Skippable s cr (i + 2) j → Skippable s cr i j
  | comment (i k j : Nat) : skipComment s i = some k → Skippable s cr k j → Skippable s cr i j

/-- **Nothing but blanks and comments is dropped**: the bytes between the cursor before and after SkipWS are a sequence of blanks, line
    ends (only in the skip_cr flavour) and whole comments. -/
theorem skipWS_drops_only_blanks_and_comments (s : List Nat) (cr : Bool) : ∀ (f i : Nat) (m m' : Bool) (j : Nat),
    skipWS s cr f i m = .ok m' j → Skippable s cr i j := by
  intro f
  induction f with
  | zero => intro i m m' j h; simp [skipWS] at h
  | succ f ih =>
    intro i m m' j h
    unfold skipWS at h
    split at h
    · split at h
      · simp at h
      · split at h
        · rename_i hw
          have hrec := ih _ _ _ _ h
          simp only [Bool.or_eq_true, Bool.and_eq_true] at hw
          rcases hw with hw | ⟨hcr, he⟩
          · have : (endLine s i && byteAt s i == 13) = false := by
              simp only [white, Bool.or_eq_true, beq_iff_eq] at hw
              simp only [Bool.and_eq_false_iff, beq_eq_false_iff_ne, ne_eq]
              right; omega
            rw [this] at hrec
            exact .blank i j hw hrec
          · by_cases h13 : byteAt s i = 13
            · have e : (endLine s i && byteAt s i == 13) = true := by simp [he, h13]
              rw [e] at hrec
              simp only [endLine, Bool.and_eq_true, bne_iff_ne, ne_eq, Bool.or_eq_true, beq_iff_eq] at he
              have : byteAt s (i + 1) = 10 := by
                rcases he.2 with h10 | h; · omega
                · exact h.2
              exact .crlf i j hcr h13 this hrec
            · have e : (endLine s i && byteAt s i == 13) = false := by simp [h13]
              rw [e] at hrec
              simp only [endLine, Bool.and_eq_true, bne_iff_ne, ne_eq, Bool.or_eq_true, beq_iff_eq] at he
              have : byteAt s i = 10 := by
                rcases he.2 with h10 | h; · exact h10
                · exact absurd h.1 h13
              exact .newline i j hcr this hrec
        · split at h
          · rename_i k hk
            exact .comment i k j hk (ih _ _ _ _ h)
          · injection h with _ h; subst h; exact .done i
    · injection h with _ h; subst h; exact .done i

/-- **SkipWS stops only where a token must start**: at the end of the input, or at a byte that is a legal character, not a blank, not a
    line end the caller asked to skip, and not the start of a comment. -/
theorem skipWS_stops_at_token_start (s : List Nat) (cr : Bool) : ∀ (f i : Nat) (m m' : Bool) (j : Nat),
    skipWS s cr f i m = .ok m' j →
    s.length ≤ j ∨ (byteAt s j ≤ 126 ∧ white (byteAt s j) = false ∧ (cr && endLine s j) = false ∧ skipComment s j = none) := by
  intro f
  induction f with
  | zero => intro i m m' j h; simp [skipWS] at h
  | succ f ih =>
    intro i m m' j h
    unfold skipWS at h
    split at h
    · split at h
      · simp at h
      · rename_i hle
        split at h
        · exact ih _ _ _ _ h
        · rename_i hw
          split at h
          · exact ih _ _ _ _ h
          · rename_i hc
            injection h with _ h; subst h
            right
            simp only [Bool.or_eq_true, not_or, Bool.not_eq_true] at hw
            exact ⟨by omega, hw.1, hw.2, hc⟩
    · injection h with _ h; subst h; left; omega

/-- **A line comment ends with its line**: no byte a `//` or `#` comment passes over is a line feed, so the comment never swallows the
    statement on the next line. -/
theorem line_comment_stays_on_its_line (s : List Nat) : ∀ (f i p : Nat), i ≤ p → p < single s f i → byteAt s p ≠ 10 := by
  intro f
  induction f with
  | zero => intro i p h1 h2; simp [single] at h2; omega
  | succ f ih =>
    intro i p h1 h2
    unfold single at h2
    split at h2
    · split at h2
      · omega
      · split at h2
        · omega
        · rename_i hne
          by_cases hp : p = i
          · subst hp; simpa using hne
          · exact ih (i + 1) p (by omega) h2
    · omega

/-- … and it stops exactly at the line end (or at the end of the input) -/
theorem line_comment_stops_at_line_end (s : List Nat) : ∀ (f i : Nat), i ≤ s.length → s.length - i ≤ f →
    single s f i = s.length ∨ byteAt s (single s f i) = 10 ∨ symAt s (single s f i) [13, 10] = true := by
  intro f
  induction f with
  | zero => intro i h1 h2; left; simp [single]; omega
  | succ f ih =>
    intro i h1 h2
    unfold single
    split
    · split
      · rename_i hs; right; right; exact hs
      · split
        · rename_i hb; right; left; simpa using hb
        · exact ih (i + 1) (by omega) (by omega)
    · left; omega

/-- **A block comment ends at the first `*/`**: none of the positions the loop steps over starts a `*/`. -/
theorem block_comment_ends_at_first_close (s : List Nat) : ∀ (f i p : Nat), i ≤ p → p + 2 ≤ multi s f i → symAt s p [42, 47] = true →
    p + 2 = multi s f i := by
  intro f
  induction f with
  | zero => intro i p h1 h2 _; simp [multi] at h2; omega
  | succ f ih =>
    intro i p h1 h2 hs
    unfold multi at h2 ⊢
    split at h2
    · rename_i hlt
      simp only [hlt, if_true]
      split at h2
      · rename_i hc; simp only [hc, if_true]; omega
      · rename_i hc
        simp only [hc]
        split at h2
        · rename_i hcr
          simp only [hcr, if_true]
          -- positions i and i+1 hold "\r\n": neither starts "*/"
          by_cases hp : p = i
          · subst hp; simp [hs] at hc
          · by_cases hp1 : p = i + 1
            · subst hp1
              exfalso
              simp only [symAt, Bool.and_eq_true, decide_eq_true_eq, beq_iff_eq] at hs hcr
              have a := hcr.2
              have b := hs.2
              have e1 : (s.drop i).take 2 = [13, 10] := by simpa using a
              have e2 : (s.drop (i + 1)).take 2 = [42, 47] := by simpa using b
              have : s[i + 1]? = some 10 := by
                have := congrArg (fun l => l[1]?) e1
                simpa [List.getElem?_take, List.getElem?_drop] using this
              have : s[i + 1]? = some 42 := by
                have := congrArg (fun l => l[0]?) e2
                simpa [List.getElem?_take, List.getElem?_drop] using this
              simp_all
            · exact ih (i + 2) p (by omega) h2 hs
        · rename_i hcr
          simp only [hcr]
          by_cases hp : p = i
          · subst hp; simp [hs] at hc
          · exact ih (i + 1) p (by omega) h2 hs
    · omega

/-- **SkipWS twice is SkipWS once**: from the position SkipWS stopped at, a second call (same flavour) moves nothing and reports that it
    skipped nothing — every token function may call it again without losing or re-reading text. -/
theorem skip_idempotent (s : List Nat) (cr : Bool) (i j : Nat) (m : Bool) (hi : i ≤ s.length) (h : skip s cr i = .ok m j) :
    skip s cr j = .ok false j := by
  unfold skip at h
  have hb := skipWS_stays_in_buffer s cr _ i false m j hi h
  have hs := skipWS_stops_at_token_start s cr _ i false m j h
  unfold skip
  obtain ⟨g, hg⟩ : ∃ g, s.length + 1 - j = g + 1 := ⟨s.length - j, by omega⟩
  rw [hg]
  unfold skipWS
  rcases hs with hend | ⟨h1, h2, h3, h4⟩
  · have : ¬ j < s.length := by omega
    simp [this]
  · by_cases hj : j < s.length
    · have h1' : ¬ byteAt s j > 126 := by omega
      simp [hj, h1', h2, h3, h4]
    · simp [hj]

/-- non-vacuity and a reading aid: blanks, a block comment holding a fake line comment, a line comment up to its line end, then code;
    a byte above 0x7e outside comments is an error, inside a comment it is skipped; an unterminated block comment runs to the end. -/
theorem skip_examples :
    skip [32, 47, 42, 47, 47, 42, 47, 9, 47, 47, 120, 10, 121] false 0 = .ok true 11 ∧
    skip [32, 47, 42, 47, 47, 42, 47, 9, 47, 47, 120, 10, 121] true 0 = .ok true 12 ∧
    skip [35, 200, 13, 10, 65] true 0 = .ok true 4 ∧
    skip [32, 200] false 0 = .illegal 1 ∧
    skip [47, 42, 120] false 0 = .ok true 3 ∧
    skip [120] false 0 = .ok false 0 := by decide

end ChaiVerif.C01Ws
