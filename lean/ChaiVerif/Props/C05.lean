/-
Property C05 — script arithmetic is C++ arithmetic; trapping operations raise arithmetic_error.
Only property theorems and their non-vacuity examples live here.  `Gen.*` is regenerated from
/repo's headers on every run, so each theorem is re-checked against what the code says now.
-/
import ChaiVerif.Lemmas.Arith
import ChaiVerif.Gen.Arith
namespace ChaiVerif.C05
open ChaiVerif

/-- The enum the model uses is the enum of the source, in the source's order. -/
theorem opers_enum_matches : Gen.opersOrder = Oper.all := by decide

/-- No opcode has two cases in `go` (so "the row of an opcode" is well defined). -/
theorem go_rows_unique : (Gen.goRows.map (·.opcode)).Nodup := by decide

def rowOk (r : GoRow) : Bool :=
  r.inOrder &&
  (match r.opcode.cls with
   | .value c io => r.form == .value && r.cpp == some c && r.intOnly == io && r.lvalue == false
   | .compound c io => r.form == .compound && r.cpp == some c && r.intOnly == io && r.lvalue == true
   | .assign => r.form == .assign && r.intOnly == false && r.lvalue == true
   | .notBinary => false)

/-- Every row applies the C++ operator its opcode names, to (c_lhs, c_rhs) in that order, in the
    region (any type; integer-only; needs a modifiable lhs) C++ requires. -/
theorem go_table_semantics : ∀ r ∈ Gen.goRows, rowOk r = true := by decide

/-- Exactly the division-like rows carry the zero check and the minimum-by-minus-one check. -/
theorem division_rows_checked :
    ∀ r ∈ Gen.goRows, (r.zeroCheck = (r.cpp.map CppOp.isDivLike).getD false) ∧
                      (r.ovfCheck = (r.cpp.map CppOp.isDivLike).getD false) := by decide

/-- The zero check looks at both operand types (a floating division is never refused), and the
    overflow check exists with the recognised body. -/
theorem zero_guard_is_integral_only : Gen.zeroGuard = .bothNotFloat ∧ Gen.ovfGuardDefined = true := by decide

/-- The helpers around `go` have the shape the model assumes: divide protection is compiled in by
    default; the binary `oper` passes a null lhs pointer for temporaries; lhs is visited first. -/
theorem oper_shape : Gen.protectMacro = true ∧ Gen.binaryLhsPtrNullForTemporaries = true ∧
    Gen.binaryVisitOrder = true ∧ Gen.unaryLhsPtr = true := by decide

/-- **The cell theorem.** For every opcode, every pair of operands of every type and value, and
    either lvalue state, `Boxed_Number::go` (as tabulated from the source) does what the
    specification says: the named C++ operator at the operands' static types, integer-only
    operators rejecting floats, assignment forms updating the lhs in place with the converted
    result, `arithmetic_error` exactly where the CPU would trap. -/
theorem go_is_spec (op : Oper) (l r : Num) (lv : Bool) :
    goModel Gen.goRows Gen.zeroGuard op l r lv = specGo op l r lv := by
  cases op <;> cases lv <;> cases l <;> cases r <;>
    simp [goModel, Gen.goRows, Gen.zeroGuard, specGo, Oper.cls, wouldTrap, zeroFires, CppOp.isDivLike, Num.isFloat] <;>
    first
      | (simp [ovfFires]; done)
      | (split <;> simp_all)

theorem un_is_spec (op : Oper) (n : Num) (lv : Bool) :
    unModel Gen.unaryRows op n lv = specUn op n lv := by
  cases op <;> cases lv <;> cases n <;> simp [unModel, Gen.unaryRows, specUn, Num.isFloat]

/-- `Operators::to_operator` maps every operator spelling to the opcode it denotes (binary and
    unary use), with one omission: `/=` is not in the switch. -/
theorem to_operator_table (t : OpText) (u : Bool) :
    toOperator Gen.toOperatorCases t u = codeToOperator t u := by
  cases t <;> cases u <;> decide

/-- Name-level overload resolution of the function route: a spelling with a one-operand meaning
    resolves, for one argument, to the *unary* `oper` with the opcode the spelling denotes;
    nothing else resolves for one argument. -/
theorem resolve_unary (t : OpText) :
    resolveFunction Gen.wrappers Gen.registered t 1
      = if t.unaryOk then some (specToOperator t true, WForm.unary) else none := by
  cases t <;> decide

/-- … and for two arguments to the *binary* `oper` with the denoted opcode. -/
theorem resolve_binary (t : OpText) :
    resolveFunction Gen.wrappers Gen.registered t 2
      = if t.binaryOk then some (specToOperator t false, WForm.binary) else none := by
  cases t <;> decide

/-- The routes agree: calling an operator as a function reaches the same opcode and the same
    `oper` overload as the operator node and the constant folder (which share `to_operator` and
    `do_oper`), for every spelling, every operand list and either lvalue state. -/
theorem routes_agree (t : OpText) (args : List Num) (lv : Bool) :
    routeFunction Gen.goRows Gen.unaryRows Gen.zeroGuard Gen.wrappers Gen.registered t args lv
      = specFunction t args lv ∧
    routeNode Gen.goRows Gen.unaryRows Gen.zeroGuard Gen.toOperatorCases Gen.wrappers Gen.registered t args lv
      = specFunction t args lv := by
  rcases args with _ | ⟨a, _ | ⟨b, _ | ⟨c, rest⟩⟩⟩ <;> cases t <;>
    simp [routeFunction, routeNode, to_operator_table, codeToOperator, resolve_unary, resolve_binary,
      OpText.unaryOk, OpText.binaryOk, specFunction, specToOperator, go_is_spec, un_is_spec, specGo, specUn, Oper.cls]

/-- **No trap.** For well-formed operands (integers within the range of their class) no cell of
    `go` reaches a trapping CPU instruction: it is an `arithmetic_error` instead. -/
theorem go_never_traps (op : Oper) (l r : Num) (lv : Bool) (hl : l.WF) (hr : r.WF) :
    (goModel Gen.goRows Gen.zeroGuard op l r lv).isTrap = false := by
  rw [go_is_spec]; exact specGo_no_trap op l r lv hl hr

/-- `get_common_type` maps every recognised C++ type to the class with its ABI width, signedness
    and floating kind (so no width or sign information is lost before `go` runs), and it
    recognises exactly the 22 arithmetic types. -/
theorem common_type_is_abi :
    Gen.commonChain.map (·.1) = SrcType.all ∧
    ∀ e ∈ Gen.commonChain, commonOf Gen.sizedTable SrcType.sizeSigned e = some e.1.abi := by decide

end ChaiVerif.C05
