/-
Property C03 / C01: how operators written without blanks are split (M-SYM, Model/Sym.lean = `Symbol()`'s look-ahead rule with the symbol
alphabet and the operator arrays regenerated from the source).  The quantifier is a finite table — every binary / ternary operator of the
parser followed directly by every prefix operator, by '(' and by an identifier — and the kernel evaluates all of it.
-/
import ChaiVerif.Model.Sym
import ChaiVerif.Gen.Prec
namespace ChaiVerif.C03Sym
open ChaiVerif ChaiVerif.Sym

def chaiSym : Cfg := { alpha := Gen.precSymbolAlphabet, ops := Gen.precLevels.flatten }

/-- the source still is the function the model transcribes, over the alphabet `& * + - . / < = > ? ^ |` -/
theorem symbol_function_shape : Gen.precSymbolShape = true ∧ Gen.precSymbolAlphabet = [38, 42, 43, 45, 46, 47, 60, 61, 62, 63, 94, 124] := by decide

/-- C's punctuators longer than one character (plus ChaiScript's `:=`, `..`, `::` and the comment openers): what maximal munch can join -/
def cPunct : List (List Nat) :=
  [[43,43],[45,45],[60,60],[62,62],[60,61],[62,61],[61,61],[33,61],[38,38],[124,124],[43,61],[45,61],[42,61],[47,61],[37,61],[38,61],[124,61],[94,61],
   [60,60,61],[62,62,61],[45,62],[46,46,46],[58,58],[47,47],[47,42],[58,61],[46,46]]

/-- under C's maximal munch `a` followed directly by `b` is read as `a` then `b`: no punctuator longer than `a` starts there -/
def cSplits (a b : List Nat) : Bool := cPunct.all (fun p => !(decide (a.length < p.length) && (a ++ b).take p.length == p))

/-- the spellings of the parser's binary and ternary operators (levels 0 … 10) and of its prefix operators, as bytes -/
def binaryOps : List (List Nat) :=
  [[63],[124,124],[38,38],[124],[94],[38],[61,61],[33,61],[60],[60,61],[62],[62,61],[60,60],[62,62],[43],[45],[42],[47],[37]]
def prefixOps : List (List Nat) := [[43,43],[45,45],[45],[43],[33],[126]]

/-- the byte lists above are the regenerated tables -/
theorem operator_spellings_are_the_tables :
    binaryOps.map symId = (Gen.precLevels.take 11).flatten ∧ prefixOps.map symId = Gen.precPrefix := by decide

/-- **Operators glued to what follows are split as in C**: for every binary / ternary operator `o` and every prefix operator, '(' or
    identifier start `p`, `Symbol(o)` accepts `o` in front of `p` exactly when C's maximal munch reads `o p` as two tokens (`a+-b`, `a<-b`,
    `a?-b:c`, `a*(b)`, `a&&!b` … are fine; `a--b`, `a++b` are not, in C either). -/
theorem glued_operators_split_as_in_C :
    binaryOps.all (fun o => (prefixOps ++ [[40], [120]]).all (fun p =>
      (symbolAt chaiSym (o ++ p ++ [120]) 0 o false).isSome == cSplits o p)) = true := by decide

/-- … but the ':' of `?:` and of map pairs is not in the operator arrays, so the rule rejects it in front of ANY character of the symbol
    alphabet: `c ? a :-b` is not recognised although C splits `:-` (known finding COLON_GLUED_TO_SIGN, replayed on the engine by C03's
    blank-free spellings), while `:!b` and `: -b` are. -/
theorem colon_glued_to_sign_counterexample :
    symbolAt chaiSym [58, 45, 120] 0 [58] false = none ∧ cSplits [58] [45] = true ∧
    symbolAt chaiSym [58, 33, 120] 0 [58] false = some 1 ∧ symbolAt chaiSym [58, 32, 45, 120] 0 [58] false = some 1 := by decide

/-- with `t_disallow_prevention` (how Equation() asks for its assignment symbols) the look-ahead is off: `a=-1` is `a = (-1)` -/
theorem assignment_symbols_ignore_lookahead :
    symbolAt chaiSym [61, 45, 49] 0 [61] true = some 1 ∧ symbolAt chaiSym [61, 45, 49] 0 [61] false = none := by decide

end ChaiVerif.C03Sym
