/-
Property C14 — engine instances are isolated from one another.

All engine state lives in members of the engine, except the per-thread data, which lives in `thread_local` maps keyed per
`Thread_Storage` object (M-TLS, Model/Tls.lean).  Proved for every history of storages being created, used from any threads and
destroyed from any thread:
 * a key handed out is larger than every key present in any thread's map, so a NEW storage sees nothing on ANY thread — also
   when an older storage was destroyed while other threads still hold entries for it, and whatever address the new object has
   [fresh_storage_sees_nothing];
 * using or destroying one storage never changes what any thread holds for another [write_other_unchanged, destroy_other_unchanged];
 * destruction removes exactly the destroying thread's entry [destroy_removes_own_entry, destroy_keeps_other_threads].
The address-keyed scheme the code used before fix 3f66453 is shown to violate the first point on a concrete history
[address_keyed_storage_inherits].
-/
import ChaiVerif.Model.Tls
namespace ChaiVerif.C14
open ChaiVerif ChaiVerif.Tls

variable {α : Type}

theorem lookup_setMap (s : Tls α) (th th' : Nat) (m : List (Nat × α)) :
    (s.setMap th m).mapOf th' = if th' = th then m else s.mapOf th' := by
  unfold Tls.setMap Tls.mapOf
  by_cases h : th' = th
  · subst h; simp [List.lookup]
  · have hb : (th' == th) = false := by simpa using h
    simp only [List.lookup, hb, h, if_false]
    congr 1
    induction s.maps with
    | nil => rfl
    | cons p ps ih =>
      by_cases hp : p.1 = th
      · have : (p.1 == th) = true := by simpa using hp
        simp only [List.filter_cons, this, Bool.not_true, Bool.false_eq_true, if_false, List.lookup]
        have hne : (th' == p.1) = false := by rw [hp]; exact hb
        rw [hne]; exact ih
      · have : (p.1 == th) = false := by simpa using hp
        simp only [List.filter_cons, this, Bool.not_false, if_true, List.lookup]
        cases hq : (th' == p.1)
        · exact ih
        · rfl

theorem lookup_filter_ne (m : List (Nat × α)) (k k' : Nat) (h : k' ≠ k) :
    (m.filter (fun p => !(p.1 == k))).lookup k' = m.lookup k' := by
  induction m with
  | nil => rfl
  | cons p ps ih =>
    by_cases hp : p.1 = k
    · have hb : (p.1 == k) = true := by simpa using hp
      have hne : (k' == p.1) = false := by rw [hp]; simpa using h
      simp only [List.filter_cons, hb, Bool.not_true, Bool.false_eq_true, if_false, List.lookup, hne]
      exact ih
    · have hb : (p.1 == k) = false := by simpa using hp
      simp only [List.filter_cons, hb, Bool.not_false, if_true, List.lookup]
      cases (k' == p.1)
      · exact ih
      · rfl

theorem lookup_filter_self (m : List (Nat × α)) (k : Nat) : (m.filter (fun p => !(p.1 == k))).lookup k = none := by
  induction m with
  | nil => rfl
  | cons p ps ih =>
    by_cases hp : p.1 = k
    · have hb : (p.1 == k) = true := by simpa using hp
      simp only [List.filter_cons, hb, Bool.not_true, Bool.false_eq_true, if_false]
      exact ih
    · have hb : (p.1 == k) = false := by simpa using hp
      have hne : (k == p.1) = false := by simpa using (fun h : k = p.1 => hp h.symm)
      simp only [List.filter_cons, hb, Bool.not_false, if_true, List.lookup, hne]
      exact ih

/-! ### keys stay below the counter -/

theorem bounded_empty : (Tls.empty : Tls α).KeysBounded := by
  intro th key v h; simp [Tls.empty, Tls.peek, Tls.mapOf, List.lookup] at h

theorem bounded_newStorage (s : Tls α) (h : s.KeysBounded) : s.newStorage.1.KeysBounded := by
  intro th key v hp
  have := h th key v hp
  simp only [Tls.newStorage]; omega

theorem bounded_write (s : Tls α) (th key : Nat) (v : α) (hk : key ≤ s.counter) (h : s.KeysBounded) : (s.write th key v).KeysBounded := by
  intro th' key' v' hp
  unfold Tls.write Tls.peek at hp
  rw [lookup_setMap] at hp
  by_cases ht : th' = th
  · simp only [ht, if_true] at hp
    by_cases hkk : key' = key
    · subst hkk; exact hk
    · have hb : (key' == key) = false := by simpa using hkk
      simp only [List.lookup, hb] at hp
      rw [lookup_filter_ne _ _ _ hkk] at hp
      exact h th key' v' (by subst ht; exact hp)
  · simp only [ht, if_false] at hp
    exact h th' key' v' hp

theorem bounded_access (s : Tls α) (th key : Nat) (d : α) (hk : key ≤ s.counter) (h : s.KeysBounded) : (s.access th key d).1.KeysBounded := by
  unfold Tls.access
  split
  · exact h
  · intro th' key' v' hp
    unfold Tls.peek at hp
    rw [lookup_setMap] at hp
    by_cases ht : th' = th
    · simp only [ht, if_true] at hp
      by_cases hkk : key' = key
      · subst hkk; exact hk
      · have hb : (key' == key) = false := by simpa using hkk
        simp only [List.lookup, hb] at hp
        exact h th key' v' (by subst ht; exact hp)
    · simp only [ht, if_false] at hp
      exact h th' key' v' hp

theorem bounded_destroy (s : Tls α) (th key : Nat) (h : s.KeysBounded) : (s.destroy th key).KeysBounded := by
  intro th' key' v' hp
  unfold Tls.destroy Tls.peek at hp
  rw [lookup_setMap] at hp
  by_cases ht : th' = th
  · simp only [ht, if_true] at hp
    by_cases hkk : key' = key
    · subst hkk; rw [lookup_filter_self] at hp; cases hp
    · rw [lookup_filter_ne _ _ _ hkk] at hp
      exact h th key' v' (by subst ht; exact hp)
  · simp only [ht, if_false] at hp
    exact h th' key' v' hp

/-! ### histories -/

inductive TlsOp (α : Type)
  | newStorage
  | access (th key : Nat) (dflt : α)
  | write (th key : Nat) (v : α)
  | destroy (th key : Nat)

/-- an operation may only name a key that has been handed out (there is no other way to obtain one) -/
def stepT (s : Tls α) : TlsOp α → Tls α
  | .newStorage => s.newStorage.1
  | .access th key d => if key ≤ s.counter then (s.access th key d).1 else s
  | .write th key v => if key ≤ s.counter then s.write th key v else s
  | .destroy th key => s.destroy th key

def runT (ops : List (TlsOp α)) : Tls α := ops.foldl stepT Tls.empty

theorem bounded_reachable (ops : List (TlsOp α)) : (runT ops).KeysBounded := by
  unfold runT
  suffices ∀ s : Tls α, s.KeysBounded → (ops.foldl stepT s).KeysBounded from this _ bounded_empty
  induction ops with
  | nil => intro s h; exact h
  | cons op ops ih =>
    intro s h
    apply ih
    cases op with
    | newStorage => exact bounded_newStorage s h
    | access th key d =>
      simp only [stepT]; split
      · exact bounded_access s th key d (by assumption) h
      · exact h
    | write th key v =>
      simp only [stepT]; split
      · exact bounded_write s th key v (by assumption) h
      · exact h
    | destroy th key => exact bounded_destroy s th key h

/-- **A new engine's storage sees nothing, on any thread, after any history** — in particular after an earlier engine was destroyed
    while other threads still hold entries for it. -/
theorem fresh_storage_sees_nothing (ops : List (TlsOp α)) (th : Nat) :
    (runT ops).newStorage.1.peek th (runT ops).newStorage.2 = none := by
  have hb := bounded_reachable ops
  cases hp : (runT ops).newStorage.1.peek th (runT ops).newStorage.2 with
  | none => rfl
  | some v =>
    have := hb th ((runT ops).counter + 1) v (by simpa [Tls.newStorage, Tls.peek, Tls.mapOf] using hp)
    omega

/-- **Using one storage never changes what any thread holds for another** -/
theorem write_other_unchanged (s : Tls α) (th key : Nat) (v : α) (th' key' : Nat) (h : key' ≠ key) :
    (s.write th key v).peek th' key' = s.peek th' key' := by
  unfold Tls.write Tls.peek
  rw [lookup_setMap]
  by_cases ht : th' = th
  · subst ht
    have hb : (key' == key) = false := by simpa using h
    simp only [if_true, List.lookup, hb]
    exact lookup_filter_ne _ _ _ h
  · simp [ht]

theorem destroy_other_unchanged (s : Tls α) (th key th' key' : Nat) (h : key' ≠ key) :
    (s.destroy th key).peek th' key' = s.peek th' key' := by
  unfold Tls.destroy Tls.peek
  rw [lookup_setMap]
  by_cases ht : th' = th
  · subst ht; simp only [if_true]; exact lookup_filter_ne _ _ _ h
  · simp [ht]

/-- **Destruction removes the destroying thread's entry** … -/
theorem destroy_removes_own_entry (s : Tls α) (th key : Nat) : (s.destroy th key).peek th key = none := by
  unfold Tls.destroy Tls.peek
  rw [lookup_setMap]
  simp only [if_true]
  exact lookup_filter_self _ _

/-- … **and only that one**: other threads keep theirs (which is why keys must never be reused) -/
theorem destroy_keeps_other_threads (s : Tls α) (th key th' : Nat) (h : th' ≠ th) : (s.destroy th key).peek th' key = s.peek th' key := by
  unfold Tls.destroy Tls.peek
  rw [lookup_setMap]
  simp [h]

/-! ### the address-keyed scheme (before fix 3f66453) is not isolating -/

/-- thread 2 used an engine whose storage lived at address 4096 and kept its entry when the engine was destroyed on thread 1; a new engine
    allocated at the same address finds that entry on thread 2 -/
theorem address_keyed_storage_inherits :
    let s : Tls Nat := Tls.empty
    let s := s.write 2 4096 77            -- old engine (key = address 4096) used on thread 2
    let s := s.destroy 1 4096             -- destroyed on thread 1: thread 2's entry stays
    s.peek 2 4096 = some 77 := by decide

end ChaiVerif.C14
