/-
Property C07 — const values cannot be modified from script.

In the evaluator model a const source (literal, const global, const_var, const reference to a C++ object) is an object all of
whose Data records are const and not temporaries — exactly the invariant `Lit n o0` of Lemmas/ChaiLits (the protected objects
are the first `n` of the heap; the program's literals are the special case `St.init`).  `run_lit` shows that NO evaluation — any
statement sequence, through any alias chain (`var &r = c`, `r := c`, parameters, captures, returned handles, vector elements
cloned from it) — changes a protected object or creates a mutable / adoptable handle to it.  The theorems below add that the
direct attempts fail with exactly the const error and leave the whole state untouched.
-/
import ChaiVerif.Lemmas.ChaiRunLits
import ChaiVerif.Props.C08
namespace ChaiVerif.C07
open ChaiVerif.Chai

/-- **No route to a const object is writable**: whatever is evaluated, from any state in which the protected objects are only
    reachable through const handles (e.g. const globals added by the host), they keep their values and stay so protected. -/
theorem const_objects_unchanged (ρ : List FunDef) (n : Nat) (o0 : List Val) (f : Nat) (prog : List Node) (s : St) (h : Lit n o0 s) :
    (run ρ f (.seq prog) s).2.objs.take n = o0 ∧
    ∀ l, ((run ρ f (.seq prog) s).2.cell l).obj < n → ((run ρ f (.seq prog) s).2.cell l).const = true :=
  let r := run_lit ρ f (.seq prog) s h trivial
  ⟨r.same, fun l hl => (r.safe l hl).1⟩

/-- a state with const globals bound to protected objects satisfies the invariant (non-vacuity of the hypothesis above) -/
example : Lit 2 [.int 41, .int 42] { St.init [.int 41, .int 42] with globals := [(7, 0), (8, 1)] } :=
  (ChaiVerif.C08.init_is_lit [.int 41, .int 42]).congr rfl rfl

/-- **Assignment to a const handle is rejected before anything is written**: every assignment operator (`=`, `:=`, `+=`, `-=`, `*=`)
    whose left side evaluates to a const, non-temporary handle raises the const error and the state is the one left by evaluating the
    two operands (plus the call bookkeeping): no object changes. -/
theorem assign_to_const_rejected (ρ : List FunDef) (f : Nat) (op : EqOp) (lhs rhs : Node) (s s1 s2 : St) (r l : Loc)
    (hr : run ρ f (.node rhs) s.enterCall = (.val r, s1)) (hl : run ρ f (.node lhs) s1 = (.val l, s2))
    (hret : (s2.cell l).ret = false) (hconst : (s2.cell l).const = true) :
    run ρ (f + 1) (.node (.eq op lhs rhs)) s = (.thrown (.evalErr .assignConst), s2.leaveCall) := by
  simp [run, withFnCall, bnd, hr, hl, hret, hconst]

/-- `++` / `--` on a const handle -/
theorem increment_of_const_rejected (ρ : List FunDef) (f : Nat) (a : Node) (s s1 : St) (la : Loc) (x : Int)
    (ha : run ρ f (.node a) s = (.val la, s1)) (hv : s1.val la = .int x) (hconst : (s1.cell la).const = true) :
    run ρ (f + 1) (.node (.pre .inc a)) s = (.thrown (.evalErr .assignConst), s1) ∧
    run ρ (f + 1) (.node (.pre .dec a)) s = (.thrown (.evalErr .assignConst), s1) := by
  constructor <;> simp [run, bnd, ha, hv, hconst]

/-- a reference bound to a const handle is itself const (`var &r = c` copies the Data record's constness) -/
theorem reference_to_const_is_const (s : St) (l r : Loc) (h : (s.cell r).const = true) (hl : l < s.heap.length) :
    ((s.setCell l { s.cell r with ret := false }).cell l).const = true := by
  simp only [St.setCell, St.cell]
  rw [cell_set]
  simp [hl]
  exact h

end ChaiVerif.C07
