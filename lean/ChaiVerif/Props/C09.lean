/-
Property C09 — every evaluation leaves the engine's scope/call stack as it found it.
-/
import ChaiVerif.Lemmas.ChaiRunShape
import ChaiVerif.Lemmas.ChaiRunFrame
import ChaiVerif.Lemmas.ChaiRunParamsMain
import ChaiVerif.Model.Chai.Raii
import ChaiVerif.Gen.Raii
namespace ChaiVerif.C09
open ChaiVerif.Chai

/-- **Shape restoration.** For every function table, every program fragment (node, statement list,
    loop, function body, catch-clause scan), every starting state, every fault schedule of the native
    callbacks (it is part of the state) and every amount of fuel — hence for every outcome: normal
    value, break/continue/return escaping, script throw, eval_error, C++ exception of any kind thrown by
    a callback at any invocation, or running out of fuel mid-way — the number of stacks, the number of
    scopes in each stack, the length of call_params and the call depth are what they were before. -/
theorem eval_restores_shape (ρ : List FunDef) (fuel : Nat) (j : Job) (s : St) :
    (run ρ fuel j s).2.shape = s.shape := run_shape ρ fuel j s

/-- the three RAII guard types restore what they changed around any computation that itself restores the shape -/
theorem raii_guards_restore (g : St → R) (s : St) (h : ∀ t, (g t).2.shape = t.shape) :
    (withScope g s).2.shape = s.shape ∧ (withStack g s).2.shape = s.shape ∧ (withFnCall g s).2.shape = s.shape :=
  ⟨withScope_shape g s h, withStack_shape g s h, withFnCall_shape g s h⟩

/-- Top level: evaluation started on the engine's resting state (one stack, one scope, depth 0) ends there. -/
theorem toplevel_rests (ρ : List FunDef) (fuel : Nat) (prog : List Node) (s : St)
    (h : s.shape = ([1], 1, 0)) : (run ρ fuel (.seq prog) s).2.shape = ([1], 1, 0) := by
  rw [run_shape]; exact h

/-! ### what remains visible -/

/-- **An evaluation only ever adds names to the innermost scope of the current stack**: every other scope of every stack, and every
    name already in the innermost scope, is exactly as before — whatever the outcome (value, error, C++ exception, escape, out of fuel). -/
theorem eval_only_extends_innermost_scope (ρ : List FunDef) (fuel : Nat) (j : Job) (s : St) :
    ∃ ext : Scope, (run ρ fuel j s).2.stacks = modifyLast (modifyLast (· ++ ext)) s.stacks := run_frame ρ fuel j s

/-- **Nothing declared inside a block survives it** (normal exit or not): the stacks are exactly what they were. -/
theorem block_leaves_nothing (ρ : List FunDef) (fuel : Nat) (xs : List Node) (s : St) :
    (run ρ (fuel + 1) (.node (.block xs)) s).2.stacks = s.stacks := by
  simp only [run]
  exact withScope_stacks _ _ (fun t => run_frame ρ fuel _ t)

/-- … nor inside a loop (its condition scope, its body, a counting loop's counter) … -/
theorem loops_leave_nothing (ρ : List FunDef) (fuel : Nat) (c b i st : Node) (x : Name) (lo hi : Int) (s : St) :
    (run ρ (fuel + 1) (.node (.whileN c b)) s).2.stacks = s.stacks ∧
    (run ρ (fuel + 1) (.node (.forN i c st b)) s).2.stacks = s.stacks ∧
    (run ρ (fuel + 1) (.node (.cfor x lo hi b)) s).2.stacks = s.stacks := by
  refine ⟨?_, ?_, ?_⟩
  · have h := run_frame ρ (fuel + 1) (.node (.whileN c b)) s
    simp only [run] at h ⊢
    refine withScope_stacks _ _ (fun t => ?_)
    have hh := run_frame ρ fuel (.whileL c b) t
    generalize run ρ fuel (.whileL c b) t = rr at hh ⊢
    obtain ⟨oo, tt⟩ := rr
    cases oo <;> first | exact hh | exact hh.trans (Frame.of_eq rfl)
  · simp only [run]
    refine withScope_stacks _ _ (fun t => ?_)
    refine bnd_frame _ _ _ (run_frame ρ fuel _ _) (fun l t1 => ?_)
    have hh := run_frame ρ fuel (.forL c st b) t1
    generalize run ρ fuel (.forL c st b) t1 = rr at hh ⊢
    obtain ⟨oo, tt⟩ := rr
    cases oo <;> first | exact hh | exact hh.trans (Frame.of_eq rfl)
  · have h := run_frame ρ (fuel + 1) (.node (.cfor x lo hi b)) s
    -- the cfor node is `withScope (…)`: reuse the general theorem through the shape of its definition
    simp only [run] at h ⊢
    refine withScope_stacks _ _ (fun t => ?_)
    split
    · exact Frame.of_eq rfl
    · rename_i s2 h2
      have e2 := (Frame.of_eq (s := t) (t := (t.allocV (.int lo)).2) rfl).trans (Frame.addObject h2)
      have hh := run_frame ρ fuel (.cforL (t.allocV (.int lo)).1 hi b) s2
      generalize run ρ fuel (.cforL (t.allocV (.int lo)).1 hi b) s2 = rr at hh ⊢
      obtain ⟨oo, tt⟩ := rr
      cases oo <;> first | exact e2.trans hh | exact (e2.trans hh).trans (Frame.of_eq rfl)

/-- … nor inside a function call: parameters, captures and locals of the callee live on a stack of their own that is gone afterwards. -/
theorem call_leaves_nothing (ρ : List FunDef) (fuel : Nat) (fid : Nat) (caps : List (Name × Loc)) (args : List Loc) (s : St) :
    (run ρ fuel (.callFn fid caps args) s).2.stacks = s.stacks := by
  cases fuel with
  | zero => rfl
  | succ f =>
    simp only [run]
    split
    · rfl
    · rename_i fd hfd
      refine withStack_stacks _ _ (fun t => ?_)
      split
      · exact Frame.refl t
      · rename_i s1 h1
        split
        · exact Frame.addAll _ h1
        · rename_i s2 h2
          have e2 := (Frame.addAll _ h1).trans (Frame.addAll _ h2)
          have hh := run_frame ρ f (.node fd.body) s2
          generalize run ρ f (.node fd.body) s2 = rr at hh ⊢
          obtain ⟨oo, tt⟩ := rr
          cases oo <;> exact e2.trans hh

/-- **Top-level declarations completed before a failure remain visible**: whatever a statement sequence does, every name that was in
    scope before it is still bound to the same Data record afterwards. -/
theorem earlier_declarations_survive (ρ : List FunDef) (fuel : Nat) (prog : List Node) (s : St) (st : List Scope) (sc : Scope)
    (hs : s.stacks = [st ++ [sc]]) :
    ∃ ext, (run ρ fuel (.seq prog) s).2.stacks = [st ++ [sc ++ ext]] := by
  obtain ⟨ext, he⟩ := run_frame ρ fuel (.seq prog) s
  refine ⟨ext, ?_⟩
  rw [he, hs]
  simp only [modifyLast]
  rw [modifyLast_append_singleton]

/-! ### saved call parameters -/

theorem mem_modifyLast {α} (f : α → α) : ∀ (l : List α) (x : α), x ∈ modifyLast f l → x ∈ l ∨ ∃ y ∈ l, x = f y := by
  intro l
  induction l with
  | nil => intro x h; cases h
  | cons a as ih =>
    intro x h
    cases as with
    | nil => simp [modifyLast] at h; exact Or.inr ⟨a, by simp, h⟩
    | cons b bs =>
      have e : modifyLast f (a :: b :: bs) = a :: modifyLast f (b :: bs) := rfl
      rw [e] at h
      rcases List.mem_cons.mp h with h | h
      · exact Or.inl (by simp [h])
      · rcases ih x h with h' | ⟨y, hy, hxy⟩
        · exact Or.inl (List.mem_cons_of_mem _ h')
        · exact Or.inr ⟨y, List.mem_cons_of_mem _ hy, hxy⟩

/-- **An evaluation touches at most the last entry of call_params, and gives it back**: started outside any call, it leaves that entry
    as it was or empty (fifth induction over the evaluator, `run_pframe`). -/
theorem saved_parameters_frame (ρ : List FunDef) (fuel : Nat) (j : Job) (s : St) :
    ∃ e : List Loc, (run ρ fuel j s).2.params = modifyLast (fun _ => e) s.params ∧ (s.depth = 0 → e = [] ∨ s.params.getLast? = some e) :=
  (run_pframe ρ fuel j s).2

/-- **Saved parameters (and the converted temporaries kept with them) are released when the outermost call returns**: from a state at
    rest — call depth 0, nothing saved — every evaluation, however it ends, leaves nothing saved. -/
theorem saved_parameters_released_at_rest (ρ : List FunDef) (fuel : Nat) (j : Job) (s : St)
    (hd : s.depth = 0) (he : ∀ e ∈ s.params, e = []) : ∀ e ∈ (run ρ fuel j s).2.params, e = [] := by
  obtain ⟨e0, hp, hc⟩ := saved_parameters_frame ρ fuel j s
  have he0 : e0 = [] := by
    rcases hc hd with h | h
    · exact h
    · exact he e0 (List.mem_of_getLast? h)
  intro e hin
  rw [hp] at hin
  rcases mem_modifyLast _ _ _ hin with h | ⟨y, _, hy⟩
  · exact he e h
  · rw [hy, he0]

/-- non-vacuity: a program that throws from a callback inside a function inside a loop inside a try
    still ends in the resting shape, and the state really was perturbed on the way (heap grew). -/
example :
    let ρ : List FunDef := [{ params := [1], body := .block [.call false (.const 0) [.id 0 1]] }]
    let s : St := { St.init [.native 7, .int 3] with fault := ⟨0, .nonStd, false⟩ }
    let r := run ρ 50 (.seq [.whileN (.const 1) (.block [.brk])]) s
    r.2.shape = ([1], 1, 0) := by decide

/-! ### the RAII discipline, regenerated from the source -/

/-- **every push has its pop by construction**: in the current source every call of a Stack_Holder push primitive (new_scope, new_stack,
    new_function_call) sits in the CONSTRUCTOR of a guard struct and every call of a pop primitive in the DESTRUCTOR of the same kind of
    struct (or in a same-named forwarder of the engine); no evaluator code pushes or pops by hand.  Census regenerated by
    extract/e_raii.py on every run, checked by the kernel. -/
theorem raii_primitives_only_in_guards :
    Gen.raiiPrimitiveCalls.all (fun r =>
      (r.2.2.2.1 == "forwarder") ||
      (r.2.2.2.1 == "ctor" && (r.2.2.2.2 == "new_scope" || r.2.2.2.2 == "new_stack" || r.2.2.2.2 == "new_function_call")) ||
      (r.2.2.2.1 == "dtor" && (r.2.2.2.2 == "pop_scope" || r.2.2.2.2 == "pop_stack" || r.2.2.2.2 == "pop_function_call"))) = true := by
  decide

/-- **the model wraps exactly the constructs the code wraps**: for every AST node class the evaluator model covers, the guard objects the
    class constructs in the current source are the combinators `run` uses (`modelGuards`, Model/Chai/Raii.lean) — so the stack-shape
    theorems above speak about the discipline the code actually has; the classes outside the model are pinned as they are today. -/
theorem guards_as_modelled :
    Gen.raiiGuards.all (fun r => (Chai.modelGuards.lookup r.1 == some r.2) || (Chai.unmodelledGuards.lookup r.1 == some r.2)) = true ∧
    Chai.modelGuards.all (fun r => Gen.raiiGuards.lookup r.1 == some r.2) = true := by
  decide

/-- a row of the census of primitive definitions agrees with the model: a non-static wrapper of the engine only forwards to the primitive
    of the same name; every other definition does to the Stack_Holder exactly what the model's primitive does to the model state -/
def PrimRowOK (r : String × Bool × List String) : Prop :=
  if r.2.1 = false ∧ r.1 ∈ ["new_scope", "pop_scope", "new_stack", "pop_stack", "new_function_call", "pop_function_call"] then r.2.2 = ["forward"]
  else ∃ g, Chai.modelPrimitive r.1 = some g ∧ ∀ s : St, Chai.applyEffects r.2.2 s = g s

/-- **the push / pop primitives are the model's**: for every definition of `new_scope`, `pop_scope`, `new_stack`, `pop_stack`,
    `new_function_call`, `pop_function_call` and of the Stack_Holder helpers they call in the current source, the effects its body has on the
    Stack_Holder (read off the source by extract/e_raii.py on every run: pushes and pops of the scope list, the stack list and the saved-parameter
    list, the call depth, the release of the saved parameters at depth 0 — in textual order) compose to `St.pushScope`, `St.popScope`,
    `St.pushStack`, `St.popStack`, `St.enterCall`, `St.leaveCall`, for every state; the engine's convenience wrappers only forward.  So a push
    that forgets the parameter list, a pop that pops one list but not the other, or a wrapper that stops forwarding breaks this theorem. -/
theorem primitives_are_the_model's : ∀ r ∈ Gen.raiiPrimDefs, PrimRowOK r := by
  intro r hr
  simp only [Gen.raiiPrimDefs, List.mem_cons, List.not_mem_nil, or_false] at hr
  rcases hr with rfl | rfl | rfl | rfl | rfl | rfl | rfl | rfl | rfl | rfl | rfl | rfl | rfl
  all_goals first
    | (simp [PrimRowOK]; done)
    | (simp [PrimRowOK, Chai.modelPrimitive, Chai.applyEffects, Chai.applyEffect]; intro s; rfl)
    | (simp [PrimRowOK, Chai.modelPrimitive, Chai.applyEffects, Chai.applyEffect]; done)
    | (simp [PrimRowOK, Chai.modelPrimitive, Chai.applyEffects, Chai.applyEffect]; intro s; simp [St.leaveCall])

/-- … and the six primitives are all there (non-vacuity of the statement above) -/
theorem primitives_present :
    ["new_scope", "pop_scope", "new_stack", "pop_stack", "new_function_call", "pop_function_call"].all
      (fun p => Gen.raiiPrimDefs.any (fun r => r.1 == p && r.2.1)) = true := by decide

end ChaiVerif.C09
