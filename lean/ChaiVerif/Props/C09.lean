/-
Property C09 — every evaluation leaves the engine's scope/call stack as it found it.
-/
import ChaiVerif.Lemmas.ChaiRunShape
namespace ChaiVerif.C09
open ChaiVerif.Chai

/-- **Shape restoration.** For every function table, every program fragment (node, statement list,
    loop, function body, catch-clause scan), every starting state, every fault schedule of the native
    callbacks (it is part of the state) and every amount of fuel — hence for every outcome: normal
    value, break/continue/return escaping, script throw, eval_error, C++ exception of any kind thrown by
    a callback at any invocation, or running out of fuel mid-way — the number of stacks, the number of
    scopes in each stack, the length of call_params and the call depth are what they were before. -/
theorem eval_restores_shape (ρ : List FunDef) (fuel : Nat) (j : Job) (s : St) :
    (run ρ fuel j s).2.shape = s.shape := run_shape ρ fuel j s

/-- the three RAII guard types restore what they changed around any computation that itself restores the shape -/
theorem raii_guards_restore (g : St → R) (s : St) (h : ∀ t, (g t).2.shape = t.shape) :
    (withScope g s).2.shape = s.shape ∧ (withStack g s).2.shape = s.shape ∧ (withFnCall g s).2.shape = s.shape :=
  ⟨withScope_shape g s h, withStack_shape g s h, withFnCall_shape g s h⟩

/-- Top level: evaluation started on the engine's resting state (one stack, one scope, depth 0) ends there. -/
theorem toplevel_rests (ρ : List FunDef) (fuel : Nat) (prog : List Node) (s : St)
    (h : s.shape = ([1], 1, 0)) : (run ρ fuel (.seq prog) s).2.shape = ([1], 1, 0) := by
  rw [run_shape]; exact h

/-- non-vacuity: a program that throws from a callback inside a function inside a loop inside a try
    still ends in the resting shape, and the state really was perturbed on the way (heap grew). -/
example :
    let ρ : List FunDef := [{ params := [1], body := .block [.call false (.const 0) [.id 0 1]] }]
    let s : St := { St.init [.native 7, .int 3] with fault := ⟨0, .nonStd, false⟩ }
    let r := run ρ 50 (.seq [.whileN (.const 1) (.block [.brk])]) s
    r.2.shape = ([1], 1, 0) := by decide

end ChaiVerif.C09
