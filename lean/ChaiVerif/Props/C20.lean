/-
Property C20 — run-time errors point at the construct that failed.

The positions an eval_error reports are copies of the parser's cursor at the moment a node's first token was
matched.  Proved here, for every input text: driving the cursor forward with `++` from the start computes
exactly the 1-based (line, column) of the offset it stands at [cursor_tracks_line_and_column]; stepping back with
`--` undoes the last `++` [dec_undoes_inc]; and the one-column memory of `--` is NOT enough for two steps back
over two newlines [dec_twice_counterexample] — the parser only ever steps back over bytes it has just consumed on
the same line (comment openers, the sign of a number), which the check's cursor-correspondence runs exercise.
Whether the engine threads these positions to the right nodes and call sites is decided differentially
(checks/c20.py: generated multi-file programs with one fault at a position known by construction).
-/
import ChaiVerif.Model.Pos
namespace ChaiVerif.C20
open ChaiVerif

/-- the cursor's line/column after `n` forward steps from any state, in terms of the text between -/
theorem incN_spec (t : List UInt8) : ∀ (n : Nat) (p : Pos), p.idx + n ≤ t.length →
    ((Pos.incN t n p).line, (Pos.incN t n p).col) = lineColGo ((t.drop p.idx).take n) p.line p.col ∧ (Pos.incN t n p).idx = p.idx + n := by
  intro n
  induction n with
  | zero => intro p _; simp [Pos.incN, lineColGo]
  | succ n ih =>
    intro p h
    have hlt : p.idx < t.length := by omega
    have hget : t[p.idx]? = some t[p.idx] := List.getElem?_eq_getElem hlt
    have hdrop : t.drop p.idx = t[p.idx] :: t.drop (p.idx + 1) := (List.drop_eq_getElem_cons hlt)
    simp only [Pos.incN]
    have hstep := ih (p.inc t)
    rw [hdrop, List.take_succ_cons]
    by_cases hc : (t[p.idx] == NL) = true
    · have hinc : p.inc t = { line := p.line + 1, col := 1, lastCol := p.col, idx := p.idx + 1 } := by
        unfold Pos.inc; rw [hget]; simp [hc]
      rw [hinc] at hstep ⊢
      have := hstep (by simp only; omega)
      simp only [lineColGo, hc, if_true]
      refine ⟨this.1, ?_⟩
      have h2 := this.2
      simp only at h2
      rw [h2]; omega
    · have hinc : p.inc t = { p with col := p.col + 1, idx := p.idx + 1 } := by
        unfold Pos.inc; rw [hget]; simp [hc]
      rw [hinc] at hstep ⊢
      have := hstep (by simp only; omega)
      simp only [lineColGo, hc]
      refine ⟨this.1, ?_⟩
      have h2 := this.2
      simp only at h2
      rw [h2]; omega

/-- **The cursor tracks line and column**: after consuming the first `n` bytes of any text, the cursor shows the line (1 + newlines
    consumed) and the column (1 + bytes since the last newline) of that offset. -/
theorem cursor_tracks_line_and_column (t : List UInt8) (n : Nat) (h : n ≤ t.length) :
    ((Pos.incN t n Pos.init).line, (Pos.incN t n Pos.init).col) = lineColGo (t.take n) 1 1 := by
  have := (incN_spec t n Pos.init (by simpa [Pos.init] using h)).1
  simpa [Pos.init] using this

/-- line = 1 + number of newlines in the prefix -/
theorem lineColGo_line (pre : List UInt8) : ∀ (l k : Int), (lineColGo pre l k).1 = l + (pre.filter (· == NL)).length := by
  induction pre with
  | nil => intro l k; simp [lineColGo]
  | cons c rest ih =>
    intro l k
    by_cases hc : (c == NL) = true
    · simp only [lineColGo, hc, if_true, List.filter_cons_of_pos]
      rw [ih]; simp; omega
    · simp only [lineColGo, hc, List.filter_cons_of_neg, Bool.false_eq_true, if_false, not_false_eq_true]
      rw [ih]

/-- **`--` undoes `++`** (line, column and offset; anywhere but at the end of the input) -/
theorem dec_undoes_inc (t : List UInt8) (p : Pos) (h : p.idx < t.length) :
    ((p.inc t).dec t).line = p.line ∧ ((p.inc t).dec t).col = p.col ∧ ((p.inc t).dec t).idx = p.idx := by
  have hget : t[p.idx]? = some t[p.idx] := List.getElem?_eq_getElem h
  unfold Pos.inc
  rw [hget]
  by_cases hc : (t[p.idx] == NL) = true
  · simp only [hc, if_true]
    unfold Pos.dec
    simp [hget, hc]
  · simp only [hc]
    unfold Pos.dec
    simp [hget, hc]

/-- at the end of the input `++` does nothing (the parser relies on this to stop) -/
theorem inc_at_end (t : List UInt8) (p : Pos) (h : t.length ≤ p.idx) : p.inc t = p := by
  unfold Pos.inc
  rw [List.getElem?_eq_none h]

/-- **One remembered column is not enough for two steps back over two newlines**: on "ab\n\n", forward to the end and two steps
    back, the cursor claims column 1 on line 1 although offset 2 is column 3. -/
theorem dec_twice_counterexample :
    let t : List UInt8 := [97, 98, 10, 10]
    let p := (Pos.incN t 4 Pos.init).dec t |>.dec t
    p.idx = 2 ∧ (p.line, p.col) = (1, 1) ∧ lineColGo (t.take 2) 1 1 = (1, 3) := by decide

/-- **The rewinds of SkipComment are exact**: a `//` or `#` comment consumes the line end it finds ("\r\n" by `Symbol_`, two steps; '\n' by
    `Char_`, one step) and steps back over it (`m_position -= 2` / `--m_position`).  Two steps back cross only ONE line feed here, and the
    step in front of it was over a '\r', so the single remembered column is enough: line, column and offset are exactly what they were.
    (With `dec_twice_counterexample` this is the boundary: two line feeds are too many, one is fine.) -/
theorem crlf_rewind_exact (t : List UInt8) (p : Pos) (h : p.idx + 1 < t.length) (h0 : t[p.idx]? = some 13) (h1 : t[p.idx + 1]? = some 10) :
    let q := (((p.inc t).inc t).dec t).dec t
    q.line = p.line ∧ q.col = p.col ∧ q.idx = p.idx := by
  have e1 : p.inc t = { p with col := p.col + 1, idx := p.idx + 1 } := by
    unfold Pos.inc; rw [h0]; simp [NL]
  have e2 : ({ p with col := p.col + 1, idx := p.idx + 1 } : Pos).inc t = { line := p.line + 1, col := 1, lastCol := p.col + 1, idx := p.idx + 2 } := by
    unfold Pos.inc; simp only; rw [h1]; simp [NL]
  have e3 : ({ line := p.line + 1, col := 1, lastCol := p.col + 1, idx := p.idx + 2 } : Pos).dec t = { line := p.line, col := p.col + 1, lastCol := p.col + 1, idx := p.idx + 1 } := by
    unfold Pos.dec; simp only
    have : p.idx + 2 - 1 = p.idx + 1 := by omega
    rw [this, h1]; simp [NL]
  have e4 : ({ line := p.line, col := p.col + 1, lastCol := p.col + 1, idx := p.idx + 1 } : Pos).dec t = { line := p.line, col := p.col, lastCol := p.col + 1, idx := p.idx } := by
    unfold Pos.dec; simp only
    have : p.idx + 1 - 1 = p.idx := by omega
    rw [this, h0]; simp [NL]
  simp only [e1, e2, e3, e4, and_self]

end ChaiVerif.C20
