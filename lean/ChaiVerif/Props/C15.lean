/-
Property C15 — get_state / set_state restore the global environment exactly.
-/
import ChaiVerif.Model.Env
import ChaiVerif.Gen.Env
import ChaiVerif.Lemmas.FlatMap
import ChaiVerif.Gen.FlatMap
namespace ChaiVerif.C15
open ChaiVerif

/-- The source has the shape the value-semantics model relies on: `add_function` copies the overload
    vector, pushes, sorts and publishes a *new* shared vector (never mutating the published one), keeps
    the two object tables in step with `insert_or_assign`; `get_state`/`set_state` copy the whole
    `State` under the lock, and the engine-level state carries used files and loaded modules. -/
theorem env_code_shape :
    Gen.addFunctionCopyOnWrite = true ∧ Gen.addFunctionConflictTest = true ∧ Gen.addFunctionTablesInStep = true ∧
    Gen.engineStateCopies = true ∧ Gen.chaiStateFields = true ∧ Gen.stateHasFiveTables = true := by decide

theorem lookup_cons' {α} (n k : Nat) (v : α) (l : List (Nat × α)) :
    ((k, v) :: l).lookup n = if n = k then some v else l.lookup n := by
  by_cases h : n = k
  · subst h; simp [List.lookup]
  · have hb : (n == k) = false := by simp [h]
    simp [List.lookup, hb, h]

theorem lookup_setKey {α} (k n : Nat) (v : α) (l : List (Nat × α)) :
    (setKey k v l).lookup n = if n = k then some v else l.lookup n := by
  induction l with
  | nil => simp [setKey, lookup_cons']
  | cons p rest ih =>
    obtain ⟨k', v'⟩ := p
    by_cases hk : k = k'
    · subst hk; simp only [setKey, if_true, lookup_cons']; split <;> rfl
    · simp only [setKey, hk, if_false, lookup_cons', ih]
      by_cases h1 : n = k' <;> by_cases h2 : n = k <;> simp [h1, h2]
      · subst h1; subst h2; exact absurd rfl hk
      · intro e; exact absurd e.symm hk
      · intro e; exact absurd e hk

theorem keys_setKey {α β} (k : Nat) (v : α) (w : β) (l : List (Nat × α)) (m : List (Nat × β))
    (h : l.map (·.1) = m.map (·.1)) : (setKey k v l).map (·.1) = (setKey k w m).map (·.1) := by
  induction l generalizing m with
  | nil => cases m <;> simp_all [setKey]
  | cons p rest ih =>
    cases m with
    | nil => simp at h
    | cons q rest' =>
      obtain ⟨k1, v1⟩ := p; obtain ⟨k2, v2⟩ := q
      simp at h
      obtain ⟨h1, h2⟩ := h
      subst h1
      by_cases hk : k = k1 <;> simp [setKey, hk, h2]
      exact ih rest' h2

theorem insertBySig_ne_nil (f : Fn) (l : List Fn) : insertBySig f l ≠ [] := by
  cases l with
  | nil => simp [insertBySig]
  | cons g gs => simp [insertBySig]; split <;> simp

theorem wrapOf_two (a b : Fn) (l : List Fn) : wrapOf (a :: b :: l) = .dispatch (a :: b :: l) := rfl

theorem insertBySig_two (f g : Fn) (gs : List Fn) : ∃ a b l, insertBySig f (g :: gs) = a :: b :: l := by
  simp only [insertBySig]
  split
  · exact ⟨f, g, gs, rfl⟩
  · cases h : insertBySig f gs with
    | nil => exact absurd h (insertBySig_ne_nil f gs)
    | cons b l => exact ⟨g, b, l, rfl⟩

theorem wrapOf_insertBySig (f : Fn) (l : List Fn) (h : l ≠ []) : wrapOf (insertBySig f l) = .dispatch (insertBySig f l) := by
  cases l with
  | nil => exact absurd rfl h
  | cons g gs =>
    obtain ⟨a, b, r, hr⟩ := insertBySig_two f g gs
    rw [hr]; rfl

/-- `add_function` keeps the three function tables in step. -/
theorem addFunction_inStep (e e' : Env) (n : Nat) (f : Fn) (h : e.InStep) (ha : addFunction e n f = .ok e') : e'.InStep := by
  obtain ⟨h1, h2, h3⟩ := h
  unfold addFunction at ha
  cases hl : e.functions.lookup n with
  | some vec =>
    simp only [hl] at ha
    split at ha
    · simp at ha
    · simp at ha; subst ha
      refine ⟨by simp [h1], keys_setKey _ _ _ _ _ h2, ?_⟩
      intro m v hv
      simp only [lookup_setKey] at hv ⊢
      by_cases hm : m = n
      · simp [hm] at hv ⊢; subst hv
        exact ⟨insertBySig_ne_nil f vec, (wrapOf_insertBySig f vec (h3 n vec hl).1).symm⟩
      · simp [hm] at hv ⊢; exact h3 m v hv
  | none =>
    simp only [hl] at ha
    simp at ha; subst ha
    refine ⟨by simp [h1], keys_setKey _ _ _ _ _ h2, ?_⟩
    intro m v hv
    simp only [lookup_setKey] at hv ⊢
    by_cases hm : m = n
    · simp [hm] at hv ⊢; subst hv
      by_cases hf : f.arith <;> simp [wrapOf, hf]
    · simp [hm] at hv ⊢; exact h3 m v hv

theorem inStep_congr (e e' : Env) (h1 : e'.functions = e.functions) (h2 : e'.fnObjects = e.fnObjects)
    (h3 : e'.boxedFns = e.boxedFns) (h : e.InStep) : e'.InStep := by
  unfold Env.InStep at *
  rw [h1, h2, h3]; exact h

theorem step_inStep (s : Sys) (op : EnvOp) (h : s.env.InStep) (hs : ∀ e ∈ s.snaps, e.InStep) :
    (sysStep s op).1.env.InStep ∧ ∀ e ∈ (sysStep s op).1.snaps, e.InStep := by
  cases op with
  | addFn n f =>
    simp only [sysStep]
    cases ha : addFunction s.env n f with
    | ok e => exact ⟨addFunction_inStep _ _ _ _ h ha, hs⟩
    | error _ => exact ⟨h, hs⟩
  | addConst n v =>
    simp only [sysStep]
    cases ha : addGlobalConst s.env n v with
    | ok e =>
      refine ⟨?_, hs⟩
      unfold addGlobalConst at ha
      split at ha
      · simp at ha
      · simp at ha; subst ha; exact inStep_congr _ _ rfl rfl rfl h
    | error _ => exact ⟨h, hs⟩
  | setGlobal n v => exact ⟨inStep_congr _ _ rfl rfl rfl h, hs⟩
  | addType n t =>
    simp only [sysStep]
    cases ha : addType s.env n t with
    | ok e =>
      refine ⟨?_, hs⟩
      unfold addType at ha
      split at ha
      · simp at ha
      · simp at ha; subst ha; exact inStep_congr _ _ rfl rfl rfl h
    | error _ => exact ⟨h, hs⟩
  | use f =>
    refine ⟨?_, hs⟩
    simp only [sysStep, useFile1]
    split
    · exact h
    · exact inStep_congr _ _ rfl rfl rfl h
  | local_ n v => exact ⟨h, hs⟩
  | get =>
    refine ⟨h, ?_⟩
    intro e he
    simp [sysStep] at he
    rcases he with he | he
    · exact hs e he
    · subst he; exact h
  | set k =>
    simp only [sysStep]
    cases hk : s.snaps[k]? with
    | none => exact ⟨h, hs⟩
    | some e => exact ⟨hs e (List.mem_of_getElem? hk), hs⟩

/-- **Invariant over every history**: `m_functions`, `m_function_objects` and `m_boxed_functions` have
    the same keys, and the object tables wrap exactly the current overload vector — in the live
    environment and in every saved state. -/
theorem tables_in_step (ops : List EnvOp) :
    (sysRun Sys.init ops).env.InStep ∧ ∀ e ∈ (sysRun Sys.init ops).snaps, e.InStep := by
  have gen : ∀ (ops : List EnvOp) (s : Sys), s.env.InStep → (∀ e ∈ s.snaps, e.InStep) →
      (sysRun s ops).env.InStep ∧ ∀ e ∈ (sysRun s ops).snaps, e.InStep := by
    intro ops
    induction ops with
    | nil => intro s h hs; exact ⟨h, hs⟩
    | cons op ops ih =>
      intro s h hs
      have := step_inStep s op h hs
      exact ih _ this.1 this.2
  exact gen ops Sys.init (by simp [Sys.init, Env.empty, Env.InStep]) (by simp [Sys.init])

/-- Saved states stay valid: no later operation changes a snapshot that has been taken. -/
theorem snapshot_immutable (ops : List EnvOp) : ∀ (s : Sys) (k : Nat) (e : Env),
    s.snaps[k]? = some e → (sysRun s ops).snaps[k]? = some e := by
  induction ops with
  | nil => intro s k e h; exact h
  | cons op ops ih =>
    intro s k e h
    apply ih
    cases op <;> simp only [sysStep] <;> (try split) <;> (try exact h)
    · simp [List.getElem?_append_left (List.getElem?_eq_some_iff.mp h).1, h]

/-- **set_state(get_state()) is exact**: take a snapshot, do anything at all (including taking and
    restoring other snapshots), restore it: the whole visible environment — functions with all
    overloads, globals, types, used files, modules — is exactly what it was when the snapshot was taken. -/
theorem set_get_exact (s : Sys) (h2 : List EnvOp) :
    (sysRun (sysStep s .get).1 (h2 ++ [.set s.snaps.length])).env = s.env := by
  have h0 : (sysStep s .get).1.snaps[s.snaps.length]? = some s.env := by simp [sysStep]
  have h1 := snapshot_immutable h2 _ _ _ h0
  have hr : sysRun (sysStep s .get).1 (h2 ++ [.set s.snaps.length])
      = (sysStep (sysRun (sysStep s .get).1 h2) (.set s.snaps.length)).1 := by
    simp [sysRun, List.foldl_append]
  rw [hr]
  generalize sysRun (sysStep s .get).1 h2 = t at h1
  simp only [sysStep, h1]

/-- Restoring a state does not disturb per-thread locals. -/
theorem set_keeps_locals (s : Sys) (k : Nat) : (sysStep s (.set k)).1.locals = s.locals := by
  simp only [sysStep]; split <;> rfl

/-- Everything added since the snapshot is gone and may be added again without a conflict. -/
theorem readd_after_restore (e : Env) (n : Nat) (f : Fn) (h : e.functions.lookup n = none) :
    ∃ e', addFunction e n f = .ok e' := by
  simp [addFunction, h]

/-- `use` after a restore re-evaluates a file exactly when the snapshot did not record it. -/
theorem use_after_restore (e : Env) (file : Nat) : (useFile1 e file).2 = !e.usedFiles.contains file := by
  simp [useFile1]; split <;> simp_all

/-! ### the tables' hinted lookup: a remembered slot never changes the answer

Call sites remember the slot in which they found a name (`Fun_Call` / `Dot_Access` nodes, `get_function_object_int`), and `set_state` replaces the
tables wholesale: code parsed before a restore then asks with slots of a table that no longer exists. -/
section FlatMapSection
open ChaiVerif.FlatMap
variable {K V : Type} [DecidableEq K]

/-- **a hint never changes the answer** when the condition tests both the bounds and the key, whatever the hint is (stale, out of range,
    left over from a table that has since been replaced) -/
theorem findHint_is_find (d : List (K × V)) (k : K) (hint : Nat) (hd : KeysDistinct d) : findHint true true d k hint = find d k := by
  unfold findHint
  cases he : d[hint]? with
  | none => simp
  | some e =>
    by_cases hk : e.1 = k
    · have hlt : hint < d.length := by
        rcases Nat.lt_or_ge hint d.length with h | h
        · exact h
        · rw [List.getElem?_eq_none h] at he; cases he
      have := find_eq_of_distinct d k hint e hd he hk
      simp [hlt, hk, this]
    · simp [hk]

/-- without the key test a stale hint answers with another key's slot -/
theorem findHint_without_key_test_counterexample :
    findHint true false [((1 : Nat), "a"), (2, "b")] 1 1 = some 1 ∧ find [((1 : Nat), "a"), (2, "b")] 1 = some 0 := by decide

/-- the table never holds a key twice: `insert_or_assign` keeps the keys distinct -/
theorem insertOrAssign_distinct (d : List (K × V)) (k : K) (v : V) (hd : KeysDistinct d) : KeysDistinct (insertOrAssign d k v) := by
  unfold insertOrAssign
  cases h : find d k with
  | none =>
    simp only []
    unfold KeysDistinct at hd ⊢
    simp only [List.map_append, List.map_cons, List.map_nil]
    rw [List.nodup_append]
    refine ⟨hd, by simp, ?_⟩
    intro a ha b hb
    simp at hb
    subst hb
    intro hab
    subst hab
    exact find_none d a h ha
  | some i =>
    simp only []
    obtain ⟨hlt, e, he, hk⟩ := find_some_lt d k i h
    unfold KeysDistinct at hd ⊢
    have : (d.set i (k, v)).map (·.1) = d.map (·.1) := by
      rw [List.map_set]
      apply List.ext_getElem?
      intro j
      by_cases hj : j = i
      · subst hj
        simp [hlt]
        rw [List.getElem?_eq_getElem hlt] at he
        simp at he
        rw [he]; exact hk.symm
      · simp [Ne.symm hj]
    rw [this]
    exact hd


/-- **the hinted lookup of the current source is the plain lookup**: the condition of `QuickFlatMap::find(key, hint)`, read off the source on every
    run (extract/e_flatmap.py: a conjunction of the bounds test and the key test, falling back to `find(key)`), makes the hinted lookup equal to the
    unhinted one for every table with distinct keys, every key and EVERY hint — stale, out of range, or from a table replaced by `set_state`. -/
theorem hinted_lookup_is_lookup (d : List (K × V)) (k : K) (hint : Nat) (hd : KeysDistinct d) :
    findHint Gen.flatMapHintChecksBounds Gen.flatMapHintChecksKey d k hint = find d k :=
  findHint_is_find d k hint hd

end FlatMapSection

end ChaiVerif.C15
