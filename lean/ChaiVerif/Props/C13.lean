/-
Property C13 — one engine may be used from many threads at once.   (PARTIAL)

What is proved:
 * M-USE: for ANY number of threads and ANY schedule, a file passed to use() is evaluated at most once, and exactly once as soon as
   any call has returned [use_evaluates_at_most_once, use_evaluates_exactly_once]; without holding the mutex from the check to the
   record the file can be evaluated twice [unlocked_use_evaluates_twice];
 * the lock census regenerated from the source on every run (Gen/Locks.lean): every member function of Dispatch_Engine,
   ChaiScript_Basic and Type_Conversions that mentions state shared between threads constructs a lock before its first mention, or is
   one of the listed helpers that are only called with the lock held; every function that changes shared state takes the lock
   exclusively [census_every_access_locked, census_writers_exclusive].
What is not: freedom from data races of the C++ code (a property of the memory model and of every access, not of a table of lock
constructions) and per-thread result equality: these are explored by the check with ThreadSanitizer and a result oracle.
-/
import ChaiVerif.Model.UseOnce
import ChaiVerif.Gen.Locks
namespace ChaiVerif.C13
open ChaiVerif

/-- the invariant of M-USE -/
def Inv (s : UseSt) : Prop :=
  s.evals = (if s.used then 1 else 0) + (if s.holder = some .evaluated then 1 else 0) ∧
  (s.holder = some .needEval ∨ s.holder = some .evaluated → s.used = false) ∧
  (0 < s.done → s.used = true)

theorem inv_init (n : Nat) : Inv (UseSt.init n) := by
  simp [Inv, UseSt.init]

theorem inv_step (s : UseSt) (m : Move) (h : Inv s) : Inv (s.step m) := by
  obtain ⟨h1, h2, h3⟩ := h
  cases m with
  | call =>
    simp only [UseSt.step]
    split
    · exact ⟨h1, h2, h3⟩
    · exact ⟨h1, h2, h3⟩
  | acquire =>
    simp only [UseSt.step]
    split
    · exact ⟨h1, h2, h3⟩
    · rename_i hc
      have hn : s.holder = none := by
        cases hh : s.holder with
        | none => rfl
        | some p => exfalso; apply hc; right; simp [hh]
      refine ⟨?_, ?_, h3⟩
      · simp only [hn] at h1; simpa using h1
      · intro hx; rcases hx with hx | hx <;> cases hx
  | advance =>
    simp only [UseSt.step]
    cases hh : s.holder with
    | none => simp only; exact ⟨h1, h2, h3⟩
    | some p =>
      cases p with
      | locked =>
        simp only
        split
        · rename_i hu
          refine ⟨?_, ?_, ?_⟩
          · simp only [hh] at h1; simpa using h1
          · intro hx; rcases hx with hx | hx <;> cases hx
          · intro _; exact hu
        · rename_i hu
          refine ⟨?_, ?_, h3⟩
          · simp only [hh] at h1; simpa using h1
          · intro _
            cases hb : s.used with
            | false => rfl
            | true => exact absurd hb hu
      | needEval =>
        simp only
        have hu : s.used = false := h2 (Or.inl hh)
        refine ⟨?_, ?_, h3⟩
        · simp only [hh, hu] at h1; simp [hu]; simpa using h1
        · intro _; exact hu
      | evaluated =>
        simp only
        have hu : s.used = false := h2 (Or.inr hh)
        refine ⟨?_, ?_, ?_⟩
        · simp only [hh, hu] at h1; simpa using h1
        · intro hx; rcases hx with hx | hx <;> cases hx
        · intro _; rfl

theorem inv_run (sched : List Move) : ∀ s, Inv s → Inv (s.run sched) := by
  induction sched with
  | nil => intro s h; exact h
  | cons m ms ih => intro s h; exact ih _ (inv_step s m h)

/-- **At most once**: whatever the number of threads and the schedule, the file is never evaluated a second time. -/
theorem use_evaluates_at_most_once (n : Nat) (sched : List Move) : ((UseSt.init n).run sched).evals ≤ 1 := by
  obtain ⟨h1, h2, _⟩ := inv_run sched _ (inv_init n)
  rw [h1]
  by_cases hu : ((UseSt.init n).run sched).used = true
  · have : ((UseSt.init n).run sched).holder ≠ some .evaluated := by
      intro he
      have := h2 (Or.inr he)
      rw [hu] at this; cases this
    simp [hu, this]
  · simp at hu
    simp [hu]
    split <;> omega

/-- **Exactly once**: as soon as one call of use() has returned, the file has been evaluated exactly once (and later calls will not
    evaluate it again, by the theorem above). -/
theorem use_evaluates_exactly_once (n : Nat) (sched : List Move) (h : 0 < ((UseSt.init n).run sched).done) :
    ((UseSt.init n).run sched).evals = 1 := by
  obtain ⟨h1, h2, h3⟩ := inv_run sched _ (inv_init n)
  have hu := h3 h
  have : ((UseSt.init n).run sched).holder ≠ some .evaluated := by
    intro he
    have := h2 (Or.inr he)
    rw [hu] at this; cases this
  rw [h1]; simp [hu, this]

/-- the protocol makes progress: with two threads, the obvious schedule lets both return, after one evaluation -/
example : ((UseSt.init 2).run [.call, .call, .acquire, .advance, .advance, .advance, .acquire, .advance]).done = 2 ∧
          ((UseSt.init 2).run [.call, .call, .acquire, .advance, .advance, .advance, .acquire, .advance]).evals = 1 := by decide

/-- **Without the mutex held from check to record the file can be evaluated twice** -/
theorem unlocked_use_evaluates_twice :
    ([BadMove.check, .check, .evalAndRecord, .evalAndRecord].foldl BadSt.step ⟨0, false, 0⟩).evals = 2 := by decide

/-! ### the lock census (regenerated from the source on every run) -/

open ChaiVerif.Gen

/-- helpers that touch shared state without taking a lock themselves; each is private / protected and only called from functions that hold the lock
    (`*_int` accessors, `find`, `find_bidir`), or touches only an atomic before locking (`thread_cache` reads the atomic `m_num_types` first) -/
def exemptHelpers : List (String × String) :=
  [("Dispatch_Engine", "get_functions_int"), ("Dispatch_Engine", "get_function_objects_int"), ("Dispatch_Engine", "get_boxed_functions_int"),
   ("Dispatch_Engine", "get_function_object_int"), ("Type_Conversions", "find"), ("Type_Conversions", "find_bidir"), ("Type_Conversions", "thread_cache")]

/-- functions that change shared state -/
def writers : List (String × String) :=
  [("Dispatch_Engine", "add"), ("Dispatch_Engine", "add_function"), ("Dispatch_Engine", "add_global"), ("Dispatch_Engine", "add_global_const"),
   ("Dispatch_Engine", "add_global_no_throw"), ("Dispatch_Engine", "set_global"), ("Dispatch_Engine", "set_state"), ("Type_Conversions", "add_conversion"),
   ("ChaiScript_Basic", "use"), ("ChaiScript_Basic", "set_state"), ("ChaiScript_Basic", "load_module")]

/-- **every access to state shared between threads happens under a lock taken first** -/
theorem census_every_access_locked :
    lockCensus.all (fun r => r.touches.isEmpty || r.lockedFirst || exemptHelpers.contains (r.cls, r.fn)) = true := by decide

/-- **every writer takes its lock exclusively, and every writer is still there** -/
theorem census_writers_exclusive :
    writers.all (fun w => lockCensus.any (fun r => r.cls == w.1 && r.fn == w.2 && r.kind == 2 && r.lockedFirst)) = true := by decide

/-- the helpers do exist and take no lock (otherwise the recursive use of the non-recursive shared_mutex would deadlock) -/
theorem census_helpers_lock_free :
    (lockCensus.filter (fun r => exemptHelpers.contains (r.cls, r.fn) && r.fn != "thread_cache")).all (fun r => r.kind == 0) = true := by decide

end ChaiVerif.C13
