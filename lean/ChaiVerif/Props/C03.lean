/-
Property C03 — core language semantics match the documented (C++-like) model.

The deciding part of this property is differential (the real engine against two independent reference
interpreters and the Lean evaluator, see checks/c03.py).  The theorems below pin down, for every state,
environment and fuel, the laws of the Lean evaluator that make it the "documented" semantics: short-circuit
evaluation, selection, copy-on-declare versus aliasing through references, and block scoping.
-/
import ChaiVerif.Lemmas.ChaiRunShape
import ChaiVerif.Lemmas.ChaiRunLits
namespace ChaiVerif.C03
open ChaiVerif.Chai

/-- **`&&` short-circuits**: when the left operand is false the right operand is not evaluated at all
    (the result state is the left operand's, plus the fresh `false`). -/
theorem and_short_circuit (ρ : List FunDef) (f : Nat) (a b : Node) (s s1 : St) (la : Loc)
    (ha : run ρ f (.node a) s = (.val la, s1)) (hv : s1.val la = .bool false) :
    run ρ (f + 1) (.node (.and a b)) s = allocVal s1 (.bool false) true := by
  simp [run, bnd, ha, boolOf, hv]

/-- **`||` short-circuits** -/
theorem or_short_circuit (ρ : List FunDef) (f : Nat) (a b : Node) (s s1 : St) (la : Loc)
    (ha : run ρ f (.node a) s = (.val la, s1)) (hv : s1.val la = .bool true) :
    run ρ (f + 1) (.node (.or a b)) s = allocVal s1 (.bool true) true := by
  simp [run, bnd, ha, boolOf, hv]

/-- … and when the left operand does not decide, the result is the right operand's truth value -/
theorem and_evaluates_right (ρ : List FunDef) (f : Nat) (a b : Node) (s s1 s2 : St) (la lb : Loc) (v : Bool)
    (ha : run ρ f (.node a) s = (.val la, s1)) (hv : s1.val la = .bool true)
    (hb : run ρ f (.node b) s1 = (.val lb, s2)) (hw : s2.val lb = .bool v) :
    run ρ (f + 1) (.node (.and a b)) s = allocVal s2 (.bool v) true := by
  simp [run, bnd, ha, hb, boolOf, hv, hw]

/-- **`if` selects exactly one branch**, and a non-boolean condition is an error before either branch runs -/
theorem if_selects (ρ : List FunDef) (f : Nat) (c t e : Node) (s s1 : St) (lc : Loc) (b : Bool)
    (hc : run ρ f (.node c) s = (.val lc, s1)) (hv : s1.val lc = .bool b) :
    run ρ (f + 1) (.node (.ifN c t e)) s = run ρ f (.node (if b then t else e)) s1 := by
  cases b <;> simp [run, bnd, hc, boolOf, hv]

theorem if_needs_bool (ρ : List FunDef) (f : Nat) (c t e : Node) (s s1 : St) (lc : Loc)
    (hc : run ρ f (.node c) s = (.val lc, s1)) (hv : ∀ b, s1.val lc ≠ .bool b) :
    run ρ (f + 1) (.node (.ifN c t e)) s = (.thrown (.evalErr .condNotBool), s1) := by
  have : boolOf s1 lc = none := by
    unfold boolOf
    split
    · rename_i b hb; exact absurd hb (hv b)
    · rfl
  simp [run, bnd, hc, this]

/-- a `while` whose condition is false runs nothing -/
theorem while_false (ρ : List FunDef) (f : Nat) (c b : Node) (s s1 : St) (lc : Loc)
    (hc : run ρ f (.node c) s.pushScope = (.val lc, s1)) (hv : s1.popScope.val lc = .bool false) :
    run ρ (f + 1) (.whileL c b) s = allocVal s1.popScope .void true := by
  simp [run, bnd, withScope, hc, boolOf, hv]

/-! ### copies versus aliases -/

/-- writing through one Data record is seen through every record that shares its object, and through no other -/
theorem write_seen_through_alias (s : St) (a b : Loc) (v : Val) (h : (s.cell a).obj = (s.cell b).obj) (hb : (s.cell b).obj < s.objs.length) :
    (s.setVal a v).val b = v := by
  have hcell : (s.setVal a v).cell b = s.cell b := rfl
  unfold St.val
  rw [hcell]
  simp only [St.setVal, h, List.getD]
  rw [List.getElem?_set]
  simp [hb]

theorem write_not_seen_elsewhere (s : St) (a b : Loc) (v : Val) (h : (s.cell a).obj ≠ (s.cell b).obj) :
    (s.setVal a v).val b = s.val b := by
  have hcell : (s.setVal a v).cell b = s.cell b := rfl
  unfold St.val
  rw [hcell]
  simp only [St.setVal, List.getD]
  rw [List.getElem?_set]
  simp [h]

/-- **`var x = y` copies**: the declared variable gets an object of its own (unless the source is a temporary, which is adopted) -/
theorem declaration_copies (s : St) (l : Loc) (h : (s.cell l).ret = false) :
    cloneIfNecessary s l = (.val s.heap.length, (s.allocV (s.val l)).2) ∧
    ((s.allocV (s.val l)).2.cell s.heap.length).obj = s.objs.length ∧ (s.allocV (s.val l)).2.val s.heap.length = s.val l := by
  refine ⟨?_, ?_, ?_⟩
  · simp [cloneIfNecessary, h, allocVal]; rfl
  · simp [St.allocV, St.cell, List.getD]
  · simp [St.allocV, St.val, St.cell, List.getD]

/-- **`var &r = y` aliases**: the reference's Data record points at y's object -/
theorem reference_aliases (s : St) (l r : Loc) : ((s.setCell l { s.cell r with ret := false }).cell l).obj = (s.cell r).obj ∨ s.heap.length ≤ l := by
  by_cases h : l < s.heap.length
  · left
    simp only [St.setCell, St.cell]
    rw [cell_set]
    simp [h]
  · right; exact Nat.le_of_not_lt h

/-! ### block scoping -/

/-- **a block leaves no scope behind**, however it is left -/
theorem block_scopes_restored (ρ : List FunDef) (f : Nat) (xs : List Node) (s : St) :
    (run ρ f (.node (.block xs)) s).2.stacks.map List.length = s.stacks.map List.length := by
  have := run_shape ρ f (.node (.block xs)) s
  simp only [St.shape, Prod.mk.injEq] at this
  exact this.1

/-- names declared in a block are declared in the block's own scope (the innermost one at that time) -/
theorem declaration_goes_to_innermost_scope (s s' : St) (x : Name) (l : Loc) (h : s.addObject x l = some s') :
    s'.stacks = modifyLast (modifyLast (· ++ [(x, l)])) s.stacks := by
  unfold St.addObject at h
  split at h
  · cases h
  · split at h
    · cases h
    · cases h; rfl

end ChaiVerif.C03
