/-
Property C11 — objects live exactly as long as something refers to them.

M-RC (Model/Rc.lean) is the ownership discipline of `Boxed_Value`: handles made only by creation or by copying a handle, dropped
when their holder goes away, destruction at count zero.  Proved for every sequence of operations from the empty state:
 * the count of an object always equals the number of handles that refer to it [count_is_number_of_referrers];
 * hence no handle ever refers to a destroyed object [no_dangling_handle], and an object without referrers is destroyed
   [unreferenced_is_destroyed];
 * every object is destroyed at most once [destroyed_at_most_once].
The model is tied to the engine by correspondence: the check generates programs over an instrumented C++ class (creation, copies,
references, containers, captures, C++-held shared_ptrs, scopes left normally and by exception), maps each to this model's
operations, and compares the set of live objects at every checkpoint with `liveTags`.  What the model does not exhibit — that the
engine's C++ code makes no handle in any other way, and touches no object after its destruction — is watched by the instrumented
class and AddressSanitizer on the real engine.
-/
import ChaiVerif.Model.Rc
namespace ChaiVerif.C11
open ChaiVerif

def cnt (l : List Nat) (o : Nat) : Nat := (l.filter (· == o)).length

/-- the invariant: well-formed tables; the count of every object is the number of handles to it (plus handles being dropped right now) -/
structure Inv (s : Rc) (pending : List Nat) : Prop where
  wf : ∀ h ∈ s.handles, h.2 < s.rc.length
  pwf : ∀ o ∈ pending, o < s.rc.length
  eq : ∀ o, s.rcOf o = s.count o + cnt pending o
  logzero : ∀ o ∈ s.log, s.rcOf o = 0
  logbound : ∀ o ∈ s.log, o < s.rc.length
  lognodup : s.log.Nodup

theorem getD_set (l : List Nat) (i j v : Nat) : (l.set i v).getD j 0 = if i = j ∧ i < l.length then v else l.getD j 0 := by
  simp only [List.getD, List.getElem?_set]
  by_cases h : i = j
  · subst h
    by_cases h2 : i < l.length
    · simp [h2]
    · simp [h2]
  · simp [h]

theorem getD_append_one (l : List Nat) (v j : Nat) : (l ++ [v]).getD j 0 = if j = l.length then v else l.getD j 0 := by
  simp only [List.getD]
  by_cases h : j < l.length
  · have : j ≠ l.length := Nat.ne_of_lt h
    simp [List.getElem?_append_left h, this]
  · by_cases h2 : j = l.length
    · subst h2; simp
    · have h3 : l.length < j := by omega
      simp only [h2, if_false]
      rw [List.getElem?_eq_none (by simp; omega), List.getElem?_eq_none (by omega)]

theorem rcOf_pos_lt (s : Rc) (o : Nat) (h : s.rcOf o ≠ 0) : o < s.rc.length := by
  by_cases hl : o < s.rc.length
  · exact hl
  · exfalso; apply h
    unfold Rc.rcOf List.getD
    rw [List.getElem?_eq_none (by omega)]; rfl

theorem inv_empty : Inv Rc.empty [] := by
  refine ⟨?_, ?_, ?_, ?_, ?_, List.nodup_nil⟩
  · intro h hh; cases hh
  · intro o ho; cases ho
  · intro o; rfl
  · intro o ho; cases ho
  · intro o ho; cases ho

theorem inv_create (s : Rc) (holder tag : Nat) (h : Inv s []) : Inv (s.create holder tag) [] := by
  have hc0 : s.count s.rc.length = 0 := by
    unfold Rc.count
    rw [List.length_eq_zero_iff, List.filter_eq_nil_iff]
    intro x hx
    have := h.wf x hx
    simp; omega
  refine ⟨?_, (by intro o ho; cases ho), ?_, ?_, ?_, h.lognodup⟩
  · intro x hx
    simp only [Rc.create, List.mem_append, List.mem_singleton] at hx
    simp only [Rc.create, List.length_append, List.length_singleton]
    rcases hx with hx | hx
    · have := h.wf x hx; omega
    · subst hx; simp
  · intro o
    have hold := h.eq o
    simp only [Rc.rcOf, Rc.count, cnt, List.filter_nil, List.length_nil, Nat.add_zero] at hold
    simp only [Rc.rcOf, Rc.count, Rc.create, cnt, List.filter_nil, List.length_nil, Nat.add_zero, List.filter_append, List.length_append]
    rw [getD_append_one]
    by_cases ho : o = s.rc.length
    · subst ho
      have := hc0; unfold Rc.count at this
      simp [this]
    · have hne : ¬ (s.rc.length == o) = true := by simp; exact fun hh => ho hh.symm
      simp [ho, hne]
      simpa [List.getD] using hold
  · intro o ho
    have hz := h.logzero o ho
    have hb := h.logbound o ho
    simp only [Rc.rcOf, Rc.create] at hz ⊢
    rw [getD_append_one]
    have : o ≠ s.rc.length := Nat.ne_of_lt hb
    simp [this]
    simpa [List.getD] using hz
  · intro o ho
    have := h.logbound o ho
    simp only [Rc.create, List.length_append, List.length_singleton]; omega

theorem inv_acquire (s : Rc) (holder o : Nat) (h : Inv s []) : Inv (s.acquire holder o) [] := by
  unfold Rc.acquire
  split
  · exact h
  · rename_i hne
    have hlt := rcOf_pos_lt s o hne
    refine ⟨?_, (by intro x hx; cases hx), ?_, ?_, ?_, h.lognodup⟩
    · intro x hx
      simp only [List.mem_append, List.mem_singleton] at hx
      simp only [List.length_set]
      rcases hx with hx | hx
      · exact h.wf x hx
      · subst hx; exact hlt
    · intro o'
      have hold := h.eq o'
      simp only [Rc.rcOf, Rc.count, cnt, List.filter_nil, List.length_nil, Nat.add_zero] at hold
      simp only [Rc.rcOf, Rc.count, cnt, List.filter_nil, List.length_nil, Nat.add_zero, List.filter_append, List.length_append]
      rw [getD_set]
      by_cases ho : o = o'
      · subst ho
        rw [if_pos ⟨rfl, hlt⟩]
        have hf : (List.filter (fun h : Nat × Nat => h.2 == o) [(holder, o)]).length = 1 := by simp
        rw [hf]
        have := h.eq o
        simp only [Rc.rcOf, Rc.count, cnt, List.filter_nil, List.length_nil, Nat.add_zero] at this
        omega
      · have hne2 : ¬ (o == o') = true := by simpa using ho
        simp [ho, hne2]
        simpa [List.getD] using hold
    · intro o' ho'
      have hz := h.logzero o' ho'
      simp only [Rc.rcOf] at hz ⊢
      rw [getD_set]
      by_cases he : o = o'
      · subst he; exact absurd hz hne
      · simp [he]
        simpa [List.getD] using hz
    · intro o' ho'
      simp only [List.length_set]; exact h.logbound o' ho'

theorem cnt_cons (x : Nat) (l : List Nat) (o : Nat) : cnt (x :: l) o = (if x = o then 1 else 0) + cnt l o := by
  unfold cnt
  by_cases h : x = o
  · subst h; simp [List.filter_cons]; omega
  · have : ¬ (x == o) = true := by simpa using h
    simp [List.filter_cons, this, h]

theorem inv_dropOne (s : Rc) (o : Nat) (os : List Nat) (h : Inv s (o :: os)) : Inv (s.dropOne o) os := by
  have hlt : o < s.rc.length := h.pwf o (by simp)
  have heq := h.eq o
  rw [cnt_cons] at heq
  simp only [if_true] at heq
  have hpos : s.rcOf o ≥ 1 := by omega
  have hnotlog : o ∉ s.log := by
    intro hin
    have := h.logzero o hin
    omega
  unfold Rc.dropOne
  split
  · rename_i h1
    refine ⟨?_, ?_, ?_, ?_, ?_, ?_⟩
    · intro x hx; simp only [List.length_set]; exact h.wf x hx
    · intro x hx; simp only [List.length_set]; exact h.pwf x (by simp [hx])
    · intro o'
      have hold := h.eq o'
      rw [cnt_cons] at hold
      simp only [Rc.rcOf, Rc.count] at hold ⊢
      rw [getD_set]
      by_cases he : o = o'
      · subst he
        simp only [and_self, hlt, if_true]
        simp only [Rc.rcOf] at h1
        simp only [if_true] at hold
        unfold Rc.count at heq
        simp only [Rc.rcOf] at heq
        omega
      · simp only [he, false_and, if_false] at hold ⊢
        simpa using hold
    · intro o' ho'
      simp only [List.mem_append, List.mem_singleton] at ho'
      simp only [Rc.rcOf]
      rw [getD_set]
      rcases ho' with ho' | ho'
      · have hz := h.logzero o' ho'
        by_cases he : o = o'
        · subst he; simp [hlt]
        · simp only [Rc.rcOf] at hz
          simp [he]
          simpa [List.getD] using hz
      · subst ho'; simp [hlt]
    · intro o' ho'
      simp only [List.mem_append, List.mem_singleton] at ho'
      simp only [List.length_set]
      rcases ho' with ho' | ho'
      · exact h.logbound o' ho'
      · subst ho'; exact hlt
    · exact List.nodup_append.mpr ⟨h.lognodup, (by simp), by
        intro a ha b hb
        simp only [List.mem_singleton] at hb
        subst hb
        intro hab; subst hab; exact hnotlog ha⟩
  · rename_i h1
    refine ⟨?_, ?_, ?_, ?_, ?_, h.lognodup⟩
    · intro x hx; simp only [List.length_set]; exact h.wf x hx
    · intro x hx; simp only [List.length_set]; exact h.pwf x (by simp [hx])
    · intro o'
      have hold := h.eq o'
      rw [cnt_cons] at hold
      simp only [Rc.rcOf, Rc.count] at hold ⊢
      rw [getD_set]
      by_cases he : o = o'
      · subst he
        simp only [and_self, hlt, if_true] at hold ⊢
        simp only [Rc.rcOf] at hpos
        omega
      · simp only [he, false_and, if_false] at hold ⊢
        simpa using hold
    · intro o' ho'
      have hz := h.logzero o' ho'
      simp only [Rc.rcOf] at hz ⊢
      rw [getD_set]
      by_cases he : o = o'
      · subst he; exact absurd ho' hnotlog
      · simp [he]
        simpa [List.getD] using hz
    · intro o' ho'
      simp only [List.length_set]; exact h.logbound o' ho'

theorem inv_dropAll : ∀ (os : List Nat) (s : Rc), Inv s os → Inv (s.dropAll os) [] := by
  intro os
  induction os with
  | nil => intro s h; exact h
  | cons o os ih => intro s h; exact ih _ (inv_dropOne s o os h)

theorem filter_split_length (l : List (Nat × Nat)) (p q : Nat × Nat → Bool) :
    (l.filter q).length = ((l.filter (fun h => !p h)).filter q).length + ((l.filter p).filter q).length := by
  induction l with
  | nil => rfl
  | cons x xs ih =>
    by_cases hp : p x <;> by_cases hq : q x <;> simp [List.filter_cons, hp, hq, ih] <;> omega

theorem inv_release (s : Rc) (holder : Nat) (h : Inv s []) : Inv (s.release holder) [] := by
  unfold Rc.release
  apply inv_dropAll
  refine ⟨?_, ?_, ?_, h.logzero, h.logbound, h.lognodup⟩
  · intro x hx
    exact h.wf x (List.mem_filter.mp hx).1
  · intro o ho
    simp only [List.mem_map, List.mem_filter] at ho
    obtain ⟨x, ⟨hx, _⟩, rfl⟩ := ho
    exact h.wf x hx
  · intro o
    have hold := h.eq o
    simp only [Rc.rcOf, Rc.count, cnt, List.filter_nil, List.length_nil, Nat.add_zero] at hold
    simp only [Rc.rcOf, Rc.count, cnt]
    rw [hold, filter_split_length s.handles (fun h => h.1 == holder) (fun h => h.2 == o)]
    congr 1
    rw [List.filter_map, List.length_map]
    rfl

/-- every state reachable from the empty one -/
def runOps (ops : List RcOp) : Rc := ops.foldl Rc.step Rc.empty

theorem inv_reachable (ops : List RcOp) : Inv (runOps ops) [] := by
  unfold runOps
  suffices ∀ s, Inv s [] → Inv (ops.foldl Rc.step s) [] from this _ inv_empty
  induction ops with
  | nil => intro s h; exact h
  | cons op ops ih =>
    intro s h
    apply ih
    cases op with
    | create hh t => exact inv_create s hh t h
    | acquire hh o => exact inv_acquire s hh o h
    | release hh => exact inv_release s hh h

/-- **the count of an object is the number of its referrers**, in every reachable state -/
theorem count_is_number_of_referrers (ops : List RcOp) (o : Nat) : (runOps ops).rcOf o = (runOps ops).count o := by
  have := (inv_reachable ops).eq o
  simpa [cnt] using this

/-- **no referrer ever points at a destroyed object** -/
theorem no_dangling_handle (ops : List RcOp) (h : Nat × Nat) (hh : h ∈ (runOps ops).handles) : (runOps ops).rcOf h.2 ≠ 0 := by
  rw [count_is_number_of_referrers]
  unfold Rc.count
  intro hz
  rw [List.length_eq_zero_iff, List.filter_eq_nil_iff] at hz
  exact hz h hh (by simp)

/-- **an object nothing refers to is destroyed** (its count is zero) … -/
theorem unreferenced_is_destroyed (ops : List RcOp) (o : Nat) (h : ∀ x ∈ (runOps ops).handles, x.2 ≠ o) : (runOps ops).rcOf o = 0 := by
  rw [count_is_number_of_referrers]
  unfold Rc.count
  rw [List.length_eq_zero_iff, List.filter_eq_nil_iff]
  intro x hx
  simpa using h x hx

/-- … **and every object is destroyed at most once** -/
theorem destroyed_at_most_once (ops : List RcOp) : (runOps ops).log.Nodup := (inv_reachable ops).lognodup

/-- a destroyed object stays destroyed: nothing can acquire it again -/
theorem destroyed_stays_destroyed (ops : List RcOp) (o : Nat) (h : o ∈ (runOps ops).log) : (runOps ops).rcOf o = 0 :=
  (inv_reachable ops).logzero o h

/-! non-vacuity: a scope frame (holder 1) creates an object, a longer-lived frame (holder 0) takes a reference, the scope ends: the
    object survives; then the outer frame ends: it is destroyed, once. -/
example : (runOps [.create 1 77, .acquire 0 0, .release 1]).liveTags = [77] ∧ (runOps [.create 1 77, .acquire 0 0, .release 1, .release 0]).liveTags = []
    ∧ (runOps [.create 1 77, .acquire 0 0, .release 1, .release 0]).log = [0] := by decide

end ChaiVerif.C11
