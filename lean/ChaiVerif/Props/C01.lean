/-
Property C01 — parsing is total and safe: AST for the whole input, or eval_error.   (PARTIAL)

What a theorem can carry here is the parser's bookkeeping, not its 2,500 lines of recursive descent:
 * the cursor (Model/Pos.lean, validated against the real `Position` by the C20 check) can be advanced any number of times
   without leaving the buffer, and reading at the end yields the sentinel, never a byte outside [cursor_stays_in_buffer, peek_total];
 * the depth accounting of `Depth_Counter` (limit 512): a descent guarded by it never runs deeper than the limit, and reports
   the limit as an error exactly when the nesting exceeds it [guarded_descent_bounded, guarded_descent_reports];
 * the recursion structure, regenerated from chaiscript_parser.hpp on every run (Gen/ParseGraph.lean): every cycle of the parser's call
   graph passes through a function that holds a named `Depth_Counter` [parser_cycles_are_guarded, by kernel evaluation of the
   regenerated graph and its rank certificate]; hence ANY native call stack of the parser, for any input, is at most
   (limit+1)·(maxRank+2)+maxRank+1 frames deep [parser_native_stack_bounded] — the bound does not depend on the input;
 * the acceptance rule of `parse_internal` (after fix 78c56f2): a tree is returned only when every byte was consumed
   [accepted_means_whole_input].
Memory safety, termination and absence of foreign exceptions for the parser as a whole are NOT proved: the check explores them
with the real parser under AddressSanitizer/UBSan on generated, mutated and pathological inputs (see checks/c01.py).
-/
import ChaiVerif.Props.C20
import ChaiVerif.Lemmas.ParseGraph
import ChaiVerif.Gen.ParseGraph
namespace ChaiVerif.C01
open ChaiVerif

/-- **The cursor never leaves the buffer**, however often it is advanced -/
theorem cursor_stays_in_buffer (t : List UInt8) : ∀ (n : Nat) (p : Pos), p.idx ≤ t.length → (Pos.incN t n p).idx ≤ t.length := by
  intro n
  induction n with
  | zero => intro p h; exact h
  | succ n ih =>
    intro p h
    simp only [Pos.incN]
    apply ih
    unfold Pos.inc
    cases hg : t[p.idx]? with
    | none => exact h
    | some c =>
      have hlt : p.idx < t.length := by
        by_cases hl : p.idx < t.length
        · exact hl
        · rw [List.getElem?_eq_none (by omega)] at hg; cases hg
      by_cases hc : (c == NL) = true
      · simp only [hc, if_true]; omega
      · simp only [hc]; simp; omega

/-- `operator*`: the byte under the cursor, or the sentinel 0 at the end — defined for every cursor inside the buffer -/
def peek (t : List UInt8) (p : Pos) : UInt8 := (t[p.idx]?).getD 0

theorem peek_total (t : List UInt8) (p : Pos) (h : t.length ≤ p.idx) : peek t p = 0 := by
  unfold peek
  rw [List.getElem?_eq_none h]; rfl

/-! ### Depth_Counter -/

inductive PRes | ok (maxDepth : Nat) | depthError
deriving DecidableEq, Repr

/-- a descent through `n` nested constructs, each entered through a `Depth_Counter` (increment, then compare with the limit) -/
def descend (limit : Nat) : Nat → Nat → PRes
  | 0, d => .ok d
  | n + 1, d => if d + 1 > limit then .depthError else descend limit n (d + 1)

/-- **the native recursion is bounded by the limit**: whenever the descent completes, it never went deeper than `limit` -/
theorem guarded_descent_bounded (limit : Nat) : ∀ (n d m : Nat), d ≤ limit → descend limit n d = .ok m → m ≤ limit := by
  intro n
  induction n with
  | zero => intro d m hd h; simp [descend] at h; omega
  | succ n ih =>
    intro d m hd h
    unfold descend at h
    split at h
    · cases h
    · exact ih (d + 1) m (by omega) h

/-- **… and too deep a nesting is reported as an error**, exactly when it exceeds the limit -/
theorem guarded_descent_reports (limit : Nat) : ∀ (n d : Nat), d ≤ limit → (descend limit n d = .depthError ↔ limit < d + n) := by
  intro n
  induction n with
  | zero => intro d hd; simp [descend]; omega
  | succ n ih =>
    intro d hd
    unfold descend
    split
    · rename_i h; simp; omega
    · rename_i h
      rw [ih (d + 1) (by omega)]
      omega

/-! ### the recursion structure of the real parser (regenerated call graph) -/

open PG in
/-- the call graph of `ChaiScript_Parser` as extracted from the current source -/
def parserGraph : PG.Graph := ⟨Gen.parseGuarded, Gen.parseRank, Gen.parseEdges⟩

/-- **every recursion of the parser goes through a `Depth_Counter`**: along each call edge between two functions that hold no
    (named, constructed-before-the-first-call) `Depth_Counter`, the regenerated rank strictly decreases, so no cycle avoids the guard.
    Checked by the kernel on the graph extracted from the source of this run. -/
theorem parser_cycles_are_guarded : parserGraph.ok = true := by decide +kernel

/-- general form: in a graph whose cycles are all guarded, a call stack with `d` live `Depth_Counter`s has at most
    `d·(maxRank+2) + maxRank+1` frames -/
theorem guarded_graph_stack_bounded (G : PG.Graph) (hok : G.ok = true) (p : List Nat) (hc : G.chain p) :
    p.length ≤ G.depth p * (G.maxRank + 2) + (G.maxRank + 1) := by
  have h := PG.stack_bounded_aux G hok p hc
  have hl : PG.lead G p ≤ G.maxRank + 1 := by
    cases p with
    | nil => simp [PG.lead]
    | cons f rest =>
      simp only [PG.lead]
      have := PG.r_le_maxRank G f
      split <;> omega
  omega

/-- **the native stack of the real parser is bounded independently of the input**: `Depth_Counter`'s constructor throws as soon as
    the count exceeds `limit` (so at most `limit + 1` guarded frames are ever live, the last one being the frame that throws);
    any call stack of parser functions compatible with that is at most `(limit+1)·(maxRank+2) + maxRank+1` frames deep. -/
theorem parser_native_stack_bounded (limit : Nat) (p : List Nat) (hc : parserGraph.chain p) (hd : parserGraph.depth p ≤ limit + 1) :
    p.length ≤ (limit + 1) * (parserGraph.maxRank + 2) + (parserGraph.maxRank + 1) := by
  have h := guarded_graph_stack_bounded parserGraph parser_cycles_are_guarded p hc
  have : parserGraph.depth p * (parserGraph.maxRank + 2) ≤ (limit + 1) * (parserGraph.maxRank + 2) := Nat.mul_le_mul_right _ hd
  omega

/-- non-vacuity: the graph has edges, guarded and unguarded functions, and a real recursion (some function calls itself) -/
example : parserGraph.edges.length > 100 ∧ parserGraph.guarded.contains true ∧ parserGraph.guarded.contains false
    ∧ parserGraph.edges.any (fun e => e.1 == e.2) = true := by decide +kernel

/-- the certificate condition is not trivially true: dropping the guard of a self-recursive function is rejected -/
example : (⟨[false], [0], [(0, 0)]⟩ : PG.Graph).ok = false := by decide

/-! ### the acceptance rule of `parse_internal` -/

inductive Top (α : Type) | tree (t : α) | unparsedInput (at_ : Nat)
deriving Repr

/-- `parse_internal`: `stmts` is what `Statements` / the trailing `SkipWS` left: a tree (if any statement was found) and the offset reached -/
def parseTop {α} (len : Nat) (noop : α) (stmts : Option α × Nat) : Top α :=
  match stmts with
  | (some t, off) => if off < len then .unparsedInput off else .tree t
  | (none, off) => if off < len then .unparsedInput off else .tree noop

/-- **a tree is returned only for input that was consumed to its last byte** (nothing is silently dropped) -/
theorem accepted_means_whole_input {α} (len : Nat) (noop : α) (r : Option α × Nat) (t : α) (hoff : r.2 ≤ len)
    (h : parseTop len noop r = .tree t) : r.2 = len := by
  obtain ⟨o, off⟩ := r
  cases o <;> simp only [parseTop] at h <;> split at h <;> first | (cases h; done) | (simp only at hoff ⊢; omega)

end ChaiVerif.C01
