/-
Property C12 — built-in containers/strings are bounds-safe and match their C++ models.
`Gen.*` is the census of registered operations regenerated from bootstrap_stl.hpp on every run.
-/
import ChaiVerif.Spec.Stl
import ChaiVerif.Gen.Stl
namespace ChaiVerif.C12
open ChaiVerif

/-- The guard configuration of the source. -/
def cfg : StlCfg :=
  { frontG := guarded Gen.stlRows .vector .container .front
    backG := guarded Gen.stlRows .vector .container .back
    popBackG := guarded Gen.stlRows .vector .container .pop_back
    indexAt := guarded Gen.stlRows .vector .container .index
    insertAt := Gen.insertAtGuard
    eraseAt := Gen.eraseAtGuard
    rPopFront := Gen.rangeGuards.1
    rPopBack := Gen.rangeGuards.2.1
    rFront := Gen.rangeGuards.2.2.1
    rBack := Gen.rangeGuards.2.2.2 }

/-- Census: every registered operation (Vector, string, Map, Pair and their range views) whose
    std:: counterpart has a precondition is guarded; the position guards of insert_at / erase_at
    are the exact ones; every Bidir_Range accessor checks emptiness first. -/
theorem stl_guards_complete :
    (∀ r ∈ Gen.stlRows, r.safe = true) ∧ Gen.insertAtGuard = .posLe ∧ Gen.eraseAtGuard = .posLt ∧
    Gen.rangeGuards = (true, true, true, true) ∧ Gen.rangeEmptyDef = true := by decide

theorem cfg_eq : cfg = ⟨true, true, true, true, .posLe, .posLt, true, true, true, true⟩ := by decide

/-- **One step, defined case.** For every vector and every operation (any index or position, incl.
    negative, = size, > size, and empty containers): if the std:: precondition holds the step has
    exactly the std:: effect and result. -/
theorem vec_step_refines_std (xs : List Int) (op : VOp) (ys : List Int) (out : StlOut)
    (h : stdVec xs op = some (ys, out)) : vecStep cfg xs op = .ok ys out := by
  rw [cfg_eq]
  cases op with
  | index i =>
      simp only [stdVec] at h; simp only [vecStep]
      by_cases hi : 0 ≤ i ∧ i < xs.length
      · simp [hi] at h ⊢; exact h
      · simp [hi] at h
  | front => cases xs <;> simp [stdVec, vecStep] at h ⊢; exact h
  | back =>
      simp only [stdVec] at h; simp only [vecStep]
      cases hl : xs.getLast? <;> simp [hl] at h ⊢; exact h
  | pushBack v => simp [stdVec, vecStep] at h ⊢; exact h
  | popBack => cases xs <;> simp [stdVec, vecStep] at h ⊢; exact h
  | insertAt pos v =>
      simp only [stdVec] at h; simp only [vecStep, posOk]
      by_cases hp : 0 ≤ pos ∧ pos ≤ xs.length
      · have h1 : ¬ (pos < 0) := by omega
        have h2 : ¬ ((xs.length : Int) < pos) := by omega
        simp [hp, h1, h2] at h ⊢; exact h
      · simp [hp] at h
  | eraseAt pos =>
      simp only [stdVec] at h; simp only [vecStep, posOk]
      by_cases hp : 0 ≤ pos ∧ pos < xs.length
      · have h1 : ¬ (pos < 0) := by omega
        have h2 : ¬ ((xs.length : Int) ≤ pos) := by omega
        simp [hp, h1, h2] at h ⊢; exact h
      · simp [hp] at h
  | resize n v =>
      simp only [stdVec] at h; simp only [vecStep]
      by_cases hn : n < 0
      · simp [hn] at h
      · simp [hn] at h ⊢; exact h
  | clear => simp [stdVec, vecStep] at h ⊢; exact h
  | size => simp [stdVec, vecStep] at h ⊢; exact h
  | empty => simp [stdVec, vecStep] at h ⊢; exact h

/-- **One step, undefined case.** When the std:: precondition is violated the step raises an
    exception (and, by the shape of `SRes.err`, leaves the container unchanged); it is never
    undefined behaviour. -/
theorem vec_step_guards (xs : List Int) (op : VOp) (h : stdVec xs op = none) :
    ∃ e, vecStep cfg xs op = .err e := by
  rw [cfg_eq]
  cases op with
  | index i =>
      simp only [stdVec] at h; simp only [vecStep]
      by_cases hi : 0 ≤ i ∧ i < xs.length
      · simp [hi] at h
      · simp [hi]
  | front => cases xs <;> simp [stdVec, vecStep] at h ⊢
  | back =>
      simp only [stdVec] at h; simp only [vecStep]
      cases hl : xs.getLast? <;> simp [hl] at h ⊢
  | pushBack v => simp [stdVec] at h
  | popBack => cases xs <;> simp [stdVec, vecStep] at h ⊢
  | insertAt pos v =>
      simp only [stdVec] at h; simp only [vecStep, posOk]
      by_cases hp : 0 ≤ pos ∧ pos ≤ xs.length
      · simp [hp] at h
      · have : (pos < 0 ∨ (xs.length : Int) < pos) := by omega
        rcases this with h1 | h1 <;> simp [h1]
  | eraseAt pos =>
      simp only [stdVec] at h; simp only [vecStep, posOk]
      by_cases hp : 0 ≤ pos ∧ pos < xs.length
      · simp [hp] at h
      · have : (pos < 0 ∨ (xs.length : Int) ≤ pos) := by omega
        rcases this with h1 | h1 <;> simp [h1]
  | resize n v =>
      simp only [stdVec] at h; simp only [vecStep]
      by_cases hn : n < 0
      · simp [hn]
      · simp [hn] at h
  | clear => simp [stdVec] at h
  | size => simp [stdVec] at h
  | empty => simp [stdVec] at h

/-- **Every operation sequence** is free of undefined behaviour. -/
theorem vec_run_never_ub (ops : List VOp) : ∀ xs : List Int, (vecRun cfg xs ops).isSome = true := by
  induction ops with
  | nil => intro xs; rfl
  | cons op ops ih =>
    intro xs
    unfold vecRun
    cases hs : stdVec xs op with
    | some r => obtain ⟨ys, out⟩ := r; rw [vec_step_refines_std xs op ys out hs]; exact ih ys
    | none => obtain ⟨e, he⟩ := vec_step_guards xs op hs; rw [he]; exact ih xs

/-- The position guards accept exactly the positions for which insertion / erasure is defined. -/
theorem insert_at_guard_exact (pos : Int) (len : Nat) :
    posOk Gen.insertAtGuard pos len true = some (decide (0 ≤ pos ∧ pos ≤ len)) := by
  have hg : Gen.insertAtGuard = .posLe := by decide
  rw [hg]
  by_cases h : 0 ≤ pos ∧ pos ≤ (len : Int)
  · have h1 : ¬ (pos < 0) := by omega
    have h2 : ¬ ((len : Int) < pos) := by omega
    simp [posOk, h, h1, h2]
  · have : (pos < 0 ∨ (len : Int) < pos) := by omega
    rcases this with h1 | h1 <;> simp [posOk, h1] <;> omega
theorem erase_at_guard_exact (pos : Int) (len : Nat) :
    posOk Gen.eraseAtGuard pos len false = some (decide (0 ≤ pos ∧ pos < len)) := by
  have hg : Gen.eraseAtGuard = .posLt := by decide
  rw [hg]
  by_cases h : 0 ≤ pos ∧ pos < (len : Int)
  · have h1 : ¬ (pos < 0) := by omega
    have h2 : ¬ ((len : Int) ≤ pos) := by omega
    simp [posOk, h, h1, h2]
  · have : (pos < 0 ∨ (len : Int) ≤ pos) := by omega
    rcases this with h1 | h1 <;> simp [posOk, h1] <;> omega

/-- Range views: `b ≤ e ≤ size` is preserved by every range operation, a read touches an index in
    `[b, e)` (so inside the container), and no range operation is undefined behaviour. -/
theorem range_inv (size : Nat) (r : Rng) (op : ROp) (h : r.b ≤ r.e ∧ r.e ≤ size) :
    match rngStep cfg r op with
    | .ok r' idx _ => r'.b ≤ r'.e ∧ r'.e ≤ size ∧ (∀ i, idx = some i → r.b ≤ i ∧ i < r.e ∧ i < size)
    | .err => r.b = r.e
    | .ub => False := by
  rw [cfg_eq]
  cases op <;> simp only [rngStep]
  · simp; omega
  all_goals
    by_cases hbe : r.b = r.e
    · simp [hbe]
    · simp [hbe]; omega

/-- Map: `at` on a missing key raises out_of_range, `[]` never fails, and no step is undefined. -/
theorem map_step_total (m : List (Nat × Option Int)) (op : MOp) :
    (∃ m' out, mapStep m op = .ok m' out) ∨ (mapStep m op = .err .outOfRange ∧ ∃ k, op = .at k ∧ m.lookup k = none) := by
  cases op with
  | index k => simp only [mapStep]; cases hl : m.lookup k with
    | none => simp
    | some v => cases v <;> simp
  | «at» k => simp only [mapStep]; cases hl : m.lookup k with
    | none => right; exact ⟨rfl, k, rfl, hl⟩
    | some v => cases v <;> simp
  | _ => simp [mapStep]

/-! ### the string find family: `find` against std::string::find (round 8) -/

theorem find_map_range (p : Nat → Bool) (lo : Nat) : ∀ (n : Nat) (r : Nat), ((List.range' lo n)).find? p = some r →
    lo ≤ r ∧ r < lo + n ∧ p r = true ∧ ∀ j, lo ≤ j → j < r → p j = false := by
  intro n
  induction n generalizing lo with
  | zero => intro r h; simp at h
  | succ n ih =>
    intro r h
    rw [List.range'_succ, List.find?_cons] at h
    cases hp : p lo with
    | true =>
      rw [hp] at h
      injection h with h; subst h
      exact ⟨Nat.le_refl _, by omega, hp, fun j h1 h2 => by omega⟩
    | false =>
      rw [hp] at h
      obtain ⟨a, b, c, d⟩ := ih (lo + 1) r h
      refine ⟨by omega, by omega, c, fun j h1 h2 => ?_⟩
      by_cases e : j = lo
      · subst e; exact hp
      · exact d j (by omega) h2

theorem find_map_range_none (p : Nat → Bool) (lo : Nat) : ∀ (n : Nat), ((List.range' lo n)).find? p = none → ∀ j, lo ≤ j → j < lo + n → p j = false := by
  intro n
  induction n generalizing lo with
  | zero => intro _ j h1 h2; omega
  | succ n ih =>
    intro h j h1 h2
    rw [List.range'_succ, List.find?_cons] at h
    cases hp : p lo with
    | true => rw [hp] at h; simp at h
    | false =>
      rw [hp] at h
      by_cases e : j = lo
      · subst e; exact hp
      · exact ih (lo + 1) h j (by omega) (by omega)

theorem range_map_eq (lo n : Nat) : (List.range n).map (· + lo) = List.range' lo n := by
  rw [List.range'_eq_map_range]
  apply List.map_congr_left
  intro x _; omega

/-- `firstIdx`: the smallest index of `[lo, hi]` satisfying `p`, or `npos` when there is none -/
theorem firstIdx_spec (p : Nat → Bool) (lo hi : Nat) :
    (firstIdx p lo hi = npos ∧ ∀ j, lo ≤ j → j ≤ hi → p j = false) ∨
    (lo ≤ firstIdx p lo hi ∧ firstIdx p lo hi ≤ hi ∧ p (firstIdx p lo hi) = true ∧ ∀ j, lo ≤ j → j < firstIdx p lo hi → p j = false) := by
  unfold firstIdx
  rw [range_map_eq]
  cases h : (List.range' lo (hi + 1 - lo)).find? p with
  | none =>
    left
    show npos = npos ∧ _
    refine ⟨rfl, fun j h1 h2 => find_map_range_none p lo _ h j h1 (by omega)⟩
  | some r =>
    right
    obtain ⟨a, b, c, d⟩ := find_map_range p lo _ r h
    show lo ≤ r ∧ r ≤ hi ∧ p r = true ∧ ∀ j, lo ≤ j → j < r → p j = false
    exact ⟨a, by omega, c, d⟩

/-- **`find` is std::string::find**: the result is `npos`, and then the needle occurs nowhere at or after `pos`; or it is the FIRST index at or
    after `pos` where the needle matches, and the match lies inside the string (nothing outside it is compared). -/
theorem strFind_spec (s f : List Int) (pos : Nat) :
    (strFind s f pos = npos ∧ ∀ j, pos ≤ j → j ≤ s.length → matchAt s f j = false) ∨
    (pos ≤ strFind s f pos ∧ strFind s f pos + f.length ≤ s.length ∧ (s.drop (strFind s f pos)).take f.length = f ∧
      ∀ j, pos ≤ j → j < strFind s f pos → matchAt s f j = false) := by
  unfold strFind
  split
  · left
    refine ⟨rfl, fun j h1 h2 => ?_⟩
    omega
  · rcases firstIdx_spec (matchAt s f) pos s.length with ⟨h1, h2⟩ | ⟨h1, h2, h3, h4⟩
    · left; exact ⟨h1, h2⟩
    · right
      simp only [matchAt, Bool.and_eq_true, beq_iff_eq, decide_eq_true_eq] at h3
      exact ⟨h1, h3.2, h3.1, h4⟩

theorem find_rev_range (p : Nat → Bool) : ∀ (n r : Nat), (List.range n).reverse.find? p = some r →
    r < n ∧ p r = true ∧ ∀ j, r < j → j < n → p j = false := by
  intro n
  induction n with
  | zero => intro r h; simp at h
  | succ n ih =>
    intro r h
    rw [List.range_succ, List.reverse_append, List.reverse_singleton, List.singleton_append, List.find?_cons] at h
    cases hp : p n with
    | true =>
      rw [hp] at h; injection h with h; subst h
      exact ⟨by omega, hp, fun j h1 h2 => by omega⟩
    | false =>
      rw [hp] at h
      obtain ⟨a, b, c⟩ := ih r h
      refine ⟨by omega, b, fun j h1 h2 => ?_⟩
      by_cases e : j = n
      · subst e; exact hp
      · exact c j h1 (by omega)

theorem find_rev_range_none (p : Nat → Bool) : ∀ (n : Nat), (List.range n).reverse.find? p = none → ∀ j, j < n → p j = false := by
  intro n
  induction n with
  | zero => intro _ j h; omega
  | succ n ih =>
    intro h j hj
    rw [List.range_succ, List.reverse_append, List.reverse_singleton, List.singleton_append, List.find?_cons] at h
    cases hp : p n with
    | true => rw [hp] at h; simp at h
    | false =>
      rw [hp] at h
      by_cases e : j = n
      · subst e; exact hp
      · exact ih h j (by omega)

/-- `lastIdx`: the largest index of `[0, hi]` satisfying `p`, or `npos` when there is none -/
theorem lastIdx_spec (p : Nat → Bool) (hi : Nat) :
    (lastIdx p hi = npos ∧ ∀ j, j ≤ hi → p j = false) ∨
    (lastIdx p hi ≤ hi ∧ p (lastIdx p hi) = true ∧ ∀ j, lastIdx p hi < j → j ≤ hi → p j = false) := by
  unfold lastIdx
  cases h : (List.range (hi + 1)).reverse.find? p with
  | none =>
    left
    show npos = npos ∧ _
    exact ⟨rfl, fun j hj => find_rev_range_none p _ h j (by omega)⟩
  | some r =>
    right
    obtain ⟨a, b, c⟩ := find_rev_range p _ r h
    show r ≤ hi ∧ p r = true ∧ ∀ j, r < j → j ≤ hi → p j = false
    exact ⟨by omega, b, fun j h1 h2 => c j h1 (by omega)⟩

/-- **`rfind` is std::string::rfind**: `npos` exactly when the needle matches at no index up to `pos`; otherwise the LAST index up to `pos`
    where it matches, the match inside the string. -/
theorem strRfind_spec (s f : List Int) (pos : Nat) :
    (strRfind s f pos = npos ∧ ∀ j, j ≤ pos → matchAt s f j = false) ∨
    (strRfind s f pos ≤ pos ∧ strRfind s f pos + f.length ≤ s.length ∧ (s.drop (strRfind s f pos)).take f.length = f ∧
      ∀ j, strRfind s f pos < j → j ≤ pos → matchAt s f j = false) := by
  unfold strRfind
  split
  · rename_i hlen
    left
    refine ⟨rfl, fun j _ => ?_⟩
    simp only [matchAt, Bool.and_eq_false_iff, decide_eq_false_iff_not]
    right; omega
  · rename_i hlen
    have beyond : ∀ j, s.length - f.length < j → matchAt s f j = false := by
      intro j hj
      simp only [matchAt, Bool.and_eq_false_iff, decide_eq_false_iff_not]
      right; omega
    rcases lastIdx_spec (matchAt s f) (min pos (s.length - f.length)) with ⟨h1, h2⟩ | ⟨h1, h2, h3⟩
    · left
      refine ⟨h1, fun j hj => ?_⟩
      by_cases hb : j ≤ s.length - f.length
      · exact h2 j (by omega)
      · exact beyond j (by omega)
    · right
      have hm := h2
      simp only [matchAt, Bool.and_eq_true, beq_iff_eq, decide_eq_true_eq] at hm
      refine ⟨by omega, hm.2, hm.1, fun j hj1 hj2 => ?_⟩
      by_cases hb : j ≤ s.length - f.length
      · exact h3 j hj1 (by omega)
      · exact beyond j (by omega)

end ChaiVerif.C12
