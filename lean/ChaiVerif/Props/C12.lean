/-
Property C12 — built-in containers/strings are bounds-safe and match their C++ models.
`Gen.*` is the census of registered operations regenerated from bootstrap_stl.hpp on every run.
-/
import ChaiVerif.Spec.Stl
import ChaiVerif.Gen.Stl
namespace ChaiVerif.C12
open ChaiVerif

/-- The guard configuration of the source. -/
def cfg : StlCfg :=
  { frontG := guarded Gen.stlRows .vector .container .front
    backG := guarded Gen.stlRows .vector .container .back
    popBackG := guarded Gen.stlRows .vector .container .pop_back
    indexAt := guarded Gen.stlRows .vector .container .index
    insertAt := Gen.insertAtGuard
    eraseAt := Gen.eraseAtGuard
    rPopFront := Gen.rangeGuards.1
    rPopBack := Gen.rangeGuards.2.1
    rFront := Gen.rangeGuards.2.2.1
    rBack := Gen.rangeGuards.2.2.2 }

/-- Census: every registered operation (Vector, string, Map, Pair and their range views) whose
    std:: counterpart has a precondition is guarded; the position guards of insert_at / erase_at
    are the exact ones; every Bidir_Range accessor checks emptiness first. -/
theorem stl_guards_complete :
    (∀ r ∈ Gen.stlRows, r.safe = true) ∧ Gen.insertAtGuard = .posLe ∧ Gen.eraseAtGuard = .posLt ∧
    Gen.rangeGuards = (true, true, true, true) ∧ Gen.rangeEmptyDef = true := by decide

theorem cfg_eq : cfg = ⟨true, true, true, true, .posLe, .posLt, true, true, true, true⟩ := by decide

/-- **One step, defined case.** For every vector and every operation (any index or position, incl.
    negative, = size, > size, and empty containers): if the std:: precondition holds the step has
    exactly the std:: effect and result. -/
theorem vec_step_refines_std (xs : List Int) (op : VOp) (ys : List Int) (out : StlOut)
    (h : stdVec xs op = some (ys, out)) : vecStep cfg xs op = .ok ys out := by
  rw [cfg_eq]
  cases op with
  | index i =>
      simp only [stdVec] at h; simp only [vecStep]
      by_cases hi : 0 ≤ i ∧ i < xs.length
      · simp [hi] at h ⊢; exact h
      · simp [hi] at h
  | front => cases xs <;> simp [stdVec, vecStep] at h ⊢; exact h
  | back =>
      simp only [stdVec] at h; simp only [vecStep]
      cases hl : xs.getLast? <;> simp [hl] at h ⊢; exact h
  | pushBack v => simp [stdVec, vecStep] at h ⊢; exact h
  | popBack => cases xs <;> simp [stdVec, vecStep] at h ⊢; exact h
  | insertAt pos v =>
      simp only [stdVec] at h; simp only [vecStep, posOk]
      by_cases hp : 0 ≤ pos ∧ pos ≤ xs.length
      · have h1 : ¬ (pos < 0) := by omega
        have h2 : ¬ ((xs.length : Int) < pos) := by omega
        simp [hp, h1, h2] at h ⊢; exact h
      · simp [hp] at h
  | eraseAt pos =>
      simp only [stdVec] at h; simp only [vecStep, posOk]
      by_cases hp : 0 ≤ pos ∧ pos < xs.length
      · have h1 : ¬ (pos < 0) := by omega
        have h2 : ¬ ((xs.length : Int) ≤ pos) := by omega
        simp [hp, h1, h2] at h ⊢; exact h
      · simp [hp] at h
  | resize n v =>
      simp only [stdVec] at h; simp only [vecStep]
      by_cases hn : n < 0
      · simp [hn] at h
      · simp [hn] at h ⊢; exact h
  | clear => simp [stdVec, vecStep] at h ⊢; exact h
  | size => simp [stdVec, vecStep] at h ⊢; exact h
  | empty => simp [stdVec, vecStep] at h ⊢; exact h

/-- **One step, undefined case.** When the std:: precondition is violated the step raises an
    exception (and, by the shape of `SRes.err`, leaves the container unchanged); it is never
    undefined behaviour. -/
theorem vec_step_guards (xs : List Int) (op : VOp) (h : stdVec xs op = none) :
    ∃ e, vecStep cfg xs op = .err e := by
  rw [cfg_eq]
  cases op with
  | index i =>
      simp only [stdVec] at h; simp only [vecStep]
      by_cases hi : 0 ≤ i ∧ i < xs.length
      · simp [hi] at h
      · simp [hi]
  | front => cases xs <;> simp [stdVec, vecStep] at h ⊢
  | back =>
      simp only [stdVec] at h; simp only [vecStep]
      cases hl : xs.getLast? <;> simp [hl] at h ⊢
  | pushBack v => simp [stdVec] at h
  | popBack => cases xs <;> simp [stdVec, vecStep] at h ⊢
  | insertAt pos v =>
      simp only [stdVec] at h; simp only [vecStep, posOk]
      by_cases hp : 0 ≤ pos ∧ pos ≤ xs.length
      · simp [hp] at h
      · have : (pos < 0 ∨ (xs.length : Int) < pos) := by omega
        rcases this with h1 | h1 <;> simp [h1]
  | eraseAt pos =>
      simp only [stdVec] at h; simp only [vecStep, posOk]
      by_cases hp : 0 ≤ pos ∧ pos < xs.length
      · simp [hp] at h
      · have : (pos < 0 ∨ (xs.length : Int) ≤ pos) := by omega
        rcases this with h1 | h1 <;> simp [h1]
  | resize n v =>
      simp only [stdVec] at h; simp only [vecStep]
      by_cases hn : n < 0
      · simp [hn]
      · simp [hn] at h
  | clear => simp [stdVec] at h
  | size => simp [stdVec] at h
  | empty => simp [stdVec] at h

/-- **Every operation sequence** is free of undefined behaviour. -/
theorem vec_run_never_ub (ops : List VOp) : ∀ xs : List Int, (vecRun cfg xs ops).isSome = true := by
  induction ops with
  | nil => intro xs; rfl
  | cons op ops ih =>
    intro xs
    unfold vecRun
    cases hs : stdVec xs op with
    | some r => obtain ⟨ys, out⟩ := r; rw [vec_step_refines_std xs op ys out hs]; exact ih ys
    | none => obtain ⟨e, he⟩ := vec_step_guards xs op hs; rw [he]; exact ih xs

/-- The position guards accept exactly the positions for which insertion / erasure is defined. -/
theorem insert_at_guard_exact (pos : Int) (len : Nat) :
    posOk Gen.insertAtGuard pos len true = some (decide (0 ≤ pos ∧ pos ≤ len)) := by
  have hg : Gen.insertAtGuard = .posLe := by decide
  rw [hg]
  by_cases h : 0 ≤ pos ∧ pos ≤ (len : Int)
  · have h1 : ¬ (pos < 0) := by omega
    have h2 : ¬ ((len : Int) < pos) := by omega
    simp [posOk, h, h1, h2]
  · have : (pos < 0 ∨ (len : Int) < pos) := by omega
    rcases this with h1 | h1 <;> simp [posOk, h1] <;> omega
theorem erase_at_guard_exact (pos : Int) (len : Nat) :
    posOk Gen.eraseAtGuard pos len false = some (decide (0 ≤ pos ∧ pos < len)) := by
  have hg : Gen.eraseAtGuard = .posLt := by decide
  rw [hg]
  by_cases h : 0 ≤ pos ∧ pos < (len : Int)
  · have h1 : ¬ (pos < 0) := by omega
    have h2 : ¬ ((len : Int) ≤ pos) := by omega
    simp [posOk, h, h1, h2]
  · have : (pos < 0 ∨ (len : Int) ≤ pos) := by omega
    rcases this with h1 | h1 <;> simp [posOk, h1] <;> omega

/-- Range views: `b ≤ e ≤ size` is preserved by every range operation, a read touches an index in
    `[b, e)` (so inside the container), and no range operation is undefined behaviour. -/
theorem range_inv (size : Nat) (r : Rng) (op : ROp) (h : r.b ≤ r.e ∧ r.e ≤ size) :
    match rngStep cfg r op with
    | .ok r' idx _ => r'.b ≤ r'.e ∧ r'.e ≤ size ∧ (∀ i, idx = some i → r.b ≤ i ∧ i < r.e ∧ i < size)
    | .err => r.b = r.e
    | .ub => False := by
  rw [cfg_eq]
  cases op <;> simp only [rngStep]
  · simp; omega
  all_goals
    by_cases hbe : r.b = r.e
    · simp [hbe]
    · simp [hbe]; omega

/-- Map: `at` on a missing key raises out_of_range, `[]` never fails, and no step is undefined. -/
theorem map_step_total (m : List (Nat × Option Int)) (op : MOp) :
    (∃ m' out, mapStep m op = .ok m' out) ∨ (mapStep m op = .err .outOfRange ∧ ∃ k, op = .at k ∧ m.lookup k = none) := by
  cases op with
  | index k => simp only [mapStep]; cases hl : m.lookup k with
    | none => simp
    | some v => cases v <;> simp
  | «at» k => simp only [mapStep]; cases hl : m.lookup k with
    | none => right; exact ⟨rfl, k, rfl, hl⟩
    | some v => cases v <;> simp
  | _ => simp [mapStep]

end ChaiVerif.C12
