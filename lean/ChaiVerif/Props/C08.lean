/-
Property C08 — evaluating code does not change the code: re-evaluation is deterministic.

In the model, the code's constants are the first `n` objects of the heap (one per `Constant` node, reached
through Data record `k` for literal `k`), function bodies are immutable syntax (`ρ`), so "the code is not
changed" is exactly: the literal objects keep their values, the literal records keep pointing at them, and no
mutable or temporary handle to a literal ever exists (so nothing can change them later either).
`Lemmas/ChaiRunLits.run_lit` proves this invariant by induction on fuel over every job and node kind.
-/
import ChaiVerif.Lemmas.ChaiRunLits
namespace ChaiVerif.C08
open ChaiVerif.Chai

/-- the state a program starts in satisfies the invariant -/
theorem init_is_lit (lits : List Val) : Lit lits.length lits (St.init lits) := by
  refine ⟨by simp [St.init], by simp [St.init], by simp [St.init], ?_, ?_⟩
  · intro l hl
    by_cases h : l < lits.length
    · simp [St.init, St.cell, List.getD, h]
    · simp [St.init, St.cell, List.getD, h]
  · intro l hl
    simp [St.init, St.cell, List.getD, hl]

/-- **Evaluation never changes the code's constants** — any job (statement sequence, function call, loop, catch-clause scan,
    overload dispatch …), any state satisfying the invariant, any amount of fuel, any outcome (value, error, C++ exception from a
    callback, escape, or stopping mid-way): the literals hold the same values afterwards and are as protected as before. -/
theorem literals_preserved (ρ : List FunDef) (n : Nat) (o0 : List Val) (f : Nat) (j : Job) (s : St)
    (h : Lit n o0 s) (hj : JobOK n j) : Lit n o0 (run ρ f j s).2 := run_lit ρ f j s h hj

/-- **Whole programs**: after running any program on its initial state, every literal has its original value … -/
theorem literal_values_fixed (ρ : List FunDef) (lits : List Val) (prog : List Node) (f : Nat) :
    (run ρ f (.seq prog) (St.init lits)).2.objs.take lits.length = lits :=
  (run_lit ρ f (.seq prog) _ (init_is_lit lits) trivial).same

/-- … the `Constant` node of literal `k` still yields that value (its Data record was not redirected) … -/
theorem constant_node_value_fixed (ρ : List FunDef) (lits : List Val) (prog : List Node) (f : Nat) (k : Nat) (hk : k < lits.length) :
    (run ρ f (.seq prog) (St.init lits)).2.val k = lits.getD k .undef := by
  have h := run_lit ρ f (.seq prog) _ (init_is_lit lits) trivial
  have hc := h.handles k hk
  have hs := h.same
  unfold St.val
  rw [hc]
  simp only
  have : ((run ρ f (.seq prog) (St.init lits)).2.objs.take lits.length)[k]? = lits[k]? := by rw [hs]
  rw [List.getElem?_take] at this
  simp only [hk, if_true] at this
  simp [List.getD, this]

/-- … and no handle through which it could be written, or which `clone_if_necessary` would adopt, exists. -/
theorem no_mutable_handle_to_a_literal (ρ : List FunDef) (lits : List Val) (prog : List Node) (f : Nat) (l : Loc)
    (hl : ((run ρ f (.seq prog) (St.init lits)).2.cell l).obj < lits.length) :
    ((run ρ f (.seq prog) (St.init lits)).2.cell l).const = true ∧ ((run ρ f (.seq prog) (St.init lits)).2.cell l).ret = false :=
  (run_lit ρ f (.seq prog) _ (init_is_lit lits) trivial).safe l hl

/-- **Re-evaluation starts from the same code**: evaluate any program, then (in the state it left) any other job: the second
    evaluation sees the same literal values and the same protection as the first did. -/
theorem second_evaluation_sees_same_literals (ρ : List FunDef) (lits : List Val) (prog : List Node) (f g : Nat) (j : Job)
    (hj : JobOK lits.length j) :
    Lit lits.length lits (run ρ g j (run ρ f (.seq prog) (St.init lits)).2).2 :=
  run_lit ρ g j _ (run_lit ρ f (.seq prog) _ (init_is_lit lits) trivial) hj

/-! non-vacuity: a program that tries to write a literal through a reference and through an adopted temporary -/
example :
    let lits : List Val := [.builtin .print, .int 5]
    let prog : List Node := [.eq .assign (.refDecl 1) (.const 1), .eq .addAsg (.id 0 1) (.const 1)]
    (run [] 50 (.seq prog) (St.init lits)).1 = .thrown (.evalErr .assignConst) ∧
    (run [] 50 (.seq prog) (St.init lits)).2.val 1 = .int 5 := by decide

end ChaiVerif.C08
