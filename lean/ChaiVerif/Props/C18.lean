/-
Property C18 — JSON conversion round-trips and tolerates any input.
-/
import ChaiVerif.Model.Json
import ChaiVerif.Gen.Json
import ChaiVerif.Lemmas.JsonLeaves
import ChaiVerif.Lemmas.JsonRoundtrip
import ChaiVerif.Lemmas.JsonIdem
namespace ChaiVerif.C18
open ChaiVerif

set_option maxRecDepth 20000 in
/-- The model's escape and unescape tables are the ones in the source; the string loop, the
    whitespace loop, the out_of_range mapping and the depth guard have the recognised shape; and no
    character of the input is read without a bounds check (`str.at` / `substr` only). -/
theorem json_tables_and_census :
    (List.range 256).all (fun c => escChar c == ((Gen.jsonEscapeRows.lookup c).getD [c])) = true ∧
    (List.range 256).all (fun e => unescChar e == Gen.jsonUnescapeRows.lookup e) = true ∧
    Gen.jsonEscapeDefaultIdentity = true ∧ Gen.jsonUnescapeDefaultBackslash = true ∧ Gen.jsonStringLoopShape = true ∧
    Gen.jsonUncheckedReads = 0 ∧ Gen.jsonConsumeWsShape = true ∧ Gen.jsonWrapMapsOutOfRange = true ∧
    Gen.jsonDepthGuard = true ∧ Gen.jsonMaxDepth = maxDepth := by decide

/-- **Strings round-trip**: for every byte string `s` (all byte values, quotes, backslashes and
    control characters included), parsing the quoted, escaped form of `s` yields exactly `s` and stops
    right after the closing quote — wherever the literal sits in the input. -/
theorem unescape_escape (s pre rest : List Nat) :
    parseString (pre ++ 34 :: (jsonEscape s ++ 34 :: rest)) (s.length + 1) pre.length []
      = .ok (s, pre.length + (jsonEscape s).length + 2) := by
  have := parseString_escape s pre 34 rest [] (s.length + 1) (by omega)
  simpa using this

theorem int_text_roundtrip (n : Nat) (h : n < 9223372036854775808) : parseNumInt (natDigits n) = (n : Int) := by
  unfold parseNumInt natDigits
  exact digits_roundtrip (n + 1) n (by omega) h

/-- The nesting guard: a `parse_next` frame beyond the limit is an error, never a deeper recursion. -/
theorem parse_depth_bounded (s : List Nat) (f off d : Nat) (h : d ≥ maxDepth) :
    parseJ s (f + 1) d (.next off) = .error .depth := by
  simp [parseJ]; omega

/-! ### whole values -/

/-- **from_json(to_json(v)) = v** for every value built from null, booleans, integers strictly inside the 64-bit range, strings of
    arbitrary bytes, arrays of such values and string-keyed objects with pairwise different keys, nested to any depth below the
    parser's limit: parsing the text `dumpJ` prints returns exactly the value (keys in their order).  The whole recursive-descent
    parser is covered — white space, dispatch on the first character, the number scanner with its terminator rule, the string
    scanner, the array loop with its `, ` separators, the object loop with indentation, `"key" : value`, `,\n` and the closing brace,
    `operator[]` on the flat map, the depth guard and the fuel `jsonLoad` gives it — against the printer.
    `plainJ F j` says that `j` is such a value and nests less than `F` deep.
    PARTIAL with respect to the property: floating-point values are outside any exact statement (the property itself allows 1e-6).
    The idempotence clause for arbitrary accepted TEXTS is `text_idempotent_partial` below. -/
theorem value_roundtrip_partial (F : Nat) (j : J) (d : Nat) (hpl : JRT.plainJ F j = true) (hF : F ≤ maxDepth) :
    jsonLoad (dumpJ F j d) = .ok j := by
  obtain ⟨off, hp, _⟩ := JRT.P_all F j d [] [] [] 0 (4 * (dumpJ F j d).length + 8) hpl (by omega)
    (by intro c hc; simp at hc) (Or.inl rfl) (by omega)
  simp only [List.nil_append, List.append_nil, List.length_nil] at hp
  unfold jsonLoad
  rw [hp]

/-- non-vacuity: a nested value with every covered kind satisfies the hypothesis -/
example : JRT.plainJ 4 (.arr [.int (-7), .str [34, 92, 10], .arr [], .obj [([97], .bool true), ([98, 34], .obj []), ([], .arr [.null, .int 0])]]) = true := by
  decide

/-! ### accepted texts -/

/-- Whatever text the parser accepts, the value it returns nests no deeper than the depth guard allows and no object in it has a key
    twice (`operator[]` overwrites) — so, unless it contains a floating-point token or an integer on the edge of the 64-bit range, it is
    one of the values `value_roundtrip_partial` covers.  Induction over the whole parser (every branch of `parse_next`, the array loop, the
    object loop). -/
theorem accepted_text_gives_plain_value (t : List Nat) (v : J) (h : jsonLoad t = .ok v) (hx : JRT.exactJ maxDepth v = true) :
    JRT.plainJ maxDepth v = true := JRT.load_plain t v h hx

/-- **from_json(to_json(from_json(t))) = from_json(t)** for EVERY text `t` the parser accepts (any bytes, any white space, any nesting
    the depth guard lets through, repeated keys, escapes) whose value holds no floating-point number and no integer equal to INT64_MIN:
    printing the parsed value and parsing the print returns the parsed value.
    PARTIAL with respect to the property only in the floating-point clause (the property allows 1e-6 there; decided by correspondence). -/
theorem text_idempotent_partial (t : List Nat) (v : J) (h : jsonLoad t = .ok v) (hx : JRT.exactJ maxDepth v = true) :
    jsonLoad (dumpJ maxDepth v 0) = .ok v :=
  value_roundtrip_partial maxDepth v 0 (accepted_text_gives_plain_value t v h hx) (Nat.le_refl _)

/-- non-vacuity: a text with odd spacing, a repeated key and an escape is accepted, its value is exact, and the repeated key was merged -/
example : jsonLoad [32, 123, 34, 97, 34, 58, 91, 49, 44, 32, 45, 50, 93, 44, 10, 34, 97, 34, 32, 58, 34, 92, 110, 34, 125] = .ok (.obj [([97], .str [10])]) ∧
    JRT.exactJ maxDepth (.obj [([97], .str [10])]) = true := ⟨by rfl, by decide⟩

end ChaiVerif.C18
