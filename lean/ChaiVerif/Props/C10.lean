/-
Property C10 — exceptions are delivered, not lost or altered.
Theorems about `Try_AST_Node` as modelled in Model/Chai/Eval.lean (clause scan, finally placement,
what counts as catchable), for every state and every sufficient amount of fuel.
-/
import ChaiVerif.Lemmas.ChaiRunShape
import ChaiVerif.Model.Chai.Catches
import ChaiVerif.Gen.Catches
namespace ChaiVerif.C10
open ChaiVerif.Chai

abbrev Clause := Option (Name × Option TyTag) × Node

/-- a typed clause whose type does not accept the value -/
def Rejects (s : St) (exc : Loc) (c : Clause) : Prop :=
  ∃ x ty, c.1 = some (x, ty) ∧ tyMatches ty (s.val exc) = false

theorem pushpop_scope (s : St) : s.pushScope.popScope = s := by
  cases s
  simp only [St.pushScope, St.popScope, modifyLast_modifyLast]
  congr
  · exact modifyLast_id' _ (by intro a; simp) _
  · simp

/-- **No clause matches ⇒ nothing is run, nothing is changed.** Scanning clauses that all reject the
    exception evaluates no block and returns the state untouched with the verdict "no match". -/
theorem catches_all_reject (ρ : List FunDef) (cs : List Clause) : ∀ (f : Nat) (s : St) (exc : Loc),
    (∀ c ∈ cs, Rejects s exc c) → cs.length < f → run ρ f (.catches cs exc) s = (.noMatch, s) := by
  induction cs with
  | nil => intro f s exc _ hf; obtain ⟨f, rfl⟩ : ∃ g, f = g + 1 := ⟨f - 1, by simp at hf; omega⟩; simp [run]
  | cons c cs ih =>
    intro f s exc h hf
    obtain ⟨f, rfl⟩ : ∃ g, f = g + 1 := ⟨f - 1, by simp at hf; omega⟩
    obtain ⟨x, ty, hc, hm⟩ := h c (by simp)
    obtain ⟨param, body⟩ := c
    simp only at hc; subst hc
    have hm' : tyMatches ty (s.pushScope.val exc) = false := hm
    simp only [run, withScope, hm', Bool.false_eq_true, if_false, pushpop_scope]
    exact ih f s exc (fun c hc => h c (by simp [hc])) (by simp at hf; omega)

/-- **An exception no clause accepts leaves the try statement unchanged** (no finally block): the
    outcome is the very exception the body threw, and the state is the one the body left, minus the
    try's own scope. -/
theorem try_unmatched_rethrows (ρ : List FunDef) (f : Nat) (body : Node) (cs : List Clause) (s s1 : St) (v : Loc)
    (hb : run ρ f (.node body) s.pushScope = (.thrown (.boxed v), s1))
    (hr : ∀ c ∈ cs, Rejects s1 v c) (hf : cs.length < f) :
    run ρ (f + 1) (.node (.tryN body cs none)) s = (.thrown (.boxed v), s1.popScope) := by
  simp only [run, withScope, hb, catchable, boxExc, if_true]
  rw [catches_all_reject ρ cs f s1 v hr hf]

/-- … and with a finally block, the finally block runs (once) and then the same exception continues. -/
theorem try_unmatched_finally_then_rethrows (ρ : List FunDef) (f : Nat) (body fb : Node) (cs : List Clause) (s s1 s2 : St) (v l : Loc)
    (hb : run ρ f (.node body) s.pushScope = (.thrown (.boxed v), s1))
    (hr : ∀ c ∈ cs, Rejects s1 v c) (hf : cs.length < f)
    (hfin : run ρ f (.node fb) s1 = (.val l, s2)) :
    run ρ (f + 1) (.node (.tryN body cs (some fb))) s = (.thrown (.boxed v), s2.popScope) := by
  simp only [run, withScope, hb, catchable, boxExc, if_true]
  rw [catches_all_reject ρ cs f s1 v hr hf]
  simp only [hfin]

/-- **First matching clause wins**: clauses before it that reject the value are skipped without effect,
    the matching clause's block runs once with the value bound (in its own scope), later clauses are
    not looked at. -/
theorem catches_first_match (ρ : List FunDef) (pre : List Clause) (x : Name) (ty : Option TyTag) (blk : Node) (post : List Clause) :
    ∀ (g : Nat) (s : St) (exc : Loc) (s1 : St) (o : Out) (s2 : St),
    (∀ c ∈ pre, Rejects s exc c) → tyMatches ty (s.val exc) = true →
    s.pushScope.addObject x exc = some s1 → run ρ g (.node blk) s1 = (o, s2) → o ≠ .noMatch →
    run ρ (pre.length + g + 1) (.catches (pre ++ (some (x, ty), blk) :: post) exc) s = (o, s2.popScope) := by
  induction pre with
  | nil =>
    intro g s exc s1 o s2 _ hm ha hb ho
    have hm' : tyMatches ty (s.pushScope.val exc) = true := hm
    simp only [List.nil_append, List.length_nil, Nat.zero_add, run, withScope, hm', if_true, ha, hb]
    cases o <;> simp_all
  | cons c pre ih =>
    intro g s exc s1 o s2 hr hm ha hb ho
    obtain ⟨y, ty', hc, hmc⟩ := hr c (by simp)
    obtain ⟨param, body⟩ := c
    simp only at hc; subst hc
    have hmc' : tyMatches ty' (s.pushScope.val exc) = false := hmc
    have e : (((some (y, ty'), body) :: pre).length + g + 1) = (pre.length + g + 1) + 1 := by simp; omega
    rw [e]
    simp only [List.cons_append, run, withScope, hmc', Bool.false_eq_true, if_false, pushpop_scope]
    exact ih g s exc s1 o s2 (fun c hc => hr c (by simp [hc])) hm ha hb ho

/-- What the catch ladder treats as catchable: script values, eval_error and std::exception-derived
    C++ exceptions; everything else (a non-std C++ type, and the control-flow exceptions return / break /
    continue) only passes through the finally block. -/
theorem catchable_kinds :
    (∀ w, catchable (.evalErr w) = true) ∧ (∀ l, catchable (.boxed l) = true) ∧ catchable (.cpp .runtimeError) = true ∧
    catchable (.cpp .outOfRange) = true ∧ catchable (.cpp .stdException) = true ∧ catchable (.cpp .evalError) = true ∧
    catchable (.cpp .nonStd) = false := by
  refine ⟨fun _ => rfl, fun _ => rfl, rfl, rfl, rfl, rfl, rfl⟩

/-- `return`, `break` and `continue` leaving a try body run the finally block once and keep going. -/
theorem try_escape_runs_finally (ρ : List FunDef) (f : Nat) (body fb : Node) (cs : List Clause) (s s1 s2 : St) (l l2 : Loc)
    (hb : run ρ f (.node body) s.pushScope = (.ret l, s1)) (hfin : run ρ f (.node fb) s1 = (.val l2, s2)) :
    run ρ (f + 1) (.node (.tryN body cs (some fb))) s = (.ret l, s2.popScope) := by
  simp only [run, withScope, hb, hfin]

/-- A body that completes normally skips every clause; with a finally block the try's value is the
    finally block's. -/
theorem try_normal (ρ : List FunDef) (f : Nat) (body : Node) (cs : List Clause) (s s1 : St) (l : Loc)
    (hb : run ρ f (.node body) s.pushScope = (.val l, s1)) :
    run ρ (f + 1) (.node (.tryN body cs none)) s = (.val l, s1.popScope) := by
  simp only [run, withScope, hb]

/-- non-vacuity of `try_unmatched_rethrows`: `try { throw(true) } catch(int e) { }` really throws `true` on -/
example :
    let lits : List Val := [.builtin .throw_, .bool true]
    let prog := Node.tryN (.block [.call false (.const 0) [.const 1]]) [(some (5, some .int), .block [.noop])] none
    (run [] 20 (.node prog) (St.init lits)).1 = .thrown (.boxed 1) := by decide

/-! ### where the C++ code may end or alter an exception: regenerated from the source -/

/-- **no new place swallows or alters a user's exception**: of all catch clauses in the current source of the dispatch kit, the evaluator,
    the engine and the optimizer (census regenerated by extract/e_catches.py on every run), every handler whose type can be a user's
    exception — `...`, std::exception and its standard subclasses, eval_error, a thrown Boxed_Value — either rethrows what it caught
    (`throw;`) or is one of the handlers pinned, with its reason, in Model/Chai/Catches.lean (the script-level catch ladder itself, the
    boxing of eval_error for script code, parse-time folding, the error reports of arithmetic and name lookup, conversion lookups).  A
    handler added anywhere on the way of an exception — a dispatch loop that starts catching std::exception, a guard evaluation wrapped in
    `catch (...)` — is a new row and breaks this theorem. -/
theorem no_new_absorbing_handlers :
    Gen.catchClauses.all (fun r =>
      !(Chai.broadTypes.contains r.2.2.2.1) || r.2.2.2.2 == "rethrow" || Chai.pinnedBroadHandlers.contains r) = true := by
  decide

end ChaiVerif.C10
