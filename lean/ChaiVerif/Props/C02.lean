/-
Property C02 — the AST optimizer never changes what a program does.

The model's optimizer (Model/Chai/Opt.lean) is tied to chaiscript_optimizer.hpp structurally: on every
run the check compares, for generated programs, the trees the real parser builds with and without
`Optimizer_Default` against `optimizeProgram` and the unoptimized model tree.  The theorems below are
about the individual rewrites, on the evaluator model, for every state, environment and amount of fuel:

* If, Dead_Code (constants), Partial_Fold: the rewritten fragment evaluates to EXACTLY the same outcome
  and state as the original (with one unit of fuel less where a node disappeared);
* Constant_Fold: the value the pass precomputes is the value the unfolded expression computes, and it is
  not folded when the operation would raise (division by zero);
* the three EXACT passes (Partial_Fold, If, Dead_Code on constants) applied bottom-up to the WHOLE tree and to every function body
  preserve every evaluation, outcome and state, for every program, state satisfying the literal invariant and fuel
  [exact_passes_preserve_evaluation, optimized_program_same_result] — a seventh induction over the evaluator (Lemmas/ChaiXOptMain),
  on top of "fuel is only fuel" [result_independent_of_fuel, sixth induction, Lemmas/ChaiRunMono];
* Block, For_Loop, Assign_Decl, Return, Unused_Return, Constant_Fold and Dead_Code on no-ops: the side conditions under which the pass
  fires (structural) and the value folded; their whole-program semantic equivalence is NOT proved (the states differ in saved call parameters,
  scope depth of cached lookups and allocation order) and is decided by the differential check only.

Hypothesis `Agree L s`: the constants of the program hold their literal values in state `s` (that this
stays true is property C08).
-/
import ChaiVerif.Model.Chai.Opt
import ChaiVerif.Lemmas.ChaiShape
import ChaiVerif.Lemmas.ChaiXOptMain
import ChaiVerif.Lemmas.ChaiRunWp
import ChaiVerif.Props.C08
namespace ChaiVerif.C02
open ChaiVerif.Chai

/-- the constant cell `c` holds the literal the parser put there -/
def Agree (L : Lits) (s : St) (c : Loc) : Prop := s.val c = litOf L c

/-! ### If -/

/-- **If pass**: a conditional on a constant boolean evaluates exactly like the branch the pass selects. -/
theorem if_pass_sound (ρ : List FunDef) (L : Lits) (f : Nat) (c : Loc) (t e : Node) (s : St) (b : Bool)
    (hc : Agree L s c) (hb : litOf L c = .bool b) :
    run ρ (f + 2) (.node (.ifN (.const c) t e)) s = run ρ (f + 1) (.node (ifPass L (.ifN (.const c) t e))) s := by
  have hv : s.val c = .bool b := hc.trans hb
  cases b <;> simp [run, bnd, boolOf, hv, ifPass, hb]

/-- … and it leaves every other conditional alone. -/
theorem if_pass_only_constants (L : Lits) (c t e : Node) (h : ∀ l, c ≠ .const l) : ifPass L (.ifN c t e) = .ifN c t e := by
  cases c <;> simp_all [ifPass]

theorem if_pass_nonbool (L : Lits) (c : Loc) (t e : Node) (h : ∀ b, litOf L c ≠ .bool b) :
    ifPass L (.ifN (.const c) t e) = .ifN (.const c) t e := by
  simp only [ifPass]
  split
  · rename_i hb; exact absurd hb (h true)
  · rename_i hb; exact absurd hb (h false)
  · rfl

/-! ### Dead_Code -/

/-- **Dead_Code, one step**: a constant statement that is not the last one can be skipped: the rest of the
    sequence runs from the same state to the same result. -/
theorem dead_constant_skipped (ρ : List FunDef) (f : Nat) (l : Loc) (x : Node) (rest : List Node) (s : St) :
    run ρ (f + 2) (.seq (.const l :: x :: rest)) s = run ρ (f + 1) (.seq (x :: rest)) s := by
  simp [run, bnd]

/-- a no-op statement only leaves one unreferenced `void` behind -/
theorem dead_noop_skipped (ρ : List FunDef) (f : Nat) (x : Node) (rest : List Node) (s : St) :
    run ρ (f + 2) (.seq (.noop :: x :: rest)) s = run ρ (f + 1) (.seq (x :: rest)) (s.allocV .void true).2 := by
  simp [run, bnd, allocVal]

/-- the last statement (the block's value) is never removed -/
theorem keepers_last : ∀ (xs : List Node), (keepers xs).getLast? = xs.getLast? := by
  intro xs
  induction xs with
  | nil => rfl
  | cons x rest ih =>
    cases rest with
    | nil => rfl
    | cons y ys =>
      have hne : keepers (y :: ys) ≠ [] := by
        intro h
        have := congrArg List.getLast? h
        rw [ih] at this
        simp at this
      unfold keepers
      split
      · rw [ih]; simp [List.getLast?_cons_cons]
      · rw [List.getLast?_cons_of_ne_nil hne, ih]; simp [List.getLast?_cons_cons]
where
  List.getLast?_cons_of_ne_nil {α} {a : α} {l : List α} (h : l ≠ []) : (a :: l).getLast? = l.getLast? := by
    cases l with
    | nil => exact absurd rfl h
    | cons b bs => simp [List.getLast?_cons_cons]

/-- only constants and no-ops are removed, and nothing is reordered or added -/
theorem keepers_sublist : ∀ (xs : List Node), (keepers xs).Sublist xs := by
  intro xs
  induction xs with
  | nil => exact List.Sublist.slnil
  | cons x rest ih =>
    cases rest with
    | nil => exact List.Sublist.refl _
    | cons y ys =>
      unfold keepers
      split
      · exact List.Sublist.cons _ ih
      · exact List.Sublist.cons_cons _ ih

theorem keepers_keeps_live : ∀ (xs : List Node) (x : Node), x ∈ xs → isDead x = false → x ∈ keepers xs := by
  intro xs
  induction xs with
  | nil => intro x h; cases h
  | cons y rest ih =>
    intro x hx hd
    cases rest with
    | nil => simpa [keepers] using hx
    | cons z zs =>
      unfold keepers
      rcases List.mem_cons.mp hx with rfl | hx'
      · simp [hd]
      · split
        · exact ih x hx' hd
        · exact List.mem_cons_of_mem _ (ih x hx' hd)

/-- a name is not dead code (evaluating an unknown name is an error): fix 15825f4 -/
theorem id_is_not_dead (nid : Nat) (x : Name) : isDead (.id nid x) = false := rfl

/-! ### Partial_Fold -/

/-- **Partial_Fold**: `a op <int constant>` evaluates exactly like the folded node, whatever `a` does
    (value, error, escape), provided the constant still holds an int when `a` has been evaluated. -/
theorem partial_fold_sound (ρ : List FunDef) (f : Nat) (op : BinOp) (a : Node) (c : Loc) (s : St)
    (hc : ∀ l s1, run ρ (f + 1) (.node a) s = (.val l, s1) → ∃ y, s1.val c = .int y) :
    run ρ (f + 2) (.node (.bin op a (.const c))) s = run ρ (f + 2) (.node (.foldR op a c)) s := by
  have key : ∀ g, g = f + 1 → run ρ (g + 1) (.node (.bin op a (.const c))) s = run ρ (g + 1) (.node (.foldR op a c)) s := by
    intro g hg
    simp only [run]
    have hc' : ∀ l s1, run ρ g (.node a) s = (.val l, s1) → ∃ y, s1.val c = .int y := by subst hg; exact hc
    generalize run ρ g (.node a) s = r at hc'
    obtain ⟨o, s1⟩ := r
    cases o <;> simp only [bnd]
    rename_i la
    obtain ⟨y, hy⟩ := hc' la s1 rfl
    subst hg
    simp only [run, hy]
    generalize s1.val la = va
    cases va <;> first | rfl | (cases op <;> rfl)
  exact key (f + 1) rfl

/-- the pass fires only when the right operand is an arithmetic constant and the left one is not a constant -/
theorem partial_fold_fires_only (L : Lits) (op : BinOp) (a b : Node) (a' : Node) (c : Loc)
    (h : partialFold L (.bin op a b) = .foldR op a' c) : a' = a ∧ b = .const c ∧ isIntLit L c = true ∧ isConstNode a = false := by
  cases b <;> simp only [partialFold] at h <;> try (cases h)
  split at h
  · rename_i hc
    cases h
    simp at hc
    exact ⟨rfl, rfl, hc.2, hc.1⟩
  · cases h


/-! ### Constant_Fold -/

theorem val_alloc (s : St) (v : Val) (c r : Bool) : (s.allocV v c r).2.val s.heap.length = v := by
  simp [St.allocV, St.val, St.cell, List.getD]

/-- **Constant_Fold, binary**: when the pass folds `a op b` on two integer literals, the literal it creates
    holds exactly the value the unfolded expression computes (in a fresh temporary, changing nothing else). -/
theorem fold_bin_sound (ρ : List FunDef) (L : Lits) (f : Nat) (op : BinOp) (a b : Loc) (s : St) (v : Val)
    (ha : Agree L s a) (hb : Agree L s b) (hf : foldBin op (litOf L a) (litOf L b) = some v) :
    constantFold L (.bin op (.const a) (.const b)) = (.const L.length, L ++ [v]) ∧
    run ρ (f + 2) (.node (.bin op (.const a) (.const b))) s = allocVal s v true := by
  refine ⟨by simp [constantFold, hf], ?_⟩
  unfold Agree at ha hb
  unfold foldBin at hf
  split at hf
  · rename_i x y hx hy
    simp only [run, bnd, ha, hb, hx, hy, hf]
  · cases hf

/-- it is NOT folded when the operation raises (division or remainder by zero): the error stays a run-time error -/
theorem fold_bin_keeps_errors (L : Lits) (op : BinOp) (a b : Loc) (h : foldBin op (litOf L a) (litOf L b) = none) :
    constantFold L (.bin op (.const a) (.const b)) = (.bin op (.const a) (.const b), L) := by
  simp [constantFold, h]

theorem fold_div_zero (x : Int) : foldBin .div (.int x) (.int 0) = none ∧ foldBin .mod (.int x) (.int 0) = none := by
  simp [foldBin, intBin]

/-- **Constant_Fold, unary minus** -/
theorem fold_neg_sound (ρ : List FunDef) (L : Lits) (f : Nat) (c : Loc) (s : St) (i : Int)
    (hc : Agree L s c) (hl : litOf L c = .int i) :
    constantFold L (.pre .neg (.const c)) = (.const L.length, L ++ [.int (-i)]) ∧
    run ρ (f + 2) (.node (.pre .neg (.const c))) s = allocVal s (.int (-i)) true := by
  refine ⟨by simp [constantFold, hl], ?_⟩
  have hv : s.val c = .int i := hc.trans hl
  simp [run, bnd, hv]

/-- **Constant_Fold, `!`**: the unfolded `!b` yields a value equal to the folded literal -/
theorem fold_not_sound (ρ : List FunDef) (L : Lits) (f : Nat) (c : Loc) (s : St) (b : Bool)
    (hc : Agree L s c) (hl : litOf L c = .bool b) :
    constantFold L (.pre .not (.const c)) = (.const L.length, L ++ [.bool (!b)]) ∧
    ∃ l s', run ρ (f + 2) (.node (.pre .not (.const c))) s = (.val l, s') ∧ s'.val l = .bool (!b) ∧ s'.out = s.out ∧ s'.natLog = s.natLog := by
  refine ⟨by simp [constantFold, hl], ?_⟩
  have hv : s.val c = .bool b := hc.trans hl
  simp only [run, bnd, hv, withFnCall, allocVal]
  refine ⟨_, _, rfl, ?_, rfl, rfl⟩
  simp [St.leaveCall, St.allocV, St.saveParams, St.enterCall, St.val, St.cell, List.getD]

/-- **Constant_Fold, `&&` / `||` on two boolean literals** -/
theorem fold_and_sound (ρ : List FunDef) (L : Lits) (f : Nat) (a b : Loc) (s : St) (x y : Bool)
    (ha : Agree L s a) (hb : Agree L s b) (hx : litOf L a = .bool x) (hy : litOf L b = .bool y) :
    constantFold L (.and (.const a) (.const b)) = (.const L.length, L ++ [.bool (x && y)]) ∧
    run ρ (f + 2) (.node (.and (.const a) (.const b))) s = allocVal s (.bool (x && y)) true := by
  refine ⟨by simp [constantFold, hx, hy], ?_⟩
  have h1 : s.val a = .bool x := ha.trans hx
  have h2 : s.val b = .bool y := hb.trans hy
  cases x <;> simp [run, bnd, boolOf, h1, h2]

theorem fold_or_sound (ρ : List FunDef) (L : Lits) (f : Nat) (a b : Loc) (s : St) (x y : Bool)
    (ha : Agree L s a) (hb : Agree L s b) (hx : litOf L a = .bool x) (hy : litOf L b = .bool y) :
    constantFold L (.or (.const a) (.const b)) = (.const L.length, L ++ [.bool (x || y)]) ∧
    run ρ (f + 2) (.node (.or (.const a) (.const b))) s = allocVal s (.bool (x || y)) true := by
  refine ⟨by simp [constantFold, hx, hy], ?_⟩
  have h1 : s.val a = .bool x := ha.trans hx
  have h2 : s.val b = .bool y := hb.trans hy
  cases x <;> simp [run, bnd, boolOf, h1, h2]

/-- the literal table only grows: existing constants keep their index and value -/
theorem constantFold_extends (L : Lits) (n : Node) : ∃ ext, (constantFold L n).2 = L ++ ext := by
  unfold constantFold
  split
  all_goals (try split)
  all_goals first | exact ⟨[], (List.append_nil _).symm⟩ | exact ⟨_, rfl⟩

/-! ### Block, For_Loop, Assign_Decl, Return, Unused_Return: when they fire -/

/-- **Block**: the scope is only dropped when nothing is declared in it -/
theorem block_pass_needs_no_decl (xs : List Node) (h : blockPass (.block xs) ≠ .block xs) : hasDecl (.block xs) = false := by
  simp only [blockPass] at h
  split at h
  · exact absurd rfl h
  · rename_i hd; simpa using hd

theorem block_pass_single (x : Node) (h : hasDecl (.block [x]) = false) : blockPass (.block [x]) = x := by
  simp only [blockPass, h]; rfl

theorem block_pass_many (x y : Node) (rest : List Node) (h : hasDecl (.block (x :: y :: rest)) = false) :
    blockPass (.block (x :: y :: rest)) = .scopeless (x :: y :: rest) := by
  simp only [blockPass, h]; rfl

/-- a declaration directly in the block, or under any operator / call / if / while / scopeless block in it, keeps the scope -/
theorem decl_keeps_block (x : Name) (e : Node) (pre post : List Node) :
    blockPass (.block (pre ++ .assignDecl x e :: post)) = .block (pre ++ .assignDecl x e :: post) := by
  have h : hasDecl (.block (pre ++ .assignDecl x e :: post)) = true := by
    unfold hasDecl
    induction pre with
    | nil => simp [anyDecl, subDecl]
    | cons p ps ih => simp [anyDecl, ih]
  simp [blockPass, h]

/-- **For_Loop** fires only on `for (var i = <int literal>; i < <int literal>; ++i)` with the same name three times -/
theorem for_loop_fires_only (L : Lits) (i c st b : Node) (x : Name) (lo hi : Int) (b' : Node)
    (h : forLoop L (.forN i c st b) = .cfor x lo hi b') :
    b' = b ∧ (∃ l, i = .assignDecl x (.const l) ∧ litOf L l = .int lo) ∧ (∃ a, st = .pre .inc a ∧ idNamed x a = true) ∧
    (∃ h', condBound x c = some h' ∧ litOf L h' = .int hi) := by
  unfold forLoop at h
  split at h
  · rename_i x0 lo0 c0 st0 b0 heq
    cases heq
    split at h
    · rename_i h0 l0 hcb hid hlo
      split at h
      · rename_i u hu
        cases h
        exact ⟨rfl, ⟨_, rfl, hlo⟩, ⟨_, rfl, hid⟩, ⟨_, hcb, hu⟩⟩
      · cases h
    · cases h
  · cases h

/-- a counting loop whose range is empty runs nothing and yields void -/
theorem cfor_empty_range (ρ : List FunDef) (f : Nat) (x : Name) (lo hi : Int) (b : Node) (s : St) (h : hi ≤ lo)
    (hadd : ∃ s2, (s.pushScope.allocV (.int lo)).2.addObject x (s.pushScope.allocV (.int lo)).1 = some s2) :
    ∃ l s', run ρ (f + 2) (.node (.cfor x lo hi b)) s = (.val l, s') ∧ s'.val l = .void ∧ s'.out = s.out ∧ s'.natLog = s.natLog := by
  obtain ⟨s2, hs2⟩ := hadd
  have hval : s2.val (s.pushScope.allocV (.int lo)).1 = .int lo := by
    unfold St.addObject at hs2
    split at hs2
    · cases hs2
    · split at hs2
      · cases hs2
      · cases hs2
        simp [St.allocV, St.val, St.cell, List.getD]
  have hout : s2.out = s.out ∧ s2.natLog = s.natLog := by
    unfold St.addObject at hs2
    split at hs2
    · cases hs2
    · split at hs2
      · cases hs2
      · cases hs2; exact ⟨rfl, rfl⟩
  have hlt : ¬ lo < hi := by omega
  simp only [run, withScope, hs2, hval, hlt, if_false, allocVal]
  refine ⟨_, _, rfl, ?_, ?_, ?_⟩
  · simp [St.popScope, St.allocV, St.val, St.cell, List.getD]
  · exact hout.1
  · exact hout.2

/-- **Assign_Decl** fires exactly on `var x = e` -/
theorem assign_decl_fires_only (n : Node) (x : Name) (e : Node) (h : assignDeclPass n = .assignDecl x e) :
    n = .eq .assign (.varDecl x) e ∨ n = .assignDecl x e := by
  unfold assignDeclPass at h
  split at h
  · cases h; exact Or.inl rfl
  · exact Or.inr h

/-- `var &r = e` is never turned into a copying declaration -/
theorem reference_decl_untouched (x : Name) (e : Node) : assignDeclPass (.eq .assign (.refDecl x) e) = .eq .assign (.refDecl x) e := rfl

/-- **Return** rewrites nothing (the pass cannot see function bodies: they are moved out of `children`) -/
theorem return_pass_inert (n : Node) : returnPass n = n := rfl

/-- **Unused_Return** only flips the save-parameters flag of call statements: callee, arguments and order are untouched -/
theorem mark_unused_shape (n : Node) : markUnused n = n ∨ ∃ f as, n = .call false f as ∧ markUnused n = .call true f as := by
  cases n <;> try exact Or.inl rfl
  rename_i u f as
  cases u
  · exact Or.inr ⟨f, as, rfl, rfl⟩
  · exact Or.inl rfl

theorem mapInit_length (g : Node → Node) : ∀ xs : List Node, (mapInit g xs).length = xs.length := by
  intro xs
  induction xs with
  | nil => rfl
  | cons x rest ih =>
    cases rest with
    | nil => rfl
    | cons y ys => simp [mapInit, ih]

/-- the value-producing last statement of a block keeps its saved parameters -/
theorem mapInit_last (g : Node → Node) : ∀ xs : List Node, (mapInit g xs).getLast? = xs.getLast? := by
  intro xs
  induction xs with
  | nil => rfl
  | cons x rest ih =>
    cases rest with
    | nil => rfl
    | cons y ys =>
      have : mapInit g (x :: y :: ys) = g x :: mapInit g (y :: ys) := rfl
      rw [this]
      have hne : mapInit g (y :: ys) ≠ [] := by
        intro h
        have := congrArg List.length h
        rw [mapInit_length] at this
        simp at this
      cases hm : mapInit g (y :: ys) with
      | nil => exact absurd hm hne
      | cons z zs =>
        rw [List.getLast?_cons_cons, ← hm, ih]
        simp [List.getLast?_cons_cons]

/-! ### non-vacuity: the hypotheses are met by concrete states -/
example : Agree [.bool true] (St.init [.bool true]) 0 ∧ litOf [.bool true] 0 = .bool true := by
  constructor
  · rfl
  · rfl
example : foldBin .add (.int 1) (.int 2) = some (.int 3) := rfl
example : (optimize [.int 1, .int 2] (.bin .add (.const 0) (.const 1))).1 = .const 2 := rfl
example : (optimize [.bool false] (.ifN (.const 0) (.block [.brk]) .noop)).1 = .noop := rfl
example : (optimize [.int 0, .int 3] (.forN (.eq .assign (.varDecl 1) (.const 0)) (.bin .lt (.id 0 1) (.const 1)) (.pre .inc (.id 1 1)) (.block [.id 2 1]))).1
    = .cfor 1 0 3 (.id 2 1) := rfl

/-! ### fuel is only fuel; the exact passes on whole programs -/

/-- **the result of an evaluation does not depend on the fuel the model was given**: any two amounts of fuel that both suffice give
    the same outcome and the same state (so "for all fuel" statements are about one semantics) -/
theorem result_independent_of_fuel (ρ : List FunDef) (f g : Nat) (j : Job) (s : St)
    (hf : (run ρ f j s).1 ≠ .oof) (hg : (run ρ g j s).1 ≠ .oof) : run ρ f j s = run ρ g j s := by
  rcases Nat.le_total f g with h | h
  · obtain ⟨k, rfl⟩ := Nat.exists_eq_add_of_le h
    exact (run_le ρ f k j s).resolve_left hf
  · obtain ⟨k, rfl⟩ := Nat.exists_eq_add_of_le h
    exact ((run_le ρ g k j s).resolve_left hg).symm

/-- **The exact passes preserve every evaluation.**  `xopt` applies Partial_Fold, If and Dead_Code (constants) bottom-up to every node
    and `xoptFun` to every function body and guard.  From any state in which the literals are intact (C08: every reachable state),
    whenever the original evaluation finishes with fuel `f`, the optimized one finishes with the same fuel, the same outcome and the
    SAME state (heap, objects, scopes, saved parameters, output, callback log, ...). -/
theorem exact_passes_preserve_evaluation (ρ : List FunDef) (L : Lits) (f : Nat) (j : Job) (s : St)
    (hl : Lit L.length L s) (hj : JobOK L.length j) (hdone : (run ρ f j s).1 ≠ .oof) :
    run (ρ.map (xoptFun L)) f (xoptJob L j) s = run ρ f j s :=
  ((xopt_sound ρ L f j s hl hj).resolve_left hdone).symm

/-- whole programs, from the initial state -/
theorem optimized_program_same_result (ρ : List FunDef) (L : Lits) (prog : List Node) (f : Nat)
    (hdone : (run ρ f (.seq prog) (St.init L)).1 ≠ .oof) :
    run (ρ.map (xoptFun L)) f (.seq (xoptList L prog)) (St.init L) = run ρ f (.seq prog) (St.init L) :=
  exact_passes_preserve_evaluation ρ L f (.seq prog) (St.init L) (C08.init_is_lit L) trivial hdone

/-- the exact passes are the optimizer's own: Partial_Fold is used as is; Dead_Code's keepers differ only on no-ops; the If pass
    differs only when a branch is a bare reference declaration (which the parser cannot produce) -/
theorem ifPassX_is_ifPass (L : Lits) (c t e : Node) (ht : isRefDecl t = false) (he : isRefDecl e = false) :
    ifPassX L (.ifN c t e) = ifPass L (.ifN c t e) := by
  cases c <;> simp only [ifPassX, ifPass]
  split <;> simp_all

theorem keepersC_is_keepers : ∀ (xs : List Node), (∀ x ∈ xs, x ≠ .noop) → keepersC xs = keepers xs := by
  intro xs
  induction xs with
  | nil => intro _; rfl
  | cons x rest ih =>
    intro h
    cases rest with
    | nil => rfl
    | cons y ys =>
      have hx : x ≠ .noop := h x (by simp)
      have hr := ih (fun z hz => h z (List.mem_cons_of_mem _ hz))
      unfold keepersC keepers
      have : isDead x = isConstNode x := by cases x <;> first | rfl | exact absurd rfl hx
      rw [this, hr]

/-! ### Unused_Return: the flag is unobservable -/

/-- **`Unused_Return` is unobservable, whole programs.**  Set the flag on EVERY call of the program and of every function body
    (`allUnused`; the optimizer sets it on some) and even replace the saved call parameters of the starting state by anything of
    the same length: every evaluation gives the same outcome, and the same state except for the contents of `call_params` —
    which nothing ever reads (eighth induction over the evaluator, Lemmas/ChaiRunWp). -/
theorem unused_return_unobservable (ρ : List FunDef) (f : Nat) (j : Job) (s : St) :
    (run (ρ.map allUnusedFun) f (allUnusedJob j) s).1 = (run ρ f j s).1 ∧
    ∃ q, q.length = (run ρ f j s).2.params.length ∧ (run (ρ.map allUnusedFun) f (allUnusedJob j) s).2 = (run ρ f j s).2.wp q := by
  have := run_wp ρ f j s s.params rfl
  simpa [Same] using this

/-- hence any two assignments of the flag are equivalent: programs that differ only in `Unused_Return` flags have the same outcome
    and the same final state up to the contents of the saved call parameters -/
theorem flag_assignments_equivalent (ρ₁ ρ₂ : List FunDef) (j₁ j₂ : Job) (f : Nat) (s : St)
    (hρ : ρ₁.map allUnusedFun = ρ₂.map allUnusedFun) (hj : allUnusedJob j₁ = allUnusedJob j₂) :
    (run ρ₁ f j₁ s).1 = (run ρ₂ f j₂ s).1 ∧
    ∃ q, q.length = (run ρ₂ f j₂ s).2.params.length ∧ (run ρ₁ f j₁ s).2 = (run ρ₂ f j₂ s).2.wp q := by
  obtain ⟨a1, q1, l1, b1⟩ := unused_return_unobservable ρ₁ f j₁ s
  obtain ⟨a2, q2, l2, b2⟩ := unused_return_unobservable ρ₂ f j₂ s
  rw [hρ, hj] at a1 b1
  refine ⟨a1.symm.trans a2, (run ρ₁ f j₁ s).2.params, ?_, ?_⟩
  · have h := congrArg (fun t => t.params.length) (b1.symm.trans b2)
    simp only [wp_params] at h
    omega
  · have h : (run ρ₁ f j₁ s).2.wp q1 = (run ρ₂ f j₂ s).2.wp q2 := b1.symm.trans b2
    have h' := congrArg (fun t => t.wp (run ρ₁ f j₁ s).2.params) h
    simpa using h'

/-- the pass itself only flips such flags (so it falls under the two theorems above) -/
theorem unused_return_pass_only_flags (n : Node) : allUnused (unusedReturn n) = allUnused n := allUnused_unusedReturn n

/-- **exact passes + Unused_Return on whole programs**: apply Partial_Fold, If, Dead_Code (constants) everywhere and then set the
    Unused_Return flag everywhere: whenever the original evaluation finishes, the optimized one finishes with the same fuel, the same
    outcome and the same state up to the contents of the saved call parameters -/
theorem exact_passes_and_unused_return (ρ : List FunDef) (L : Lits) (f : Nat) (j : Job) (s : St)
    (hl : Lit L.length L s) (hdone : (run ρ f j s).1 ≠ .oof) :
    (run ((ρ.map (xoptFun L)).map allUnusedFun) f (allUnusedJob (xoptJob L j)) s).1 = (run ρ f j s).1 ∧
    ∃ q, q.length = (run ρ f j s).2.params.length ∧
      (run ((ρ.map (xoptFun L)).map allUnusedFun) f (allUnusedJob (xoptJob L j)) s).2 = (run ρ f j s).2.wp q := by
  have hx := exact_passes_preserve_evaluation ρ L f j s hl trivial hdone
  have hu := unused_return_unobservable (ρ.map (xoptFun L)) f (xoptJob L j) s
  rw [hx] at hu
  exact hu

/-- non-vacuity: the passes do rewrite — `if (true) { 1 + x } else { 2 }; 5; x * 3` inside a block loses the conditional, folds
    the right constant and drops the dead constant -/
example :
    xopt [.bool true, .int 1, .int 2, .int 5, .int 3]
      (.block [.ifN (.const 0) (.bin .add (.id 0 7) (.const 1)) (.const 2), .const 3, .bin .mul (.id 1 7) (.const 4)])
    = .block [.foldR .add (.id 0 7) 1, .foldR .mul (.id 1 7) 4] := by
  simp [xopt, xoptList, xNode, partialFold, ifPassX, deadConst, keepersC, isConstNode, isIntLit, litOf, isRefDecl]

end ChaiVerif.C02
