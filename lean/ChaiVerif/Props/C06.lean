/-
Property C06 — C++ functions are only ever entered with correctly typed arguments.
The theorems are about the dispatch *algorithm* for an arbitrary cast relation; the cast relation
of the catalogue is compared with the specification by the correspondence check (exhaustive matrix).
-/
import ChaiVerif.Model.Dispatch
import ChaiVerif.Lemmas.Bind
namespace ChaiVerif.C06
open ChaiVerif

variable {P A : Type}

theorem pickConv_mem (c : DCfg P A) (args : List A) : ∀ (fs : List (DFn P)) (cur : Option (DFn P)) (f : DFn P),
    pickConv c args fs cur = some (some f) → f ∈ fs ∨ cur = some f := by
  intro fs
  induction fs with
  | nil => intro cur f h; simp [pickConv] at h; exact Or.inr h
  | cons g gs ih =>
    intro cur f h
    unfold pickConv at h
    split at h
    · cases cur with
      | none =>
        rcases ih _ _ h with h' | h'
        · exact Or.inl (List.mem_cons_of_mem _ h')
        · simp at h'; subst h'; exact Or.inl (List.mem_cons_self)
      | some m =>
        simp only at h
        split at h
        · split at h
          · rcases ih _ _ h with h' | h'
            · exact Or.inl (List.mem_cons_of_mem _ h')
            · simp at h'; subst h'; exact Or.inl (List.mem_cons_self)
          · split at h
            · rcases ih _ _ h with h' | h'
              · exact Or.inl (List.mem_cons_of_mem _ h')
              · exact Or.inr h'
            · simp at h
        · simp at h
    · rcases ih _ _ h with h' | h'
      · exact Or.inl (List.mem_cons_of_mem _ h')
      · exact Or.inr h'

/-- **Soundness.** Whatever the overload set, registration order and argument tuple: if a function is
    entered, it is one of the registered overloads, it has exactly as many parameters as there are
    arguments, every parameter accepts (`castOk`) the value it receives, and each received value is
    the caller's argument itself or its arithmetic conversion to an arithmetic parameter. -/
theorem dispatch_sound (c : DCfg P A) (fs : List (DFn P)) (args args' : List A) (id : Nat)
    (h : dispatch c fs args = .entered id args') :
    ∃ f ∈ fs, f.id = id ∧ f.params.length = args.length ∧ callOk c f args' = true ∧
      (args' = args ∨ args' = convertArgs c f args) := by
  unfold dispatch at h
  simp only at h
  split at h
  · rename_i f hf
    simp at h; obtain ⟨h1, h2⟩ := h; subst h1 h2
    unfold phase1 at hf
    obtain ⟨i, _, hi⟩ := List.exists_of_findSome?_eq_some hf
    have hm := List.mem_of_find?_eq_some hi
    have hp := List.find?_some hi
    simp at hm hp
    exact ⟨f, hm.1, rfl, hm.2, hp.2, Or.inl rfl⟩
  · split at h
    · rename_i f hf
      split at h
      · rename_i hc
        simp at h; obtain ⟨h1, h2⟩ := h; subst h1 h2
        rcases pickConv_mem c args _ _ _ hf with hm | hm
        · simp at hm
          exact ⟨f, hm.1, rfl, hm.2, hc, Or.inr rfl⟩
        · simp at hm
      · simp at h
    · simp at h

/-- **Exact match preferred.** If some overload has every parameter of exactly the argument's type
    and accepts the call, the entered overload is one with no non-exact parameter, and it receives
    the arguments unchanged. -/
theorem dispatch_exact_preferred (c : DCfg P A) (fs : List (DFn P)) (args : List A)
    (h : ∃ f ∈ fs, f.params.length = args.length ∧ numDiffs c f args = 0 ∧ callOk c f args = true) :
    ∃ g ∈ fs, dispatch c fs args = .entered g.id args ∧ numDiffs c g args = 0 ∧ callOk c g args = true := by
  obtain ⟨f, hf, hlen, hnd, hok⟩ := h
  have hford : f ∈ fs.filter (fun f => f.params.length == args.length) := by simp [hf, hlen]
  -- the scan at i = 0 finds something
  have hfind : ∃ g, (fs.filter (fun f => f.params.length == args.length)).find?
      (fun f => numDiffs c f args == 0 && ((0:Nat) == 0 || filterOk c f args) && callOk c f args) = some g := by
    have : ((fs.filter (fun f => f.params.length == args.length)).find?
      (fun f => numDiffs c f args == 0 && ((0:Nat) == 0 || filterOk c f args) && callOk c f args)).isSome := by
      rw [List.find?_isSome]; exact ⟨f, hford, by simp [hnd, hok]⟩
    exact Option.isSome_iff_exists.mp this
  obtain ⟨g, hg⟩ := hfind
  have hgm := List.mem_of_find?_eq_some hg
  have hgp := List.find?_some hg
  simp at hgm hgp
  refine ⟨g, hgm.1, ?_, hgp.1, hgp.2⟩
  unfold dispatch phase1
  have hr : List.range (args.length + 1) = 0 :: (List.range args.length).map (· + 1) := by
    rw [List.range_succ_eq_map]
  simp only [hr, List.findSome?_cons, hg]

/-- **No compatible overload ⇒ error, nothing entered.** -/
theorem dispatch_none (c : DCfg P A) (fs : List (DFn P)) (args : List A)
    (h : ∀ f ∈ fs, f.params.length = args.length → callOk c f args = false ∧ callOk c f (convertArgs c f args) = false) :
    dispatch c fs args = .error := by
  cases hd : dispatch c fs args with
  | error => rfl
  | entered id args' =>
    obtain ⟨f, hf, _, hlen, hok, hargs⟩ := dispatch_sound c fs args args' id hd
    have := h f hf hlen
    rcases hargs with rfl | rfl
    · rw [this.1] at hok; cases hok
    · rw [this.2] at hok; cases hok

/-- A call with the wrong number of arguments enters nothing. -/
theorem dispatch_arity (c : DCfg P A) (fs : List (DFn P)) (args : List A)
    (h : ∀ f ∈ fs, f.params.length ≠ args.length) : dispatch c fs args = .error := by
  apply dispatch_none
  intro f hf hlen
  exact absurd hlen (h f hf)

/-! ### bind: which value reaches which parameter -/
section BindSection
open ChaiVerif.Bind

/-- **the loops of `Bound_Function::build_param_list` compute the specification** `fill`: stored values stay in place, placeholders take the
    call's arguments in order, surplus arguments are appended — for every pattern of stored values and placeholders and every argument list -/
theorem bind_loops_are_the_specification {α : Type} (bs : List (Option α)) (ps : List α) : buildParamList bs ps = fill bs ps := by
  unfold buildParamList
  rw [bindLoop_eq _ _ _ _ (Nat.lt_succ_self _)]
  rfl

/-- with as many arguments as placeholders the callee receives exactly as many values as `bind` was given -/
theorem bind_arity {α : Type} : ∀ (bs : List (Option α)) (ps : List α), bs.countP Option.isNone = ps.length → (fill bs ps).length = bs.length := by
  intro bs
  induction bs with
  | nil => intro ps h; simp at h; simp [fill_nil, List.length_eq_zero_iff.mp h.symm]
  | cons b rest ih =>
    intro ps h
    cases b with
    | some v => simp [fill]; exact ih ps (by simpa using h)
    | none =>
      cases ps with
      | nil => simp at h
      | cons p ps' => simp [fill]; exact ih ps' (by simpa using h)

/-- **a stored value reaches the parameter it was bound to**, whatever surrounds it (several stored values in a row, placeholders before or after) -/
theorem bind_stored_values_stay {α : Type} : ∀ (bs : List (Option α)) (ps : List α) (i : Nat) (v : α),
    bs[i]? = some (some v) → (bs.take i).countP Option.isNone ≤ ps.length → (fill bs ps)[i]? = some v := by
  intro bs
  induction bs with
  | nil => intro ps i v h; simp at h
  | cons b rest ih =>
    intro ps i v h hc
    cases i with
    | zero =>
      simp at h
      subst h
      simp [fill]
    | succ j =>
      simp at h
      cases b with
      | some w =>
        simp [fill]
        exact ih ps j v h (by simpa using hc)
      | none =>
        cases ps with
        | nil => simp at hc
        | cons p ps' =>
          simp [fill]
          exact ih ps' j v h (by simp at hc; omega)

/-- the values found at the placeholder positions -/
def atPlaceholders {α : Type} (bs : List (Option α)) (vs : List α) : List α :=
  (bs.zip vs).filterMap (fun x => if x.1.isNone then some x.2 else none)

/-- **the call's arguments reach the placeholders' parameters, in order** -/
theorem bind_call_arguments_in_order {α : Type} : ∀ (bs : List (Option α)) (ps : List α), bs.countP Option.isNone = ps.length →
    atPlaceholders bs (fill bs ps) = ps := by
  intro bs
  induction bs with
  | nil => intro ps h; simp at h; simp [atPlaceholders, List.length_eq_zero_iff.mp h.symm]
  | cons b rest ih =>
    intro ps h
    cases b with
    | some v =>
      have := ih ps (by simpa using h)
      simpa [fill, atPlaceholders] using this
    | none =>
      cases ps with
      | nil => simp at h
      | cons p ps' =>
        have := ih ps' (by simpa using h)
        simpa [fill, atPlaceholders] using this

/-- no placeholders: the call's arguments follow the stored ones -/
theorem bind_without_placeholders {α : Type} (vs ps : List α) : fill (vs.map some) ps = vs ++ ps := by
  induction vs with
  | nil => simp [fill_nil]
  | cons v rest ih => simp [fill, ih]

example : fill [some 100, some 101, none] [3] = [100, 101, 3] := by decide
example : buildParamList [some 100, some 101, none] [3] = [100, 101, 3] := by decide
example : buildParamList [none, some 7, none, some 9] [1, 2, 3] = [1, 7, 2, 9, 3] := by decide


end BindSection

end ChaiVerif.C06
