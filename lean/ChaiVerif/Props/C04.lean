/-
Property C04 — a name resolves to its innermost live binding; lookup caches are invisible.

`St.resolve` is the specification (innermost local of the current stack, else global, else function object);
`St.getObjectRaw` is `Dispatch_Engine::get_object` with its per-node hint (chaiscript: dispatchkit.hpp), and
`St.getObject` is the same answer plus a tag recording that the hint path disagreed with `resolve`.

Proved for every state: without hints, and on a cold node, the answer IS `resolve`; the hint a cold lookup
installs is exact for the arrangement it was made in; with the name check of fix 64c96fe a hinted answer is
always a live binding OF THAT NAME (never another variable's slot); and the answer is `resolve` whenever the
hint is still valid for the present arrangement.  NOT true in general, and proved false by a concrete state
[stale_hint_counterexample]: a hint can outlive the arrangement it was made in when a declaration the parser
could not see (made by eval()) later shadows the name — known finding STALE_LOOKUP_HINT, replayed on the real
engine by the check.  The model tags exactly those lookups [tag_iff_deviation].
-/
import ChaiVerif.Model.Chai.Eval
import ChaiVerif.Lemmas.ChaiRunNh
namespace ChaiVerif.C04
open ChaiVerif.Chai

/-! ### the specification without a cache -/

@[simp] theorem resolve_dropHint (s : St) (nid : Nat) (x : Name) : (s.dropHint nid).resolve x = s.resolve x := rfl

/-- the uncached search answers the specification, by construction of `St.cold` -/
theorem cold_is_spec (s : St) (nid : Nat) (x : Name) : (s.cold nid x).1 = s.resolve x := rfl

/-- **Caching disabled**: `get_object` is the specification and leaves the state alone. -/
theorem getObject_without_hints (s : St) (nid : Nat) (x : Name) (h : s.useHints = false) :
    s.getObject nid x = (s.resolve x, s) := by
  have hraw : s.getObjectRaw nid x = (s.resolve x, s) := by
    unfold St.getObjectRaw St.cold
    simp [h]
  unfold St.getObject
  simp [hraw]

/-- **Cold node**: a node that has no hint yet answers with the specification. -/
theorem getObject_cold (s : St) (nid : Nat) (x : Name) (h : s.hints.lookup nid = none) :
    (s.getObject nid x).1 = s.resolve x := by
  have hraw : (s.getObjectRaw nid x).1 = s.resolve x := by
    unfold St.getObjectRaw
    simp only [h]
    split <;> rfl
  unfold St.getObject
  simp [hraw]

/-! ### what the hint path may answer -/

theorem slotOf_spec (x : Name) : ∀ (sc : Scope) (i0 i : Nat) (l : Loc),
    slotOf x sc i0 = some (i, l) → i0 ≤ i ∧ sc[i - i0]? = some (x, l) := by
  intro sc
  induction sc with
  | nil => intro i0 i l h; simp [slotOf] at h
  | cons p rest ih =>
    intro i0 i l h
    obtain ⟨y, ly⟩ := p
    unfold slotOf at h
    split at h
    · rename_i hy
      cases h
      have : y = x := by simpa using hy
      subst this
      simp
    · obtain ⟨hle, hi⟩ := ih (i0 + 1) i l h
      refine ⟨by omega, ?_⟩
      have : i - i0 = (i - (i0 + 1)) + 1 := by omega
      rw [this]; simpa using hi

/-- `findLocal` reports a position of the stack that really holds the name -/
theorem findLocal_spec (x : Name) : ∀ (st : List Scope) (d0 d i : Nat) (l : Loc),
    findLocal x st d0 = some (d, i, l) → d0 ≤ d ∧ ∃ sc, st[d - d0]? = some sc ∧ sc[i]? = some (x, l) := by
  intro st
  induction st with
  | nil => intro d0 d i l h; simp [findLocal] at h
  | cons sc outer ih =>
    intro d0 d i l h
    unfold findLocal at h
    split at h
    · rename_i j lj hj
      cases h
      obtain ⟨_, hi⟩ := slotOf_spec x sc 0 _ _ hj
      exact ⟨Nat.le_refl _, sc, by simp, by simpa using hi⟩
    · obtain ⟨hle, sc', hsc', hi⟩ := ih (d0 + 1) d i l h
      refine ⟨by omega, sc', ?_, hi⟩
      have : d - d0 = (d - (d0 + 1)) + 1 := by omega
      rw [this]; simpa using hsc'

theorem lookupLocal_slotAt (s : St) (x : Name) (d i : Nat) (l : Loc) (h : s.lookupLocal x = some (d, i, l)) :
    s.slotAt d i = some (x, l) := by
  obtain ⟨_, sc, hsc, hi⟩ := findLocal_spec x _ 0 d i l h
  simp at hsc
  simp [St.slotAt, hsc, hi]

/-- the hint is valid for the present arrangement of scopes -/
def HintValid (s : St) (nid : Nat) (x : Name) : Prop :=
  match s.hints.lookup nid with
  | none => True
  | some .nonLocal => s.lookupLocal x = none
  | some (.local_ d i) => ∃ l, s.lookupLocal x = some (d, i, l)

/-- **A valid hint is invisible**: whenever the cached position still is where an uncached search would
    find the name (or the name still is not a local), the cached lookup answers exactly the specification. -/
theorem getObject_valid_hint (s : St) (nid : Nat) (x : Name) (hv : HintValid s nid x) :
    (s.getObject nid x).1 = s.resolve x := by
  have hraw : (s.getObjectRaw nid x).1 = s.resolve x := by
    unfold St.getObjectRaw
    split
    · rfl
    · unfold HintValid at hv
      split
      · rfl
      · rename_i hh
        simp only [hh] at hv
        simp [St.resolve, St.nonLocal, hv]
      · rename_i d i hh
        simp only [hh] at hv
        obtain ⟨l, hl⟩ := hv
        simp [lookupLocal_slotAt s x d i l hl, St.resolve, hl]
  unfold St.getObject
  simp [hraw]

/-- **The hint a cold lookup records is exact**: looked up again in the same arrangement it is valid. -/
theorem cold_hint_is_valid (s : St) (nid : Nat) (x : Name) (hu : s.useHints = true) : HintValid (s.cold nid x).2 nid x := by
  unfold HintValid St.cold
  simp only [hu, if_true]
  have hl : ∀ hs : List (Nat × Hint), (setHint nid (s.hintFor x) hs).lookup nid = some (s.hintFor x) := by
    intro hs; simp [setHint]
  simp only [hl]
  unfold St.hintFor
  cases h : s.lookupLocal x with
  | none => exact h
  | some p => obtain ⟨d, i, l⟩ := p; exact ⟨l, h⟩

/-- a cell the specification names is bound to that name in the current stack or the globals -/
theorem resolve_cell_is_binding (s : St) (x : Name) (l : Loc) (h : s.resolve x = .cell l) :
    (∃ sc ∈ s.curStack, (x, l) ∈ sc) ∨ s.globals.lookup x = some l := by
  unfold St.resolve at h
  split at h
  · rename_i d i l' hl
    cases h
    obtain ⟨_, sc, hsc, hi⟩ := findLocal_spec x _ 0 d i l hl
    simp at hsc
    left
    refine ⟨sc, ?_, List.mem_of_getElem? hi⟩
    have := List.mem_of_getElem? hsc
    simpa using this
  · split at h
    · rename_i l' hg; cases h; right; exact hg
    · split at h <;> cases h

/-- **The name check (fix 64c96fe)**: with it, whatever arrangement the hint was recorded in, a cached
    lookup never hands out another variable's slot: a cell it returns is bound to THIS name in the current
    stack or in the globals. -/
theorem hinted_answer_is_a_binding_of_the_name (s : St) (nid : Nat) (x : Name) (l : Loc) (hvs : s.verifySlot = true)
    (h : (s.getObject nid x).1 = .cell l) :
    (∃ sc ∈ s.curStack, (x, l) ∈ sc) ∨ s.globals.lookup x = some l := by
  have hraw : (s.getObjectRaw nid x).1 = .cell l := by
    unfold St.getObject at h
    simp only at h
    split at h <;> exact h
  unfold St.getObjectRaw at hraw
  split at hraw
  · exact resolve_cell_is_binding s x l hraw
  · split at hraw
    · exact resolve_cell_is_binding s x l hraw
    · unfold St.nonLocal at hraw
      split at hraw
      · rename_i l' hg; cases hraw; right; exact hg
      · split at hraw <;> cases hraw
    · rename_i d i hh
      split at hraw
      · rename_i y l' hs
        split at hraw
        · rename_i hy
          simp [hvs] at hy
          cases hraw
          subst hy
          left
          unfold St.slotAt at hs
          cases hsc : s.curStack.reverse[d]? with
          | none => simp [hsc] at hs
          | some sc =>
            simp [hsc] at hs
            refine ⟨sc, ?_, List.mem_of_getElem? hs⟩
            have := List.mem_of_getElem? hsc
            simpa using this
        · exact resolve_cell_is_binding s x l hraw
      · first
          | exact resolve_cell_is_binding s x l hraw
          | (rw [if_pos hvs] at hraw; exact resolve_cell_is_binding s x l hraw)

/-! ### the tag -/

theorem raw_keeps_tags (s : St) (nid : Nat) (x : Name) : (s.getObjectRaw nid x).2.tags = s.tags := by
  unfold St.getObjectRaw St.cold
  repeat' split
  all_goals rfl

/-- **The model flags exactly the deviations**: a lookup adds tag 2 iff its answer is not the specification's. -/
theorem tag_iff_deviation (s : St) (nid : Nat) (x : Name) :
    (s.getObject nid x).2.tags = s.tags ↔ (s.getObject nid x).1 = s.resolve x := by
  unfold St.getObject
  by_cases hc : (s.getObjectRaw nid x).1 = s.resolve x
  · simp [hc, raw_keeps_tags]
  · simp [hc, raw_keeps_tags]

/-! ### the cache is NOT invisible in general -/

/-- a function-local arrangement in which name 7 was first looked up while it was not a local (hint: non-local,
    global 7 ↦ cell 0) and has since been declared in the scope (by `eval("var …")`): the cached lookup still
    answers the global -/
def staleState : St :=
  { St.init [.int 10, .int 5] with stacks := [[[(7, 1)]]], globals := [(7, 0)], hints := [(3, .nonLocal)] }

/-- **Counterexample (known finding STALE_LOOKUP_HINT)**: even with the name check, the cached answer can differ
    from the innermost binding. -/
theorem stale_hint_counterexample :
    (staleState.getObject 3 7).1 = .cell 0 ∧ staleState.resolve 7 = .cell 1 ∧ staleState.verifySlot = true := by
  decide

/-- same for a local hint: the recorded slot still holds the name, but a nearer scope now has it too -/
def staleLocal : St :=
  { St.init [.int 1, .int 100] with stacks := [[[(7, 0)], [(8, 0), (7, 1)]]], hints := [(3, .local_ 1 0)] }

theorem stale_local_hint_counterexample :
    (staleLocal.getObject 3 7).1 = .cell 0 ∧ staleLocal.resolve 7 = .cell 1 ∧ staleLocal.verifySlot = true := by
  decide

/-! ### whole evaluations: the cache is invisible unless a lookup is flagged -/

/-- flagged lookups are never un-flagged: the count of tag 2 only grows along an evaluation -/
theorem flagged_lookups_only_grow (ρ : List FunDef) (f : Nat) (j : Job) (s : St) : c2 s ≤ c2 (run ρ f j s).2 :=
  (run_nh ρ f j s (c2 s) (Nat.le_refl _)).1

/-- **Lookup caches are invisible, for every evaluation** (ninth induction over the evaluator, Lemmas/ChaiRunNh.lean): take any
    job — statement sequence, function call, loop, catch-clause scan, `eval` of a text —, any fuel, any state (any stack of scopes,
    any contents of the cache).  If no lookup of the evaluation is flagged (tag 2, which by `tag_iff_deviation` is recorded exactly
    when a cached answer differs from the innermost live binding: the known finding STALE_LOOKUP_HINT), then the evaluation with the
    cache emptied and switched off — every `get_object` then IS the specification `resolve` [`getObject_without_hints`] — has the
    same outcome and ends in the same state except for the cache itself. -/
theorem caches_invisible_unless_flagged (ρ : List FunDef) (f : Nat) (j : Job) (s : St)
    (h : c2 (run ρ f j s).2 = c2 s) :
    run ρ f j s.nh = ((run ρ f j s).1, (run ρ f j s).2.nh) := by
  obtain ⟨_, hdev | heq⟩ := run_nh ρ f j s (c2 s) (Nat.le_refl _)
  · omega
  · exact heq

/-- … in particular what the program printed, what it passed to the host's functions, its variables and its objects are those of
    the cache-free evaluation -/
theorem caches_invisible_observables (ρ : List FunDef) (f : Nat) (j : Job) (s : St) (h : c2 (run ρ f j s).2 = c2 s) :
    (run ρ f j s.nh).1 = (run ρ f j s).1 ∧ (run ρ f j s.nh).2.out = (run ρ f j s).2.out ∧
    (run ρ f j s.nh).2.natLog = (run ρ f j s).2.natLog ∧ (run ρ f j s.nh).2.stacks = (run ρ f j s).2.stacks ∧
    (run ρ f j s.nh).2.globals = (run ρ f j s).2.globals ∧ (run ρ f j s.nh).2.heap = (run ρ f j s).2.heap ∧
    (run ρ f j s.nh).2.objs = (run ρ f j s).2.objs := by
  rw [caches_invisible_unless_flagged ρ f j s h]
  exact ⟨rfl, rfl, rfl, rfl, rfl, rfl, rfl⟩

/-- non-vacuity: a loop that looks the same name up through the same node three times (cold, then twice through its hint) is not
    flagged, did use the cache, and agrees with the cache-free run -/
example :
    let prog : Job := .seq [.assignDecl 7 (.const 0), .cfor 8 0 3 (.block [.pre .inc (.id 3 7)]), .id 4 7]
    let s : St := St.init [.int 0]
    let r := run [] 40 prog s
    c2 r.2 = c2 s ∧ r.2.hints.length = 2 ∧ r.2.val (match r.1 with | .val l => l | _ => 0) = .int 3 ∧
    (run [] 40 prog s.nh).1 = r.1 ∧ (run [] 40 prog s.nh).2.objs = r.2.objs ∧ (run [] 40 prog s.nh).2.hints.length = 0 := by decide

/-! ### non-vacuity -/
example : HintValid { St.init [.int 1] with stacks := [[[(7, 0)]]], hints := [(3, .local_ 0 0)] } 3 7 := ⟨0, rfl⟩

end ChaiVerif.C04
