/-
Property C16 — literals denote the values and types they denote in C++.
Tables and flags under `Gen.*` are regenerated from chaiscript_parser.hpp / chaiscript_common.hpp /
hash.hpp on every run.
-/
import ChaiVerif.Lemmas.Lit
import ChaiVerif.Gen.Lit
import ChaiVerif.Model.LitCfg
import ChaiVerif.Lemmas.LitEscape
namespace ChaiVerif.C16
open ChaiVerif

/-- `buildInt` with the source's ladder. -/
def codeBuildInt (dec u : Bool) (lc : Nat) (v : Nat) : IntRes :=
  buildInt Gen.ladder Gen.ladderElse Gen.fallback Gen.fallbackElse Gen.tooBig dec u (decide (lc ≥ 1)) (decide (lc ≥ 2)) v

/-- **Integer literal typing.** For every base kind, suffix combination and value: if the C++
    typing table assigns the literal a type, `buildInt` yields exactly that type and the written value. -/
theorem buildInt_spec (dec u : Bool) (lc : Nat) (hlc : lc ≤ 2) (v : Nat) (t : LitType)
    (h : cppIntType dec u lc v = some t) : codeBuildInt dec u lc v = .ok t v := by
  have hl : lc = 0 ∨ lc = 1 ∨ lc = 2 := by omega
  by_cases a1 : v ≤ 2147483647 <;> by_cases a2 : v ≤ 4294967295 <;> by_cases a3 : v ≤ 9223372036854775807 <;>
    by_cases a4 : v ≤ 18446744073709551615
  all_goals first
    | (exfalso; omega)
    | (rcases hl with rfl | rfl | rfl <;> cases dec <;> cases u <;>
        simp [cppIntType, icCandidates, LitType.max, List.find?, a1, a2, a3, a4] at h <;>
        (try subst h) <;>
        simp [codeBuildInt, buildInt, Gen.ladder, Gen.ladderElse, Gen.fallback, Gen.fallbackElse, LadderRow.accepts,
          LitType.max, List.find?, a1, a2, a3, a4])

/-- A literal no integer type can represent is rejected (not silently clamped). -/
theorem buildInt_too_big_rejected (dec u : Bool) (lc v : Nat) (h : v > 18446744073709551615) :
    codeBuildInt dec u lc v = .error := by
  have a3 : ¬ v ≤ 9223372036854775807 := by omega
  have a4 : ¬ v ≤ 18446744073709551615 := by omega
  simp [codeBuildInt, buildInt, Gen.tooBig, a3, a4]

/-- The lexical glue around the ladder has the recognised shape: suffix scan, prefix removal,
    base selection in `Num()`, float suffix rules; an exponent without digits is an error. -/
theorem number_lexing_shape :
    Gen.suffixScanOk = true ∧ Gen.numBasesOk = true ∧ Gen.floatSuffixOk = true ∧ Gen.emptyExponent = .error := by decide

/-- The suffix scan computes the three flags for every C++ integer suffix spelling. -/
theorem suffix_scan_flags :
    suffixScan [] (false, false, false) = (false, false, false) ∧
    suffixScan [117] (false, false, false) = (true, false, false) ∧
    suffixScan [85] (false, false, false) = (true, false, false) ∧
    suffixScan [108] (false, false, false) = (false, true, false) ∧
    suffixScan [76, 76] (false, false, false) = (false, true, true) ∧
    suffixScan [108, 117] (false, false, false) = (true, true, false) ∧
    suffixScan [117, 108] (false, false, false) = (true, true, false) ∧
    suffixScan [76, 76, 85] (false, false, false) = (true, true, true) ∧
    suffixScan [117, 108, 108] (false, false, false) = (true, true, true) ∧
    suffixScan [108, 48] (false, false, false) = (false, true, false) := by decide

/-- **UTF-8.** `process_unicode`'s byte construction is RFC 3629 for every code point it accepts,
    and it accepts exactly the code points below 0x110000. -/
theorem utf8_is_standard (cp : Nat) :
    encodeRows Gen.utf8Rows cp = if cp < 1114112 then some (utf8Spec cp) else none := by
  by_cases h1 : cp < 128
  · have h2 : cp < 4294967296 := by omega
    simp [encodeRows, Gen.utf8Rows, List.find?, h1, utf8Spec, utf8Byte_lead _ _ _ h2]
    omega
  · by_cases h2 : cp < 2048
    · have h3 : cp < 4294967296 := by omega
      have h4 : cp / 64 < 64 := by omega
      simp [encodeRows, Gen.utf8Rows, List.find?, h1, h2, utf8Spec, utf8Byte_lead _ _ _ h3, utf8Byte_cont, or192 _ h4]
      omega
    · by_cases h3 : cp < 65536
      · have h4 : cp < 4294967296 := by omega
        have h5 : cp / 4096 < 32 := by omega
        simp [encodeRows, Gen.utf8Rows, List.find?, h1, h2, h3, utf8Spec, utf8Byte_lead _ _ _ h4, utf8Byte_cont, or224 _ h5]
        omega
      · by_cases h4 : cp < 1114112
        · have h5 : cp < 4294967296 := by omega
          have h6 : cp / 262144 < 16 := by omega
          simp [encodeRows, Gen.utf8Rows, List.find?, h1, h2, h3, h4, utf8Spec, utf8Byte_lead _ _ _ h5, utf8Byte_cont, or240 _ h6]
        · simp [encodeRows, Gen.utf8Rows, List.find?, h1, h2, h3, h4]

/-- The standard encoding is injective on scalar values: decoding returns the code point. -/
theorem utf8_roundtrip (cp : Nat) (h : cp < 1114112) : utf8Decode (utf8Spec cp) = some cp := by
  unfold utf8Spec
  split
  · simp [utf8Decode]; omega
  · split
    · simp [utf8Decode]; omega
    · split
      · simp [utf8Decode]; omega
      · simp [utf8Decode]; omega

/-- The simple-escape table is the C++ table (plus `\$`), and an unknown escape is an error. -/
theorem simple_escapes_are_cpp : Gen.simpleEscapes = cppSimpleEscapes ∧ Gen.simpleDefaultThrows = true := by decide

/-- Escape decoding is strict: pending escapes are flushed by a reporting `finish()`, an empty
    `\x` is an error, unicode digits are read after the length check, surrogates are rejected for
    both widths, and the digit counts are 3 (octal), 2 (hex), 4 and 8 (unicode). -/
theorem escape_config_strict :
    Gen.flush = .finishReports ∧ Gen.hexEmpty = .error ∧ Gen.unicodeRead = .stoulGuarded ∧
    Gen.unicodeLenCheck = true ∧ Gen.surrogate = .all ∧ Gen.utf8ElseThrows = true ∧ Gen.charClassesOk = true ∧
    Gen.octalMax = 3 ∧ Gen.hexMax = 2 ∧ Gen.unicodeSmall = 4 ∧ Gen.unicodeBig = 8 := by decide

/-- Every keyword spelling is classified as that keyword (its own case is the first whose hash matches). -/
theorem keywords_recognised :
    ∀ i : Fin Gen.keywords.length,
      classify Gen.fnvBasis Gen.fnvPrime Gen.keywords (Gen.keywords[i]) = some i.val := by decide

/-- The keyword hashes are pairwise distinct (no keyword shadows another), likewise the reserved words;
    classification uses the hash alone (so an identifier colliding with a keyword's hash is taken for
    the keyword — the known finding KEYWORD_BY_HASH_ONLY, witnessed at run time by the check). -/
theorem keyword_hashes_distinct :
    (Gen.keywords.map (fnv1a Gen.fnvBasis Gen.fnvPrime)).Nodup ∧
    (Gen.reserved.map (fnv1a Gen.fnvBasis Gen.fnvPrime)).Nodup ∧
    Gen.hashIsFnv = true ∧ Gen.fnvBasis = 2166136261 ∧ Gen.fnvPrime = 16777619 := by decide

/-- The word literals and markers the property names are exactly the keyword cases of `Id()` (plus `_`). -/
theorem keyword_set_exact :
    Gen.keywords = [[116, 114, 117, 101], [102, 97, 108, 115, 101], [73, 110, 102, 105, 110, 105, 116, 121], [78, 97, 78],
      [95, 95, 76, 73, 78, 69, 95, 95], [95, 95, 70, 73, 76, 69, 95, 95], [95, 95, 70, 85, 78, 67, 95, 95],
      [95, 95, 67, 76, 65, 83, 83, 95, 95], [95]] := by decide

/-! ### the escape machine computes the specified decoding -/

/-- the configuration regenerated from the source is the strict one the machine theorem is about -/
theorem escape_machine_config : genCfg = Esc.cfg Gen.utf8Rows := rfl

/-- **`Char_Parser` ≡ the declarative decoding of a literal body**, for EVERY byte string the lexer can hand it (one that does not end
    right after an unescaped backslash: a literal ends at an unescaped quote): fed byte by byte and finished, the machine of the
    current source succeeds (`okOpt` = its result, `none` for any error) exactly when the C++-style decoding `cppUnescape` is defined, and then yields the same bytes — simple
    escapes, `\\`, 1–3 octal digits, `\x` + 1–2 hex digits, `\u` + 4 and `\U` + 8 hex digits as UTF-8, and every malformed shape
    (unknown escape, `\x` without digits, short `\u`/`\U`, surrogates, code points ≥ 0x110000) is an error in both. -/
theorem escape_machine_is_spec (cs : List Nat) (h : Esc.endsEscaped false cs = false) :
    Esc.okOpt (charParser genCfg cs) = cppUnescape cs.length cs := by
  have hM := Esc.machine_eq_spec Gen.utf8Rows utf8_is_standard cs.length cs [] (Nat.le_refl _) h
  rw [escape_machine_config]
  have e1 : charParser (Esc.cfg Gen.utf8Rows) cs = Esc.M Gen.utf8Rows (Esc.idle []) cs := rfl
  rw [e1, hM]
  cases cppUnescape cs.length cs <;> simp

/-- non-vacuity: a body with every escape shape satisfies the hypothesis and decodes -/
example : Esc.endsEscaped false [97, 92, 110, 92, 49, 48, 49, 92, 120, 52, 49, 92, 117, 48, 48, 101, 57, 92, 92] = false ∧
    cppUnescape 19 [97, 92, 110, 92, 49, 48, 49, 92, 120, 52, 49, 92, 117, 48, 48, 101, 57, 92, 92] = some [97, 10, 65, 65, 195, 169, 92] := by
  decide

end ChaiVerif.C16
