/-
Property C03, clause "expressions with C precedence and associativity": the operator-precedence core of the parser (M-PREC,
Model/Prec.lean = `Operator(t_precedence)`, `Operator_Helper`, `Prefix`, the parenthesised value) with the tables regenerated from
chaiscript_parser.hpp (Gen/Prec.lean).

* the regenerated tables ARE C's: levels, symbols per level, prefix symbols, the kind of node each level builds, and the shape of
  `Operator` (both operands of a binary level are read one level tighter — left associativity; the else branch of `?:` at the same
  level — right associativity);
* for EVERY expression tree over those operators, of any size and nesting, the parser reads the tree back from its token string printed
  with the fewest parentheses C allows — followed by anything that cannot continue an expression; hence no two different trees share a
  token string, and grouping is by precedence level, to the left within a level, to the right for `?:`.
-/
import ChaiVerif.Model.Prec
import ChaiVerif.Lemmas.Prec
import ChaiVerif.Gen.Prec
namespace ChaiVerif.C03Prec
open ChaiVerif ChaiVerif.Prec

/-! ### the regenerated tables -/

/-- C's binary operators by precedence, loosest first (ISO C 6.5.5 – 6.5.15), as little-endian base-256 numbers of their spelling:
    `?` | `||` | `&&` | `|` | `^` | `&` | `== !=` | `< <= > >=` | `<< >>` | `+ -` | `* / %` | prefix `++ -- - + ! ~` -/
def cLevels : List (List Nat) :=
  [[63], [31868], [9766], [124], [94], [38], [15677, 15649], [60, 15676, 62, 15678], [15420, 15934], [43, 45], [42, 47, 37], [11051, 11565, 45, 43, 33, 126]]

/-- The precedence levels of the parser, their symbols and the prefix operators are exactly C's, in C's order. -/
theorem operator_table_is_C : Gen.precLevels = cLevels ∧ Gen.precKinds = List.range 12 ∧ Gen.precPrefix = cLevels.getLast! := by decide

/-- `Operator(t_precedence)` has the shape the model transcribes: a `while (Operator_Helper(t_precedence, oper))` loop, `Value()` at the
    Prefix level, exactly three recursive calls — the two operands at `t_precedence + 1` and the else branch of the conditional at
    `t_precedence`, after a mandatory `:` — and `Prefix()` re-enters at the last level; the ternary level builds an If node, `||` and
    `&&` their own nodes, every other level a Binary_Operator node. -/
theorem operator_function_shape :
    Gen.precOperandCalls = [1, 1] ∧ Gen.precTernaryCalls = [0] ∧ Gen.precAllCallsCount = 3 ∧ Gen.precTernaryNeedsColon = true ∧
    Gen.precLoopIsWhileHelper = true ∧ Gen.precValueAtPrefixLevel = true ∧ Gen.precPrefixReentersLast = true ∧
    Gen.precBuilt = [(0, 0), (1, 3), (2, 2), (3, 1), (4, 1), (5, 1), (6, 1), (7, 1), (8, 1), (9, 1), (10, 1)] := by decide

/-- the configuration of the model read off the regenerated tables: a symbol's binary level is the first of the levels 1 … N-1 whose array
    lists it (`Operator_Helper(t_precedence)` asks only the array of its own level; no symbol is in two binary arrays, see below) -/
def levelOf (levels : List (List Nat)) (s : Nat) : Option Nat :=
  let n := levels.length
  ((List.range n).filter (fun l => 1 ≤ l && l + 1 < n && (levels.getD l []).contains s)).head?

def chaiCfg : Cfg := { N := Gen.precLevels.length - 1, bin := levelOf Gen.precLevels, pfx := fun s => Gen.precPrefix.contains s }

/-- no symbol sits in two binary levels, and `?` / `:` are not binary symbols -/
theorem binary_levels_disjoint :
    (List.range 11).all (fun l => (List.range 11).all (fun m => l == m || l == 0 || m == 0 ||
      (Gen.precLevels.getD l []).all (fun s => !(Gen.precLevels.getD m []).contains s))) = true := by decide

theorem chaiCfg_levels : chaiCfg.N = 11 := by decide

/-- every binary symbol of the table gets a level in 1 … N-1 (so every tree over the table's symbols is well formed) -/
theorem chaiCfg_bin_range (s l : Nat) (h : chaiCfg.bin s = some l) : 1 ≤ l ∧ l < chaiCfg.N := by
  unfold chaiCfg levelOf at h
  simp only at h
  have hm := List.mem_of_mem_head? (Option.mem_def.mpr h)
  simp only [List.mem_filter, List.mem_range, Bool.and_eq_true, decide_eq_true_eq] at hm
  have : (Gen.precLevels.length - 1) = chaiCfg.N := rfl
  rw [chaiCfg_levels] at this
  refine ⟨hm.2.1.1, ?_⟩
  rw [chaiCfg_levels]; omega

/-! ### every tree is read back -/

/-- **Precedence and associativity, for every expression.**  For any operator table with at least the ternary, one binary and the prefix
    level, every well-formed tree `e` — atoms, prefix operators, binary operators of any level, conditionals, nested to any depth — and
    any continuation `rest` that does not start with an operator: with enough fuel `Operator(0)` run on the tokens of `e` printed with
    the fewest parentheses, followed by `rest`, builds exactly `e` and stops exactly before `rest`. -/
theorem precedence_roundtrip (c : Cfg) (hN : 2 ≤ c.N) (e : E) (hwf : wf c e = true) (rest : List Tok) (hrest : okAfter c 0 rest) :
    ∃ f0, ∀ f, f0 ≤ f → run c f (.level 0 (raw c e ++ rest)) = .ok e rest :=
  (good_all c hN e hwf).1 0 rest _ (Nat.zero_le _) (by omega) hrest (ev_loop_stop c 0 e rest (okAfter0_stops0 c rest hrest))

/-- … in particular for ChaiScript's table as it stands in the source. -/
theorem chai_precedence_roundtrip (e : E) (hwf : wf chaiCfg e = true) (rest : List Tok) (hrest : okAfter chaiCfg 0 rest) :
    ∃ f0, ∀ f, f0 ≤ f → run chaiCfg f (.level 0 (raw chaiCfg e ++ rest)) = .ok e rest :=
  precedence_roundtrip chaiCfg (by rw [chaiCfg_levels]; omega) e hwf rest hrest

/-- **The token string determines the tree**: two well-formed trees with the same minimal-parentheses token string are the same tree
    (the grammar the parser implements is unambiguous on them and the printer loses nothing). -/
theorem tokens_determine_tree (c : Cfg) (hN : 2 ≤ c.N) (e1 e2 : E) (h1 : wf c e1 = true) (h2 : wf c e2 = true) (h : raw c e1 = raw c e2) : e1 = e2 := by
  obtain ⟨f1, r1⟩ := precedence_roundtrip c hN e1 h1 [] trivial
  obtain ⟨f2, r2⟩ := precedence_roundtrip c hN e2 h2 [] trivial
  have a := r1 (max f1 f2) (by omega)
  have b := r2 (max f1 f2) (by omega)
  rw [h, b] at a
  injection a with a _
  exact a.symm

/-! ### what that means on ChaiScript's table, spelled out (also the non-vacuity check: these trees are well formed) -/

/-- `a - b - c` is `(a - b) - c`; `a - b * c` is `a - (b * c)`; `a * b - c` is `(a * b) - c`; `a ? b : c ? d : e` is `a ? b : (c ? d : e)`;
    `a || b && c == d` is `a || (b && (c == d))`; `- a - - b` is `(-a) - (-b)`; `a << b < c` is `(a << b) < c`;
    a conditional in the middle of a conditional needs its parentheses: `a ? b ? c : d : e` is an error. -/
theorem grouping_on_chai_table :
    run chaiCfg 99 (.level 0 [.atom 0, .sym 45, .atom 1, .sym 45, .atom 2]) = .ok (.bin 45 (.bin 45 (.atom 0) (.atom 1)) (.atom 2)) [] ∧
    run chaiCfg 99 (.level 0 [.atom 0, .sym 45, .atom 1, .sym 42, .atom 2]) = .ok (.bin 45 (.atom 0) (.bin 42 (.atom 1) (.atom 2))) [] ∧
    run chaiCfg 99 (.level 0 [.atom 0, .sym 42, .atom 1, .sym 45, .atom 2]) = .ok (.bin 45 (.bin 42 (.atom 0) (.atom 1)) (.atom 2)) [] ∧
    run chaiCfg 99 (.level 0 [.atom 0, .q, .atom 1, .colon, .atom 2, .q, .atom 3, .colon, .atom 4]) = .ok (.tern (.atom 0) (.atom 1) (.tern (.atom 2) (.atom 3) (.atom 4))) [] ∧
    run chaiCfg 99 (.level 0 [.atom 0, .sym 31868, .atom 1, .sym 9766, .atom 2, .sym 15677, .atom 3]) =
      .ok (.bin 31868 (.atom 0) (.bin 9766 (.atom 1) (.bin 15677 (.atom 2) (.atom 3)))) [] ∧
    run chaiCfg 99 (.level 0 [.sym 45, .atom 0, .sym 45, .sym 45, .atom 1]) = .ok (.bin 45 (.pre 45 (.atom 0)) (.pre 45 (.atom 1))) [] ∧
    run chaiCfg 99 (.level 0 [.atom 0, .sym 15420, .atom 1, .sym 60, .atom 2]) = .ok (.bin 60 (.bin 15420 (.atom 0) (.atom 1)) (.atom 2)) [] ∧
    run chaiCfg 99 (.level 0 [.atom 0, .q, .atom 1, .q, .atom 2, .colon, .atom 3, .colon, .atom 4]) = .error ∧
    wf chaiCfg (.tern (.bin 31868 (.atom 0) (.pre 33 (.atom 1))) (.bin 45 (.bin 45 (.atom 0) (.atom 1)) (.atom 2)) (.tern (.atom 2) (.atom 3) (.atom 4))) = true := by
  decide

/-! ### assignments: Equation() nests to the right -/

/-- what follows an equation is not another assignment symbol (it would be read as part of the equation) -/
def noAsg (asgs : List Nat) : List Tok → Prop
  | .asg s :: _ => asgs.contains s = false
  | _ => True

/-- **Assignments associate to the right, around operator expressions of any shape**: for every chain `e₁ op₁ e₂ op₂ … eₙ` of well-formed
    operator expressions joined by assignment symbols of `Equation()`'s list, `Equation()` builds `e₁ op₁ (e₂ op₂ (… eₙ))` — each `eᵢ`
    the tree `precedence_roundtrip` describes — and stops before whatever follows. -/
theorem equation_roundtrip (c : Cfg) (hN : 2 ≤ c.N) (asgs : List Nat) : ∀ (q : Q), wfQ c asgs q = true → ∀ (rest : List Tok), okAfter c 0 rest → noAsg asgs rest →
    ∃ f0, ∀ f, f0 ≤ f → runEq c asgs f (rawQ c q ++ rest) = .ok q rest := by
  intro q
  induction q with
  | expr e =>
    intro hwf rest hok hna
    obtain ⟨f0, h⟩ := precedence_roundtrip c hN e hwf rest hok
    refine ⟨f0 + 1, fun f hf => ?_⟩
    obtain ⟨g, rfl⟩ : ∃ g, f = g + 1 := ⟨f - 1, by omega⟩
    simp only [runEq, rawQ, h g (by omega)]
    match rest, hna with
    | [], _ => rfl
    | .asg s :: r, hna => simp only [noAsg] at hna; simp only [hna, Bool.false_eq_true, if_false]
    | .atom _ :: _, _ => rfl
    | .sym _ :: _, _ => rfl
    | .lp :: _, _ => rfl
    | .rp :: _, _ => rfl
    | .q :: _, _ => rfl
    | .colon :: _, _ => rfl
  | eq s l r ih =>
    intro hwf rest hok hna
    simp only [wfQ, Bool.and_eq_true] at hwf
    obtain ⟨⟨hs, hl⟩, hr⟩ := hwf
    obtain ⟨f1, h1⟩ := precedence_roundtrip c hN l hl (.asg s :: (rawQ c r ++ rest)) trivial
    obtain ⟨f2, h2⟩ := ih hr rest hok hna
    refine ⟨max f1 f2 + 1, fun f hf => ?_⟩
    obtain ⟨g, rfl⟩ : ∃ g, f = g + 1 := ⟨f - 1, by omega⟩
    have e : rawQ c (.eq s l r) ++ rest = raw c l ++ .asg s :: (rawQ c r ++ rest) := by simp [rawQ]
    rw [e]
    simp only [runEq, h1 g (by omega), hs, if_true, h2 g (by omega)]

/-- the assignment symbols of Equation() in the source are C's assignment operators plus ChaiScript's `:=` (as base-256 numbers) -/
theorem assignment_symbols_are_C : Gen.precAssignSymbols = [61, 15674, 15659, 15661, 15658, 15663, 15653, 4013116, 4013630, 15654, 15710, 15740] ∧
    Gen.precEquationRecursesIntoEquation = true := by decide

/-- `a = b += c * d` is `a = (b += (c * d))`; `a = b ? c : d` keeps the conditional on the right-hand side -/
theorem equation_examples :
    runEq chaiCfg Gen.precAssignSymbols 99 [.atom 0, .asg 61, .atom 1, .asg 15659, .atom 2, .sym 42, .atom 3] =
      .ok (.eq 61 (.atom 0) (.eq 15659 (.atom 1) (.expr (.bin 42 (.atom 2) (.atom 3))))) [] ∧
    runEq chaiCfg Gen.precAssignSymbols 99 [.atom 0, .asg 61, .atom 1, .q, .atom 2, .colon, .atom 3] =
      .ok (.eq 61 (.atom 0) (.expr (.tern (.atom 1) (.atom 2) (.atom 3)))) [] ∧
    runEq chaiCfg Gen.precAssignSymbols 99 [.atom 0, .asg 61] = .error := by decide

/-! ### fuel -/

/-- **Fuel is only fuel**: a run of the precedence parser that ends — in a tree, in "no match" or in an error — ends in exactly the same way
    with any larger amount of fuel; so "for all sufficiently large fuel" above speaks about ONE result per token string. -/
theorem precedence_result_independent_of_fuel (c : Cfg) (f g : Nat) (job : Job) (h : run c f job ≠ .fuel) (hfg : f ≤ g) :
    run c g job = run c f job := by
  obtain ⟨k, rfl⟩ : ∃ k, g = f + k := ⟨g - f, by omega⟩
  exact run_le c f job h k

/-- hence ANY amount of fuel with which the parser finishes on a printed tree gives that tree -/
theorem precedence_roundtrip_any_fuel (c : Cfg) (hN : 2 ≤ c.N) (e : E) (hwf : wf c e = true) (rest : List Tok) (hrest : okAfter c 0 rest)
    (f : Nat) (h : run c f (.level 0 (raw c e ++ rest)) ≠ .fuel) : run c f (.level 0 (raw c e ++ rest)) = .ok e rest := by
  obtain ⟨f0, h0⟩ := precedence_roundtrip c hN e hwf rest hrest
  have a := precedence_result_independent_of_fuel c f (max f f0) _ h (by omega)
  rw [← a]
  exact h0 _ (by omega)

end ChaiVerif.C03Prec
