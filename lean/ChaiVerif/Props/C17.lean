/-
Property C17 — prelude algorithms compute what their names say, call the callback once per
element in order, and leave their inputs unmodified (inputs are immutable values in the model; the
"input afterwards" clause is checked on the real engine by the correspondence harness).
-/
import ChaiVerif.Model.Prelude
import ChaiVerif.Gen.Prelude
import ChaiVerif.Model.PreludePin
namespace ChaiVerif.C17
open ChaiVerif.Prelude

/-- The prelude functions the model mirrors have, in the current source, exactly the bodies the
    model was written against (normalised token text, hashed by the translator). -/
theorem prelude_source_pinned : ChaiVerif.Gen.preludeHashes = preludeExpected := by decide

theorem for_each_visits_all_in_order (xs : List Int) : forEachTrace xs = xs := by
  induction xs with
  | nil => rfl
  | cons x xs ih => simp [forEachTrace, ih]

theorem any_of_spec (p : Int → Bool) (xs : List Int) :
    (anyOf p xs).1 = xs.any p ∧ (anyOf p xs).2 = xs.take ((xs.takeWhile (fun x => !p x)).length + 1) := by
  induction xs with
  | nil => simp [anyOf]
  | cons x xs ih => by_cases h : p x <;> simp [anyOf, h, ih]

theorem all_of_spec (p : Int → Bool) (xs : List Int) :
    (allOf p xs).1 = xs.all p ∧ (allOf p xs).2 = xs.take ((xs.takeWhile p).length + 1) := by
  induction xs with
  | nil => simp [allOf]
  | cons x xs ih => by_cases h : p x <;> simp [allOf, h, ih]

theorem contains_spec (item : Int) (xs : List Int) : containsM item xs = xs.contains item := by
  induction xs with
  | nil => rfl
  | cons x xs ih =>
    simp only [containsM, List.contains_cons]
    by_cases h : x = item
    · subst h; simp
    · have h' : ¬ item = x := fun e => h e.symm
      simp [h, h', ih]

theorem map_spec (f : Int → Int) (xs acc : List Int) : mapInto f xs acc = acc ++ xs.map f := by
  induction xs generalizing acc with
  | nil => simp [mapInto]
  | cons x xs ih => simp [mapInto, ih]

theorem foldl_spec (f : Int → Int → Int) (xs : List Int) (z : Int) :
    foldlM f xs z = xs.foldl (fun acc x => f x acc) z := by
  induction xs generalizing z with
  | nil => rfl
  | cons x xs ih => simp [foldlM, ih]

theorem concat_spec (ys acc : List Int) : concatInto ys acc = acc ++ ys := by
  induction ys generalizing acc with
  | nil => simp [concatInto]
  | cons y ys ih => simp [concatInto, ih]

/-- `take` for every count: zero, negative, = size, > size. -/
theorem take_spec (xs : List Int) (n : Int) (acc : List Int) : takeInto xs n acc = acc ++ xs.take n.toNat := by
  induction xs generalizing n acc with
  | nil => simp [takeInto]
  | cons x xs ih =>
    by_cases h : n > 0
    · have e : n.toNat = (n - 1).toNat + 1 := by omega
      simp only [takeInto, h, if_true]
      rw [ih, e]; simp
    · have e : n.toNat = 0 := by omega
      simp only [takeInto, h, if_false]
      rw [e]; simp

theorem take_while_spec (p : Int → Bool) (xs acc : List Int) : takeWhileInto p xs acc = acc ++ xs.takeWhile p := by
  induction xs generalizing acc with
  | nil => simp [takeWhileInto]
  | cons x xs ih => by_cases h : p x <;> simp [takeWhileInto, h, ih]

theorem drop_spec (xs : List Int) (n : Int) : dropSkip xs n = xs.drop n.toNat := by
  induction xs generalizing n with
  | nil => simp [dropSkip]
  | cons x xs ih =>
    by_cases h : n > 0
    · have e : n.toNat = (n - 1).toNat + 1 := by omega
      simp only [dropSkip, h, if_true]
      rw [ih, e]; simp
    · have e : n.toNat = 0 := by omega
      simp only [dropSkip, h, if_false]
      rw [e]; simp

theorem drop_while_spec (p : Int → Bool) (xs : List Int) : dropWhileSkip p xs = xs.dropWhile p := by
  induction xs with
  | nil => rfl
  | cons x xs ih => by_cases h : p x <;> simp [dropWhileSkip, h, ih]

theorem filter_spec (p : Int → Bool) (xs acc : List Int) : filterInto p xs acc = acc ++ xs.filter p := by
  induction xs generalizing acc with
  | nil => simp [filterInto]
  | cons x xs ih => by_cases h : p x <;> simp [filterInto, h, ih]

theorem reduce_spec (f : Int → Int → Int) (x y : Int) (rest : List Int) :
    reduceM f (x :: y :: rest) = some (rest.foldl f (f x y)) ∧ reduceM f [x] = none ∧ reduceM f [] = none := by
  simp [reduceM]

theorem zip_with_spec (f : Int → Int → Int) (xs ys acc : List Int) : zipWithInto f xs ys acc = acc ++ List.zipWith f xs ys := by
  induction xs generalizing ys acc with
  | nil => simp [zipWithInto]
  | cons x xs ih => cases ys <;> simp [zipWithInto, ih]

theorem zip_spec (xs ys : List Int) (acc : List (Int × Int)) : zipInto xs ys acc = acc ++ List.zip xs ys := by
  induction xs generalizing ys acc with
  | nil => simp [zipInto]
  | cons x xs ih => cases ys <;> simp [zipInto, ih]

theorem reverse_spec (xs acc : List Int) : reverseInto xs acc = xs.reverse ++ acc := by
  induction xs generalizing acc with
  | nil => simp [reverseInto]
  | cons x xs ih => simp [reverseInto, ih]

theorem retro_retro (r : List Int) : retro (retro r) = r := by simp [retro]

theorem join_spec (delim : List Nat) (xs : List (List Nat)) : joinM delim xs = List.intercalate delim xs := by
  induction xs with
  | nil => rfl
  | cons x xs ih =>
    cases xs with
    | nil => simp [joinM, List.intercalate]
    | cons y ys => simp [joinM, ih, List.intercalate, List.intersperse]

theorem find_spec (v : Int) (xs : List Int) : findFrom v xs = xs.dropWhile (fun x => x != v) := by
  induction xs with
  | nil => rfl
  | cons x xs ih => by_cases h : x = v <;> simp [findFrom, h, ih]

theorem gen_range_go (y : Int) : ∀ (f : Nat) (i : Int) (acc : List Int), (y - i + 1).toNat = f →
    genRange.go y f i acc = acc ++ (List.range f).map (fun (k : Nat) => i + (k : Int)) := by
  intro f
  induction f with
  | zero => intro i acc _; simp [genRange.go]
  | succ f ih =>
    intro i acc h
    have hi : i ≤ y := by omega
    simp only [genRange.go, hi, if_true]
    rw [ih (i + 1) (acc ++ [i]) (by omega)]
    simp [List.range_succ_eq_map, List.map_map, Function.comp_def]
    intro a _; omega

/-- `generate_range(x, y)` (and `[x..y]`) is the list x, x+1, …, y; empty when y < x. -/
theorem generate_range_spec (x y : Int) :
    genRange x y = (List.range (y - x + 1).toNat).map (fun (k : Nat) => x + (k : Int)) := by
  unfold genRange
  simpa using gen_range_go y (y - x + 1).toNat x [] rfl

theorem min_max_spec (a b : Int) : maxM a b = max a b ∧ minM a b = min a b := by
  constructor
  · unfold maxM; split <;> omega
  · unfold minM; split <;> omega

/-- `even`/`odd` over all integers, negative included: exactly one holds, and `even x ↔ 2 ∣ x`. -/
theorem even_odd_spec (x : Int) : (evenM x = true ↔ x % 2 = 0) ∧ (oddM x = !evenM x) := by
  have key : Int.tmod x 2 = 0 ↔ x % 2 = 0 := by
    rw [Int.tmod_eq_emod]; split <;> omega
  constructor
  · simp [evenM, key]
  · simp only [evenM, oddM, bne]

/-- The pre-fix test `x % 2 == 1` misclassifies negative odd numbers (witness of the repaired defect). -/
theorem odd_old_counterexample : oddOld (-3) = false ∧ evenM (-3) = false := by decide

theorem trim_spec (s : List Int) :
    ltrim s = s.dropWhile isWs ∧ rtrim s = (s.reverse.dropWhile isWs).reverse ∧
    trim s = ((s.reverse.dropWhile isWs).reverse).dropWhile isWs := by
  simp [ltrim, rtrim, trim, drop_while_spec, reverse_spec]

end ChaiVerif.C17
