/-
Property C19 — evaluating a file means evaluating its bytes; use() evaluates once.
-/
import ChaiVerif.Model.File
import ChaiVerif.Gen.File
namespace ChaiVerif.C19
open ChaiVerif

/-- The source has the recognised shape: the BOM test compares a zero-filled 3-byte buffer with
    EF BB BF, `load_file` sizes the buffer from the file size minus a found BOM, `eval_file` is
    `eval(load_file(path))`, and `use()` checks, evaluates, then records, re-throwing nested failures. -/
theorem file_code_shape :
    Gen.clearBeforeSeek = true ∧ Gen.bomTestExact = true ∧ Gen.loadFileShape = true ∧ Gen.evalFileIsEvalOfLoad = true ∧
    Gen.useLoopsPaths = true ∧ Gen.useHoldsUseMutex = true ∧ Gen.useCheckEvalInsert = true ∧ Gen.useRethrowsNested = true := by decide

theorem fillBuf_self (xs : List Nat) : fillBuf xs.length xs = xs := by simp [fillBuf]

/-- **Files of every length**, 0, 1 and 2 bytes included: `load_file` returns exactly the bytes of
    the file minus one leading byte-order mark. -/
theorem loadFile_strips_bom (bytes : List Nat) : loadFile Gen.clearBeforeSeek bytes = stripBom bytes := by
  have hc : Gen.clearBeforeSeek = true := by decide
  rw [hc]
  match bytes with
  | [] => simp [loadFile, skipBom, Stream.read, Stream.seekg, Stream.clear, fillBuf, stripBom]
  | [a] => simp [loadFile, skipBom, Stream.read, Stream.seekg, Stream.clear, fillBuf, stripBom]
  | [a, b] => simp [loadFile, skipBom, Stream.read, Stream.seekg, Stream.clear, fillBuf, stripBom]
  | a :: b :: c :: rest =>
    by_cases h : a = 239 ∧ b = 187 ∧ c = 191
    · obtain ⟨rfl, rfl, rfl⟩ := h
      simp [loadFile, skipBom, Stream.read, Stream.seekg, fillBuf, stripBom]
    · have hs : stripBom (a :: b :: c :: rest) = a :: b :: c :: rest := by
        unfold stripBom; split
        · rename_i heq; simp at heq; exact absurd ⟨heq.1, heq.2.1, heq.2.2.1⟩ h
        · rfl
      rw [hs]
      simp [loadFile, skipBom, Stream.read, Stream.seekg, Stream.clear, fillBuf, h]

/-- Without the `clear()` a one-byte file loads as a NUL byte (the defect repaired by the fix commit;
    kept as the witness that the theorem above depends on the flag extracted from the source). -/
theorem short_file_counterexample : loadFile false [55] = [0] ∧ stripBom [55] = [55] := by decide

/-- The first search path under which the file exists (and is not yet recorded) is the one
    evaluated, exactly once; paths before it are not touched. -/
theorem use_search_order (w : World) (f : List Nat) (pre : List (List Nat)) (p : List Nat) (post : List (List Nat))
    (st : UseState) (hpre : ∀ q ∈ pre, w.exists_ (q ++ f) = false ∧ (q ++ f) ∉ st.used)
    (hp : w.exists_ (p ++ f) = true) (hu : (p ++ f) ∉ st.used) :
    (useFile w f (pre ++ p :: post) st).2.evals = st.evals ++ [p ++ f] := by
  induction pre with
  | nil => simp [useFile, hu, hp]; cases w.eval (p ++ f) <;> simp
  | cons q qs ih =>
    have hq := hpre q (by simp)
    simp [useFile, hq.1, hq.2]
    exact ih (fun r hr => hpre r (by simp [hr]))

/-- A file that is already recorded is not evaluated again: the evaluation log is unchanged and the
    call succeeds. -/
theorem use_recorded_is_noop (w : World) (f : List Nat) (pre : List (List Nat)) (p : List Nat) (post : List (List Nat))
    (st : UseState) (hpre : ∀ q ∈ pre, w.exists_ (q ++ f) = false ∧ (q ++ f) ∉ st.used)
    (hu : (p ++ f) ∈ st.used) :
    useFile w f (pre ++ p :: post) st = (.done, st) := by
  induction pre with
  | nil => simp [useFile, hu]
  | cons q qs ih =>
    have hq := hpre q (by simp)
    simp [useFile, hq.1, hq.2]
    exact ih (fun r hr => hpre r (by simp [hr]))

/-- After a successful use the path is recorded (so, with `use_recorded_is_noop`, a second use of
    the same file evaluates nothing); after a failed evaluation it is *not* recorded. -/
theorem use_records_on_success_only (w : World) (f p : List Nat) (post : List (List Nat)) (st : UseState)
    (hp : w.exists_ (p ++ f) = true) (hu : (p ++ f) ∉ st.used) :
    let r := useFile w f (p :: post) st
    (w.eval (p ++ f) = .ok → r.1 = .done ∧ (p ++ f) ∈ r.2.used) ∧
    (w.eval (p ++ f) = .evalError → r.1 = .evalError ∧ r.2.used = st.used) ∧
    (w.eval (p ++ f) = .nestedNotFound → r.1 = .nestedNotFound ∧ r.2.used = st.used) := by
  simp [useFile, hu, hp]
  cases w.eval (p ++ f) <;> simp

/-- A file found under no search path raises file_not_found and evaluates nothing. -/
theorem use_missing_file (w : World) (f : List Nat) (paths : List (List Nat)) (st : UseState)
    (h : ∀ q ∈ paths, w.exists_ (q ++ f) = false ∧ (q ++ f) ∉ st.used) :
    useFile w f paths st = (.notFound, st) := by
  induction paths with
  | nil => rfl
  | cons q qs ih =>
    have hq := h q (by simp)
    simp [useFile, hq.1, hq.2]
    exact ih (fun r hr => h r (by simp [hr]))

end ChaiVerif.C19
