/-
M-PREC: the precedence parser reads back every tree from its minimally parenthesised token string.
`Ev c job res` — "with enough fuel the job ends in `res`" — lets the steps of `run` compose without fuel arithmetic in the main induction.
-/
import ChaiVerif.Model.Prec
namespace ChaiVerif.Prec

/-- for all sufficiently large fuel the job yields `res` -/
def Ev (c : Cfg) (job : Job) (res : Res) : Prop := ∃ f0, ∀ f, f0 ≤ f → run c f job = res

theorem ev_atom (c : Cfg) (n : Nat) (r : List Tok) : Ev c (.level c.N (.atom n :: r)) (.ok (.atom n) r) :=
  ⟨1, fun f hf => by obtain ⟨g, rfl⟩ : ∃ g, f = g + 1 := ⟨f - 1, by omega⟩; simp [run]⟩

theorem ev_paren (c : Cfg) (ts : List Tok) (x : E) (r : List Tok) (h : Ev c (.level 0 ts) (.ok x (.rp :: r))) :
    Ev c (.level c.N (.lp :: ts)) (.ok x r) := by
  obtain ⟨f0, h⟩ := h
  refine ⟨f0 + 1, fun f hf => ?_⟩
  obtain ⟨g, rfl⟩ : ∃ g, f = g + 1 := ⟨f - 1, by omega⟩
  simp [run, h g (by omega)]

theorem ev_pre (c : Cfg) (s : Nat) (ts : List Tok) (x : E) (r : List Tok) (hp : c.pfx s = true) (h : Ev c (.level c.N ts) (.ok x r)) :
    Ev c (.level c.N (.sym s :: ts)) (.ok (.pre s x) r) := by
  obtain ⟨f0, h⟩ := h
  refine ⟨f0 + 1, fun f hf => ?_⟩
  obtain ⟨g, rfl⟩ : ∃ g, f = g + 1 := ⟨f - 1, by omega⟩
  simp [run, hp, h g (by omega)]

theorem ev_level (c : Cfg) (l : Nat) (ts : List Tok) (x : E) (r : List Tok) (res : Res) (hl : l < c.N)
    (h1 : Ev c (.level (l + 1) ts) (.ok x r)) (h2 : Ev c (.loop l x r) res) : Ev c (.level l ts) res := by
  obtain ⟨f1, h1⟩ := h1
  obtain ⟨f2, h2⟩ := h2
  refine ⟨max f1 f2 + 1, fun f hf => ?_⟩
  obtain ⟨g, rfl⟩ : ∃ g, f = g + 1 := ⟨f - 1, by omega⟩
  have : ¬ c.N ≤ l := by omega
  simp [run, this, h1 g (by omega), h2 g (by omega)]

/-- the next token does not continue the loop of level `l` -/
def stops (c : Cfg) (l : Nat) : List Tok → Prop
  | .q :: _ => l ≠ 0
  | .sym s :: _ => ¬ (c.bin s = some l ∧ l ≠ 0)
  | _ => True

theorem ev_loop_stop (c : Cfg) (l : Nat) (x : E) (ts : List Tok) (h : stops c l ts) : Ev c (.loop l x ts) (.ok x ts) := by
  refine ⟨1, fun f hf => ?_⟩
  obtain ⟨g, rfl⟩ : ∃ g, f = g + 1 := ⟨f - 1, by omega⟩
  match ts, h with
  | [], _ => simp [run]
  | .q :: _, h => simp only [stops] at h; simp [run, h]
  | .sym s :: _, h => simp only [stops] at h; simp [run, h]
  | .atom _ :: _, _ => simp [run]
  | .lp :: _, _ => simp [run]
  | .rp :: _, _ => simp [run]
  | .colon :: _, _ => simp [run]
  | .asg _ :: _, _ => simp [run]

theorem ev_loop_bin (c : Cfg) (l s : Nat) (x y : E) (r r' : List Tok) (res : Res) (hs : c.bin s = some l) (hl : l ≠ 0)
    (h1 : Ev c (.level (l + 1) r) (.ok y r')) (h2 : Ev c (.loop l (.bin s x y) r') res) : Ev c (.loop l x (.sym s :: r)) res := by
  obtain ⟨f1, h1⟩ := h1
  obtain ⟨f2, h2⟩ := h2
  refine ⟨max f1 f2 + 1, fun f hf => ?_⟩
  obtain ⟨g, rfl⟩ : ∃ g, f = g + 1 := ⟨f - 1, by omega⟩
  simp [run, hs, hl, h1 g (by omega), h2 g (by omega)]

theorem ev_loop_tern (c : Cfg) (x t e : E) (r r' r'' : List Tok) (res : Res)
    (h1 : Ev c (.level 1 r) (.ok t (.colon :: r'))) (h2 : Ev c (.level 0 r') (.ok e r''))
    (h3 : Ev c (.loop 0 (.tern x t e) r'') res) : Ev c (.loop 0 x (.q :: r)) res := by
  obtain ⟨f1, h1⟩ := h1
  obtain ⟨f2, h2⟩ := h2
  obtain ⟨f3, h3⟩ := h3
  refine ⟨max f1 (max f2 f3) + 1, fun f hf => ?_⟩
  obtain ⟨g, rfl⟩ : ∃ g, f = g + 1 := ⟨f - 1, by omega⟩
  simp [run, h1 g (by omega), h2 g (by omega), h3 g (by omega)]

/-- what may follow an operand read at level `l`: no operator that binds tighter than `l`, and no `?` at the ternary level -/
def okAfter (c : Cfg) (l : Nat) : List Tok → Prop
  | .q :: _ => l ≠ 0
  | .sym s :: _ => ∀ m, c.bin s = some m → m ≤ l
  | _ => True

theorem okAfter_mono (c : Cfg) (l : Nat) (ts : List Tok) (h : okAfter c l ts) : okAfter c (l + 1) ts := by
  match ts, h with
  | [], _ => trivial
  | .q :: _, _ => simp [okAfter]
  | .sym s :: _, h => intro m hm; have := h m hm; omega
  | .atom _ :: _, _ => trivial
  | .lp :: _, _ => trivial
  | .rp :: _, _ => trivial
  | .colon :: _, _ => trivial
  | .asg _ :: _, _ => trivial

theorem okAfter_le (c : Cfg) (l k : Nat) (ts : List Tok) (h : okAfter c l ts) : okAfter c (l + k) ts := by
  induction k with
  | zero => exact h
  | succ k ih => exact okAfter_mono c (l + k) ts ih

/-- after an operand read at level `l`, the loops of all tighter levels stop -/
theorem okAfter_stops (c : Cfg) (l m : Nat) (ts : List Tok) (h : okAfter c l ts) (hm : l < m) : stops c m ts := by
  match ts, h with
  | [], _ => trivial
  | .q :: _, _ => simp only [stops]; omega
  | .sym s :: _, h => simp only [stops]; intro ⟨h1, _⟩; have := h m h1; omega
  | .atom _ :: _, _ => trivial
  | .lp :: _, _ => trivial
  | .rp :: _, _ => trivial
  | .colon :: _, _ => trivial
  | .asg _ :: _, _ => trivial

/-- **descent**: a value read at the prefix level is what every looser level starts its loop with -/
theorem ev_descend (c : Cfg) (ts : List Tok) (x : E) (r : List Tok) (hN : Ev c (.level c.N ts) (.ok x r)) :
    ∀ (k l : Nat), l + k + 1 = c.N → okAfter c l r → ∀ res, Ev c (.loop l x r) res → Ev c (.level l ts) res := by
  intro k
  induction k with
  | zero =>
    intro l hl _ res h2
    have e : l + 1 = c.N := by omega
    exact ev_level c l ts x r res (by omega) (by rw [e]; exact hN) h2
  | succ k ih =>
    intro l hl hok res h2
    refine ev_level c l ts x r res (by omega) ?_ h2
    exact ih (l + 1) (by omega) (okAfter_mono c l r hok) _ (ev_loop_stop c (l + 1) x r (okAfter_stops c l (l + 1) r hok (by omega)))

theorem ev_descend' (c : Cfg) (ts : List Tok) (x : E) (r : List Tok) (l : Nat) (hN : Ev c (.level c.N ts) (.ok x r)) (hl : l < c.N)
    (hok : okAfter c l r) (res : Res) (h2 : Ev c (.loop l x r) res) : Ev c (.level l ts) res :=
  ev_descend c ts x r hN (c.N - l - 1) l (by omega) hok res h2

/-! ### the main induction -/


theorem show_def (c : Cfg) (l : Nat) (e : E) : «show» c l e = if l ≤ lev c e then raw c e else .lp :: raw c e ++ [.rp] := rfl

theorem raw_pre (c : Cfg) (s : Nat) (e : E) : raw c (.pre s e) = .sym s :: «show» c c.N e := by simp [raw, «show»]
theorem raw_bin (c : Cfg) (s : Nat) (a b : E) : raw c (.bin s a b) = «show» c ((c.bin s).getD c.N) a ++ .sym s :: «show» c ((c.bin s).getD c.N + 1) b := by
  simp [raw, «show»]
theorem raw_tern (c : Cfg) (x t e : E) : raw c (.tern x t e) = «show» c 1 x ++ .q :: «show» c 1 t ++ .colon :: raw c e := by
  simp [raw, «show»]

theorem lev_le (c : Cfg) (e : E) (h : wf c e = true) : lev c e ≤ c.N := by
  cases e with
  | atom n => simp [lev]
  | pre s e => simp [lev]
  | bin s a b =>
    simp only [wf, Bool.and_eq_true] at h
    cases hb : c.bin s with
    | none => simp [lev, hb]
    | some l => simp only [hb, decide_eq_true_eq] at h; simp [lev, hb]; omega
  | tern x t e => simp [lev]

/-- what the induction carries for one tree:
    (U) unparenthesised, at any level not tighter than the tree's own, the parser reads the tree and goes on with that level's loop;
    (V) as an operand at the prefix level (then it is an atom, a prefix expression, or parenthesised) it is read back whatever follows. -/
def Good (c : Cfg) (e : E) : Prop :=
  (∀ l rest res, l ≤ lev c e → l < c.N → okAfter c l rest → Ev c (.loop l e rest) res → Ev c (.level l (raw c e ++ rest)) res) ∧
  (∀ rest, Ev c (.level c.N («show» c c.N e ++ rest)) (.ok e rest))

/-- from (U) at level 0: the parenthesised form is a value -/
theorem good_paren (c : Cfg) (e : E) (hN : 0 < c.N)
    (hU : ∀ l rest res, l ≤ lev c e → l < c.N → okAfter c l rest → Ev c (.loop l e rest) res → Ev c (.level l (raw c e ++ rest)) res) (rest : List Tok) :
    Ev c (.level c.N (.lp :: raw c e ++ .rp :: rest)) (.ok e rest) := by
  apply ev_paren
  exact hU 0 (.rp :: rest) _ (Nat.zero_le _) hN trivial (ev_loop_stop c 0 e _ trivial)

/-- (K) an operand printed for level `l` is read at level `l` and the loop of `l` goes on -/
theorem good_show (c : Cfg) (e : E) (hg : Good c e) (hN : 0 < c.N) (l : Nat) (rest : List Tok) (res : Res) (hl : l < c.N) (hok : okAfter c l rest)
    (h : Ev c (.loop l e rest) res) : Ev c (.level l («show» c l e ++ rest)) res := by
  rw [show_def]
  split
  · rename_i hle
    exact hg.1 l rest res hle hl hok h
  · have := good_paren c e hN hg.1 rest
    simp only [List.cons_append, List.append_assoc]
    exact ev_descend' c _ e rest l this hl hok res h

/-- the same when the result is wanted: the loop of `l` stops on what follows -/
theorem good_show_ok (c : Cfg) (e : E) (hg : Good c e) (hN : 0 < c.N) (l : Nat) (rest : List Tok) (hl : l ≤ c.N) (hok : okAfter c l rest) (hst : stops c l rest) :
    Ev c (.level l («show» c l e ++ rest)) (.ok e rest) := by
  by_cases h : l < c.N
  · exact good_show c e hg hN l rest _ h hok (ev_loop_stop c l e rest hst)
  · have : l = c.N := by omega
    subst this
    exact hg.2 rest

theorem okAfter0_stops0 (c : Cfg) (ts : List Tok) (h : okAfter c 0 ts) : stops c 0 ts := by
  match ts, h with
  | [], _ => trivial
  | .q :: _, h => exact h
  | .sym s :: _, _ => simp [stops]
  | .atom _ :: _, _ => trivial
  | .lp :: _, _ => trivial
  | .rp :: _, _ => trivial
  | .colon :: _, _ => trivial
  | .asg _ :: _, _ => trivial

theorem good_of_value (c : Cfg) (e : E) (hlev : lev c e = c.N) (hV : ∀ rest, Ev c (.level c.N (raw c e ++ rest)) (.ok e rest)) : Good c e := by
  constructor
  · intro l rest res _ hl hok h
    exact ev_descend' c _ e rest l (hV rest) hl hok res h
  · intro rest
    have : «show» c c.N e = raw c e := by simp [show_def, hlev]
    rw [this]; exact hV rest

theorem good_all (c : Cfg) (hN : 2 ≤ c.N) : ∀ e, wf c e = true → Good c e := by
  intro e
  induction e with
  | atom n =>
    intro _
    exact good_of_value c _ rfl (fun rest => by simpa [raw] using ev_atom c n rest)
  | pre s e ih =>
    intro h
    simp only [wf, Bool.and_eq_true] at h
    have ge := ih h.2
    refine good_of_value c _ rfl (fun rest => ?_)
    rw [raw_pre]
    simp only [List.cons_append]
    exact ev_pre c s _ e rest h.1 (ge.2 rest)
  | bin s a b iha ihb =>
    intro h
    simp only [wf, Bool.and_eq_true] at h
    obtain ⟨⟨hs, ha⟩, hb⟩ := h
    have ga := iha ha
    have gb := ihb hb
    cases hbin : c.bin s with
    | none => simp [hbin] at hs
    | some m =>
      simp only [hbin, decide_eq_true_eq] at hs
      have hlev : lev c (.bin s a b) = m := by simp [lev, hbin]
      have hraw : ∀ rest, raw c (.bin s a b) ++ rest = «show» c m a ++ (.sym s :: («show» c (m + 1) b ++ rest)) := by
        intro rest; rw [raw_bin]; simp [hbin]
      -- at the operator's own level
      have hUm : ∀ rest res, okAfter c m rest → Ev c (.loop m (.bin s a b) rest) res → Ev c (.level m (raw c (.bin s a b) ++ rest)) res := by
        intro rest res hok h
        rw [hraw]
        apply good_show c a ga (by omega) m _ res hs.2
        · intro m' hm'; rw [hbin] at hm'; injection hm' with hm'; omega
        · apply ev_loop_bin c m s a b _ rest res hbin (by omega) ?_ h
          exact good_show_ok c b gb (by omega) (m + 1) rest (by omega) (okAfter_mono c m rest hok) (okAfter_stops c m (m + 1) rest hok (by omega))
      -- at looser levels
      have hU : ∀ k l rest res, l + k = m → okAfter c l rest → Ev c (.loop l (.bin s a b) rest) res → Ev c (.level l (raw c (.bin s a b) ++ rest)) res := by
        intro k
        induction k with
        | zero => intro l rest res hl hok h; have : l = m := by omega
                  subst this; exact hUm rest res hok h
        | succ k ihk =>
          intro l rest res hl hok h
          refine ev_level c l _ (.bin s a b) rest res (by omega) ?_ h
          exact ihk (l + 1) rest _ (by omega) (okAfter_mono c l rest hok) (ev_loop_stop c (l + 1) _ rest (okAfter_stops c l (l + 1) rest hok (by omega)))
      have hU' : ∀ l rest res, l ≤ lev c (.bin s a b) → l < c.N → okAfter c l rest → Ev c (.loop l (.bin s a b) rest) res →
          Ev c (.level l (raw c (.bin s a b) ++ rest)) res := by
        intro l rest res hl _ hok h
        rw [hlev] at hl
        exact hU (m - l) l rest res (by omega) hok h
      refine ⟨hU', fun rest => ?_⟩
      have : «show» c c.N (.bin s a b) = .lp :: raw c (.bin s a b) ++ [.rp] := by
        rw [show_def, hlev]; have : ¬ c.N ≤ m := by omega
        simp [this]
      rw [this]
      have := good_paren c (.bin s a b) (by omega) hU' rest
      simpa using this
  | tern x t e ihx iht ihe =>
    intro h
    simp only [wf, Bool.and_eq_true] at h
    obtain ⟨⟨hx, ht⟩, he⟩ := h
    have gx := ihx hx
    have gt := iht ht
    have ge := ihe he
    have hU' : ∀ l rest res, l ≤ lev c (.tern x t e) → l < c.N → okAfter c l rest → Ev c (.loop l (.tern x t e) rest) res →
        Ev c (.level l (raw c (.tern x t e) ++ rest)) res := by
      intro l rest res hl _ hok h
      have hl0 : l = 0 := by simpa [lev] using hl
      subst hl0
      have hraw : raw c (.tern x t e) ++ rest = «show» c 1 x ++ (.q :: («show» c 1 t ++ (.colon :: (raw c e ++ rest)))) := by
        rw [raw_tern]; simp
      rw [hraw]
      refine ev_level c 0 _ x (.q :: («show» c 1 t ++ (.colon :: (raw c e ++ rest)))) res (by omega) ?_ ?_
      · exact good_show_ok c x gx (by omega) 1 _ (by omega) (by simp [okAfter]) (by simp [stops])
      · refine ev_loop_tern c x t e _ (raw c e ++ rest) rest res ?_ ?_ h
        · exact good_show_ok c t gt (by omega) 1 _ (by omega) trivial trivial
        · exact ge.1 0 rest _ (Nat.zero_le _) (by omega) hok (ev_loop_stop c 0 e rest (okAfter0_stops0 c rest hok))
    refine ⟨hU', fun rest => ?_⟩
    have : «show» c c.N (.tern x t e) = .lp :: raw c (.tern x t e) ++ [.rp] := by
      rw [show_def]; have : ¬ c.N ≤ lev c (.tern x t e) := by simp [lev]; omega
      simp [this]
    rw [this]
    have := good_paren c (.tern x t e) (by omega) hU' rest
    simpa using this

/-! ### fuel is only fuel -/

/-- fuel is only fuel: a run that does not run out of fuel gives the same result with one more unit -/
theorem run_succ (c : Cfg) : ∀ (f : Nat) (job : Job), run c f job ≠ .fuel → run c (f + 1) job = run c f job := by
  intro f
  induction f with
  | zero => intro job h; simp [run] at h
  | succ f ih =>
    intro job h
    cases job with
    | level l ts =>
      simp only [run] at h
      conv => lhs; unfold run
      conv => rhs; unfold run
      by_cases hl : c.N ≤ l
      · simp only [hl, if_true] at h ⊢
        match ts with
        | [] => rfl
        | .atom n :: r => rfl
        | .rp :: r => rfl
        | .q :: r => rfl
        | .colon :: r => rfl
        | .asg _ :: r => rfl
        | .lp :: r =>
          simp only at h ⊢
          by_cases hr : run c f (.level 0 r) = .fuel
          · simp [hr] at h
          · rw [ih _ hr]
        | .sym s :: r =>
          simp only at h ⊢
          by_cases hp : c.pfx s = true
          · simp only [hp, if_true] at h ⊢
            by_cases hr : run c f (.level c.N r) = .fuel
            · simp [hr] at h
            · rw [ih _ hr]
          · simp [hp]
      · simp only [hl, if_false] at h ⊢
        by_cases hr : run c f (.level (l + 1) ts) = .fuel
        · simp [hr] at h
        · rw [ih _ hr]
          match hx : run c f (.level (l + 1) ts) with
          | .ok x r' =>
            simp only [hx] at h ⊢
            exact ih _ h
          | .nomatch => rfl
          | .error => rfl
          | .fuel => exact absurd hx hr
    | loop l x ts =>
      simp only [run] at h
      conv => lhs; unfold run
      conv => rhs; unfold run
      match ts with
      | [] => rfl
      | .atom n :: r => rfl
      | .rp :: r => rfl
      | .lp :: r => rfl
      | .colon :: r => rfl
      | .asg _ :: r => rfl
      | .q :: r =>
        simp only at h ⊢
        by_cases hl : l = 0
        · simp only [hl, if_true] at h ⊢
          by_cases hr : run c f (.level 1 r) = .fuel
          · simp [hr] at h
          · rw [ih _ hr]
            match hx : run c f (.level 1 r) with
            | .ok t (.colon :: r') =>
              simp only [hx] at h ⊢
              by_cases hr2 : run c f (.level 0 r') = .fuel
              · simp [hr2] at h
              · rw [ih _ hr2]
                match hy : run c f (.level 0 r') with
                | .ok e r'' => simp only [hy] at h ⊢; exact ih _ h
                | .nomatch => rfl
                | .error => rfl
                | .fuel => exact absurd hy hr2
            | .ok t [] => rfl
            | .ok t (.atom _ :: _) => rfl
            | .ok t (.sym _ :: _) => rfl
            | .ok t (.lp :: _) => rfl
            | .ok t (.rp :: _) => rfl
            | .ok t (.q :: _) => rfl
            | .ok t (.asg _ :: _) => rfl
            | .nomatch => rfl
            | .error => rfl
            | .fuel => exact absurd hx hr
        · simp only [hl, if_false]
      | .sym s :: r =>
        simp only at h ⊢
        by_cases hb : c.bin s = some l ∧ l ≠ 0
        · rw [if_pos hb] at h
          rw [if_pos hb, if_pos hb]
          by_cases hr : run c f (.level (l + 1) r) = .fuel
          · simp [hr] at h
          · rw [ih _ hr]
            match hx : run c f (.level (l + 1) r) with
            | .ok y r' => simp only [hx] at h ⊢; exact ih _ h
            | .nomatch => rfl
            | .error => rfl
            | .fuel => exact absurd hx hr
        · rw [if_neg hb, if_neg hb]

theorem run_le (c : Cfg) (f : Nat) (job : Job) (h : run c f job ≠ .fuel) : ∀ k, run c (f + k) job = run c f job := by
  intro k
  induction k with
  | zero => rfl
  | succ k ih =>
    have : run c (f + k) job ≠ .fuel := by rw [ih]; exact h
    rw [← Nat.add_assoc, run_succ c (f + k) job this, ih]

end ChaiVerif.Prec
