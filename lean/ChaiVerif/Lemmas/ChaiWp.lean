/-
"The saved call parameters are write-only": replacing the contents of `call_params` (keeping its length) commutes with every
primitive of the evaluator state.  Infrastructure for Lemmas/ChaiRunWp.lean.
-/
import ChaiVerif.Model.Chai.Eval
namespace ChaiVerif.Chai

/-- the same state with other saved call parameters -/
def St.wp (s : St) (p : List (List Loc)) : St := { s with params := p }

@[simp] theorem wp_params (s : St) (p) : (s.wp p).params = p := rfl
@[simp] theorem wp_wp (s : St) (p q) : (s.wp p).wp q = s.wp q := rfl
@[simp] theorem wp_self (s : St) : s.wp s.params = s := rfl
@[simp] theorem wp_cell (s : St) (p) (l : Loc) : (s.wp p).cell l = s.cell l := rfl
@[simp] theorem wp_val (s : St) (p) (l : Loc) : (s.wp p).val l = s.val l := rfl
@[simp] theorem wp_objAt (s : St) (p) (o : Nat) : (s.wp p).objAt o = s.objAt o := rfl
@[simp] theorem wp_heap (s : St) (p) : (s.wp p).heap = s.heap := rfl
@[simp] theorem wp_objs (s : St) (p) : (s.wp p).objs = s.objs := rfl
@[simp] theorem wp_funs (s : St) (p) : (s.wp p).funs = s.funs := rfl
@[simp] theorem wp_depth (s : St) (p) : (s.wp p).depth = s.depth := rfl
@[simp] theorem wp_natCount (s : St) (p) : (s.wp p).natCount = s.natCount := rfl
@[simp] theorem wp_fault (s : St) (p) : (s.wp p).fault = s.fault := rfl
@[simp] theorem wp_allocV (s : St) (p) (v : Val) (c r : Bool) : (s.wp p).allocV v c r = ((s.allocV v c r).1, (s.allocV v c r).2.wp p) := rfl
@[simp] theorem wp_setCell (s : St) (p) (l : Loc) (c : Cell) : (s.wp p).setCell l c = (s.setCell l c).wp p := rfl
@[simp] theorem wp_setVal (s : St) (p) (l : Loc) (v : Val) : (s.wp p).setVal l v = (s.setVal l v).wp p := rfl
@[simp] theorem wp_pushScope (s : St) (p) : (s.wp p).pushScope = s.pushScope.wp (p ++ [[]]) := rfl
@[simp] theorem wp_popScope (s : St) (p) : (s.wp p).popScope = s.popScope.wp p.dropLast := rfl
@[simp] theorem wp_pushStack (s : St) (p) : (s.wp p).pushStack = s.pushStack.wp p := rfl
@[simp] theorem wp_popStack (s : St) (p) : (s.wp p).popStack = s.popStack.wp p := rfl
@[simp] theorem wp_enterCall (s : St) (p) : (s.wp p).enterCall = s.enterCall.wp p := rfl
@[simp] theorem wp_leaveCall (s : St) (p) :
    (s.wp p).leaveCall = s.leaveCall.wp (if (s.depth - 1 == 0) = true then modifyLast (fun _ => []) p else p) := rfl
@[simp] theorem wp_saveParams (s : St) (p) (ls : List Loc) : (s.wp p).saveParams ls = (s.saveParams ls).wp (modifyLast (ls ++ ·) p) := rfl
@[simp] theorem wp_dropHints (s : St) (p) (n : List Nat) : (s.wp p).dropHints n = (s.dropHints n).wp p := rfl
@[simp] theorem wp_isNamed (s : St) (p) (l : Loc) : (s.wp p).isNamed l = s.isNamed l := rfl

theorem wp_addObject (s : St) (p) (x : Name) (l : Loc) : (s.wp p).addObject x l = (s.addObject x l).map (·.wp p) := by
  unfold St.addObject
  show (match s.curStack.getLast? with | none => none | some sc => _) = _
  cases s.curStack.getLast? with
  | none => rfl
  | some sc =>
    simp only []
    split <;> rfl

@[simp] theorem wp_resolve (s : St) (p) (x : Name) : (s.wp p).resolve x = s.resolve x := rfl
@[simp] theorem wp_nonLocal (s : St) (p) (x : Name) : (s.wp p).nonLocal x = s.nonLocal x := rfl
@[simp] theorem wp_slotAt (s : St) (p) (d i : Nat) : (s.wp p).slotAt d i = s.slotAt d i := rfl
@[simp] theorem wp_dropHint (s : St) (p) (nid : Nat) : (s.wp p).dropHint nid = (s.dropHint nid).wp p := rfl

theorem wp_cold (s : St) (p) (nid : Nat) (x : Name) : (s.wp p).cold nid x = ((s.cold nid x).1, (s.cold nid x).2.wp p) := by
  unfold St.cold
  show (_, if s.useHints = true then _ else _) = _
  split <;> rfl

theorem wp_getObjectRaw (s : St) (p) (nid : Nat) (x : Name) :
    (s.wp p).getObjectRaw nid x = ((s.getObjectRaw nid x).1, (s.getObjectRaw nid x).2.wp p) := by
  unfold St.getObjectRaw
  show (if (!s.useHints) = true then _ else match s.hints.lookup nid with | none => _ | some .nonLocal => _ | some (.local_ d i) => _) = _
  split
  · exact wp_cold s p nid x
  · cases s.hints.lookup nid with
    | none => exact wp_cold s p nid x
    | some h =>
      cases h with
      | nonLocal => rfl
      | local_ d i =>
        simp only [wp_slotAt]
        cases s.slotAt d i with
        | none =>
          simp only []
          show (if s.verifySlot = true then _ else _) = _
          split
          · exact wp_cold (s.dropHint nid) p nid x
          · rfl
        | some yl =>
          obtain ⟨y, l⟩ := yl
          simp only []
          show (if (!s.verifySlot || y == x) = true then _ else _) = _
          split
          · rfl
          · exact wp_cold (s.dropHint nid) p nid x

theorem wp_getObject (s : St) (p) (nid : Nat) (x : Name) :
    (s.wp p).getObject nid x = ((s.getObject nid x).1, (s.getObject nid x).2.wp p) := by
  unfold St.getObject
  simp only [wp_getObjectRaw, wp_resolve]
  split <;> rfl

end ChaiVerif.Chai
