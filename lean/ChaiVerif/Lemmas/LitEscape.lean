/-
The escape machine of `Char_Parser` (Model/Lit.lean: one `cpStep` per byte, then `cpFinish`) against the declarative
decoding of a literal body (Spec/Lit.lean: `cppUnescape`), for the strict configuration (the one the current source has).
-/
import ChaiVerif.Model.Lit
import ChaiVerif.Spec.Lit
namespace ChaiVerif.Esc

/-- the configuration of the current source (Props/C16 proves that the regenerated `Gen.*` tables ARE this) -/
def cfg (utf8 : List (Nat × List (Nat × Nat × Nat))) : CPCfg :=
  { simple := cppSimpleEscapes, simpleDefaultThrows := true, octalMax := 3, hexMax := 2, uSmall := 4, uBig := 8,
    flush := .finishReports, hexEmpty := .error, uniRead := .stoulGuarded, lenCheck := true, surrogate := .all, utf8 := utf8 }

variable (U : List (Nat × List (Nat × Nat × Nat)))

/-- the machine from state `s` over the rest of the body, then `finish()` -/
def M (s : CPState) (cs : List Nat) : Except CPErr (List Nat) := do
  let s' ← cs.foldlM (cpStep (cfg U)) s
  cpFinish (cfg U) s'

theorem M_nil (s : CPState) : M U s [] = cpFinish (cfg U) s := rfl

theorem M_cons (s : CPState) (c : Nat) (cs : List Nat) :
    M U s (c :: cs) = (match cpStep (cfg U) s c with | .ok s' => M U s' cs | .error e => .error e) := by
  unfold M
  simp only [List.foldlM, bind, Except.bind]
  cases cpStep (cfg U) s c <;> rfl

/-- no escape pending -/
def idle (o : List Nat) : CPState := { out := o }

theorem finish_idle (o : List Nat) : cpFinish (cfg U) (idle o) = .ok o := rfl

theorem step_plain (o : List Nat) (c : Nat) (h : c ≠ 92) : cpStep (cfg U) (idle o) c = .ok (idle (o ++ [c])) := by
  simp [cpStep, idle, h, bind, Except.bind, pure, Except.pure]


/-! ### the states with an escape pending -/
def E (o : List Nat) : CPState := { out := o, esc := true }
def O (o ds : List Nat) : CPState := { out := o, esc := true, oct := true, octs := ds }
def H (o hs : List Nat) : CPState := { out := o, esc := true, hex := true, hexs := hs }
def Un (o : List Nat) (n : Nat) (hs : List Nat) : CPState := { out := o, esc := true, uni := n, hexs := hs }

def octVal (ds : List Nat) : Nat := digitsValue 8 (ds.map (· - 48)) % 256
def hexVal (hs : List Nat) : Nat := digitsValue 16 (hs.map hexDigitVal) % 256
def uniVal (hs : List Nat) : Nat := digitsValue 16 (hs.map hexDigitVal)

theorem octal_ne_bs {c : Nat} (h : isOctalChar c = true) : c ≠ 92 := by
  intro hc; subst hc; simp [isOctalChar] at h
theorem hex_ne_bs {c : Nat} (h : isHexChar c = true) : c ≠ 92 := by
  intro hc; subst hc; simp [isHexChar] at h

theorem step_backslash (o : List Nat) : cpStep (cfg U) (idle o) 92 = .ok (E o) := by
  simp [cpStep, idle, E, bind, Except.bind, pure, Except.pure]

theorem step_bs_bs (o : List Nat) : cpStep (cfg U) (E o) 92 = .ok (idle (o ++ [92])) := by
  simp [cpStep, E, idle, bind, Except.bind, pure, Except.pure]

theorem step_esc_octal (o : List Nat) (c : Nat) (h : isOctalChar c = true) : cpStep (cfg U) (E o) c = .ok (O o [c]) := by
  have := octal_ne_bs h
  simp [cpStep, E, O, h, this, bind, Except.bind, pure, Except.pure]

theorem step_esc_x (o : List Nat) : cpStep (cfg U) (E o) 120 = .ok (H o []) := by
  simp [cpStep, E, H, isOctalChar, bind, Except.bind, pure, Except.pure]

theorem step_esc_u (o : List Nat) : cpStep (cfg U) (E o) 117 = .ok (Un o 4 []) := by
  simp [cpStep, E, Un, cfg, isOctalChar, bind, Except.bind, pure, Except.pure]

theorem step_esc_U (o : List Nat) : cpStep (cfg U) (E o) 85 = .ok (Un o 8 []) := by
  simp [cpStep, E, Un, cfg, isOctalChar, bind, Except.bind, pure, Except.pure]

theorem step_esc_simple (o : List Nat) (c : Nat) (h1 : isOctalChar c = false) (h2 : c ≠ 92) (h3 : c ≠ 120) (h4 : c ≠ 117) (h5 : c ≠ 85) :
    cpStep (cfg U) (E o) c = (match cppSimpleEscapes.find? (fun p => p.1 == c) with
      | some p => .ok (idle (o ++ [p.2]))
      | none => .error .unknownEscape) := by
  simp only [cpStep, E, cfg, h1, h2, h3, h4, h5, bind, Except.bind, pure, Except.pure, beq_iff_eq, if_false, Bool.false_eq_true, if_true]
  cases cppSimpleEscapes.find? (fun p => p.1 == c) <;> rfl

/-! octal -/
theorem finish_O (o ds : List Nat) (h : ds ≠ []) : cpFinish (cfg U) (O o ds) = .ok (o ++ [octVal ds]) := by
  cases ds with
  | nil => exact absurd rfl h
  | cons d ds => rfl

theorem step_O_digit_more (o ds : List Nat) (c : Nat) (h : isOctalChar c = true) (hl : ds.length + 1 ≠ 3) :
    cpStep (cfg U) (O o ds) c = .ok (O o (ds ++ [c])) := by
  have hl' : ds.length ≠ 2 := by omega
  simp [cpStep, O, cfg, h, hl', bind, Except.bind, pure, Except.pure]

theorem step_O_digit_last (o ds : List Nat) (c : Nat) (h : isOctalChar c = true) (hl : ds.length + 1 = 3) :
    cpStep (cfg U) (O o ds) c = .ok (idle (o ++ [octVal (ds ++ [c])])) := by
  have hl' : ds.length = 2 := by omega
  simp [cpStep, O, cfg, h, hl', processOctal, idle, octVal, bind, Except.bind, pure, Except.pure]

theorem step_O_other (o ds : List Nat) (c : Nat) (h : isOctalChar c = false) (hd : ds ≠ []) :
    cpStep (cfg U) (O o ds) c = cpStep (cfg U) (idle (o ++ [octVal ds])) c := by
  cases ds with
  | nil => exact absurd rfl hd
  | cons d ds => simp [cpStep, O, idle, h, processOctal, octVal, bind, Except.bind, pure, Except.pure]

/-- the machine's run over up to `k` more octal digits equals reading them at once -/
theorem oct_run (o : List Nat) : ∀ (k : Nat) (ds cs : List Nat), ds ≠ [] → 0 < k → ds.length + k = 3 →
    M U (O o ds) cs = M U (idle (o ++ [octVal (ds ++ (takeUpTo isOctalChar k cs).1)])) (takeUpTo isOctalChar k cs).2 := by
  intro k
  induction k with
  | zero => intro ds cs _ hk; omega
  | succ k ih =>
    intro ds cs hd _ hl
    cases cs with
    | nil => simp [takeUpTo, M_nil, finish_O U o ds hd, finish_idle]
    | cons c cs =>
      by_cases hc : isOctalChar c = true
      · simp only [takeUpTo, hc, if_true]
        rw [M_cons]
        by_cases hlast : ds.length + 1 = 3
        · rw [step_O_digit_last U o ds c hc hlast]
          have hk : k = 0 := by omega
          subst hk
          cases cs <;> simp [takeUpTo]
        · rw [step_O_digit_more U o ds c hc hlast]
          simp only []
          have := ih (ds ++ [c]) cs (by simp) (by omega) (by simp; omega)
          rw [this, List.append_assoc]
          rfl
      · have hc' : isOctalChar c = false := by simpa using hc
        simp only [takeUpTo, hc', Bool.false_eq_true, if_false, List.append_nil]
        rw [M_cons, M_cons, step_O_other U o ds c hc' hd]

/-! hex: `\x` followed by one or two hex digits -/
theorem finish_H_empty (o : List Nat) : cpFinish (cfg U) (H o []) = .error .incompleteHex := rfl
theorem finish_H (o hs : List Nat) (h : hs ≠ []) : cpFinish (cfg U) (H o hs) = .ok (o ++ [hexVal hs]) := by
  cases hs with
  | nil => exact absurd rfl h
  | cons d ds => rfl

theorem step_H_digit_more (o hs : List Nat) (c : Nat) (h : isHexChar c = true) (hl : hs.length + 1 ≠ 2) :
    cpStep (cfg U) (H o hs) c = .ok (H o (hs ++ [c])) := by
  have hl' : hs.length ≠ 1 := by omega
  simp [cpStep, H, cfg, h, hl', bind, Except.bind, pure, Except.pure]

theorem step_H_digit_last (o hs : List Nat) (c : Nat) (h : isHexChar c = true) (hl : hs.length + 1 = 2) :
    cpStep (cfg U) (H o hs) c = .ok (idle (o ++ [hexVal (hs ++ [c])])) := by
  have hl' : hs.length = 1 := by omega
  simp [cpStep, H, cfg, h, hl', processHex, idle, hexVal, bind, Except.bind, pure, Except.pure]

theorem step_H_other_empty (o : List Nat) (c : Nat) (h : isHexChar c = false) :
    cpStep (cfg U) (H o []) c = .error .incompleteHex := by
  simp [cpStep, H, cfg, h, processHex, bind, Except.bind]

theorem step_H_other (o hs : List Nat) (c : Nat) (h : isHexChar c = false) (hd : hs ≠ []) :
    cpStep (cfg U) (H o hs) c = cpStep (cfg U) (idle (o ++ [hexVal hs])) c := by
  cases hs with
  | nil => exact absurd rfl hd
  | cons d ds => simp [cpStep, H, idle, cfg, h, processHex, hexVal, bind, Except.bind, pure, Except.pure]

/-- `none` = the machine reports an error -/
def okOpt (r : Except CPErr (List Nat)) : Option (List Nat) := match r with | .ok x => some x | .error _ => none

theorem hex_run (o : List Nat) : ∀ (k : Nat) (hs cs : List Nat), 0 < k → hs.length + k = 2 →
    okOpt (M U (H o hs) cs) =
      (if (hs ++ (takeUpTo isHexChar k cs).1).isEmpty then none
       else okOpt (M U (idle (o ++ [hexVal (hs ++ (takeUpTo isHexChar k cs).1)])) (takeUpTo isHexChar k cs).2)) := by
  intro k
  induction k with
  | zero => intro hs cs hk; omega
  | succ k ih =>
    intro hs cs _ hl
    cases cs with
    | nil =>
      cases hs with
      | nil => simp [takeUpTo, M_nil, finish_H_empty, okOpt]
      | cons d ds => simp [takeUpTo, M_nil, finish_H U o (d :: ds) (by simp), finish_idle]
    | cons c cs =>
      by_cases hc : isHexChar c = true
      · simp only [takeUpTo, hc, if_true]
        rw [M_cons]
        by_cases hlast : hs.length + 1 = 2
        · rw [step_H_digit_last U o hs c hc hlast]
          have hk : k = 0 := by omega
          subst hk
          cases cs <;> simp [takeUpTo]
        · rw [step_H_digit_more U o hs c hc hlast]
          simp only []
          have := ih (hs ++ [c]) cs (by omega) (by simp; omega)
          rw [this]
          simp [List.append_assoc]
      · have hc' : isHexChar c = false := by simpa using hc
        simp only [takeUpTo, hc', Bool.false_eq_true, if_false, List.append_nil]
        cases hs with
        | nil => rw [M_cons, step_H_other_empty U o c hc']; simp [okOpt]
        | cons d ds =>
          rw [M_cons, M_cons, step_H_other U o (d :: ds) c hc' (by simp)]
          simp

/-! unicode: `\u` + 4 or `\U` + 8 hex digits -/
theorem except_eta {ε α} (x : Except ε α) : (match x with | .error e => .error e | .ok v => .ok v) = x := by cases x <;> rfl

/-- what `process_unicode` does once all `n` digits are there -/
def uniDone (o hs : List Nat) : Except CPErr CPState :=
  if 55296 ≤ uniVal hs ∧ uniVal hs ≤ 57343 then .error .surrogate
  else match encodeRows U (uniVal hs) with
    | some bs => .ok (idle (o ++ bs))
    | none => .error .codePointTooBig

theorem finish_Un (o hs : List Nat) (n : Nat) (hn : 0 < n) (hl : hs.length ≠ n) :
    cpFinish (cfg U) (Un o n hs) = .error .incompleteUnicode := by
  have h1 : ¬ n = hs.length := fun h => hl h.symm
  simp [cpFinish, Un, cfg, processUnicode, hn, h1, bind, Except.bind, pure, Except.pure]

theorem step_Un_digit_more (o hs : List Nat) (n c : Nat) (hn : 0 < n) (h : isHexChar c = true) (hl : hs.length + 1 ≠ n) :
    cpStep (cfg U) (Un o n hs) c = .ok (Un o n (hs ++ [c])) := by
  simp [cpStep, Un, h, hl, hn, bind, Except.bind, pure, Except.pure]

theorem step_Un_digit_last (o hs : List Nat) (n c : Nat) (hn : 0 < n) (h : isHexChar c = true) (hl : hs.length + 1 = n) :
    cpStep (cfg U) (Un o n hs) c = uniDone U o (hs ++ [c]) := by
  simp only [cpStep, Un, cfg, h, hn, bind, Except.bind, pure, Except.pure, processUnicode, uniDone, uniVal, idle]
  simp [hl]
  exact except_eta _

theorem step_Un_other (o hs : List Nat) (n c : Nat) (hn : 0 < n) (h : isHexChar c = false) (hl : hs.length ≠ n) :
    cpStep (cfg U) (Un o n hs) c = .error .incompleteUnicode := by
  have h1 : ¬ n = hs.length := fun h => hl h.symm
  simp [cpStep, Un, cfg, h, hn, h1, processUnicode, bind, Except.bind]

/-- the decoded continuation after a complete `\u` / `\U` escape, as an option -/
def uniCont (o hs rest : List Nat) : Option (List Nat) :=
  match uniDone U o hs with
  | .ok s => okOpt (M U s rest)
  | .error _ => none

theorem uni_run (o : List Nat) (n : Nat) (hn : 0 < n) : ∀ (k : Nat) (hs cs : List Nat), 0 < k → hs.length + k = n →
    okOpt (M U (Un o n hs) cs) =
      (if (hs ++ (takeUpTo isHexChar k cs).1).length ≠ n then none
       else uniCont U o (hs ++ (takeUpTo isHexChar k cs).1) (takeUpTo isHexChar k cs).2) := by
  intro k
  induction k with
  | zero => intro hs cs hk; omega
  | succ k ih =>
    intro hs cs _ hl
    have hlen : hs.length ≠ n := by omega
    cases cs with
    | nil => simp [takeUpTo, M_nil, finish_Un U o hs n hn hlen, okOpt, hlen]
    | cons c cs =>
      by_cases hc : isHexChar c = true
      · simp only [takeUpTo, hc, if_true]
        rw [M_cons]
        by_cases hlast : hs.length + 1 = n
        · rw [step_Un_digit_last U o hs n c hn hc hlast]
          have hk : k = 0 := by omega
          subst hk
          have ht : takeUpTo isHexChar 0 cs = ([], cs) := by cases cs <;> rfl
          simp only [ht, List.append_nil, List.length_append, List.length_singleton, hlast, ne_eq, not_true_eq_false, if_false]
          unfold uniCont
          cases uniDone U o (hs ++ [c]) <;> rfl
        · rw [step_Un_digit_more U o hs n c hn hc hlast]
          simp only []
          have := ih (hs ++ [c]) cs (by omega) (by simp; omega)
          rw [this]
          simp [List.append_assoc]
      · have hc' : isHexChar c = false := by simpa using hc
        simp only [takeUpTo, hc', Bool.false_eq_true, if_false, List.append_nil]
        rw [M_cons, step_Un_other U o hs n c hn hc' hlen]
        simp [okOpt, hlen]

/-! ### the machine against the specification -/

/-- does the body end right after an unescaped backslash?  (The lexer ends a literal only at an unescaped quote, so a body it hands to
    `Char_Parser` never does; `finish()` silently ignores such a backslash, the C++ grammar calls it malformed.) -/
def endsEscaped : Bool → List Nat → Bool
  | e, [] => e
  | false, c :: cs => endsEscaped (c == 92) cs
  | true, _ :: cs => endsEscaped false cs

theorem takeUpTo_length (p : Nat → Bool) : ∀ (n : Nat) (cs : List Nat), (takeUpTo p n cs).2.length ≤ cs.length := by
  intro n
  induction n with
  | zero => intro cs; simp [takeUpTo]
  | succ n ih =>
    intro cs
    cases cs with
    | nil => simp [takeUpTo]
    | cons c cs =>
      simp only [takeUpTo]
      split
      · have := ih cs; simp; omega
      · simp

theorem takeUpTo_ends (p : Nat → Bool) (hp : ∀ c, p c = true → c ≠ 92) : ∀ (n : Nat) (cs : List Nat),
    endsEscaped false (takeUpTo p n cs).2 = endsEscaped false cs := by
  intro n
  induction n with
  | zero => intro cs; simp [takeUpTo]
  | succ n ih =>
    intro cs
    cases cs with
    | nil => simp [takeUpTo]
    | cons c cs =>
      simp only [takeUpTo]
      split
      · rename_i h
        have hc : (c == 92) = false := by simpa using hp c h
        simp only [endsEscaped, hc]
        exact ih cs
      · rfl

theorem map_prepend (o pre : List Nat) (x : Option (List Nat)) :
    x.map (fun t => (o ++ pre) ++ t) = (x.map (fun t => pre ++ t)).map (fun t => o ++ t) := by
  cases x <;> simp

/-- **The escape machine computes the specified decoding.**  For every body that does not end in a dangling backslash: the machine
    (byte by byte, then `finish()`) succeeds exactly when the declarative decoding is defined, with the same bytes. -/
theorem machine_eq_spec (hU : ∀ cp, encodeRows U cp = if cp < 1114112 then some (utf8Spec cp) else none) :
    ∀ (f : Nat) (cs o : List Nat), cs.length ≤ f → endsEscaped false cs = false →
      okOpt (M U (idle o) cs) = (cppUnescape f cs).map (fun t => o ++ t) := by
  intro f
  induction f with
  | zero =>
    intro cs o hl _
    cases cs with
    | nil => simp [M_nil, finish_idle, okOpt, cppUnescape]
    | cons c cs => simp at hl
  | succ f ih =>
    intro cs o hl he
    cases cs with
    | nil => simp [M_nil, finish_idle, okOpt, cppUnescape]
    | cons c cs =>
      by_cases hc : c = 92
      · subst hc
        cases cs with
        | nil => simp [endsEscaped] at he
        | cons d rest =>
          have he' : endsEscaped false rest = false := by simpa [endsEscaped] using he
          have hlr : rest.length ≤ f := by simp at hl; omega
          rw [M_cons, step_backslash]
          simp only []
          rw [M_cons]
          by_cases hoct : isOctalChar d = true
          · -- octal
            rw [step_esc_octal U o d hoct]
            simp only []
            rw [oct_run U o 2 [d] rest (by simp) (by omega) (by simp)]
            have hlen := takeUpTo_length isOctalChar 2 rest
            have hends := takeUpTo_ends isOctalChar (fun c h => octal_ne_bs h) 2 rest
            rw [ih _ _ (by omega) (by rw [hends]; exact he')]
            simp only [cppUnescape, hoct, if_true]
            rw [Option.map_map]
            congr 1
            funext t
            simp [octVal]
          · have hoct' : isOctalChar d = false := by simpa using hoct
            by_cases hx : d = 120
            · subst hx
              rw [step_esc_x]
              simp only []
              rw [hex_run U o 2 [] rest (by omega) (by simp)]
              have hlen := takeUpTo_length isHexChar 2 rest
              have hends := takeUpTo_ends isHexChar (fun c h => hex_ne_bs h) 2 rest
              simp only [cppUnescape, List.nil_append]
              simp only [show isOctalChar 120 = false from by decide, Bool.false_eq_true, if_false, show ((120 : Nat) == 120) = true from rfl, if_true]
              split
              · rfl
              · rw [ih _ _ (by omega) (by rw [hends]; exact he'), Option.map_map]
                congr 1
                funext t
                simp [hexVal]
            · by_cases hu : d = 117 ∨ d = 85
              · -- unicode
                have hn : (if d = 117 then 4 else 8 : Nat) = (if (d == 117) = true then 4 else 8) := by simp
                have key : ∀ n : Nat, 0 < n →
                    okOpt (M U (Un o n []) rest) =
                      (if ((takeUpTo isHexChar n rest).1).length ≠ n then none
                       else if (55296 ≤ uniVal (takeUpTo isHexChar n rest).1 ∧ uniVal (takeUpTo isHexChar n rest).1 ≤ 57343)
                             ∨ uniVal (takeUpTo isHexChar n rest).1 ≥ 1114112 then none
                       else ((cppUnescape f (takeUpTo isHexChar n rest).2).map (fun t => utf8Spec (uniVal (takeUpTo isHexChar n rest).1) ++ t)).map (fun t => o ++ t)) := by
                  intro n hn0
                  rw [uni_run U o n hn0 n [] rest hn0 (by simp)]
                  simp only [List.nil_append]
                  split
                  · rfl
                  · unfold uniCont uniDone
                    have hlen := takeUpTo_length isHexChar n rest
                    have hends := takeUpTo_ends isHexChar (fun c h => hex_ne_bs h) n rest
                    by_cases hs : 55296 ≤ uniVal (takeUpTo isHexChar n rest).1 ∧ uniVal (takeUpTo isHexChar n rest).1 ≤ 57343
                    · simp [hs]
                    · simp only [hs, if_false, false_or]
                      rw [hU]
                      by_cases hbig : uniVal (takeUpTo isHexChar n rest).1 < 1114112
                      · have : ¬ uniVal (takeUpTo isHexChar n rest).1 ≥ 1114112 := by omega
                        simp only [hbig, if_true, this, if_false]
                        rw [ih _ _ (by omega) (by rw [hends]; exact he'), map_prepend]
                      · have : uniVal (takeUpTo isHexChar n rest).1 ≥ 1114112 := by omega
                        simp [hbig, this]
                rcases hu with hu | hu
                · subst hu
                  rw [step_esc_u]
                  simp only []
                  rw [key 4 (by omega)]
                  simp [cppUnescape, isOctalChar, uniVal]
                  split
                  · split
                    · rfl
                    · simp [Option.map_map]
                  · rfl
                · subst hu
                  rw [step_esc_U]
                  simp only []
                  rw [key 8 (by omega)]
                  simp [cppUnescape, isOctalChar, uniVal]
                  split
                  · split
                    · rfl
                    · simp [Option.map_map]
                  · rfl
              · -- simple escapes, `\\`, unknown
                have h117 : d ≠ 117 := fun h => hu (Or.inl h)
                have h85 : d ≠ 85 := fun h => hu (Or.inr h)
                by_cases hbs : d = 92
                · subst hbs
                  rw [step_bs_bs]
                  simp only []
                  rw [ih _ _ hlr he', map_prepend]
                  simp [cppUnescape, isOctalChar, cppSimpleEscapes, List.find?]
                · rw [step_esc_simple U o d hoct' hbs hx h117 h85]
                  simp only [cppUnescape, hoct', Bool.false_eq_true, if_false]
                  have e1 : (d == 120) = false := by simpa using hx
                  have e2 : (d == 117 || d == 85) = false := by simp [h117, h85]
                  have e3 : (d == 92) = false := by simpa using hbs
                  simp only [e1, e2, e3, Bool.false_eq_true, if_false]
                  cases hfind : cppSimpleEscapes.find? (fun p => p.1 == d) with
                  | none => simp [okOpt]
                  | some p =>
                    simp only []
                    rw [ih _ _ hlr he', map_prepend]
                    simp
      · -- an ordinary byte
        have he' : endsEscaped false cs = false := by
          have hc' : (c == 92) = false := by simpa using hc
          simpa [endsEscaped, hc'] using he
        have hlr : cs.length ≤ f := by simp at hl; omega
        rw [M_cons, step_plain U o c hc]
        simp only []
        rw [ih _ _ hlr he', map_prepend]
        cases cs with
        | nil => simp [cppUnescape, hc]
        | cons d rest => simp [cppUnescape, hc]

end ChaiVerif.Esc
