/-
Leaf lemmas of the JSON round trip (strings and integers): helper lemmas for Props/C18.
-/
import ChaiVerif.Model.Json
namespace ChaiVerif.C18
open ChaiVerif

theorem getElem?_mid (pre post : List Nat) (x : Nat) : (pre ++ x :: post)[pre.length]? = some x := by simp
theorem getElem?_mid1 (pre post : List Nat) (x y : Nat) : (pre ++ x :: y :: post)[pre.length + 1]? = some y := by
  have := getElem?_mid (pre ++ [x]) post y
  simpa using this

/-- Escaping one character yields either the character itself (not a quote or backslash) or a
    backslash followed by a character that `parse_string` maps back to it. -/
theorem escChar_cases (c : Nat) :
    (escChar c = [c] ∧ c ≠ 34 ∧ c ≠ 92) ∨ (∃ e, escChar c = [92, e] ∧ unescChar e = some c) := by
  unfold escChar
  by_cases h1 : c = 34; · subst h1; right; exact ⟨34, by decide, by decide⟩
  by_cases h2 : c = 92; · subst h2; right; exact ⟨92, by decide, by decide⟩
  by_cases h3 : c = 8; · subst h3; right; exact ⟨98, by decide, by decide⟩
  by_cases h4 : c = 12; · subst h4; right; exact ⟨102, by decide, by decide⟩
  by_cases h5 : c = 10; · subst h5; right; exact ⟨110, by decide, by decide⟩
  by_cases h6 : c = 13; · subst h6; right; exact ⟨114, by decide, by decide⟩
  by_cases h7 : c = 9; · subst h7; right; exact ⟨116, by decide, by decide⟩
  left; simp [h1, h2, h3, h4, h5, h6, h7]

/-- Generalised round trip: reading the escaped form of `t` that sits after `pre` appends `t`. -/
theorem parseString_escape (t : List Nat) : ∀ (pre : List Nat) (x : Nat) (rest acc : List Nat) (f : Nat),
    t.length < f →
    parseString (pre ++ x :: (jsonEscape t ++ 34 :: rest)) f pre.length acc
      = .ok (acc ++ t, pre.length + (jsonEscape t).length + 2) := by
  induction t with
  | nil =>
    intro pre x rest acc f hf
    obtain ⟨f, rfl⟩ : ∃ g, f = g + 1 := ⟨f - 1, by omega⟩
    have h1 : (pre ++ x :: (jsonEscape [] ++ 34 :: rest))[pre.length + 1]? = some 34 := by
      simp [jsonEscape, getElem?_mid1]
    unfold parseString
    simp [h1, jsonEscape]
  | cons c cs ih =>
    intro pre x rest acc f hf
    obtain ⟨f, rfl⟩ : ∃ g, f = g + 1 := ⟨f - 1, by simp at hf; omega⟩
    have hf' : cs.length < f := by simp at hf; omega
    rcases escChar_cases c with ⟨he, h34, h92⟩ | ⟨e, he, hu⟩
    · -- plain character
      have hs : pre ++ x :: (jsonEscape (c :: cs) ++ 34 :: rest) = (pre ++ [x]) ++ c :: (jsonEscape cs ++ 34 :: rest) := by
        simp [jsonEscape, he]
      have h1 : (pre ++ x :: (jsonEscape (c :: cs) ++ 34 :: rest))[pre.length + 1]? = some c := by
        simp [jsonEscape, he, getElem?_mid1]
      unfold parseString
      simp only [h1, h34, h92, if_false]
      rw [hs]
      have := ih (pre ++ [x]) c rest (acc ++ [c]) f hf'
      simp only [List.length_append, List.length_cons, List.length_nil] at this
      rw [this]
      simp [jsonEscape, he]; omega
    · -- backslash escape
      have hs : pre ++ x :: (jsonEscape (c :: cs) ++ 34 :: rest) = (pre ++ [x, 92]) ++ e :: (jsonEscape cs ++ 34 :: rest) := by
        simp [jsonEscape, he]
      have h1 : (pre ++ x :: (jsonEscape (c :: cs) ++ 34 :: rest))[pre.length + 1]? = some 92 := by
        simp [jsonEscape, he, getElem?_mid1]
      have h2 : (pre ++ x :: (jsonEscape (c :: cs) ++ 34 :: rest))[pre.length + 2]? = some e := by
        rw [hs]; have := getElem?_mid (pre ++ [x, 92]) (jsonEscape cs ++ 34 :: rest) e; simpa using this
      unfold parseString
      simp only [h1, h2, hu, show (92 : Nat) ≠ 34 by decide, if_false, if_true]
      rw [hs]
      have := ih (pre ++ [x, 92]) e rest (acc ++ [c]) f hf'
      simp only [List.length_append, List.length_cons, List.length_nil] at this
      rw [this]
      simp [jsonEscape, he]; omega

theorem go_snoc (xs : List Nat) : ∀ (t : Int) (c : Nat), (∀ x ∈ xs, 48 ≤ x ∧ x ≤ 57) →
    parseNumInt.go (xs ++ [c]) t = parseNumInt.go [c] (parseNumInt.go xs t) := by
  induction xs with
  | nil => intro t c _; rfl
  | cons x xs ih =>
    intro t c h
    have hx := h x (by simp)
    have hx1 : ¬ (x < 48) := by omega
    have hx2 : ¬ (x > 57) := by omega
    simp only [List.cons_append, parseNumInt.go, hx1, hx2, Bool.or_self, decide_false, Bool.false_eq_true, if_false]
    exact ih _ c (fun y hy => h y (by simp [hy]))

theorem decDigits_digits : ∀ (f n : Nat), ∀ x ∈ decDigits f n, 48 ≤ x ∧ x ≤ 57 := by
  intro f
  induction f with
  | zero => intro n x hx; simp [decDigits] at hx
  | succ f ih =>
    intro n x hx
    unfold decDigits at hx
    split at hx
    · simp at hx; omega
    · simp at hx
      rcases hx with hx | hx
      · exact ih _ x hx
      · omega

/-- **Integers round-trip**: printing a non-negative 63-bit value in decimal and reading it back with
    `parse_num<int64_t>` (wrap-around arithmetic included in the model) yields the value. -/
theorem digits_roundtrip : ∀ (f n : Nat), n < f → n < 9223372036854775808 →
    parseNumInt.go (decDigits f n) 0 = (n : Int) := by
  intro f
  induction f with
  | zero => intro n h; omega
  | succ f ih =>
    intro n hf hn
    unfold decDigits
    split
    · rename_i h10
      have h1 : ¬ (48 + n < 48) := by omega
      have h2 : ¬ (48 + n > 57) := by omega
      simp [parseNumInt.go, h1, h2, wrap64]
      omega
    · rename_i h10
      rw [go_snoc _ _ _ (decDigits_digits f (n / 10))]
      rw [ih (n / 10) (by omega) (by omega)]
      have h1 : ¬ (48 + n % 10 < 48) := by omega
      have h2 : ¬ (48 + n % 10 > 57) := by omega
      simp [parseNumInt.go, h1, h2, wrap64]
      omega


end ChaiVerif.C18
