import ChaiVerif.Model.Chai.Eval
namespace ChaiVerif.Chai

theorem modifyLast_length {α} (f : α → α) (xs : List α) : (modifyLast f xs).length = xs.length := by
  induction xs with
  | nil => rfl
  | cons x xs ih => cases xs <;> simp_all [modifyLast]

theorem map_modifyLast {α β} (g : α → β) (f : α → α) (f' : β → β) (h : ∀ a, g (f a) = f' (g a)) (xs : List α) :
    (modifyLast f xs).map g = modifyLast f' (xs.map g) := by
  induction xs with
  | nil => rfl
  | cons x xs ih => cases xs <;> simp_all [modifyLast]

theorem modifyLast_modifyLast {α} (f g : α → α) (xs : List α) : modifyLast f (modifyLast g xs) = modifyLast (f ∘ g) xs := by
  induction xs with
  | nil => rfl
  | cons x xs ih =>
    cases xs with
    | nil => simp [modifyLast]
    | cons y ys =>
      cases h : modifyLast g (y :: ys) with
      | nil => have := modifyLast_length g (y :: ys); rw [h] at this; simp at this
      | cons z zs =>
        have e1 : modifyLast g (x :: y :: ys) = x :: modifyLast g (y :: ys) := rfl
        have e2 : modifyLast (f ∘ g) (x :: y :: ys) = x :: modifyLast (f ∘ g) (y :: ys) := rfl
        rw [e1, e2, h]
        have e3 : modifyLast f (x :: z :: zs) = x :: modifyLast f (z :: zs) := rfl
        rw [e3, ← h, ih]

theorem modifyLast_id' {α} (f : α → α) (h : ∀ a, f a = a) (xs : List α) : modifyLast f xs = xs := by
  induction xs with
  | nil => rfl
  | cons x xs ih => cases xs <;> simp_all [modifyLast]

/-- lengths of the scopes of each stack -/
def lens (st : List (List Scope)) : List Nat := st.map List.length

theorem lens_push (st : List (List Scope)) : lens (modifyLast (· ++ [[]]) st) = modifyLast (· + 1) (lens st) :=
  map_modifyLast _ _ _ (by intro a; simp) st
theorem lens_pop (st : List (List Scope)) : lens (modifyLast List.dropLast st) = modifyLast (· - 1) (lens st) :=
  map_modifyLast _ _ _ (by intro a; simp) st
theorem lens_inner {g : Scope → Scope} (st : List (List Scope)) : lens (modifyLast (modifyLast g) st) = lens st := by
  unfold lens
  rw [map_modifyLast List.length (modifyLast g) id (by intro a; simp [modifyLast_length])]
  exact modifyLast_id' _ (by intro a; rfl) _

@[simp] theorem shape_setCell (s : St) (l : Loc) (c : Cell) : (s.setCell l c).shape = s.shape := rfl
@[simp] theorem shape_allocV (s : St) (v : Val) (c r : Bool) : (s.allocV v c r).2.shape = s.shape := rfl
@[simp] theorem shape_setVal (s : St) (l : Loc) (v : Val) : (s.setVal l v).shape = s.shape := rfl
@[simp] theorem shape_saveParams (s : St) (ls : List Loc) : (s.saveParams ls).shape = s.shape := by
  simp [St.shape, St.saveParams, modifyLast_length]
theorem shape_addObject (s s' : St) (x : Name) (l : Loc) (h : s.addObject x l = some s') : s'.shape = s.shape := by
  unfold St.addObject at h
  split at h
  · simp at h
  · split at h
    · simp at h
    · simp at h; subst h
      simp only [St.shape]
      have := lens_inner (g := (· ++ [(x, l)])) s.stacks
      simp only [lens] at this
      rw [this]

theorem shape_addAll : ∀ (ps : List (Name × Loc)) (s s' : St), addAll s ps = some s' → s'.shape = s.shape := by
  intro ps
  induction ps with
  | nil => intro s s' h; simp [addAll] at h; subst h; rfl
  | cons p ps ih =>
    intro s s' h
    obtain ⟨x, l⟩ := p
    simp only [addAll] at h
    split at h
    · rename_i s1 h1
      rw [ih _ _ h, shape_addObject _ _ _ _ h1]
    · simp at h

theorem shape_cold (s : St) (nid : Nat) (x : Name) : (s.cold nid x).2.shape = s.shape := by
  unfold St.cold
  simp only
  split <;> rfl

theorem shape_getObjectRaw (s : St) (nid : Nat) (x : Name) : (s.getObjectRaw nid x).2.shape = s.shape := by
  unfold St.getObjectRaw
  repeat' split
  all_goals first | rfl | exact shape_cold _ _ _ | (rw [shape_cold]; rfl)

@[simp] theorem shape_getObject (s : St) (nid : Nat) (x : Name) : (s.getObject nid x).2.shape = s.shape := by
  unfold St.getObject
  simp only
  split
  · exact shape_getObjectRaw s nid x
  · exact shape_getObjectRaw s nid x

@[simp] theorem shape_dropHints (s : St) (nids : List Nat) : (s.dropHints nids).shape = s.shape := rfl

theorem shape_pushpop_scope (s t : St) (h : t.shape = s.pushScope.shape) : t.popScope.shape = s.shape := by
  simp only [St.shape, St.pushScope, St.popScope, Prod.mk.injEq] at h ⊢
  obtain ⟨h1, h2, h3⟩ := h
  refine ⟨?_, ?_, h3⟩
  · have e1 := lens_pop t.stacks
    have e2 := lens_push s.stacks
    simp only [lens] at e1 e2
    rw [e1, h1, e2, modifyLast_modifyLast]
    exact modifyLast_id' _ (by intro a; simp) _
  · simp at h2 ⊢; omega

theorem shape_pushpop_stack (s t : St) (h : t.shape = s.pushStack.shape) : t.popStack.shape = s.shape := by
  simp only [St.shape, St.pushStack, St.popStack, Prod.mk.injEq] at h ⊢
  obtain ⟨h1, h2, h3⟩ := h
  refine ⟨?_, h2, h3⟩
  have : (t.stacks.map List.length).dropLast = s.stacks.map List.length := by rw [h1]; simp
  simpa [List.map_dropLast] using this

theorem shape_enterleave (s t : St) (h : t.shape = s.enterCall.shape) : t.leaveCall.shape = s.shape := by
  simp only [St.shape, St.enterCall, St.leaveCall, Prod.mk.injEq] at h ⊢
  obtain ⟨h1, h2, h3⟩ := h
  refine ⟨h1, ?_, by omega⟩
  split <;> simp [modifyLast_length, h2]

theorem withScope_shape (g : St → R) (s : St) (h : ∀ t, (g t).2.shape = t.shape) : (withScope g s).2.shape = s.shape :=
  shape_pushpop_scope s _ (h _)
theorem withStack_shape (g : St → R) (s : St) (h : ∀ t, (g t).2.shape = t.shape) : (withStack g s).2.shape = s.shape :=
  shape_pushpop_stack s _ (h _)
theorem withFnCall_shape (g : St → R) (s : St) (h : ∀ t, (g t).2.shape = t.shape) : (withFnCall g s).2.shape = s.shape :=
  shape_enterleave s _ (h _)

theorem bnd_shape (r : R) (k : Loc → St → R) (s : St) (hr : r.2.shape = s.shape)
    (hk : ∀ l t, t.shape = s.shape → (k l t).2.shape = s.shape) : (bnd r k).2.shape = s.shape := by
  obtain ⟨o, t⟩ := r
  cases o <;> simp only [bnd] <;> first | exact hk _ _ hr | exact hr

@[simp] theorem shape_allocVal (s : St) (v : Val) (c r : Bool) : (allocVal s v c r).2.shape = s.shape := rfl

theorem shape_cloneIfNecessary (s : St) (l : Loc) : (cloneIfNecessary s l).2.shape = s.shape := by
  unfold cloneIfNecessary; simp only; split <;> simp

end ChaiVerif.Chai
