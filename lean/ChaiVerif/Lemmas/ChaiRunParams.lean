/-
Saved call parameters (`Stack_Holder::call_params`, property C09 / C11): an evaluation changes at most the LAST entry of call_params,
and when it was started outside any call (call depth 0) that entry is afterwards either what it was or empty — saved parameters and
converted temporaries are released when the outermost call returns.
-/
import ChaiVerif.Lemmas.ChaiRunShape
import ChaiVerif.Lemmas.ChaiFrame
namespace ChaiVerif.Chai

/-- `t`'s call_params are `s`'s with the last entry replaced by `e`; started at depth 0, `e` is the old entry or empty -/
def PFrame (s t : St) : Prop :=
  t.depth = s.depth ∧ ∃ e : List Loc, t.params = modifyLast (fun _ => e) s.params ∧ (s.depth = 0 → e = [] ∨ s.params.getLast? = some e)

theorem getLast?_modifyLast {α} (f : α → α) : ∀ (l : List α), (modifyLast f l).getLast? = l.getLast?.map f := by
  intro l
  induction l with
  | nil => rfl
  | cons x xs ih =>
    cases xs with
    | nil => rfl
    | cons y ys =>
      have e : modifyLast f (x :: y :: ys) = x :: modifyLast f (y :: ys) := rfl
      rw [e]
      have hne : modifyLast f (y :: ys) ≠ [] := by
        intro h; have := congrArg List.length h; rw [modifyLast_length] at this; simp at this
      cases hm : modifyLast f (y :: ys) with
      | nil => exact absurd hm hne
      | cons z zs =>
        rw [List.getLast?_cons_cons, ← hm, ih]
        simp [List.getLast?_cons_cons]

theorem modifyLast_const_self {α} (l : List α) (e : α) (h : l.getLast? = some e) : modifyLast (fun _ => e) l = l := by
  induction l with
  | nil => rfl
  | cons x xs ih =>
    cases xs with
    | nil => simp at h; subst h; rfl
    | cons y ys =>
      have e1 : modifyLast (fun _ => e) (x :: y :: ys) = x :: modifyLast (fun _ => e) (y :: ys) := rfl
      rw [e1, ih (by simpa [List.getLast?_cons_cons] using h)]

theorem PFrame.refl (s : St) : PFrame s s := by
  refine ⟨rfl, ?_⟩
  cases h : s.params.getLast? with
  | none =>
    have : s.params = [] := List.getLast?_eq_none_iff.mp h
    exact ⟨[], by rw [this]; rfl, fun _ => Or.inl rfl⟩
  | some e => exact ⟨e, (modifyLast_const_self _ _ h).symm, fun _ => Or.inr rfl⟩

theorem PFrame.of_eq {s t : St} (hd : t.depth = s.depth) (hp : t.params = s.params) : PFrame s t := by
  obtain ⟨_, e, he, hc⟩ := PFrame.refl s
  exact ⟨hd, e, hp.trans he, hc⟩

theorem PFrame.trans {s t u : St} (h1 : PFrame s t) (h2 : PFrame t u) : PFrame s u := by
  obtain ⟨d1, e1, p1, c1⟩ := h1
  obtain ⟨d2, e2, p2, c2⟩ := h2
  refine ⟨d2.trans d1, e2, ?_, ?_⟩
  · rw [p2, p1, modifyLast_modifyLast]; rfl
  · intro h0
    rcases c2 (d1.trans h0) with h | h
    · exact Or.inl h
    · rw [p1, getLast?_modifyLast] at h
      cases hl : s.params.getLast? with
      | none => rw [hl] at h; simp at h
      | some x =>
        rw [hl] at h; simp at h; subst h
        rcases c1 h0 with hh | hh
        · exact Or.inl hh
        · rw [hl] at hh; exact Or.inr hh

/-- saving parameters is only done inside a call -/
theorem PFrame.save {s : St} (ls : List Loc) (hd : s.depth ≠ 0) : PFrame s (s.saveParams ls) := by
  refine ⟨rfl, ?_⟩
  cases h : s.params.getLast? with
  | none =>
    have : s.params = [] := List.getLast?_eq_none_iff.mp h
    exact ⟨[], by simp [St.saveParams, this, modifyLast], fun h0 => absurd h0 hd⟩
  | some e =>
    refine ⟨ls ++ e, ?_, fun h0 => absurd h0 hd⟩
    simp only [St.saveParams]
    -- replacing the last entry by a function of it = replacing it by the value
    clear hd
    generalize s.params = ps at h ⊢
    induction ps with
    | nil => simp at h
    | cons x xs ih =>
      cases xs with
      | nil => simp at h; subst h; rfl
      | cons y ys =>
        have e1 : ∀ g : List Loc → List Loc, modifyLast g (x :: y :: ys) = x :: modifyLast g (y :: ys) := fun g => rfl
        rw [e1, e1, ih (by simpa [List.getLast?_cons_cons] using h)]

theorem withScope_pframe (g : St → R) (s : St) (hg : ∀ t, PFrame t (g t).2) : PFrame s (withScope g s).2 := by
  obtain ⟨hd, e, he, _⟩ := hg s.pushScope
  refine PFrame.of_eq ?_ ?_
  · simpa [withScope, St.popScope, St.pushScope] using hd
  · show (g s.pushScope).2.params.dropLast = s.params
    rw [he]
    simp only [St.pushScope]
    rw [modifyLast_append_singleton]
    simp

theorem withStack_pframe (g : St → R) (s : St) (hg : ∀ t, PFrame t (g t).2) : PFrame s (withStack g s).2 := by
  obtain ⟨hd, e, he, hc⟩ := hg s.pushStack
  exact ⟨by simpa [withStack, St.popStack, St.pushStack] using hd, e, by simpa [withStack, St.popStack, St.pushStack] using he,
         by simpa [St.pushStack] using hc⟩

theorem withFnCall_pframe (g : St → R) (s : St) (hg : ∀ t, t.depth ≠ 0 → PFrame t (g t).2) : PFrame s (withFnCall g s).2 := by
  obtain ⟨hd, e, he, _⟩ := hg s.enterCall (by simp [St.enterCall])
  have hdep : (g s.enterCall).2.depth = s.depth + 1 := by simpa [St.enterCall] using hd
  simp only [withFnCall, St.leaveCall, hdep, Nat.add_sub_cancel]
  refine ⟨rfl, ?_⟩
  by_cases h0 : s.depth = 0
  · simp only [h0, beq_self_eq_true, if_true]
    refine ⟨[], ?_, fun _ => Or.inl rfl⟩
    rw [he]; simp only [St.enterCall]; rw [modifyLast_modifyLast]; rfl
  · have : (s.depth == 0) = false := by simpa using h0
    simp only [this]
    exact ⟨e, by simpa [St.enterCall] using he, fun h => absurd h h0⟩

theorem bnd_pframe (r : R) (k : Loc → St → R) (s : St) (hr : PFrame s r.2) (hk : ∀ l t, PFrame t (k l t).2) : PFrame s (bnd r k).2 := by
  obtain ⟨o, t⟩ := r
  cases o <;> first | exact hr.trans (hk _ _) | exact hr

theorem bnd_pframe_d (r : R) (k : Loc → St → R) (s : St) (hr : PFrame s r.2) (hk : ∀ l t, t.depth = s.depth → PFrame t (k l t).2) :
    PFrame s (bnd r k).2 := by
  obtain ⟨o, t⟩ := r
  cases o <;> first | exact hr.trans (hk _ _ hr.1) | exact hr

theorem pframe_alloc (s : St) (v : Val) (c r : Bool) : PFrame s (s.allocV v c r).2 := PFrame.of_eq rfl rfl
theorem pframe_allocVal (s : St) (v : Val) (c r : Bool) : PFrame s (allocVal s v c r).2 := PFrame.of_eq rfl rfl

theorem PFrame.of_addObject {s s' : St} {x : Name} {l : Loc} (h : s.addObject x l = some s') : PFrame s s' := by
  unfold St.addObject at h
  split at h
  · cases h
  · split at h
    · cases h
    · cases h; exact PFrame.of_eq rfl rfl

theorem PFrame.of_addAll : ∀ (ps : List (Name × Loc)) {s s' : St}, addAll s ps = some s' → PFrame s s' := by
  intro ps
  induction ps with
  | nil => intro s s' h; simp [ChaiVerif.Chai.addAll] at h; subst h; exact PFrame.refl _
  | cons p ps ih =>
    intro s s' h
    obtain ⟨x, l⟩ := p
    simp only [ChaiVerif.Chai.addAll] at h
    split at h
    · rename_i s1 h1; exact (PFrame.of_addObject h1).trans (ih h)
    · cases h

theorem pframe_getObject (s : St) (nid : Nat) (x : Name) : PFrame s (s.getObject nid x).2 := by
  have raw : (s.getObjectRaw nid x).2.depth = s.depth ∧ (s.getObjectRaw nid x).2.params = s.params := by
    unfold St.getObjectRaw St.cold St.dropHint
    repeat' split
    all_goals exact ⟨rfl, rfl⟩
  unfold St.getObject
  simp only
  split
  · exact PFrame.of_eq raw.1 raw.2
  · exact PFrame.of_eq raw.1 raw.2

theorem pframe_clone (s : St) (l : Loc) : PFrame s (cloneIfNecessary s l).2 := by
  unfold cloneIfNecessary
  simp only
  split <;> exact PFrame.of_eq rfl rfl

end ChaiVerif.Chai
