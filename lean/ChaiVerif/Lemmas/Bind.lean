/-
Helper lemmas for M-BIND (Props/C06): the two loops of `Bound_Function::build_param_list` against the specification `fill`.
-/
import ChaiVerif.Model.Bind
namespace ChaiVerif.Bind

theorem fill_nil {α : Type} (ps : List α) : fill ([] : List (Option α)) ps = ps := by
  cases ps <;> rfl

theorem copyBound_fill {α : Type} : ∀ (bs : List (Option α)) (acc ps : List α),
    (copyBound bs acc).2 ++ fill (copyBound bs acc).1 ps = acc ++ fill bs ps ∧
    (copyBound bs acc).1.length ≤ bs.length ∧
    ((copyBound bs acc).1 = [] ∨ ∃ rest, (copyBound bs acc).1 = none :: rest) := by
  intro bs
  induction bs with
  | nil => intro acc ps; exact ⟨rfl, Nat.le_refl _, Or.inl rfl⟩
  | cons b rest ih =>
    intro acc ps
    cases b with
    | none => exact ⟨rfl, Nat.le_refl _, Or.inr ⟨rest, rfl⟩⟩
    | some v =>
      simp only [copyBound]
      obtain ⟨h1, h2, h3⟩ := ih (acc ++ [v]) ps
      refine ⟨?_, Nat.le_succ_of_le h2, h3⟩
      rw [h1]
      simp [fill]

theorem bindLoop_eq {α : Type} : ∀ (fuel : Nat) (bs : List (Option α)) (ps acc : List α),
    bs.length + ps.length < fuel → bindLoop fuel bs ps acc = acc ++ fill bs ps := by
  intro fuel
  induction fuel with
  | zero => intro bs ps acc h; omega
  | succ fuel ih =>
    intro bs ps acc h
    simp only [bindLoop]
    split
    · rename_i he
      simp only [Bool.and_eq_true, List.isEmpty_iff] at he
      obtain ⟨rfl, rfl⟩ := he
      simp [fill]
    · rename_i hne
      obtain ⟨h1, h2, h3⟩ := copyBound_fill bs acc ps
      simp only [bindStep]
      generalize hcb : copyBound bs acc = cb at h1 h2 h3
      obtain ⟨bs1, acc1⟩ := cb
      simp only [] at h1 h2 h3 ⊢
      rcases h3 with rfl | ⟨rest, rfl⟩
      · -- no placeholder left
        cases ps with
        | nil =>
          -- then bs was not empty, and everything has been copied
          simp only []
          have : bindLoop fuel ([] : List (Option α)) [] acc1 = acc1 ++ fill [] [] := by
            cases fuel with
            | zero =>
              exfalso
              cases bs with
              | nil => simp at hne
              | cons b r => simp at h
            | succ f => simp [bindLoop, fill]
          rw [this, h1]
        | cons p rest =>
          simp only []
          rw [ih [] rest (acc1 ++ [p]) (by simp at h ⊢; omega)]
          rw [← h1]
          simp [fill_nil]
      · cases ps with
        | nil =>
          simp only []
          rw [ih rest [] acc1 (by simp at h h2 ⊢; omega)]
          rw [← h1]
          simp [fill]
        | cons p ps' =>
          simp only []
          rw [ih rest ps' (acc1 ++ [p]) (by simp at h h2 ⊢; omega)]
          rw [← h1]
          simp [fill]

end ChaiVerif.Bind
