import ChaiVerif.Lemmas.ChaiLits
namespace ChaiVerif.Chai

variable {n : Nat} {o0 : List Val}

/-- tactic: bring the result of a recursive `run` into the context together with its invariant -/
syntax "ihl " ident term:max term:max term:max : tactic
set_option hygiene false in
macro_rules
  | `(tactic| ihl $ih $j $t $ht) =>
    `(tactic| (have hh := $ih $j $t $ht trivial; generalize run _ _ $j $t = rr at hh ⊢; obtain ⟨oo, tt⟩ := rr; simp only [] at hh))

theorem tag_lit {s : St} (h : Lit n o0 s) (l : Loc) : Lit n o0 (tagParamAlias s l) := by
  unfold tagParamAlias
  split
  · exact h.congr rfl rfl
  · exact h

/-- **Every evaluation preserves the literal invariant.** -/
theorem run_lit (ρ : List FunDef) : ∀ (f : Nat) (j : Job) (s : St), Lit n o0 s → JobOK n j → Lit n o0 (run ρ f j s).2 := by
  intro f
  induction f with
  | zero => intro j s h _; exact h
  | succ f ih =>
    intro j s h hj
    cases j with
    | seq xs =>
      simp only [run]
      split
      · exact h.allocVal _ _ _
      · exact ih _ _ h trivial
      · exact bnd_lit _ _ (ih _ _ h trivial) (fun l t ht => ih _ _ ht trivial)
    | args xs acc =>
      simp only [run]
      split
      · exact h
      · exact bnd_lit _ _ (ih _ _ h trivial) (fun l t ht => ih _ _ ht trivial)
    | whileL c b =>
      simp only [run]
      refine bnd_lit _ _ (withScope_lit _ _ h (fun t ht => ih _ t ht trivial)) (fun l t ht => ?_)
      split
      · exact ht
      · exact ht.allocVal _ _ _
      · ihl ih (.node b) t ht
        cases oo <;> (try simp only []) <;> first | exact ih _ _ hh trivial | exact hh
    | forL c st b =>
      simp only [run]
      refine bnd_lit _ _ (withScope_lit _ _ h (fun t ht => ih _ t ht trivial)) (fun l t ht => ?_)
      split
      · exact ht
      · exact ht.allocVal _ _ _
      · ihl ih (.node b) t ht
        have key : ∀ u : St, Lit n o0 u →
            Lit n o0 (bnd (run ρ f (.node st) u) (fun _ s3 => run ρ f (.forL c st b) s3)).2 := fun u hu =>
          bnd_lit _ _ (ih _ _ hu trivial) (fun l2 t2 ht2 => ih _ _ ht2 trivial)
        cases oo <;> (try simp only []) <;> first | exact key _ hh | exact hh
    | cforL il hi b =>
      simp only [run]
      split
      · split
        · ihl ih (.node b) s h
          have key : ∀ u : St, Lit n o0 u →
              Lit n o0 (match u.val il with
               | .int j => if (u.cell il).const then ((.thrown (.evalErr .assignConst), u) : R) else run ρ f (.cforL il hi b) (u.setVal il (.int (j + 1)))
               | _ => (.thrown (.evalErr .other), u)).2 := by
            intro u hu
            split
            · split
              · exact hu
              · rename_i hcst
                exact ih _ _ (hu.setVal il _ (by simpa using hcst)) hj
            · exact hu
          cases oo <;> (try simp only []) <;> first | exact key _ hh | exact hh
        · exact h.allocVal _ _ _
      · exact h
    | callFn fid caps args =>
      simp only [run]
      split
      · exact h
      · rename_i fd hfd
        refine withStack_lit _ _ h (fun t ht => ?_)
        split
        · exact ht
        · rename_i s1 h1
          have e1 := ht.addAll _ h1
          split
          · exact e1
          · rename_i s2 h2
            have e2 := e1.addAll _ h2
            ihl ih (.node fd.body) s2 e2
            cases oo <;> (try simp only []) <;> exact hh
    | guardFn fid args =>
      simp only [run]
      split
      · exact h
      · rename_i fd hfd
        split
        · exact h.allocVal _ _ _
        · rename_i g hg
          refine withStack_lit _ _ h (fun t ht => ?_)
          split
          · exact ht
          · rename_i s2 h2
            have e2 := ht.addAll _ h2
            ihl ih (.node g) s2 e2
            cases oo <;> (try simp only []) <;> exact hh
    | dispatch cands args =>
      simp only [run]
      split
      · exact h
      · rename_i g rest
        split
        · exact h
        · rename_i fd hfd
          split
          · exact ih _ _ h trivial
          · split
            · exact ih _ _ h trivial
            · ihl ih (.guardFn g args) s h
              cases oo <;> try exact hh
              simp only []
              split
              · exact ih _ _ hh trivial
              · exact ih _ _ hh trivial
    | catches cs exc =>
      simp only [run]
      split
      · exact h
      · rename_i param body rest
        generalize hgen : withScope _ s = rw
        have hw : Lit n o0 rw.2 := by
          rw [← hgen]
          refine withScope_lit _ _ h (fun t ht => ?_)
          split
          · ihl ih (.node body) t ht
            cases oo <;> (try simp only []) <;> exact hh
          · split
            · split
              · rename_i s1 h1
                have e1 := ht.addObject h1
                ihl ih (.node body) s1 e1
                cases oo <;> (try simp only []) <;> exact hh
              · exact ht
            · exact ht
        clear hgen
        obtain ⟨o, t⟩ := rw
        cases o <;> (try simp only []) <;> first | exact hw | exact ih (Job.catches _ _) _ hw trivial
    | node nd =>
      clear hj
      cases nd with
      | const l => exact h
      | noop => simp only [run]; exact h.allocVal _ _ _
      | id nid x =>
        simp only [run]
        have hg := h.getObject nid x
        generalize s.getObject nid x = r at hg ⊢
        obtain ⟨res, s1⟩ := r
        cases res <;> (try simp only []) <;> first | exact hg | exact hg.allocVal _ _ _
      | varDecl x =>
        simp only [run]
        split
        · rename_i s2 h2; exact (h.alloc _ _ _).addObject h2
        · exact h.alloc _ _ _
      | refDecl x =>
        simp only [run]
        split
        · rename_i s2 h2; exact (h.alloc _ _ _).addObject h2
        · exact h.alloc _ _ _
      | assignDecl x e =>
        simp only [run]
        refine withFnCall_lit _ _ h (fun s0 hs0 => ?_)
        refine bnd_lit _ _ (ih _ _ hs0 trivial) (fun l t ht => ?_)
        have htag := tag_lit ht l
        have hc := htag.clone l
        generalize hcl : cloneIfNecessary (tagParamAlias t l) l = rc at hc ⊢
        obtain ⟨oc, t2⟩ := rc
        cases oc <;> simp only [bnd] <;> try exact hc.1
        rename_i l2
        have hset : Lit n o0 (t2.setCell l2 { t2.cell l2 with ret := false }) :=
          hc.1.setCell l2 _ (hc.2 l2 t2 rfl).2 (fun hlt => by
            have := hc.1.safe l2 hlt
            exact ⟨this.1, rfl⟩)
        split
        · rename_i s4 h4; exact hset.addObject h4
        · exact hset
      | eq op lhs rhs =>
        simp only [run]
        refine withFnCall_lit _ _ h (fun t0 ht0 => ?_)
        refine bnd_lit _ _ (ih _ _ ht0 trivial) (fun r t ht => ?_)
        refine bnd_lit _ _ (ih _ _ ht trivial) (fun l t2 ht2 => ?_)
        -- every handle copied from the rhs keeps the rhs's constness: literals stay protected
        split
        · exact ht2
        · split
          · exact ht2
          · rename_i hnc
            have hconst : (t2.cell l).const = false := by simpa using hnc
            have hnl : n ≤ l := ht2.not_handle_of_mutable l (Or.inl hconst)
            have hcopy : Lit n o0 (t2.setCell l { t2.cell r with ret := false }) :=
              ht2.setCell l _ hnl (fun hlt => by
                have := ht2.safe r hlt
                exact ⟨this.1, rfl⟩)
            have hclone := (tag_lit ht2 r).clone r
            cases op with
            | refAssign =>
              simp only []
              repeat' split
              all_goals first | exact hcopy | exact ht2
            | assign =>
              simp only []
              split
              · exact ht2.setVal l _ hconst
              · split
                · exact hcopy
                · generalize hcl : cloneIfNecessary (tagParamAlias t2 r) r = rc at hclone ⊢
                  obtain ⟨oc, t3⟩ := rc
                  cases oc <;> (try simp only []) <;> try exact hclone.1
                  rename_i r2
                  have hge := (hclone.2 r2 t3 rfl).1
                  exact hclone.1.setCell l _ hnl (fun hlt => by simp at hlt; omega)
              · exact ht2.setVal l _ hconst
              · exact ht2.setVal l _ hconst
              · exact ht2.setVal l _ hconst
              · exact ht2
            | addAsg =>
              simp only []
              split
              · exact ht2.setVal l _ hconst
              · exact ht2
            | subAsg =>
              simp only []
              split
              · exact ht2.setVal l _ hconst
              · exact ht2
            | mulAsg =>
              simp only []
              split
              · exact ht2.setVal l _ hconst
              · exact ht2
      | bin op a b =>
        simp only [run]
        refine bnd_lit _ _ (ih _ _ h trivial) (fun la t ht => ?_)
        refine bnd_lit _ _ (ih _ _ ht trivial) (fun lb t2 ht2 => ?_)
        split
        · split
          · exact ht2.allocVal _ _ _
          · exact ht2
        · refine withFnCall_lit _ _ ht2 (fun t3 ht3 => ?_)
          have hsp : Lit n o0 (t3.saveParams [la, lb]) := ht3.congr rfl rfl
          repeat' split
          all_goals first | exact hsp.allocVal _ _ _ | exact hsp
      | evalStr nids nd =>
        simp only [run]
        refine withFnCall_lit _ _ h (fun t0 ht0 => ?_)
        ihl ih (.node nd) (t0.dropHints nids) (ht0.congr rfl rfl)
        cases oo <;> try exact hh
        rename_i e
        cases e <;> first | exact hh | exact hh.alloc _ _ _
      | foldR op a c =>
        simp only [run]
        refine bnd_lit _ _ (ih _ _ h trivial) (fun la t ht => ?_)
        split
        · split
          · exact ht.allocVal _ _ _
          · exact ht
        · exact withFnCall_lit _ _ ht (fun t3 ht3 => ht3.congr rfl rfl)
      | pre op a =>
        simp only [run]
        refine bnd_lit _ _ (ih _ _ h trivial) (fun la t ht => ?_)
        try simp only []
        split
        · exact ht.allocVal _ _ _
        · split
          · exact ht
          · rename_i hc; exact ht.setVal la _ (by simpa using hc)
        · split
          · exact ht
          · rename_i hc; exact ht.setVal la _ (by simpa using hc)
        · exact withFnCall_lit _ _ ht (fun t3 ht3 => (ht3.congr (t := t3.saveParams [la]) rfl rfl).allocVal _ _ _)
        · exact withFnCall_lit _ _ ht (fun t3 ht3 => ht3.congr rfl rfl)
      | and a b =>
        simp only [run]
        refine bnd_lit _ _ (ih _ _ h trivial) (fun la t ht => ?_)
        split
        · exact ht
        · exact ht.allocVal _ _ _
        · refine bnd_lit _ _ (ih _ _ ht trivial) (fun lb t2 ht2 => ?_)
          split
          · exact ht2
          · exact ht2.allocVal _ _ _
      | or a b =>
        simp only [run]
        refine bnd_lit _ _ (ih _ _ h trivial) (fun la t ht => ?_)
        split
        · exact ht
        · exact ht.allocVal _ _ _
        · refine bnd_lit _ _ (ih _ _ ht trivial) (fun lb t2 ht2 => ?_)
          split
          · exact ht2
          · exact ht2.allocVal _ _ _
      | block xs => simp only [run]; exact withScope_lit _ _ h (fun t ht => ih _ t ht trivial)
      | scopeless xs => simp only [run]; exact ih _ _ h trivial
      | ifN c t e =>
        simp only [run]
        refine bnd_lit _ _ (ih _ _ h trivial) (fun lc t1 ht => ?_)
        split
        · exact ht
        · exact ih _ _ ht trivial
        · exact ih _ _ ht trivial
      | whileN c b =>
        simp only [run]
        refine withScope_lit _ _ h (fun t ht => ?_)
        ihl ih (.whileL c b) t ht
        cases oo <;> (try simp only []) <;> first | exact hh | exact hh.allocVal _ _ _
      | forN i c st b =>
        simp only [run]
        refine withScope_lit _ _ h (fun t ht => ?_)
        refine bnd_lit _ _ (ih _ _ ht trivial) (fun l t1 ht1 => ?_)
        ihl ih (.forL c st b) t1 ht1
        cases oo <;> (try simp only []) <;> first | exact hh | exact hh.allocVal _ _ _
      | cfor x lo hi b =>
        simp only [run]
        refine withScope_lit _ _ h (fun t ht => ?_)
        try simp only []
        split
        · exact ht.alloc _ _ _
        · rename_i s2 h2
          have e2 := (ht.alloc (.int lo) false false).addObject h2
          have hh := ih (.cforL (t.allocV (.int lo)).1 hi b) s2 e2 trivial
          generalize run ρ f (.cforL (t.allocV (.int lo)).1 hi b) s2 = rr at hh ⊢
          obtain ⟨oo, tt⟩ := rr
          simp only [] at hh
          cases oo <;> (try simp only []) <;> first | exact hh | exact hh.allocVal _ _ _
      | brk => exact h
      | cont => exact h
      | ret e =>
        simp only [run]
        split
        · exact h.allocVal _ _ _
        · rename_i e'
          ihl ih (.node e') s h
          cases oo <;> (try simp only []) <;> exact hh
      | lambda fid caps =>
        simp only [run]
        have hc := evalCaps_lit caps [] s h
        generalize run.evalCaps caps [] s = r at hc ⊢
        obtain ⟨o, s1⟩ := r
        cases o <;> (try simp only []) <;> first | exact hc.allocVal _ _ _ | exact hc
      | def_ name fid =>
        simp only [run]
        repeat' split
        all_goals first | exact h | (refine Lit.allocVal ?_ _ _ _; exact Lit.congr h rfl rfl)
      | call unused fe args =>
        simp only [run]
        refine withFnCall_lit _ _ h (fun t0 ht0 => ?_)
        ihl ih (.args args []) t0 ht0
        cases oo <;> try exact hh
        rename_i as_
        try simp only []
        have hs2 : Lit n o0 (if unused = true then tt else tt.saveParams as_) := by
          split
          · exact hh
          · exact hh.congr rfl rfl
        refine bnd_lit _ _ (ih _ _ hs2 trivial) (fun lf t3 ht3 => ?_)
        have hout : ∀ v, Lit n o0 ({ t3 with out := t3.out ++ [v] } : St) := fun v => ht3.congr rfl rfl
        have hnat : ∀ k vs, Lit n o0 ({ t3 with natLog := t3.natLog ++ [(k, vs)], natCount := t3.natCount + 1 } : St) :=
          fun k vs => ht3.congr rfl rfl
        repeat' split
        all_goals first
          | exact ht3
          | exact ih _ _ ht3 trivial
          | exact ht3.allocVal _ _ _
          | exact (hout _).allocVal _ _ _
          | exact (hnat _ _).allocVal _ _ _
          | exact (hnat _ _).alloc _ _ _
          | exact hnat _ _
      | tryN body cs fin =>
        simp only [run]
        refine withScope_lit _ _ h (fun t0 ht0 => ?_)
        have hfin : ∀ (s1 : St) (k : St → R), Lit n o0 s1 → (∀ u, Lit n o0 u → Lit n o0 (k u).2) →
            Lit n o0 (match fin with
             | none => k s1
             | some fb => (match run ρ f (.node fb) s1 with | (.val _, s2) => k s2 | r => r)).2 := by
          intro s1 k hs1 hk
          split
          · exact hk _ hs1
          · rename_i fb
            ihl ih (.node fb) s1 hs1
            cases oo <;> (try simp only []) <;> first | exact hk _ hh | exact hh
        ihl ih (.node body) t0 ht0
        cases oo with
        | val l =>
          simp only []
          split
          · exact hh
          · exact ih _ _ hh trivial
        | thrown e =>
          simp only []
          split
          · have hbox : Lit n o0 (boxExc e tt).2 := by
              cases e <;> first | exact hh | exact hh.alloc _ _ _
            generalize boxExc e tt = bx at hbox ⊢
            obtain ⟨el, s2⟩ := bx
            simp only [] at hbox ⊢
            have hc := ih (.catches cs el) s2 hbox trivial
            generalize run ρ f (.catches cs el) s2 = rc at hc ⊢
            obtain ⟨oc, s3⟩ := rc
            simp only [] at hc
            cases oc <;> try simp only []
            all_goals first
              | exact hc
              | exact hfin s3 (fun s4 => (_, s4)) hc (fun _ hu => hu)
              | (split
                 · exact hc
                 · exact ih (Job.node _) _ hc trivial)
          · exact hfin tt (fun s2 => (Out.thrown e, s2)) hh (fun _ hu => hu)
        | oof => exact hh
        | vals ls => exact hfin tt (fun s2 => (Out.vals ls, s2)) hh (fun _ hu => hu)
        | brk => exact hfin tt (fun s2 => (Out.brk, s2)) hh (fun _ hu => hu)
        | cont => exact hfin tt (fun s2 => (Out.cont, s2)) hh (fun _ hu => hu)
        | ret l => exact hfin tt (fun s2 => (Out.ret l, s2)) hh (fun _ hu => hu)
        | noMatch => exact hfin tt (fun s2 => (Out.noMatch, s2)) hh (fun _ hu => hu)
      | inlineVec xs =>
        simp only [run]
        ihl ih (.args xs []) s h
        cases oo <;> (try simp only []) <;> try exact hh
        rename_i ls
        have hc := cloneAll_lit ls [] tt hh
        generalize run.cloneAll ls [] tt = r at hc ⊢
        obtain ⟨ls2, s2⟩ := r
        exact hc.allocVal _ _ _
      | index a i =>
        simp only [run]
        refine withFnCall_lit _ _ h (fun t0 ht0 => ?_)
        refine bnd_lit _ _ (ih _ _ ht0 trivial) (fun la t ht => ?_)
        refine bnd_lit _ _ (ih _ _ ht trivial) (fun li t2 ht2 => ?_)
        have hsp : Lit n o0 (t2.saveParams [la, li]) := ht2.congr rfl rfl
        try simp only []
        repeat' split
        all_goals exact hsp

end ChaiVerif.Chai
