import ChaiVerif.Lemmas.ChaiFrame
namespace ChaiVerif.Chai

syntax "ihf " ident term:max term:max : tactic
set_option hygiene false in
macro_rules
  | `(tactic| ihf $ih $j $t) =>
    `(tactic| (have hh := $ih $j $t; generalize run _ _ $j $t = rr at hh ⊢; obtain ⟨oo, tt⟩ := rr; simp only [] at hh))

theorem frame_alloc (s : St) (v : Val) (c r : Bool) : Frame s (s.allocV v c r).2 := Frame.of_eq rfl
theorem frame_allocVal (s : St) (v : Val) (c r : Bool) : Frame s (allocVal s v c r).2 := Frame.of_eq rfl

theorem evalCaps_frame : ∀ (caps : List (Nat × Name)) (acc : List (Name × Loc)) (s : St), Frame s (run.evalCaps caps acc s).2 := by
  intro caps
  induction caps with
  | nil => intro acc s; exact Frame.refl s
  | cons c cs ih =>
    intro acc s
    obtain ⟨nid, x⟩ := c
    simp only [run.evalCaps]
    have hg : Frame s (s.getObject nid x).2 := Frame.of_eq (stacks_getObject s nid x)
    generalize s.getObject nid x = r at hg ⊢
    obtain ⟨res, s1⟩ := r
    cases res <;> (try simp only []) <;> first | exact hg.trans (ih _ _) | exact hg

theorem cloneAll_frame : ∀ (ls : List Loc) (acc : List Loc) (s : St), Frame s (run.cloneAll ls acc s).2 := by
  intro ls
  induction ls with
  | nil => intro acc s; exact Frame.refl s
  | cons l ls ih =>
    intro acc s
    simp only [run.cloneAll]
    have hc : Frame s (cloneIfNecessary s l).2 := Frame.of_eq (stacks_clone s l)
    generalize cloneIfNecessary s l = r at hc ⊢
    obtain ⟨o, s1⟩ := r
    cases o <;> (try simp only []) <;> exact hc.trans (ih _ _)

/-- **An evaluation only ever extends the innermost scope of the current stack.** -/
theorem run_frame (ρ : List FunDef) : ∀ (f : Nat) (j : Job) (s : St), Frame s (run ρ f j s).2 := by
  intro f
  induction f with
  | zero => intro j s; exact Frame.refl s
  | succ f ih =>
    intro j s
    have scp : ∀ (g : St → R) (u : St), (∀ t, Frame t (g t).2) → Frame u (withScope g u).2 :=
      fun g u hg => Frame.of_eq (withScope_stacks g u hg)
    have stk : ∀ (g : St → R) (u : St), (∀ t, Frame t (g t).2) → Frame u (withStack g u).2 :=
      fun g u hg => Frame.of_eq (withStack_stacks g u hg)
    cases j with
    | seq xs =>
      simp only [run]
      split
      · exact frame_allocVal _ _ _ _
      · exact ih _ _
      · exact bnd_frame _ _ _ (ih _ _) (fun l t => ih _ _)
    | args xs acc =>
      simp only [run]
      split
      · exact Frame.refl s
      · exact bnd_frame _ _ _ (ih _ _) (fun l t => ih _ _)
    | whileL c b =>
      simp only [run]
      refine bnd_frame _ _ _ (scp _ _ (fun t => ih _ t)) (fun l t => ?_)
      split
      · exact Frame.refl t
      · exact frame_allocVal _ _ _ _
      · ihf ih (.node b) t
        cases oo <;> (try simp only []) <;> first | exact hh.trans (ih _ _) | exact hh
    | forL c st b =>
      simp only [run]
      refine bnd_frame _ _ _ (scp _ _ (fun t => ih _ t)) (fun l t => ?_)
      split
      · exact Frame.refl t
      · exact frame_allocVal _ _ _ _
      · ihf ih (.node b) t
        have key : ∀ u : St, Frame u (bnd (run ρ f (.node st) u) (fun _ s3 => run ρ f (.forL c st b) s3)).2 := fun u =>
          bnd_frame _ _ _ (ih _ _) (fun l2 t2 => ih _ _)
        cases oo <;> (try simp only []) <;> first | exact hh.trans (key _) | exact hh
    | cforL il hi b =>
      simp only [run]
      split
      · split
        · ihf ih (.node b) s
          have key : ∀ u : St, Frame u (match u.val il with
               | .int j => if (u.cell il).const then ((.thrown (.evalErr .assignConst), u) : R) else run ρ f (.cforL il hi b) (u.setVal il (.int (j + 1)))
               | _ => (.thrown (.evalErr .other), u)).2 := by
            intro u
            split
            · split
              · exact Frame.refl u
              · exact (Frame.of_eq (s := u) (t := u.setVal il _) rfl).trans (ih _ _)
            · exact Frame.refl u
          cases oo <;> (try simp only []) <;> first | exact hh.trans (key _) | exact hh
        · exact frame_allocVal _ _ _ _
      · exact Frame.refl s
    | callFn fid caps args =>
      simp only [run]
      split
      · exact Frame.refl s
      · rename_i fd hfd
        refine stk _ _ (fun t => ?_)
        split
        · exact Frame.refl t
        · rename_i s1 h1
          have e1 := Frame.addAll _ h1
          split
          · exact e1
          · rename_i s2 h2
            have e2 := e1.trans (Frame.addAll _ h2)
            ihf ih (.node fd.body) s2
            cases oo <;> (try simp only []) <;> exact e2.trans hh
    | guardFn fid args =>
      simp only [run]
      split
      · exact Frame.refl s
      · rename_i fd hfd
        split
        · exact frame_allocVal _ _ _ _
        · rename_i g hg
          refine stk _ _ (fun t => ?_)
          split
          · exact Frame.refl t
          · rename_i s2 h2
            have e2 := Frame.addAll _ h2
            ihf ih (.node g) s2
            cases oo <;> (try simp only []) <;> exact e2.trans hh
    | dispatch cands args =>
      simp only [run]
      split
      · exact Frame.refl s
      · rename_i g rest
        split
        · exact Frame.refl s
        · rename_i fd hfd
          split
          · exact ih _ _
          · split
            · exact ih _ _
            · ihf ih (.guardFn g args) s
              cases oo <;> try exact hh
              simp only []
              split
              · exact hh.trans (ih _ _)
              · exact hh.trans (ih _ _)
    | catches cs exc =>
      simp only [run]
      split
      · exact Frame.refl s
      · rename_i param body rest
        generalize hgen : withScope _ s = rw
        have hw : Frame s rw.2 := by
          rw [← hgen]
          refine scp _ _ (fun t => ?_)
          split
          · ihf ih (.node body) t
            cases oo <;> (try simp only []) <;> exact hh
          · split
            · split
              · rename_i s1 h1
                have e1 := Frame.addObject h1
                ihf ih (.node body) s1
                cases oo <;> (try simp only []) <;> exact e1.trans hh
              · exact Frame.refl t
            · exact Frame.refl t
        clear hgen
        obtain ⟨o, t⟩ := rw
        cases o <;> (try simp only []) <;> first | exact hw | exact hw.trans (ih (Job.catches _ _) _)
    | node nd =>
      cases nd with
      | const l => exact Frame.refl s
      | noop => simp only [run]; exact frame_allocVal _ _ _ _
      | id nid x =>
        simp only [run]
        have hg : Frame s (s.getObject nid x).2 := Frame.of_eq (stacks_getObject s nid x)
        generalize s.getObject nid x = r at hg ⊢
        obtain ⟨res, s1⟩ := r
        cases res <;> (try simp only []) <;> first | exact hg | exact hg.trans (frame_allocVal _ _ _ _)
      | varDecl x =>
        simp only [run]
        split
        · rename_i s2 h2; exact (frame_alloc _ _ _ _).trans (Frame.addObject h2)
        · exact frame_alloc _ _ _ _
      | refDecl x =>
        simp only [run]
        split
        · rename_i s2 h2; exact (frame_alloc _ _ _ _).trans (Frame.addObject h2)
        · exact frame_alloc _ _ _ _
      | assignDecl x e =>
        simp only [run]
        refine withFnCall_frame _ _ (fun s0 => ?_)
        refine bnd_frame _ _ _ (ih _ _) (fun l t => ?_)
        have htag : Frame t (tagParamAlias t l) := by
          unfold tagParamAlias
          split
          · exact Frame.of_eq rfl
          · exact Frame.refl t
        have hc : Frame (tagParamAlias t l) (cloneIfNecessary (tagParamAlias t l) l).2 := Frame.of_eq (stacks_clone _ _)
        generalize cloneIfNecessary (tagParamAlias t l) l = rc at hc ⊢
        obtain ⟨oc, t2⟩ := rc
        cases oc <;> simp only [bnd] <;> try exact htag.trans hc
        rename_i l2
        have hset : Frame t (t2.setCell l2 { t2.cell l2 with ret := false }) := (htag.trans hc).trans (Frame.of_eq rfl)
        split
        · rename_i s4 h4; exact hset.trans (Frame.addObject h4)
        · exact hset
      | eq op lhs rhs =>
        simp only [run]
        refine withFnCall_frame _ _ (fun t0 => ?_)
        refine bnd_frame _ _ _ (ih _ _) (fun r t => ?_)
        refine bnd_frame _ _ _ (ih _ _) (fun l t2 => ?_)
        have htag : Frame t2 (tagParamAlias t2 r) := by
          unfold tagParamAlias
          split
          · exact Frame.of_eq rfl
          · exact Frame.refl t2
        have hclone : Frame t2 (cloneIfNecessary (tagParamAlias t2 r) r).2 := htag.trans (Frame.of_eq (stacks_clone _ _))
        have hsv : ∀ v, Frame t2 (t2.setVal l v) := fun v => Frame.of_eq rfl
        have hsc : ∀ c, Frame t2 (t2.setCell l c) := fun c => Frame.of_eq rfl
        split
        · exact Frame.refl t2
        · split
          · exact Frame.refl t2
          · cases op with
            | refAssign =>
              simp only []
              repeat' split
              all_goals first | exact hsc _ | exact Frame.refl t2
            | assign =>
              simp only []
              split
              · exact hsv _
              · split
                · exact hsc _
                · generalize cloneIfNecessary (tagParamAlias t2 r) r = rc at hclone ⊢
                  obtain ⟨oc, t3⟩ := rc
                  cases oc <;> (try simp only []) <;> first | exact hclone | exact hclone.trans (Frame.of_eq rfl)
              · exact hsv _
              · exact hsv _
              · exact hsv _
              · exact Frame.refl t2
            | addAsg =>
              simp only []
              split
              · exact hsv _
              · exact Frame.refl t2
            | subAsg =>
              simp only []
              split
              · exact hsv _
              · exact Frame.refl t2
            | mulAsg =>
              simp only []
              split
              · exact hsv _
              · exact Frame.refl t2
      | bin op a b =>
        simp only [run]
        refine bnd_frame _ _ _ (ih _ _) (fun la t => ?_)
        refine bnd_frame _ _ _ (ih _ _) (fun lb t2 => ?_)
        split
        · split
          · exact frame_allocVal _ _ _ _
          · exact Frame.refl t2
        · refine withFnCall_frame _ _ (fun t3 => ?_)
          have hsp : Frame t3 (t3.saveParams [la, lb]) := Frame.of_eq rfl
          repeat' split
          all_goals first | exact hsp.trans (frame_allocVal _ _ _ _) | exact hsp
      | evalStr nids nd =>
        simp only [run]
        refine withFnCall_frame _ _ (fun t0 => ?_)
        have h0 : Frame t0 (t0.dropHints nids) := Frame.of_eq rfl
        ihf ih (.node nd) (t0.dropHints nids)
        cases oo <;> try exact h0.trans hh
        rename_i e
        cases e <;> first | exact h0.trans hh | exact (h0.trans hh).trans (frame_alloc _ _ _ _)
      | foldR op a c =>
        simp only [run]
        refine bnd_frame _ _ _ (ih _ _) (fun la t => ?_)
        split
        · split
          · exact frame_allocVal _ _ _ _
          · exact Frame.refl t
        · exact withFnCall_frame _ _ (fun t3 => Frame.of_eq rfl)
      | pre op a =>
        simp only [run]
        refine bnd_frame _ _ _ (ih _ _) (fun la t => ?_)
        try simp only []
        split
        · exact frame_allocVal _ _ _ _
        · split
          · exact Frame.refl t
          · exact Frame.of_eq rfl
        · split
          · exact Frame.refl t
          · exact Frame.of_eq rfl
        · exact withFnCall_frame _ _ (fun t3 => (Frame.of_eq (t := t3.saveParams [la]) rfl).trans (frame_allocVal _ _ _ _))
        · exact withFnCall_frame _ _ (fun t3 => Frame.of_eq rfl)
      | and a b =>
        simp only [run]
        refine bnd_frame _ _ _ (ih _ _) (fun la t => ?_)
        split
        · exact Frame.refl t
        · exact frame_allocVal _ _ _ _
        · refine bnd_frame _ _ _ (ih _ _) (fun lb t2 => ?_)
          split
          · exact Frame.refl t2
          · exact frame_allocVal _ _ _ _
      | or a b =>
        simp only [run]
        refine bnd_frame _ _ _ (ih _ _) (fun la t => ?_)
        split
        · exact Frame.refl t
        · exact frame_allocVal _ _ _ _
        · refine bnd_frame _ _ _ (ih _ _) (fun lb t2 => ?_)
          split
          · exact Frame.refl t2
          · exact frame_allocVal _ _ _ _
      | block xs => simp only [run]; exact scp _ _ (fun t => ih _ t)
      | scopeless xs => simp only [run]; exact ih _ _
      | ifN c t e =>
        simp only [run]
        refine bnd_frame _ _ _ (ih _ _) (fun lc t1 => ?_)
        split
        · exact Frame.refl t1
        · exact ih _ _
        · exact ih _ _
      | whileN c b =>
        simp only [run]
        refine scp _ _ (fun t => ?_)
        ihf ih (.whileL c b) t
        cases oo <;> (try simp only []) <;> first | exact hh | exact hh.trans (frame_allocVal _ _ _ _)
      | forN i c st b =>
        simp only [run]
        refine scp _ _ (fun t => ?_)
        refine bnd_frame _ _ _ (ih _ _) (fun l t1 => ?_)
        ihf ih (.forL c st b) t1
        cases oo <;> (try simp only []) <;> first | exact hh | exact hh.trans (frame_allocVal _ _ _ _)
      | cfor x lo hi b =>
        simp only [run]
        refine scp _ _ (fun t => ?_)
        try simp only []
        split
        · exact frame_alloc _ _ _ _
        · rename_i s2 h2
          have e2 := (frame_alloc t (.int lo) false false).trans (Frame.addObject h2)
          ihf ih (.cforL (t.allocV (.int lo)).1 hi b) s2
          cases oo <;> (try simp only []) <;> first | exact e2.trans hh | exact (e2.trans hh).trans (frame_allocVal _ _ _ _)
      | brk => exact Frame.refl s
      | cont => exact Frame.refl s
      | ret e =>
        simp only [run]
        split
        · exact frame_allocVal _ _ _ _
        · rename_i e'
          ihf ih (.node e') s
          cases oo <;> (try simp only []) <;> exact hh
      | lambda fid caps =>
        simp only [run]
        have hc := evalCaps_frame caps [] s
        generalize run.evalCaps caps [] s = r at hc ⊢
        obtain ⟨o, s1⟩ := r
        cases o <;> (try simp only []) <;> first | exact hc.trans (frame_allocVal _ _ _ _) | exact hc
      | def_ name fid =>
        simp only [run]
        repeat' split
        all_goals first | exact Frame.refl s | exact (Frame.of_eq rfl)
      | call unused fe args =>
        simp only [run]
        refine withFnCall_frame _ _ (fun t0 => ?_)
        ihf ih (.args args []) t0
        cases oo <;> try exact hh
        rename_i as_
        try simp only []
        have hs2 : Frame t0 (if unused = true then tt else tt.saveParams as_) := by
          split
          · exact hh
          · exact hh.trans (Frame.of_eq rfl)
        refine hs2.trans (bnd_frame _ _ _ (ih _ _) (fun lf t3 => ?_))
        have hout : ∀ v, Frame t3 ({ t3 with out := t3.out ++ [v] } : St) := fun v => Frame.of_eq rfl
        have hnat : ∀ k vs, Frame t3 ({ t3 with natLog := t3.natLog ++ [(k, vs)], natCount := t3.natCount + 1 } : St) := fun k vs => Frame.of_eq rfl
        repeat' split
        all_goals first
          | exact Frame.refl t3
          | exact ih _ _
          | exact frame_allocVal _ _ _ _
          | exact (hout _).trans (frame_allocVal _ _ _ _)
          | exact (hnat _ _).trans (frame_allocVal _ _ _ _)
          | exact (hnat _ _).trans (frame_alloc _ _ _ _)
          | exact hnat _ _
      | tryN body cs fin =>
        simp only [run]
        refine scp _ _ (fun t0 => ?_)
        have hfin : ∀ (s1 : St) (k : St → R), (∀ u, Frame u (k u).2) →
            Frame s1 (match fin with
             | none => k s1
             | some fb => (match run ρ f (.node fb) s1 with | (.val _, s2) => k s2 | r => r)).2 := by
          intro s1 k hk
          split
          · exact hk _
          · rename_i fb
            ihf ih (.node fb) s1
            cases oo <;> (try simp only []) <;> first | exact hh.trans (hk _) | exact hh
        ihf ih (.node body) t0
        cases oo with
        | val l =>
          simp only []
          split
          · exact hh
          · exact hh.trans (ih _ _)
        | thrown e =>
          simp only []
          split
          · have hbox : Frame tt (boxExc e tt).2 := by
              cases e <;> first | exact Frame.refl tt | exact frame_alloc _ _ _ _
            generalize boxExc e tt = bx at hbox ⊢
            obtain ⟨el, s2⟩ := bx
            simp only [] at hbox ⊢
            have hc := ih (.catches cs el) s2
            generalize run ρ f (.catches cs el) s2 = rc at hc ⊢
            obtain ⟨oc, s3⟩ := rc
            simp only [] at hc
            have h3 : Frame t0 s3 := (hh.trans hbox).trans hc
            cases oc <;> try simp only []
            all_goals first
              | exact h3
              | exact h3.trans (hfin s3 (fun s4 => (_, s4)) (fun _ => Frame.refl _))
              | (split
                 · exact h3
                 · exact h3.trans (ih (Job.node _) _))
          · exact hh.trans (hfin tt (fun s2 => (Out.thrown e, s2)) (fun _ => Frame.refl _))
        | oof => exact hh
        | vals ls => exact hh.trans (hfin tt (fun s2 => (Out.vals ls, s2)) (fun _ => Frame.refl _))
        | brk => exact hh.trans (hfin tt (fun s2 => (Out.brk, s2)) (fun _ => Frame.refl _))
        | cont => exact hh.trans (hfin tt (fun s2 => (Out.cont, s2)) (fun _ => Frame.refl _))
        | ret l => exact hh.trans (hfin tt (fun s2 => (Out.ret l, s2)) (fun _ => Frame.refl _))
        | noMatch => exact hh.trans (hfin tt (fun s2 => (Out.noMatch, s2)) (fun _ => Frame.refl _))
      | inlineVec xs =>
        simp only [run]
        ihf ih (.args xs []) s
        cases oo <;> (try simp only []) <;> try exact hh
        rename_i ls
        have hc := cloneAll_frame ls [] tt
        generalize run.cloneAll ls [] tt = r at hc ⊢
        obtain ⟨ls2, s2⟩ := r
        exact (hh.trans hc).trans (frame_allocVal _ _ _ _)
      | index a i =>
        simp only [run]
        refine withFnCall_frame _ _ (fun t0 => ?_)
        refine bnd_frame _ _ _ (ih _ _) (fun la t => ?_)
        refine bnd_frame _ _ _ (ih _ _) (fun li t2 => ?_)
        have hsp : Frame t2 (t2.saveParams [la, li]) := Frame.of_eq rfl
        try simp only []
        repeat' split
        all_goals exact hsp

end ChaiVerif.Chai
