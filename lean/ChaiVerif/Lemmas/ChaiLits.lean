/-
The literal invariant of the evaluator model (property C08): the first `n` objects of the heap are the
program's literals.  `Lit n o0 s` says: they still hold the values `o0`, and every Data record that points
at one of them is const and not flagged as a temporary — so neither the checked writes (`=`, `+=`, `++`)
nor the adopting paths (`clone_if_necessary` adopts temporaries) can ever reach them.

Main theorem `run_lit`: every evaluation preserves `Lit`.
-/
import ChaiVerif.Model.Chai.Eval
namespace ChaiVerif.Chai

structure Lit (n : Nat) (o0 : List Val) (s : St) : Prop where
  len : n ≤ s.objs.length
  hlen : n ≤ s.heap.length
  same : s.objs.take n = o0
  safe : ∀ l, (s.cell l).obj < n → (s.cell l).const = true ∧ (s.cell l).ret = false
  /-- the Data records of the `Constant` nodes themselves: record `k` still points at literal `k` -/
  handles : ∀ l, l < n → s.cell l = ⟨l, true, false⟩

variable {n : Nat} {o0 : List Val}

theorem Lit.congr {s t : St} (h : Lit n o0 s) (h1 : t.heap = s.heap) (h2 : t.objs = s.objs) : Lit n o0 t := by
  have hc : ∀ l, t.cell l = s.cell l := by intro l; unfold St.cell; rw [h1]
  refine ⟨by rw [h2]; exact h.len, by rw [h1]; exact h.hlen, by rw [h2]; exact h.same, ?_, ?_⟩
  · intro l; rw [hc]; exact h.safe l
  · intro l hl; rw [hc]; exact h.handles l hl

theorem cell_append (s : St) (c : Cell) (l : Loc) :
    (s.heap ++ [c]).getD l ⟨0, true, false⟩ = if l = s.heap.length then c else s.heap.getD l ⟨0, true, false⟩ := by
  by_cases h : l < s.heap.length
  · have : l ≠ s.heap.length := Nat.ne_of_lt h
    simp [List.getD, List.getElem?_append_left h, this]
  · by_cases h2 : l = s.heap.length
    · subst h2; simp [List.getD]
    · have h3 : s.heap.length + 1 ≤ l := by
        have := Nat.lt_or_ge l s.heap.length
        rcases this with h4 | h4
        · exact absurd h4 h
        · exact Nat.lt_of_le_of_ne h4 (Ne.symm h2)
      simp only [List.getD, h2, if_false]
      rw [List.getElem?_eq_none (by simp; exact h3), List.getElem?_eq_none (by exact Nat.le_of_succ_le h3)]

theorem Lit.alloc {s : St} (h : Lit n o0 s) (v : Val) (c r : Bool) : Lit n o0 (s.allocV v c r).2 := by
  refine ⟨by simp [St.allocV]; have := h.len; omega, by simp [St.allocV]; have := h.hlen; omega, ?_, ?_, ?_⟩
  · simp only [St.allocV]
    rw [List.take_append_of_le_length h.len]; exact h.same
  · intro l hl
    simp only [St.allocV, St.cell] at hl ⊢
    rw [cell_append] at hl ⊢
    split at hl
    · simp at hl; have := h.len; omega
    · rename_i hne; simp only [hne, if_false]; exact h.safe l hl
  · intro l hl
    simp only [St.allocV, St.cell]
    rw [cell_append]
    have hne : l ≠ s.heap.length := by have := h.hlen; omega
    simp only [hne, if_false]
    exact h.handles l hl

theorem Lit.allocVal {s : St} (h : Lit n o0 s) (v : Val) (c r : Bool) : Lit n o0 (allocVal s v c r).2 := h.alloc v c r

theorem cell_set (s : St) (l l' : Loc) (c : Cell) :
    (s.heap.set l c).getD l' ⟨0, true, false⟩ = if l = l' ∧ l < s.heap.length then c else s.heap.getD l' ⟨0, true, false⟩ := by
  simp only [List.getD, List.getElem?_set]
  by_cases h : l = l'
  · subst h
    by_cases h2 : l < s.heap.length
    · simp [h2]
    · simp [h2]
  · simp [h]

theorem Lit.setCell {s : St} (h : Lit n o0 s) (l : Loc) (c : Cell) (hl : n ≤ l) (hc : c.obj < n → c.const = true ∧ c.ret = false) :
    Lit n o0 (s.setCell l c) := by
  refine ⟨h.len, by simp [St.setCell]; exact h.hlen, h.same, ?_, ?_⟩
  · intro l' hl'
    simp only [St.setCell, St.cell] at hl' ⊢
    rw [cell_set] at hl' ⊢
    split at hl'
    · rename_i hcond; rw [if_pos hcond]; exact hc hl'
    · rename_i hcond; rw [if_neg hcond]; exact h.safe l' hl'
  · intro l' hl'
    simp only [St.setCell, St.cell]
    rw [cell_set]
    have hne : ¬ (l = l' ∧ l < s.heap.length) := by
      intro hh
      obtain ⟨h1, _⟩ := hh
      subst h1
      exact absurd hl' (Nat.not_lt.mpr hl)
    rw [if_neg hne]
    exact h.handles l' hl'

/-- a Data record through which the evaluator is about to write (not const), or which it is about to adopt (a temporary), is not
    one of the literal records -/
theorem Lit.not_handle_of_mutable {s : St} (h : Lit n o0 s) (l : Loc) (hc : (s.cell l).const = false ∨ (s.cell l).ret = true) : n ≤ l := by
  by_cases hl : l < n
  · have := h.handles l hl
    rw [this] at hc
    rcases hc with hc | hc <;> cases hc
  · exact Nat.le_of_not_lt hl

theorem take_set_of_le {α} (xs : List α) (i : Nat) (v : α) (k : Nat) (h : k ≤ i) : (xs.set i v).take k = xs.take k := by
  apply List.ext_getElem?
  intro j
  simp only [List.getElem?_take, List.getElem?_set]
  by_cases hj : j < k
  · have : i ≠ j := by omega
    simp [hj, this]
  · simp [hj]

theorem Lit.setObj {s : St} (h : Lit n o0 s) (o : Nat) (v : Val) (ho : n ≤ o) : Lit n o0 (s.setObj o v) := by
  refine ⟨by simp [St.setObj]; exact h.len, h.hlen, ?_, ?_, ?_⟩
  · simp only [St.setObj]; rw [take_set_of_le _ _ _ _ ho]; exact h.same
  · intro l; exact h.safe l
  · intro l hl; exact h.handles l hl

theorem Lit.setVal {s : St} (h : Lit n o0 s) (l : Loc) (v : Val) (hc : (s.cell l).const = false) : Lit n o0 (s.setVal l v) := by
  have ho : n ≤ (s.cell l).obj := by
    by_cases hlt : (s.cell l).obj < n
    · have := (h.safe l hlt).1; rw [hc] at this; cases this
    · omega
  exact (h.setObj _ v ho).congr rfl rfl

theorem Lit.addObject {s s' : St} (h : Lit n o0 s) {x : Name} {l : Loc} (ha : s.addObject x l = some s') : Lit n o0 s' := by
  unfold St.addObject at ha
  split at ha
  · cases ha
  · split at ha
    · cases ha
    · cases ha; exact h.congr rfl rfl

theorem Lit.addAll : ∀ (ps : List (Name × Loc)) {s s' : St}, Lit n o0 s → addAll s ps = some s' → Lit n o0 s' := by
  intro ps
  induction ps with
  | nil => intro s s' h ha; simp [ChaiVerif.Chai.addAll] at ha; subst ha; exact h
  | cons p ps ih =>
    intro s s' h ha
    obtain ⟨x, l⟩ := p
    simp only [ChaiVerif.Chai.addAll] at ha
    split at ha
    · rename_i s1 h1; exact ih (h.addObject h1) ha
    · cases ha

theorem heap_getObject (s : St) (nid : Nat) (x : Name) : (s.getObject nid x).2.heap = s.heap ∧ (s.getObject nid x).2.objs = s.objs := by
  have raw : (s.getObjectRaw nid x).2.heap = s.heap ∧ (s.getObjectRaw nid x).2.objs = s.objs := by
    unfold St.getObjectRaw St.cold St.dropHint
    repeat' split
    all_goals exact ⟨rfl, rfl⟩
  unfold St.getObject
  simp only
  split
  · exact raw
  · exact raw

theorem Lit.getObject {s : St} (h : Lit n o0 s) (nid : Nat) (x : Name) : Lit n o0 (s.getObject nid x).2 :=
  h.congr (heap_getObject s nid x).1 (heap_getObject s nid x).2

/-- `clone_if_necessary`: keeps the invariant, and what it hands back is never a handle to a literal that could be made mutable:
    either a fresh object or an adopted temporary (and no temporary points at a literal) -/
theorem Lit.clone {s : St} (h : Lit n o0 s) (l : Loc) :
    Lit n o0 (cloneIfNecessary s l).2 ∧
    ∀ l2 s2, cloneIfNecessary s l = (.val l2, s2) → n ≤ (s2.cell l2).obj ∧ n ≤ l2 := by
  unfold cloneIfNecessary
  simp only
  split
  · rename_i hret
    have hge : n ≤ (s.cell l).obj := by
      by_cases hlt : (s.cell l).obj < n
      · have := (h.safe l hlt).2; rw [hret] at this; cases this
      · omega
    have hnl : n ≤ l := h.not_handle_of_mutable l (Or.inr hret)
    refine ⟨h.setCell l _ hnl (fun hlt => by simp at hlt; omega), ?_⟩
    intro l2 s2 he
    cases he
    refine ⟨?_, hnl⟩
    simp only [St.setCell, St.cell]
    rw [cell_set]
    split
    · exact hge
    · exact hge
  · refine ⟨h.allocVal _ _ _, ?_⟩
    intro l2 s2 he
    simp only [ChaiVerif.Chai.allocVal, St.allocV] at he
    cases he
    refine ⟨?_, h.hlen⟩
    simp only [St.cell]
    rw [cell_append]
    simp
    exact h.len

theorem bnd_lit (r : R) (k : Loc → St → R) (hr : Lit n o0 r.2) (hk : ∀ l t, Lit n o0 t → Lit n o0 (k l t).2) : Lit n o0 (bnd r k).2 := by
  obtain ⟨o, t⟩ := r
  cases o <;> first | exact hk _ _ hr | exact hr

theorem withScope_lit (g : St → R) (s : St) (h : Lit n o0 s) (hg : ∀ t, Lit n o0 t → Lit n o0 (g t).2) : Lit n o0 (withScope g s).2 :=
  (hg s.pushScope (h.congr rfl rfl)).congr rfl rfl
theorem withStack_lit (g : St → R) (s : St) (h : Lit n o0 s) (hg : ∀ t, Lit n o0 t → Lit n o0 (g t).2) : Lit n o0 (withStack g s).2 :=
  (hg s.pushStack (h.congr rfl rfl)).congr rfl rfl
theorem withFnCall_lit (g : St → R) (s : St) (h : Lit n o0 s) (hg : ∀ t, Lit n o0 t → Lit n o0 (g t).2) : Lit n o0 (withFnCall g s).2 :=
  (hg s.enterCall (h.congr rfl rfl)).congr rfl rfl

theorem evalCaps_lit : ∀ (caps : List (Nat × Name)) (acc : List (Name × Loc)) (s : St), Lit n o0 s → Lit n o0 (run.evalCaps caps acc s).2 := by
  intro caps
  induction caps with
  | nil => intro acc s h; exact h
  | cons c cs ih =>
    intro acc s h
    obtain ⟨nid, x⟩ := c
    simp only [run.evalCaps]
    have hg := h.getObject nid x
    generalize s.getObject nid x = r at hg ⊢
    obtain ⟨res, s1⟩ := r
    cases res <;> simp only [] <;> first | exact ih _ _ hg | exact hg

theorem cloneAll_lit : ∀ (ls : List Loc) (acc : List Loc) (s : St), Lit n o0 s → Lit n o0 (run.cloneAll ls acc s).2 := by
  intro ls
  induction ls with
  | nil => intro acc s h; exact h
  | cons l ls ih =>
    intro acc s h
    simp only [run.cloneAll]
    have hc := (h.clone l).1
    generalize cloneIfNecessary s l = r at hc ⊢
    obtain ⟨o, s1⟩ := r
    cases o <;> simp only [] <;> exact ih _ _ hc

/-- (no side condition is left on jobs: the counting loop writes through its counter's Data record, which is checked for constness
    like any other write; kept as a parameter so that statements need not change) -/
def JobOK (_n : Nat) : Job → Prop
  | _ => True

end ChaiVerif.Chai
