import ChaiVerif.Model.ParseGraph
/-! helper lemmas for the parser call-graph bound (C01) -/
namespace ChaiVerif.PG
open Graph

theorem foldl_max_ge (l : List Nat) : ∀ a, a ≤ l.foldl max a := by
  induction l with
  | nil => intro a; exact Nat.le_refl _
  | cons x xs ih => intro a; simp only [List.foldl]; exact Nat.le_trans (Nat.le_max_left a x) (ih _)

theorem foldl_max_mono (l : List Nat) : ∀ a b, a ≤ b → l.foldl max a ≤ l.foldl max b := by
  induction l with
  | nil => intro a b h; exact h
  | cons x xs ih => intro a b h; simp only [List.foldl]; apply ih; omega

theorem getD_le_foldl_max (l : List Nat) : ∀ (i a : Nat), l.getD i 0 ≤ l.foldl max a := by
  induction l with
  | nil => intro i a; simp [List.getD]
  | cons x xs ih =>
    intro i a
    cases i with
    | zero =>
      simp only [List.foldl]
      have := foldl_max_ge xs (max a x)
      simp [List.getD] ; omega
    | succ i =>
      simp only [List.foldl]
      have := ih i (max a x)
      simpa [List.getD] using this

theorem r_le_maxRank (G : Graph) (i : Nat) : G.r i ≤ G.maxRank := getD_le_foldl_max _ _ _

def lead (G : Graph) : List Nat → Nat
  | [] => 0
  | f :: _ => if G.g f then 0 else G.r f + 1

theorem stack_bounded_aux (G : Graph) (hok : G.ok = true) :
    ∀ p : List Nat, G.chain p → p.length ≤ G.depth p * (G.maxRank + 2) + lead G p := by
  intro p
  induction p with
  | nil => intro _; simp
  | cons f rest ih =>
    intro hc
    cases rest with
    | nil =>
      simp only [List.length, depth, lead, List.countP_cons, List.countP_nil]
      cases hg : G.g f <;> simp
    | cons f' rest' =>
      obtain ⟨he, hc'⟩ := hc
      have ih' := ih hc'
      have hedge : G.edgeOk (f, f') = true := by
        have := List.all_eq_true.mp hok (f, f') he
        exact this
      have hr' := r_le_maxRank G f'
      simp only [depth, List.countP_cons, List.length, lead] at ih' ⊢
      simp only [edgeOk, Bool.or_eq_true, decide_eq_true_eq] at hedge
      cases hg : G.g f <;> cases hg' : G.g f' <;> simp only [hg, hg', if_true, if_false, Bool.false_eq_true] at ih' hedge ⊢
      all_goals simp at hedge
      all_goals simp only [Nat.add_mul] at ih' ⊢
      all_goals omega
end ChaiVerif.PG
