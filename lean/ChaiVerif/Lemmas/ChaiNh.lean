/-
"Without lookup hints": switching the per-node lookup cache off (and emptying it) commutes with every primitive of the evaluator
state, and `get_object` without the cache is the specification `resolve`.  Infrastructure for Lemmas/ChaiRunNh.lean.
-/
import ChaiVerif.Model.Chai.Eval
namespace ChaiVerif.Chai

/-- the same state with the lookup cache emptied and switched off -/
def St.nh (s : St) : St := { s with hints := [], useHints := false }

/-- how many lookups were flagged (tag 2) so far -/
def c2 (s : St) : Nat := s.tags.count 2

@[simp] theorem nh_nh (s : St) : s.nh.nh = s.nh := rfl
@[simp] theorem nh_cell (s : St) (l : Loc) : s.nh.cell l = s.cell l := rfl
@[simp] theorem nh_val (s : St) (l : Loc) : s.nh.val l = s.val l := rfl
@[simp] theorem nh_objAt (s : St) (o : Nat) : s.nh.objAt o = s.objAt o := rfl
@[simp] theorem nh_heap (s : St) : s.nh.heap = s.heap := rfl
@[simp] theorem nh_objs (s : St) : s.nh.objs = s.objs := rfl
@[simp] theorem nh_funs (s : St) : s.nh.funs = s.funs := rfl
@[simp] theorem nh_depth (s : St) : s.nh.depth = s.depth := rfl
@[simp] theorem nh_natCount (s : St) : s.nh.natCount = s.natCount := rfl
@[simp] theorem nh_fault (s : St) : s.nh.fault = s.fault := rfl
@[simp] theorem nh_tags (s : St) : s.nh.tags = s.tags := rfl
@[simp] theorem nh_allocV (s : St) (v : Val) (c r : Bool) : s.nh.allocV v c r = ((s.allocV v c r).1, (s.allocV v c r).2.nh) := rfl
@[simp] theorem nh_setCell (s : St) (l : Loc) (c : Cell) : s.nh.setCell l c = (s.setCell l c).nh := rfl
@[simp] theorem nh_setVal (s : St) (l : Loc) (v : Val) : s.nh.setVal l v = (s.setVal l v).nh := rfl
@[simp] theorem nh_pushScope (s : St) : s.nh.pushScope = s.pushScope.nh := rfl
@[simp] theorem nh_popScope (s : St) : s.nh.popScope = s.popScope.nh := rfl
@[simp] theorem nh_pushStack (s : St) : s.nh.pushStack = s.pushStack.nh := rfl
@[simp] theorem nh_popStack (s : St) : s.nh.popStack = s.popStack.nh := rfl
@[simp] theorem nh_enterCall (s : St) : s.nh.enterCall = s.enterCall.nh := rfl
@[simp] theorem nh_leaveCall (s : St) : s.nh.leaveCall = s.leaveCall.nh := rfl
@[simp] theorem nh_saveParams (s : St) (ls : List Loc) : s.nh.saveParams ls = (s.saveParams ls).nh := rfl
@[simp] theorem nh_dropHints (s : St) (n : List Nat) : s.nh.dropHints n = (s.dropHints n).nh := rfl
@[simp] theorem nh_isNamed (s : St) (l : Loc) : s.nh.isNamed l = s.isNamed l := rfl
@[simp] theorem nh_resolve (s : St) (x : Name) : s.nh.resolve x = s.resolve x := rfl

@[simp] theorem c2_nh (s : St) : c2 s.nh = c2 s := rfl
@[simp] theorem c2_setCell (s : St) (l : Loc) (c : Cell) : c2 (s.setCell l c) = c2 s := rfl
@[simp] theorem c2_setVal (s : St) (l : Loc) (v : Val) : c2 (s.setVal l v) = c2 s := rfl
@[simp] theorem c2_allocV (s : St) (v : Val) (c r : Bool) : c2 (s.allocV v c r).2 = c2 s := rfl
@[simp] theorem c2_pushScope (s : St) : c2 s.pushScope = c2 s := rfl
@[simp] theorem c2_popScope (s : St) : c2 s.popScope = c2 s := rfl
@[simp] theorem c2_pushStack (s : St) : c2 s.pushStack = c2 s := rfl
@[simp] theorem c2_popStack (s : St) : c2 s.popStack = c2 s := rfl
@[simp] theorem c2_enterCall (s : St) : c2 s.enterCall = c2 s := rfl
@[simp] theorem c2_leaveCall (s : St) : c2 s.leaveCall = c2 s := rfl
@[simp] theorem c2_saveParams (s : St) (ls : List Loc) : c2 (s.saveParams ls) = c2 s := rfl
@[simp] theorem c2_dropHints (s : St) (n : List Nat) : c2 (s.dropHints n) = c2 s := rfl

theorem nh_addObject (s : St) (x : Name) (l : Loc) : s.nh.addObject x l = (s.addObject x l).map (·.nh) := by
  unfold St.addObject
  show (match s.curStack.getLast? with | none => none | some sc => _) = _
  cases s.curStack.getLast? with
  | none => rfl
  | some sc =>
    simp only []
    split <;> rfl

theorem c2_addObject (s s' : St) (x : Name) (l : Loc) (h : s.addObject x l = some s') : c2 s' = c2 s := by
  unfold St.addObject at h
  split at h
  · cases h
  · split at h
    · cases h
    · cases h; rfl

/-- without the cache `get_object` is the specification and leaves the state alone -/
theorem nh_getObject (s : St) (nid : Nat) (x : Name) : s.nh.getObject nid x = (s.resolve x, s.nh) := by
  unfold St.getObject St.getObjectRaw St.cold
  simp [St.nh]
  rfl

/-- the cached search only ever touches the cache -/
theorem getObjectRaw_nh (s : St) (nid : Nat) (x : Name) : (s.getObjectRaw nid x).2.nh = s.nh := by
  unfold St.getObjectRaw St.cold St.dropHint
  repeat' split
  all_goals rfl

theorem getObjectRaw_c2 (s : St) (nid : Nat) (x : Name) : c2 (s.getObjectRaw nid x).2 = c2 s := by
  unfold St.getObjectRaw St.cold St.dropHint
  repeat' split
  all_goals rfl

/-- **one lookup**: either it is flagged (one more tag 2), or the uncached lookup gives the same answer and the same state up to
    the cache -/
theorem getObject_nh (s : St) (nid : Nat) (x : Name) :
    c2 s ≤ c2 (s.getObject nid x).2 ∧
    (c2 s < c2 (s.getObject nid x).2 ∨ s.nh.getObject nid x = ((s.getObject nid x).1, (s.getObject nid x).2.nh)) := by
  rw [nh_getObject]
  unfold St.getObject
  simp only []
  split
  · rename_i h
    refine ⟨by rw [getObjectRaw_c2]; exact Nat.le_refl _, Or.inr ?_⟩
    rw [getObjectRaw_nh, h]
  · have : c2 { (s.getObjectRaw nid x).2 with tags := 2 :: (s.getObjectRaw nid x).2.tags } = c2 s + 1 := by
      have := getObjectRaw_c2 s nid x
      simp only [c2] at this ⊢
      simp [this]
    simp only [this]
    exact ⟨Nat.le_succ _, Or.inl (Nat.lt_succ_self _)⟩

end ChaiVerif.Chai
