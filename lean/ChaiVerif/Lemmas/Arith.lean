import ChaiVerif.Spec.Arith
namespace ChaiVerif

/-- Well-formed operand: an integer lies in the range of one of the eight integral classes. -/
def Num.WF : Num → Prop
  | .i t v => t ∈ IT.all ∧ t.InRange v
  | .f _ _ => True

theorem IT.mem_all_cases {t : IT} (h : t ∈ IT.all) :
    t = IT.i8 ∨ t = IT.u8 ∨ t = IT.i16 ∨ t = IT.u16 ∨ t = IT.i32 ∨ t = IT.u32 ∨ t = IT.i64 ∨ t = IT.u64 := by
  simpa [IT.all] using h

/-- Converting an in-range value to the common type of a cell yields 0 exactly for 0. -/
theorem wrap_common_eq_zero {lt rt : IT} (hl : lt ∈ IT.all) (hr : rt ∈ IT.all) {b : Int}
    (hb : rt.InRange b) : ((commonType lt rt).wrap b = 0 ↔ b = 0) := by
  rcases IT.mem_all_cases hl with h | h | h | h | h | h | h | h <;>
  rcases IT.mem_all_cases hr with h' | h' | h' | h' | h' | h' | h' | h' <;>
  subst h <;> subst h' <;>
  simp [IT.InRange, IT.min, IT.max, IT.i8, IT.u8, IT.i16, IT.u16, IT.i32, IT.u32, IT.i64, IT.u64] at hb <;>
  simp [commonType, promote, IT.wrap, IT.i8, IT.u8, IT.i16, IT.u16, IT.i32, IT.u32, IT.i64, IT.u64] <;>
  omega


theorem floatBin_no_trap (op : CppOp) (k : FK) (a b : Float) : (floatBin op k a b).isTrap = false := by
  cases op <;> simp [floatBin, MRes.isTrap]

theorem storeBack_isTrap (l : Num) (x : MRes) : (storeBack l x).isTrap = x.isTrap := by
  cases x with
  | val v => simp only [storeBack]; cases convertTo l v <;> rfl
  | bool b => simp only [storeBack]; cases convertTo l (.i IT.i32 (if b then 1 else 0)) <;> rfl
  | _ => rfl

theorem cppBin_trap_iff (op : CppOp) (lt rt : IT) (a b : Int) :
    (ofCRes (cppBin op lt rt a b)).isTrap = true →
      op.isDivLike = true ∧ ((commonType lt rt).wrap b = 0 ∨
        ((commonType lt rt).sgn = true ∧ (commonType lt rt).wrap a = (commonType lt rt).min ∧ (commonType lt rt).wrap b = -1)) := by
  cases op <;> simp [cppBin, CppOp.isShift, CppOp.isDivLike] <;>
    (repeat' split) <;> simp_all [ofCRes, MRes.isTrap]

theorem applyBin_no_trap (c : CppOp) (l r : Num) (hl : l.WF) (hr : r.WF)
    (h : wouldTrap c l r = false) : (applyBin c l r).isTrap = false := by
  cases l with
  | f k x => cases r <;> simp [applyBin, floatBin_no_trap]
  | i lt a =>
    cases r with
    | f k x => simp [applyBin, floatBin_no_trap]
    | i rt b =>
      simp only [applyBin]
      cases hT : (ofCRes (cppBin c lt rt a b)).isTrap with
      | false => rfl
      | true =>
        exfalso
        have ⟨hd, hc⟩ := cppBin_trap_iff c lt rt a b hT
        simp [Num.WF] at hl hr
        simp [wouldTrap, hd, ovfFires] at h
        rcases hc with hz | ⟨hs, ha, hb⟩
        · exact h.1 ((wrap_common_eq_zero hl.1 hr.1 hr.2).mp hz)
        · exact h.2 hs hb ha

theorem specGo_no_trap (op : Oper) (l r : Num) (lv : Bool) (hl : l.WF) (hr : r.WF) :
    (specGo op l r lv).isTrap = false := by
  unfold specGo
  split
  · rfl
  · split
    · rw [storeBack_isTrap]; rfl
    · rfl
  · split
    · rfl
    · split
      · rfl
      · exact applyBin_no_trap _ l r hl hr (by simp_all)
  · split
    · rfl
    · split
      · rfl
      · split
        · rfl
        · rw [storeBack_isTrap]; exact applyBin_no_trap _ l r hl hr (by simp_all)

/-- What `to_operator` in the source does: the specification, except that `/=` is not in the
    switch (the node route then falls back to function dispatch, see `routes_agree`). -/
def codeToOperator (t : OpText) (u : Bool) : Oper :=
  if t = .divasg then .invalid else specToOperator t u

end ChaiVerif
