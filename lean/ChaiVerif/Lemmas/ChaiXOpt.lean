/-
Lemmas for the whole-tree soundness of the exact optimizer passes (Props/C02: `exact_passes_preserve_evaluation`).
-/
import ChaiVerif.Model.Chai.XOpt
import ChaiVerif.Lemmas.ChaiRunMono
import ChaiVerif.Lemmas.ChaiRunLits
namespace ChaiVerif.Chai

theorem Le.trans {a b c : R} (h1 : Le a b) (h2 : Le b c) : Le a c := by
  rcases h1 with h | h
  · exact Or.inl h
  · rw [h]; exact h2

theorem Le.of_eq {a b : R} (h : a = b) : Le a b := Or.inr h

/-- under the literal invariant a `Constant` node's cell holds its literal -/
theorem lit_val {L : Lits} {s : St} (h : Lit L.length L s) (c : Loc) (hc : c < L.length) : s.val c = litOf L c := by
  unfold St.val litOf
  rw [h.handles c hc]
  simp only []
  have h1 : s.objs.getD c .undef = (s.objs.take L.length).getD c .undef := by
    simp [List.getD, hc]
  rw [h1, h.same]

theorem litOf_lt {L : Lits} {c : Loc} (h : litOf L c ≠ .undef) : c < L.length := by
  by_cases hc : c < L.length
  · exact hc
  · exfalso; apply h; unfold litOf; simp [List.getD, List.getElem?_eq_none (Nat.le_of_not_lt hc)]

/-! ### one top-level rewrite, same function table, same state -/

theorem partialFold_le (ρ : List FunDef) (L : Lits) (F : Nat) (m : Node) (s : St) (hl : Lit L.length L s) :
    Le (run ρ (F + 1) (.node m) s) (run ρ (F + 1) (.node (partialFold L m)) s) := by
  unfold partialFold
  split
  · rename_i op a c
    split
    · rename_i hcond
      cases F with
      | zero => left; simp [run, bnd]
      | succ f =>
        have hint : isIntLit L c = true := by simp at hcond; exact hcond.2
        have hlt : c < L.length := by
          apply litOf_lt
          intro hu
          simp [isIntLit, hu] at hint
        refine Le.of_eq (C02aux ρ f op a c s ?_)
        intro l s1 hrun
        have hl1 : Lit L.length L s1 := by
          have := run_lit ρ (f + 1) (.node a) s hl trivial
          rw [hrun] at this; exact this
        rw [lit_val hl1 c hlt]
        unfold isIntLit at hint
        split at hint
        · rename_i y hy; exact ⟨y, hy⟩
        · cases hint
    · exact Le.refl _
  · exact Le.refl _
where
  C02aux (ρ : List FunDef) (f : Nat) (op : BinOp) (a : Node) (c : Loc) (s : St)
      (hc : ∀ l s1, run ρ (f + 1) (.node a) s = (.val l, s1) → ∃ y, s1.val c = .int y) :
      run ρ (f + 2) (.node (.bin op a (.const c))) s = run ρ (f + 2) (.node (.foldR op a c)) s := by
    have key : ∀ g, g = f + 1 → run ρ (g + 1) (.node (.bin op a (.const c))) s = run ρ (g + 1) (.node (.foldR op a c)) s := by
      intro g hg
      simp only [run]
      have hc' : ∀ l s1, run ρ g (.node a) s = (.val l, s1) → ∃ y, s1.val c = .int y := by subst hg; exact hc
      generalize run ρ g (.node a) s = r at hc'
      obtain ⟨o, s1⟩ := r
      cases o <;> simp only [bnd]
      rename_i la
      obtain ⟨y, hy⟩ := hc' la s1 rfl
      subst hg
      simp only [run, hy]
      generalize s1.val la = va
      cases va <;> first | rfl | (cases op <;> rfl)
    exact key (f + 1) rfl

theorem ifPass_le (ρ : List FunDef) (L : Lits) (F : Nat) (m : Node) (s : St) (hl : Lit L.length L s) :
    Le (run ρ (F + 1) (.node m) s) (run ρ (F + 1) (.node (ifPassX L m)) s) := by
  unfold ifPassX
  split
  · rename_i c t e
    have hsel : ∀ b : Bool, litOf L c = .bool b →
        Le (run ρ (F + 1) (.node (.ifN (.const c) t e)) s) (run ρ (F + 1) (.node (if b then t else e)) s) := by
      intro b hb
      cases F with
      | zero => left; simp [run, bnd]
      | succ f =>
        have hlt : c < L.length := litOf_lt (by rw [hb]; simp)
        have hv : s.val c = .bool b := (lit_val hl c hlt).trans hb
        have e1 : run ρ (f + 2) (.node (.ifN (.const c) t e)) s = run ρ (f + 1) (.node (if b then t else e)) s := by
          cases b <;> simp [run, bnd, boolOf, hv]
        rw [e1]
        exact run_le_succ ρ (f + 1) _ s
    split
    · rename_i hb
      split
      · exact Le.refl _
      · exact hsel true hb
    · rename_i hb
      split
      · exact Le.refl _
      · exact hsel false hb
    · exact Le.refl _
  · exact Le.refl _

theorem keepersC_ne_nil : ∀ (x : Node) (xs : List Node), keepersC (x :: xs) ≠ [] := by
  intro x xs
  induction xs generalizing x with
  | nil => simp [keepersC]
  | cons y ys ih =>
    unfold keepersC
    split
    · exact ih y
    · simp

theorem seq_keepersC_le (ρ : List FunDef) : ∀ (xs : List Node) (F : Nat) (s : St),
    Le (run ρ F (.seq xs) s) (run ρ F (.seq (keepersC xs)) s) := by
  intro xs
  induction xs with
  | nil => intro F s; exact Le.refl _
  | cons x rest ih =>
    intro F s
    cases rest with
    | nil => exact Le.refl _
    | cons y ys =>
      unfold keepersC
      split
      · -- a constant statement: dropped
        rename_i hcst
        cases x <;> simp [isConstNode] at hcst
        rename_i l
        cases F with
        | zero => left; rfl
        | succ F1 =>
          cases F1 with
          | zero => left; simp [run, bnd]
          | succ f =>
            have e1 : run ρ (f + 2) (.seq (.const l :: y :: ys)) s = run ρ (f + 1) (.seq (y :: ys)) s := by simp [run, bnd]
            rw [e1]
            exact (ih (f + 1) s).trans (run_le_succ ρ (f + 1) _ s)
      · cases F with
        | zero => left; rfl
        | succ f =>
          have hne := keepersC_ne_nil y ys
          generalize hk : keepersC (y :: ys) = k at hne
          cases k with
          | nil => exact absurd rfl hne
          | cons k1 ks =>
            simp only [run]
            refine bnd_le (Le.refl _) (fun _ t => ?_)
            have := ih f t
            rw [hk] at this
            exact this

theorem deadConst_le (ρ : List FunDef) (F : Nat) (m : Node) (s : St) :
    Le (run ρ (F + 1) (.node m) s) (run ρ (F + 1) (.node (deadConst m)) s) := by
  unfold deadConst
  split
  · rename_i xs
    simp only [run]
    exact withScope_le _ (fun t => seq_keepersC_le ρ xs F t)
  · exact Le.refl _

/-- **one application of the three exact passes to a node changes nothing** (up to the fuel the removed nodes no longer need) -/
theorem xNode_le (ρ : List FunDef) (L : Lits) (F : Nat) (m : Node) (s : St) (hl : Lit L.length L s) :
    Le (run ρ (F + 1) (.node m) s) (run ρ (F + 1) (.node (xNode L m)) s) :=
  ((partialFold_le ρ L F m s hl).trans (ifPass_le ρ L F _ s hl)).trans (deadConst_le ρ F _ s)

/-- the exact passes never turn something else into a bare reference declaration -/
theorem xNode_isRef (L : Lits) (m : Node) (h : isRefDecl m = false) : isRefDecl (xNode L m) = false := by
  unfold xNode
  have h1 : isRefDecl (partialFold L m) = false := by
    unfold partialFold
    split
    · split <;> rfl
    · exact h
  generalize partialFold L m = m1 at h1
  have h2 : isRefDecl (ifPassX L m1) = false := by
    unfold ifPassX
    split
    · split
      · split
        · rfl
        · rename_i hh; simpa using hh
      · split
        · rfl
        · rename_i hh; simpa using hh
      · rfl
    · exact h1
  generalize ifPassX L m1 = m2 at h2
  unfold deadConst
  split
  · rfl
  · exact h2

end ChaiVerif.Chai
