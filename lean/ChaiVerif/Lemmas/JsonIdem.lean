/-
What the JSON parser model can return: every value `parseJ` yields nests no deeper than the depth guard allows and its objects have
pairwise different keys — so a parsed value without floating point is one of the values the round-trip theorem covers.
Helper lemmas for `C18.text_idempotent_partial`.
-/
import ChaiVerif.Model.Json
import ChaiVerif.Lemmas.JsonRoundtrip
namespace ChaiVerif.JRT

/-- no floating-point token and no integer on the edge of the 64-bit range, down to nesting `F` (deeper levels are not inspected:
    the parser cannot produce them) -/
def exactJ : Nat → J → Bool
  | 0, _ => true
  | _ + 1, .dbl _ _ _ => false
  | _ + 1, .int i => decide (inRange i)
  | F + 1, .arr xs => xs.all (exactJ F)
  | F + 1, .obj kvs => kvs.all (fun p => exactJ F p.2)
  | _ + 1, _ => true

def isLeaf : J → Bool
  | .arr _ => false
  | .obj _ => false
  | _ => true

/-- the statement carried through the parser: an exact value parsed with `F` levels to spare is plain at `F` -/
def Q (F : Nat) (j : J) : Prop := exactJ F j = true → plainJ F j = true

theorem leaf_Q (F : Nat) (j : J) (hl : isLeaf j = true) : Q (F + 1) j := by
  intro he
  cases j <;> simp_all [isLeaf, exactJ, plainJ]

theorem bind_ok {α β : Type} {x : JR α} {g : α → JR β} {r : β} (h : (x >>= g) = .ok r) : ∃ a, x = .ok a ∧ g a = .ok r := by
  cases x with
  | error e => simp [bind, Except.bind] at h
  | ok a => exact ⟨a, rfl, by simpa [bind, Except.bind] using h⟩

/-! ### keys stay distinct under `operator[]` -/
theorem distinct_append (ks : List (List Nat)) (k : List Nat) (hd : distinctKeys ks = true) (hk : ks.all (fun k' => k' != k) = true) :
    distinctKeys (ks ++ [k]) = true := by
  induction ks with
  | nil => simp [distinctKeys]
  | cons a rest ih =>
    simp only [distinctKeys, Bool.and_eq_true, List.all_cons] at hd hk
    simp only [List.cons_append, distinctKeys, Bool.and_eq_true, List.all_append, List.all_cons, List.all_nil, Bool.and_true]
    refine ⟨⟨hd.1, ?_⟩, ih hd.2 hk.2⟩
    have := hk.1
    simp only [bne_iff_ne, ne_eq] at this ⊢
    exact fun e => this e.symm

theorem objSet_keys_present (kvs : List (List Nat × J)) (k : List Nat) (v : J) :
    (kvs.map (fun p => if p.1 == k then (k, v) else p)).map (·.1) = kvs.map (·.1) := by
  induction kvs with
  | nil => rfl
  | cons p rest ih =>
    simp only [List.map_cons, List.cons.injEq]
    refine ⟨?_, ih⟩
    split
    · rename_i h; simpa using (beq_iff_eq.mp h).symm
    · rfl

theorem objSet_distinct (kvs : List (List Nat × J)) (k : List Nat) (v : J) (hd : distinctKeys (kvs.map (·.1)) = true) :
    distinctKeys ((objSet kvs k v).map (·.1)) = true := by
  unfold objSet
  split
  · rw [objSet_keys_present]; exact hd
  · rename_i hn
    rw [List.map_append]
    apply distinct_append _ _ hd
    simp only [Bool.not_eq_true, List.any_eq_false, beq_iff_eq] at hn
    simp only [List.all_map, List.all_eq_true, Function.comp, bne_iff_ne, ne_eq]
    intro p hp
    simpa using hn p hp

theorem objSet_vals (P : J → Prop) (kvs : List (List Nat × J)) (k : List Nat) (v : J) (hv : P v) (h : ∀ p ∈ kvs, P p.2) :
    ∀ p ∈ objSet kvs k v, P p.2 := by
  unfold objSet
  split
  · intro p hp
    simp only [List.mem_map] at hp
    obtain ⟨q, hq, rfl⟩ := hp
    split
    · exact hv
    · exact h q hq
  · intro p hp
    simp only [List.mem_append, List.mem_singleton] at hp
    rcases hp with hp | rfl
    · exact h p hp
    · exact hv

/-! ### what the parser returns -/

theorem parseNumber_leaf (s : List Nat) (off : Nat) (j : J) (o : Nat) (h : parseNumber s off = .ok (j, o)) : isLeaf j = true := by
  unfold parseNumber at h
  simp only [bind, Except.bind, pure, Except.pure] at h
  repeat' split at h
  all_goals (first | (injection h with h; injection h with h1 h2; subst h1; rfl) | (simp at h))

def Claim (dp : Nat) : PJob → J → Prop
  | .next _, j => dp < maxDepth ∧ Q (maxDepth - dp) j
  | .arrayLoop _ acc, j => (∀ x ∈ acc, Q (maxDepth - dp) x) → ∃ xs, j = .arr xs ∧ ∀ x ∈ xs, Q (maxDepth - dp) x
  | .objectLoop _ acc, j => (∀ p ∈ acc, Q (maxDepth - dp) p.2) → distinctKeys (acc.map (·.1)) = true →
      ∃ kvs, j = .obj kvs ∧ distinctKeys (kvs.map (·.1)) = true ∧ ∀ p ∈ kvs, Q (maxDepth - dp) p.2

theorem pure_ok {α : Type} {a r : α} (h : (pure a : JR α) = .ok r) : a = r := by
  simpa [pure, Except.pure] using h

theorem Q_arr (F : Nat) (xs : List J) (h : ∀ x ∈ xs, Q F x) : Q (F + 1) (.arr xs) := by
  intro he
  simp only [exactJ, List.all_eq_true] at he
  simp only [plainJ, List.all_eq_true]
  intro x hx; exact h x hx (he x hx)

theorem Q_obj (F : Nat) (kvs : List (List Nat × J)) (hd : distinctKeys (kvs.map (·.1)) = true) (h : ∀ p ∈ kvs, Q F p.2) : Q (F + 1) (.obj kvs) := by
  intro he
  simp only [exactJ, List.all_eq_true] at he
  simp only [plainJ, List.all_eq_true, Bool.and_eq_true]
  exact ⟨fun p hp => h p hp (he p hp), hd⟩

theorem parse_claim : ∀ (f : Nat) (s : List Nat) (dp : Nat) (job : PJob) (j : J) (off : Nat),
    parseJ s f dp job = .ok (j, off) → Claim dp job j := by
  intro f
  induction f with
  | zero => intro s dp job j off h; simp [parseJ] at h
  | succ f ih =>
    intro s dp job j off h
    cases job with
    | next o =>
      simp only [parseJ] at h
      split at h
      · simp at h
      · rename_i hdp
        have hlt : dp < maxDepth := by omega
        obtain ⟨F, hF⟩ : ∃ F, maxDepth - dp = F + 1 := ⟨maxDepth - dp - 1, by omega⟩
        have e : maxDepth - (dp + 1) = F := by omega
        obtain ⟨o1, _, h⟩ := bind_ok h
        obtain ⟨c, _, h⟩ := bind_ok h
        refine ⟨hlt, ?_⟩
        rw [hF]
        split at h
        · obtain ⟨o2, _, h⟩ := bind_ok h
          obtain ⟨c2, _, h⟩ := bind_ok h
          split at h
          · have := pure_ok h
            injection this with h1 _; subst h1
            exact Q_arr F [] (by simp)
          · have := ih _ _ _ _ _ h
            simp only [Claim] at this
            obtain ⟨xs, rfl, hx⟩ := this (by simp)
            rw [e] at hx
            exact Q_arr F xs hx
        · split at h
          · obtain ⟨o2, _, h⟩ := bind_ok h
            obtain ⟨c2, _, h⟩ := bind_ok h
            split at h
            · have := pure_ok h
              injection this with h1 _; subst h1
              exact Q_obj F [] rfl (by simp)
            · have := ih _ _ _ _ _ h
              simp only [Claim] at this
              obtain ⟨kvs, rfl, hd, hx⟩ := this (by simp) rfl
              rw [e] at hx
              exact Q_obj F kvs hd hx
          · split at h
            · obtain ⟨p, _, h⟩ := bind_ok h
              have := pure_ok h
              injection this with h1 _; subst h1
              exact leaf_Q F _ rfl
            · split at h
              · split at h
                · have := pure_ok h
                  injection this with h1 _; subst h1
                  exact leaf_Q F _ rfl
                · split at h
                  · have := pure_ok h
                    injection this with h1 _; subst h1
                    exact leaf_Q F _ rfl
                  · simp at h
              · split at h
                · split at h
                  · have := pure_ok h
                    injection this with h1 _; subst h1
                    exact leaf_Q F _ rfl
                  · simp at h
                · split at h
                  · exact leaf_Q F j (parseNumber_leaf _ _ _ _ h)
                  · simp at h
    | arrayLoop o acc =>
      simp only [parseJ] at h
      simp only [Claim]
      intro hacc
      split at h
      · obtain ⟨p, hp, h⟩ := bind_ok h
        obtain ⟨v, o1⟩ := p
        have hv := (ih _ _ _ _ _ hp).2
        obtain ⟨o2, _, h⟩ := bind_ok h
        obtain ⟨c, _, h⟩ := bind_ok h
        have hall : ∀ x ∈ acc ++ [v], Q (maxDepth - dp) x := by
          intro x hx
          simp only [List.mem_append, List.mem_singleton] at hx
          rcases hx with hx | rfl
          · exact hacc x hx
          · exact hv
        split at h
        · have := ih _ _ _ _ _ h
          simp only [Claim] at this
          exact this hall
        · split at h
          · have := pure_ok h
            injection this with h1 _; subst h1
            exact ⟨_, rfl, hall⟩
          · simp at h
      · have := pure_ok h
        injection this with h1 _; subst h1
        exact ⟨_, rfl, hacc⟩
    | objectLoop o acc =>
      simp only [parseJ] at h
      simp only [Claim]
      intro hacc hd
      split at h
      · obtain ⟨p, hp, h⟩ := bind_ok h
        obtain ⟨k, o1⟩ := p
        obtain ⟨o2, _, h⟩ := bind_ok h
        obtain ⟨c, _, h⟩ := bind_ok h
        split at h
        · simp at h
        · obtain ⟨o3, _, h⟩ := bind_ok h
          obtain ⟨p2, hp2, h⟩ := bind_ok h
          obtain ⟨v, o4⟩ := p2
          have hv := (ih _ _ _ _ _ hp2).2
          obtain ⟨o5, _, h⟩ := bind_ok h
          obtain ⟨c2, _, h⟩ := bind_ok h
          have hall := objSet_vals (Q (maxDepth - dp)) acc k.toStr v hv hacc
          have hd' := objSet_distinct acc k.toStr v hd
          split at h
          · have := ih _ _ _ _ _ h
            simp only [Claim] at this
            exact this hall hd'
          · split at h
            · have := pure_ok h
              injection this with h1 _; subst h1
              exact ⟨_, rfl, hd', hall⟩
            · simp at h
      · have := pure_ok h
        injection this with h1 _; subst h1
        exact ⟨_, rfl, hd, hacc⟩

theorem load_plain (t : List Nat) (v : J) (h : jsonLoad t = .ok v) (hx : exactJ maxDepth v = true) : plainJ maxDepth v = true := by
  unfold jsonLoad at h
  split at h
  · rename_i v' off hp
    injection h with h; subst h
    have := (parse_claim _ _ _ _ _ _ hp).2
    exact this hx
  · simp at h
  · simp at h
end ChaiVerif.JRT
