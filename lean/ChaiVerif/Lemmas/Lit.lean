import ChaiVerif.Spec.Lit
namespace ChaiVerif

theorem and63 (x : Nat) : x &&& 63 = x % 64 := by
  simpa using Nat.and_two_pow_sub_one_eq_mod x 6

theorem andFull (x : Nat) (h : x < 4294967296) : x &&& 4294967295 = x := by
  have := Nat.and_two_pow_sub_one_eq_mod x 32
  simp at this; rw [this]; exact Nat.mod_eq_of_lt h

theorem or128 (x : Nat) (h : x < 64) : 128 ||| x = 128 + x := by
  have := @Nat.two_pow_add_eq_or_of_lt 6 x (by simpa using h) 2
  simpa using this.symm
theorem or192 (x : Nat) (h : x < 64) : 192 ||| x = 192 + x := by
  have := @Nat.two_pow_add_eq_or_of_lt 6 x (by simpa using h) 3
  simpa using this.symm
theorem or224 (x : Nat) (h : x < 32) : 224 ||| x = 224 + x := by
  have := @Nat.two_pow_add_eq_or_of_lt 5 x (by simpa using h) 7
  simpa using this.symm
theorem or240 (x : Nat) (h : x < 16) : 240 ||| x = 240 + x := by
  have := @Nat.two_pow_add_eq_or_of_lt 4 x (by simpa using h) 15
  simpa using this.symm

theorem utf8Byte_lead (cp c sh : Nat) (hcp : cp < 4294967296) :
    utf8Byte cp (c, sh, 4294967295) = c ||| (cp / 2 ^ sh) := by
  unfold utf8Byte
  simp only [Nat.shiftRight_eq_div_pow]
  rw [andFull]
  exact Nat.lt_of_le_of_lt (Nat.div_le_self _ _) hcp

theorem utf8Byte_cont (cp sh : Nat) : utf8Byte cp (128, sh, 63) = 128 + (cp / 2 ^ sh) % 64 := by
  unfold utf8Byte
  simp only [Nat.shiftRight_eq_div_pow, and63]
  exact or128 _ (Nat.mod_lt _ (by decide))

end ChaiVerif
