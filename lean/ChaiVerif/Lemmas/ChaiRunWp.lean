/-
Eighth induction over the evaluator: THE `Unused_Return` FLAG IS UNOBSERVABLE.  Setting the flag on every call of a program (tree
and function bodies) and starting from a state whose saved call parameters were replaced by anything of the same length gives the
same outcome and the same state except for the CONTENTS of the saved call parameters — which nothing ever reads.
-/
import ChaiVerif.Lemmas.ChaiWp
import ChaiVerif.Lemmas.ChaiShape
import ChaiVerif.Lemmas.ChaiRunShape
import ChaiVerif.Model.Chai.Flags
import ChaiVerif.Model.Chai.Opt
namespace ChaiVerif.Chai

/-- same outcome; same state up to the contents of `call_params` -/
def Same (r r' : R) : Prop := r'.1 = r.1 ∧ ∃ q, q.length = r.2.params.length ∧ r'.2 = r.2.wp q

theorem Same.mk (o : Out) (t : St) (q : List (List Loc)) (h : q.length = t.params.length) : Same (o, t) (o, t.wp q) :=
  ⟨rfl, q, h, rfl⟩

theorem bnd_same {r r' : R} {k k' : Loc → St → R} (h : Same r r')
    (hk : ∀ l t q, q.length = t.params.length → Same (k l t) (k' l (t.wp q))) : Same (bnd r k) (bnd r' k') := by
  obtain ⟨o, t⟩ := r
  obtain ⟨o', t'⟩ := r'
  obtain ⟨h1, q, hq, h2⟩ := h
  simp only [] at h1 h2 hq
  subst h1; subst h2
  cases o' <;> first | exact hk _ _ _ hq | exact Same.mk _ _ _ hq

theorem withScope_same {g g' : St → R} (s : St) (p : List (List Loc)) (hp : p.length = s.params.length)
    (h : ∀ t q, q.length = t.params.length → Same (g t) (g' (t.wp q))) : Same (withScope g s) (withScope g' (s.wp p)) := by
  unfold withScope
  simp only [wp_pushScope]
  obtain ⟨h1, q, hq, h2⟩ := h s.pushScope (p ++ [[]]) (by simp [St.pushScope, hp])
  refine ⟨h1, q.dropLast, ?_, ?_⟩
  · simp [St.popScope, hq]
  · simp only [h2, wp_popScope]

theorem withStack_same {g g' : St → R} (s : St) (p : List (List Loc)) (hp : p.length = s.params.length)
    (h : ∀ t q, q.length = t.params.length → Same (g t) (g' (t.wp q))) : Same (withStack g s) (withStack g' (s.wp p)) := by
  unfold withStack
  simp only [wp_pushStack]
  obtain ⟨h1, q, hq, h2⟩ := h s.pushStack p (by simp [St.pushStack, hp])
  refine ⟨h1, q, ?_, ?_⟩
  · simp [St.popStack, hq]
  · simp only [h2, wp_popStack]

theorem withFnCall_same {g g' : St → R} (s : St) (p : List (List Loc)) (hp : p.length = s.params.length)
    (h : ∀ t q, q.length = t.params.length → Same (g t) (g' (t.wp q))) : Same (withFnCall g s) (withFnCall g' (s.wp p)) := by
  unfold withFnCall
  simp only [wp_enterCall]
  obtain ⟨h1, q, hq, h2⟩ := h s.enterCall p (by simp [St.enterCall, hp])
  refine ⟨h1, (if ((g s.enterCall).2.depth - 1 == 0) = true then modifyLast (fun _ => []) q else q), ?_, ?_⟩
  · simp only [St.leaveCall]
    split <;> simp [modifyLast_length, hq]
  · simp only [h2, wp_leaveCall]

/-! ### the re-flagged function table answers every structural question like the original -/

theorem u_get (ρ : List FunDef) (i : Nat) : (ρ.map allUnusedFun)[i]? = (ρ[i]?).map allUnusedFun := List.getElem?_map ..

theorem u_plen (ρ : List FunDef) (i : Nat) :
    ((ρ.map allUnusedFun)[i]?.map (·.params.length)) = (ρ[i]?.map (·.params.length)) := by
  rw [u_get]; cases ρ[i]? <;> rfl

theorem u_isGuarded (ρ : List FunDef) (g : Nat) : isGuarded (ρ.map allUnusedFun) g = isGuarded ρ g := by
  unfold isGuarded; rw [u_get]; cases ρ[g]? <;> simp [allUnusedFun]

theorem u_numDiffs (fd : FunDef) (vals : List Val) : numDiffs (allUnusedFun fd) vals = numDiffs fd vals := rfl
theorem u_paramsMatch (fd : FunDef) (vals : List Val) : paramsMatch (allUnusedFun fd) vals = paramsMatch fd vals := rfl
theorem u_guardNone (fd : FunDef) : (allUnusedFun fd).guard.isNone = fd.guard.isNone := by simp [allUnusedFun]
theorem u_sameSig (a b : FunDef) : sameSig (allUnusedFun a) (allUnusedFun b) = sameSig a b := by
  unfold sameSig; simp [u_guardNone]; rfl

theorem u_orderCands (ρ : List FunDef) (cands : List Nat) (vals : List Val) :
    orderCands (ρ.map allUnusedFun) cands vals = orderCands ρ cands vals := by
  unfold orderCands
  congr 1
  funext i
  congr 1
  funext g
  rw [u_get]
  cases ρ[g]? <;> rfl

theorem u_defClash (ρ : List FunDef) (ex : List Nat) (fid : Nat) : defClash (ρ.map allUnusedFun) ex fid = defClash ρ ex fid := by
  unfold defClash
  rw [u_get]
  cases ρ[fid]? with
  | none => rfl
  | some fd =>
    simp only [Option.map]
    congr 1
    funext g
    rw [u_get]
    cases ρ[g]? with
    | none => rfl
    | some gd => simp only [Option.map, u_sameSig]

theorem u_insertOverload (ρ : List FunDef) (ex : List Nat) (fid : Nat) :
    insertOverload (ρ.map allUnusedFun) ex fid = insertOverload ρ ex fid := by
  unfold insertOverload
  simp only [u_isGuarded]
  have : (isGuarded (ρ.map allUnusedFun)) = isGuarded ρ := funext (u_isGuarded ρ)
  simp [this]



/-! ### tails -/
theorem wp_valfun (s : St) (p) : St.val (s.wp p) = St.val s := rfl

theorem wp_addAll : ∀ (ps : List (Name × Loc)) (s : St) (p), addAll (s.wp p) ps = (addAll s ps).map (·.wp p) := by
  intro ps
  induction ps with
  | nil => intro s p; rfl
  | cons x rest ih =>
    intro s p
    obtain ⟨n, l⟩ := x
    simp only [addAll, wp_addObject]
    cases s.addObject n l with
    | none => rfl
    | some s' => simp only [Option.map]; exact ih s' p

theorem addAll_params : ∀ (ps : List (Name × Loc)) (s s' : St), addAll s ps = some s' → s'.params = s.params := by
  intro ps
  induction ps with
  | nil => intro s s' h; simp [addAll] at h; rw [h]
  | cons x rest ih =>
    intro s s' h
    obtain ⟨n, l⟩ := x
    simp only [addAll] at h
    cases h1 : s.addObject n l with
    | none => rw [h1] at h; cases h
    | some t =>
      rw [h1] at h
      have := ih t s' h
      rw [this]
      unfold St.addObject at h1
      split at h1
      · cases h1
      · split at h1
        · cases h1
        · cases h1; rfl

theorem same_allocVal (t : St) (q : List (List Loc)) (hq : q.length = t.params.length) (v : Val) (c r : Bool) :
    Same (allocVal t v c r) (allocVal (t.wp q) v c r) := Same.mk _ _ _ hq

theorem same_clone (t : St) (q : List (List Loc)) (hq : q.length = t.params.length) (l : Loc) :
    Same (cloneIfNecessary t l) (cloneIfNecessary (t.wp q) l) := by
  unfold cloneIfNecessary
  simp only [wp_cell, wp_val]
  by_cases h : (t.cell l).ret = true
  · simp only [h, if_true, wp_setCell]; exact Same.mk _ _ _ hq
  · simp only [h, if_false]; exact Same.mk _ _ _ hq

/-- tactic: bring both recursive runs into the context: same outcome, states equal up to the saved parameters -/
syntax "ihw " ident term:max term:max term:max term:max term:max : tactic
set_option hygiene false in
macro_rules
  | `(tactic| ihw $ih $j $j' $t $q $hq) =>
    `(tactic| (have hh0 : Same (run ρ f $j $t) (run (List.map allUnusedFun ρ) f $j' (St.wp $t $q)) := $ih $j $t $q $hq
               generalize run ρ f $j $t = rr at hh0 ⊢
               generalize run (List.map allUnusedFun ρ) f $j' (St.wp $t $q) = rr' at hh0 ⊢
               obtain ⟨oo, tt⟩ := rr
               obtain ⟨oo', tt'⟩ := rr'
               obtain ⟨hh1, qq, hqq, hh2⟩ := hh0
               simp only [] at hh1 hh2 hqq
               subst hh1
               subst hh2))

theorem u_isRef (n : Node) : isRefDecl (allUnused n) = isRefDecl n := by
  cases n with
  | ret e => cases e <;> rfl
  | tryN b cs fin => cases fin <;> rfl
  | _ => rfl

/-- a `withFnCall` whose body only saves parameters and allocates / throws -/
syntax "fncall_tail " term:max term:max term:max : tactic
macro_rules
  | `(tactic| fncall_tail $t $q $hq) =>
    `(tactic| (refine withFnCall_same $t $q $hq (fun t3 q3 hq3 => ?_)
               simp only [wp_saveParams, allocVal, wp_allocV]
               exact Same.mk _ _ _ (by simp [St.saveParams, St.allocV, modifyLast_length, hq3])))

theorem tag_wp (t : St) (q : List (List Loc)) (l : Loc) : tagParamAlias (t.wp q) l = (tagParamAlias t l).wp q := by
  unfold tagParamAlias
  by_cases hc : ((t.cell l).ret && t.isNamed l) = true
  · have hc' : (((t.wp q).cell l).ret && (t.wp q).isNamed l) = true := hc
    rw [if_pos hc', if_pos hc]; rfl
  · have hc' : ¬ (((t.wp q).cell l).ret && (t.wp q).isNamed l) = true := hc
    rw [if_neg hc', if_neg hc]

theorem tag_params_len (t : St) (l : Loc) : (tagParamAlias t l).params.length = t.params.length := by
  unfold tagParamAlias; split <;> rfl

theorem run_wp_step (ρ : List FunDef) (f : Nat)
    (ih : ∀ j s p, p.length = s.params.length → Same (run ρ f j s) (run (ρ.map allUnusedFun) f (allUnusedJob j) (s.wp p))) :
    ∀ j s p, p.length = s.params.length → Same (run ρ (f + 1) j s) (run (ρ.map allUnusedFun) (f + 1) (allUnusedJob j) (s.wp p)) := by
  intro j s p hp
  cases j with
  | seq xs =>
    cases xs with
    | nil => exact same_allocVal s p hp _ _ _
    | cons x rest =>
      cases rest with
      | nil => simp only [allUnusedJob, allUnusedList, run]; exact ih (.node x) s p hp
      | cons y ys =>
        simp only [allUnusedJob, allUnusedList, run]
        exact bnd_same (ih (.node x) s p hp) (fun _ t q hq => ih (.seq (y :: ys)) t q hq)
  | args xs acc =>
    cases xs with
    | nil => exact Same.mk _ _ _ hp
    | cons x rest =>
      simp only [allUnusedJob, allUnusedList, run]
      exact bnd_same (ih (.node x) s p hp) (fun l t q hq => ih (.args rest (acc ++ [l])) t q hq)
  | whileL c b =>
    simp only [allUnusedJob, run]
    refine bnd_same (withScope_same s p hp (fun t q hq => ih (.node c) t q hq)) (fun l t q hq => ?_)
    simp only [boolOf, wp_val]
    split
    · exact Same.mk _ _ _ hq
    · exact same_allocVal t q hq _ _ _
    · ihw ih (.node b) (.node (allUnused b)) t q hq
      cases oo' <;> first | exact ih (.whileL c b) _ _ hqq | exact Same.mk _ _ _ hqq
  | forL c st b =>
    simp only [allUnusedJob, run]
    refine bnd_same (withScope_same s p hp (fun t q hq => ih (.node c) t q hq)) (fun l t q hq => ?_)
    simp only [boolOf, wp_val]
    split
    · exact Same.mk _ _ _ hq
    · exact same_allocVal t q hq _ _ _
    · ihw ih (.node b) (.node (allUnused b)) t q hq
      cases oo' <;> first
        | exact bnd_same (ih (.node st) _ _ hqq) (fun _ u r hr => ih (.forL c st b) u r hr)
        | exact Same.mk _ _ _ hqq
  | cforL il hi b =>
    simp only [allUnusedJob, run, wp_val]
    split
    · split
      · have key : ∀ (u : St) (r : List (List Loc)), r.length = u.params.length →
            Same (match u.val il with
                | .int j => if (u.cell il).const then ((.thrown (.evalErr .assignConst), u) : R) else run ρ f (.cforL il hi b) (u.setVal il (.int (j + 1)))
                | _ => (.thrown (.evalErr .other), u))
               (match (u.wp r).val il with
                | .int j => if ((u.wp r).cell il).const then ((.thrown (.evalErr .assignConst), u.wp r) : R) else run (ρ.map allUnusedFun) f (.cforL il hi (allUnused b)) ((u.wp r).setVal il (.int (j + 1)))
                | _ => (.thrown (.evalErr .other), u.wp r)) := by
          intro u r hr
          simp only [wp_val, wp_cell, wp_setVal]
          cases u.val il <;> try exact Same.mk _ _ _ hr
          simp only []
          by_cases hcst : (u.cell il).const = true
          · simp only [hcst, if_true]; exact Same.mk _ _ _ hr
          · simp only [hcst, if_false]
            exact ih (.cforL il hi b) _ r (by simpa [St.setVal] using hr)
        ihw ih (.node b) (.node (allUnused b)) s p hp
        cases oo' <;> first | exact key _ _ hqq | exact Same.mk _ _ _ hqq
      · exact same_allocVal s p hp _ _ _
    · exact Same.mk _ _ _ hp
  | callFn fid caps args =>
    simp only [allUnusedJob, run, u_get]
    cases hfd : ρ[fid]? with
    | none => exact Same.mk _ _ _ hp
    | some fd =>
      simp only [Option.map]
      refine withStack_same s p hp (fun t q hq => ?_)
      simp only [wp_addAll]
      cases h1 : addAll t (sortCaps caps) with
      | none => exact Same.mk _ _ _ hq
      | some s1 =>
        simp only [Option.map]
        have e1 := addAll_params _ _ _ h1
        have hp' : (allUnusedFun fd).params = fd.params := rfl
        rw [hp']
        simp only [wp_addAll]
        cases h2 : addAll s1 (fd.params.zip args) with
        | none => exact Same.mk _ _ _ (by rw [e1]; exact hq)
        | some s2 =>
          simp only [Option.map]
          have e2 := addAll_params _ _ _ h2
          ihw ih (.node fd.body) (.node (allUnusedFun fd).body) s2 q (by rw [e2, e1]; exact hq)
          cases oo' <;> exact Same.mk _ _ _ hqq
  | guardFn fid args =>
    simp only [allUnusedJob, run, u_get]
    cases hfd : ρ[fid]? with
    | none => exact Same.mk _ _ _ hp
    | some fd =>
      simp only [Option.map]
      cases hg : fd.guard with
      | none => simp only [allUnusedFun, hg, Option.map]; exact same_allocVal s p hp _ _ _
      | some gd =>
        simp only [allUnusedFun, hg, Option.map]
        refine withStack_same s p hp (fun t q hq => ?_)
        simp only [wp_addAll]
        cases h2 : addAll t (fd.params.zip args) with
        | none => exact Same.mk _ _ _ hq
        | some s2 =>
          simp only [Option.map]
          have e2 := addAll_params _ _ _ h2
          ihw ih (.node gd) (.node (allUnused gd)) s2 q (by rw [e2]; exact hq)
          cases oo' <;> exact Same.mk _ _ _ hqq
  | dispatch cands args =>
    cases cands with
    | nil => exact Same.mk _ _ _ hp
    | cons c rest =>
      simp only [allUnusedJob, run, u_get]
      cases hfd : ρ[c]? with
      | none => exact Same.mk _ _ _ hp
      | some fd =>
        simp only [Option.map, u_paramsMatch, u_guardNone, wp_valfun]
        split
        · exact ih (.dispatch rest args) s p hp
        · split
          · exact ih (.callFn c [] args) s p hp
          · ihw ih (.guardFn c args) (.guardFn c args) s p hp
            cases oo' <;> try exact Same.mk _ _ _ hqq
            simp only [wp_val]
            split
            · exact ih (.callFn c [] args) _ _ hqq
            · exact ih (.dispatch rest args) _ _ hqq
  | catches cs exc =>
    cases cs with
    | nil => exact Same.mk _ _ _ hp
    | cons cl rest =>
      obtain ⟨param, body⟩ := cl
      simp only [allUnusedJob, allUnusedCatches, run]
      generalize hgen1 : withScope _ s = rw
      generalize hgen2 : withScope _ (s.wp p) = rw'
      have hw : Same rw rw' := by
        rw [← hgen1, ← hgen2]
        refine withScope_same s p hp (fun t q hq => ?_)
        cases param with
        | none =>
          simp only []
          ihw ih (.node body) (.node (allUnused body)) t q hq
          cases oo' <;> exact Same.mk _ _ _ hqq
        | some xt =>
          obtain ⟨x, ty⟩ := xt
          simp only [wp_val, wp_addObject]
          split
          · cases h1 : t.addObject x exc with
            | none => exact Same.mk _ _ _ hq
            | some s1 =>
              simp only [Option.map]
              have e1 : s1.params = t.params := addAll_params [(x, exc)] t s1 (by simp [addAll, h1])
              ihw ih (.node body) (.node (allUnused body)) s1 q (by rw [e1]; exact hq)
              cases oo' <;> exact Same.mk _ _ _ hqq
          · exact Same.mk _ _ _ hq
      clear hgen1 hgen2
      obtain ⟨o, t⟩ := rw
      obtain ⟨o', t'⟩ := rw'
      obtain ⟨h1, q, hq, h2⟩ := hw
      simp only [] at h1 h2 hq
      subst h1; subst h2
      cases o' <;> first | exact ih (.catches rest exc) _ _ hq | exact Same.mk _ _ _ hq
  | node n =>
    cases n with
    | const l => exact Same.mk _ _ _ hp
    | noop => exact same_allocVal s p hp _ _ _
    | brk => exact Same.mk _ _ _ hp
    | cont => exact Same.mk _ _ _ hp
    | id nid x =>
      simp only [allUnusedJob, allUnused, run, wp_getObject]
      have hsh := shape_getObject s nid x
      have hlen : (s.getObject nid x).2.params.length = s.params.length := by
        have := congrArg (fun z => z.2.1) hsh
        simpa [St.shape] using this
      generalize s.getObject nid x = r at hlen ⊢
      obtain ⟨res, s1⟩ := r
      simp only [] at hlen
      cases res <;> first | exact Same.mk _ _ _ (by rw [hlen]; exact hp) | exact same_allocVal s1 p (by rw [hlen]; exact hp) _ _ _
    | bin op a b =>
      simp only [allUnusedJob, allUnused, run]
      refine bnd_same (ih (.node a) s p hp) (fun la t q hq => ?_)
      refine bnd_same (ih (.node b) t q hq) (fun lb t2 q2 hq2 => ?_)
      simp only [wp_val]
      cases hva : t2.val la <;> cases hvb : t2.val lb
      all_goals first
        | (simp only []; split <;> first | exact same_allocVal t2 q2 hq2 _ _ _ | exact Same.mk _ _ _ hq2)
        | (refine withFnCall_same t2 q2 hq2 (fun t3 q3 hq3 => ?_)
           cases op <;> simp only [wp_saveParams, allocVal, wp_allocV] <;>
             exact Same.mk _ _ _ (by simp [St.saveParams, St.allocV, modifyLast_length, hq3]))
    | foldR op a c =>
      simp only [allUnusedJob, allUnused, run]
      refine bnd_same (ih (.node a) s p hp) (fun la t q hq => ?_)
      simp only [wp_val]
      cases hva : t.val la <;> cases hvc : t.val c
      all_goals first
        | (simp only []; split <;> first | exact same_allocVal t q hq _ _ _ | exact Same.mk _ _ _ hq)
        | (simp only []; fncall_tail t q hq)
    | pre op a =>
      simp only [allUnusedJob, allUnused, run]
      refine bnd_same (ih (.node a) s p hp) (fun la t q hq => ?_)
      simp only [wp_val, wp_cell]
      cases op <;> cases hva : t.val la <;> simp only []
      all_goals first
        | exact same_allocVal t q hq _ _ _
        | fncall_tail t q hq
        | (by_cases hc : (t.cell la).const = true
           · simp only [hc, if_true]; exact Same.mk _ _ _ hq
           · simp only [hc, if_false, wp_setVal]; exact Same.mk _ _ _ (by simpa [St.setVal] using hq))
    | and a b =>
      simp only [allUnusedJob, allUnused, run]
      refine bnd_same (ih (.node a) s p hp) (fun la t q hq => ?_)
      simp only [boolOf, wp_val]
      cases hva : t.val la <;> simp only [] <;> try exact Same.mk _ _ _ hq
      rename_i bv
      cases bv <;> simp only []
      · exact same_allocVal t q hq _ _ _
      · refine bnd_same (ih (.node b) t q hq) (fun lb t2 q2 hq2 => ?_)
        simp only [wp_val]
        cases t2.val lb <;> simp only [] <;> first | exact Same.mk _ _ _ hq2 | exact same_allocVal t2 q2 hq2 _ _ _
    | or a b =>
      simp only [allUnusedJob, allUnused, run]
      refine bnd_same (ih (.node a) s p hp) (fun la t q hq => ?_)
      simp only [boolOf, wp_val]
      cases hva : t.val la <;> simp only [] <;> try exact Same.mk _ _ _ hq
      rename_i bv
      cases bv <;> simp only []
      · refine bnd_same (ih (.node b) t q hq) (fun lb t2 q2 hq2 => ?_)
        simp only [wp_val]
        cases t2.val lb <;> simp only [] <;> first | exact Same.mk _ _ _ hq2 | exact same_allocVal t2 q2 hq2 _ _ _
      · exact same_allocVal t q hq _ _ _
    | block xs => simp only [allUnusedJob, allUnused, run]; exact withScope_same s p hp (fun t q hq => ih (.seq xs) t q hq)
    | scopeless xs => simp only [allUnusedJob, allUnused, run]; exact ih (.seq xs) s p hp
    | ifN c t e =>
      simp only [allUnusedJob, allUnused, run]
      refine bnd_same (ih (.node c) s p hp) (fun lc t1 q hq => ?_)
      simp only [boolOf, wp_val]
      cases t1.val lc <;> simp only [] <;> try exact Same.mk _ _ _ hq
      rename_i bv
      cases bv <;> simp only []
      · exact ih (.node e) t1 q hq
      · exact ih (.node t) t1 q hq
    | whileN c b =>
      simp only [allUnusedJob, allUnused, run]
      refine withScope_same s p hp (fun t q hq => ?_)
      ihw ih (.whileL c b) (.whileL (allUnused c) (allUnused b)) t q hq
      cases oo' <;> first | exact Same.mk _ _ _ hqq | exact same_allocVal _ _ hqq _ _ _
    | forN i c st b =>
      simp only [allUnusedJob, allUnused, run]
      refine withScope_same s p hp (fun t q hq => ?_)
      refine bnd_same (ih (.node i) t q hq) (fun l t1 q1 hq1 => ?_)
      ihw ih (.forL c st b) (.forL (allUnused c) (allUnused st) (allUnused b)) t1 q1 hq1
      cases oo' <;> first | exact Same.mk _ _ _ hqq | exact same_allocVal _ _ hqq _ _ _
    | varDecl x =>
      simp only [allUnusedJob, allUnused, run, wp_allocV, wp_addObject]
      cases h1 : (s.allocV .undef).2.addObject x (s.allocV .undef).1 with
      | none => exact Same.mk _ _ _ hp
      | some s2 =>
        simp only [Option.map]
        have e : s2.params = (s.allocV .undef).2.params := addAll_params [(x, (s.allocV .undef).1)] _ s2 (by simp [addAll, h1])
        exact Same.mk _ _ _ (by rw [e]; exact hp)
    | refDecl x =>
      simp only [allUnusedJob, allUnused, run, wp_allocV, wp_addObject]
      cases h1 : (s.allocV .undef).2.addObject x (s.allocV .undef).1 with
      | none => exact Same.mk _ _ _ hp
      | some s2 =>
        simp only [Option.map]
        have e : s2.params = (s.allocV .undef).2.params := addAll_params [(x, (s.allocV .undef).1)] _ s2 (by simp [addAll, h1])
        exact Same.mk _ _ _ (by rw [e]; exact hp)
    | assignDecl x e =>
      simp only [allUnusedJob, allUnused, run]
      refine withFnCall_same s p hp (fun s0 q0 h0 => ?_)
      refine bnd_same (ih (.node e) s0 q0 h0) (fun l t q hq => ?_)
      have htag : tagParamAlias (t.wp q) l = (tagParamAlias t l).wp q := by
        unfold tagParamAlias
        by_cases hc : ((t.cell l).ret && t.isNamed l) = true
        · have hc' : (((t.wp q).cell l).ret && (t.wp q).isNamed l) = true := hc
          rw [if_pos hc', if_pos hc]; rfl
        · have hc' : ¬ (((t.wp q).cell l).ret && (t.wp q).isNamed l) = true := hc
          rw [if_neg hc', if_neg hc]
      have htl : (tagParamAlias t l).params.length = t.params.length := by
        unfold tagParamAlias; split <;> rfl
      rw [htag]
      refine bnd_same (same_clone _ q (by rw [htl]; exact hq) l) (fun l2 t2 q2 hq2 => ?_)
      simp only [wp_setCell, wp_cell, wp_addObject]
      cases h1 : (t2.setCell l2 { t2.cell l2 with ret := false }).addObject x l2 with
      | none => exact Same.mk _ _ _ (by simpa [St.setCell] using hq2)
      | some s4 =>
        simp only [Option.map]
        have e : s4.params = (t2.setCell l2 { t2.cell l2 with ret := false }).params := addAll_params [(x, l2)] _ s4 (by simp [addAll, h1])
        exact Same.mk _ _ _ (by rw [e]; simpa [St.setCell] using hq2)
    | cfor x lo hi b =>
      simp only [allUnusedJob, allUnused, run]
      refine withScope_same s p hp (fun t q hq => ?_)
      simp only [wp_allocV, wp_addObject]
      cases h1 : (t.allocV (.int lo)).2.addObject x (t.allocV (.int lo)).1 with
      | none => exact Same.mk _ _ _ (by simpa [St.allocV] using hq)
      | some s2 =>
        simp only [Option.map]
        have e : s2.params = (t.allocV (.int lo)).2.params := addAll_params [(x, (t.allocV (.int lo)).1)] _ s2 (by simp [addAll, h1])
        ihw ih (.cforL (t.allocV (.int lo)).1 hi b) (.cforL (t.allocV (.int lo)).1 hi (allUnused b)) s2 q (by rw [e]; simpa [St.allocV] using hq)
        cases oo' <;> first | exact Same.mk _ _ _ hqq | exact same_allocVal _ _ hqq _ _ _
    | ret e =>
      cases e with
      | none => simp only [allUnusedJob, allUnused, run, allocVal, wp_allocV]; exact Same.mk _ _ _ (by simpa [St.allocV] using hp)
      | some e' =>
        simp only [allUnusedJob, allUnused, run]
        ihw ih (.node e') (.node (allUnused e')) s p hp
        cases oo' <;> exact Same.mk _ _ _ hqq
    | inlineVec xs =>
      simp only [allUnusedJob, allUnused, run]
      ihw ih (.args xs []) (.args (allUnusedList xs) []) s p hp
      cases oo' <;> try exact Same.mk _ _ _ hqq
      rename_i ls
      simp only []
      have key : ∀ (ls acc : List Loc) (u : St) (r : List (List Loc)), r.length = u.params.length →
          (run.cloneAll ls acc (u.wp r)).1 = (run.cloneAll ls acc u).1 ∧
          ∃ r', r'.length = (run.cloneAll ls acc u).2.params.length ∧ (run.cloneAll ls acc (u.wp r)).2 = (run.cloneAll ls acc u).2.wp r' := by
        intro ls
        induction ls with
        | nil => intro acc u r hr; exact ⟨rfl, r, hr, rfl⟩
        | cons l rest ihc =>
          intro acc u r hr
          simp only [run.cloneAll]
          have hc := same_clone u r hr l
          generalize cloneIfNecessary u l = c1 at hc ⊢
          generalize cloneIfNecessary (u.wp r) l = c2 at hc ⊢
          obtain ⟨o1, u1⟩ := c1
          obtain ⟨o2, u2⟩ := c2
          obtain ⟨h1, r1, hr1, h2⟩ := hc
          simp only [] at h1 h2 hr1
          subst h1; subst h2
          cases o2 <;> exact ihc _ _ _ hr1
      obtain ⟨k1, r', hr', k2⟩ := key ls [] tt qq hqq
      generalize run.cloneAll ls [] tt = c1 at k1 k2 hr' ⊢
      generalize run.cloneAll ls [] (tt.wp qq) = c2 at k1 k2 ⊢
      obtain ⟨a1, u1⟩ := c1
      obtain ⟨a2, u2⟩ := c2
      simp only [] at k1 k2 hr'
      subst k1; subst k2
      exact same_allocVal _ _ hr' _ _ _
    | index a i =>
      simp only [allUnusedJob, allUnused, run]
      refine withFnCall_same s p hp (fun t0 q0 h0 => ?_)
      refine bnd_same (ih (.node a) t0 q0 h0) (fun la t q hq => ?_)
      refine bnd_same (ih (.node i) t q hq) (fun li t2 q2 hq2 => ?_)
      simp only [wp_saveParams, wp_val]
      have hl : (modifyLast (fun x => [la, li] ++ x) q2).length = (t2.saveParams [la, li]).params.length := by
        simp [St.saveParams, modifyLast_length, hq2]
      cases (t2.saveParams [la, li]).val la <;> cases (t2.saveParams [la, li]).val li <;> simp only [] <;> try exact Same.mk _ _ _ hl
      split <;> exact Same.mk _ _ _ hl
    | evalStr nids n =>
      simp only [allUnusedJob, allUnused, run, wp_dropHints]
      refine withFnCall_same s p hp (fun t0 q0 h0 => ?_)
      simp only [wp_dropHints]
      ihw ih (.node n) (.node (allUnused n)) (t0.dropHints nids) q0 (by simpa [St.dropHints] using h0)
      cases oo' with
      | thrown e =>
        cases e <;> simp only [] <;> first
          | exact Same.mk _ _ _ hqq
          | (simp only [wp_allocV]; exact Same.mk _ _ _ (by simpa [St.allocV] using hqq))
      | _ => exact Same.mk _ _ _ hqq
    | lambda fid caps =>
      simp only [allUnusedJob, allUnused, run]
      have key : ∀ (caps : List (Nat × Name)) (acc : List (Name × Loc)) (u : St) (r : List (List Loc)),
          run.evalCaps caps acc (u.wp r) = ((run.evalCaps caps acc u).1, (run.evalCaps caps acc u).2.wp r) := by
        intro caps
        induction caps with
        | nil => intro acc u r; rfl
        | cons c cs ihc =>
          intro acc u r
          obtain ⟨nid, x⟩ := c
          simp only [run.evalCaps, wp_getObject]
          generalize u.getObject nid x = g
          obtain ⟨res, u1⟩ := g
          cases res <;> simp only [] <;> first | exact ihc _ _ _ | rfl
      rw [key]
      have hlen : (run.evalCaps caps [] s).2.params.length = s.params.length := by
        have := congrArg (fun z => z.2.1) (evalCaps_shape caps [] s)
        simpa [St.shape] using this
      generalize run.evalCaps caps [] s = r at hlen ⊢
      obtain ⟨o, s1⟩ := r
      simp only [] at hlen
      cases o <;> simp only [] <;> first | exact same_allocVal s1 p (by rw [hlen]; exact hp) _ _ _ | exact Same.mk _ _ _ (by rw [hlen]; exact hp)
    | def_ name fid =>
      simp only [allUnusedJob, allUnused, run, u_insertOverload, u_defClash, wp_funs]
      split
      · exact Same.mk _ _ _ hp
      · exact Same.mk _ _ _ hp
    | call unused fe args =>
      simp only [allUnusedJob, allUnused, run]
      refine withFnCall_same s p hp (fun t0 q0 h0 => ?_)
      ihw ih (.args args []) (.args (allUnusedList args) []) t0 q0 h0
      cases oo' <;> try exact Same.mk _ _ _ hqq
      rename_i as_
      simp only [if_true]
      -- the optimized call never saves; the original may: both states are the same up to the saved parameters
      have hs2 : ∃ q', q'.length = (if unused = true then tt else tt.saveParams as_).params.length ∧
          tt.wp qq = (if unused = true then tt else tt.saveParams as_).wp q' := by
        cases unused
        · exact ⟨qq, by simp [St.saveParams, modifyLast_length, hqq], rfl⟩
        · exact ⟨qq, by simpa using hqq, rfl⟩
      obtain ⟨q', hq', heq⟩ := hs2
      rw [heq]
      refine bnd_same (ih (.node fe) _ q' hq') (fun lf t3 q3 h3 => ?_)
      simp only [wp_val, u_plen, u_orderCands, wp_funs, wp_valfun]
      cases hv : t3.val lf <;> (try simp only [])
      all_goals first
        | exact Same.mk _ _ _ h3
        | (split <;> first | exact ih (.callFn _ _ _) _ _ h3 | exact Same.mk _ _ _ h3)
        | exact ih (.dispatch _ _) _ _ h3
        | skip
      · -- native callback
        by_cases hat : (t3.natCount == t3.fault.at_) = true
        · have hat' : ((t3.wp q3).natCount == (t3.wp q3).fault.at_) = true := hat
          rw [if_pos hat, if_pos hat']
          by_cases hb : t3.fault.boxed = true
          · have hb' : (t3.wp q3).fault.boxed = true := hb
            rw [if_pos hb, if_pos hb']
            exact Same.mk _ _ _ (by simpa [St.allocV] using h3)
          · have hb' : ¬ (t3.wp q3).fault.boxed = true := hb
            rw [if_neg hb, if_neg hb']
            by_cases hk : (t3.fault.kind == ExcKind.evalError) = true
            · have hk' : ((t3.wp q3).fault.kind == ExcKind.evalError) = true := hk
              rw [if_pos hk, if_pos hk']; exact Same.mk _ _ _ h3
            · have hk' : ¬ ((t3.wp q3).fault.kind == ExcKind.evalError) = true := hk
              rw [if_neg hk, if_neg hk']; exact Same.mk _ _ _ h3
        · have hat' : ¬ ((t3.wp q3).natCount == (t3.wp q3).fault.at_) = true := hat
          rw [if_neg hat, if_neg hat']
          exact Same.mk _ _ _ (by simpa [St.allocV] using h3)
      · -- builtin
        rename_i bi
        cases bi <;> (try simp only []) <;> (split <;> first | exact Same.mk _ _ _ h3 | exact same_allocVal _ _ h3 _ _ _)
    | tryN body cs fin =>
      have hbox : ∀ (e : Exc) (u : St) (r : List (List Loc)), r.length = u.params.length →
          boxExc e (u.wp r) = ((boxExc e u).1, (boxExc e u).2.wp r) ∧ r.length = (boxExc e u).2.params.length := by
        intro e u r hr
        cases e <;> exact ⟨rfl, by simpa [boxExc, St.allocV] using hr⟩
      cases fin with
      | none =>
        simp only [allUnusedJob, allUnused, run]
        refine withScope_same s p hp (fun t0 q0 h0 => ?_)
        ihw ih (.node body) (.node (allUnused body)) t0 q0 h0
        cases oo' with
        | thrown e =>
          simp only []
          split
          · obtain ⟨hb1, hb2⟩ := hbox e tt qq hqq
            rw [hb1]
            generalize boxExc e tt = bx at hb2 ⊢
            obtain ⟨el, s2⟩ := bx
            simp only [] at hb2 ⊢
            ihw ih (.catches cs el) (.catches (allUnusedCatches cs) el) s2 qq hb2
            cases oo' <;> exact Same.mk _ _ _ hqq
          · exact Same.mk _ _ _ hqq
        | _ => exact Same.mk _ _ _ hqq
      | some fb =>
        simp only [allUnusedJob, allUnused, run]
        refine withScope_same s p hp (fun t0 q0 h0 => ?_)
        have hfin : ∀ (s1 : St) (r : List (List Loc)) (o : Out), r.length = s1.params.length →
            Same (match run ρ f (.node fb) s1 with | (.val _, s2) => ((o, s2) : R) | r => r)
                 (match run (ρ.map allUnusedFun) f (.node (allUnused fb)) (s1.wp r) with | (.val _, s2) => ((o, s2) : R) | r => r) := by
          intro s1 r o hr
          ihw ih (.node fb) (.node (allUnused fb)) s1 r hr
          cases oo' <;> exact Same.mk _ _ _ hqq
        ihw ih (.node body) (.node (allUnused body)) t0 q0 h0
        cases oo' with
        | val l => exact ih (.node fb) _ _ hqq
        | thrown e =>
          simp only []
          split
          · obtain ⟨hb1, hb2⟩ := hbox e tt qq hqq
            rw [hb1]
            generalize boxExc e tt = bx at hb2 ⊢
            obtain ⟨el, s2⟩ := bx
            simp only [] at hb2 ⊢
            ihw ih (.catches cs el) (.catches (allUnusedCatches cs) el) s2 qq hb2
            cases oo' <;> try simp only []
            all_goals first
              | exact Same.mk _ _ _ hqq
              | exact hfin _ _ _ hqq
              | exact ih (.node fb) _ _ hqq
          · exact hfin _ _ _ hqq
        | oof => exact Same.mk _ _ _ hqq
        | vals ls => exact hfin _ _ _ hqq
        | brk => exact hfin _ _ _ hqq
        | cont => exact hfin _ _ _ hqq
        | ret l => exact hfin _ _ _ hqq
        | noMatch => exact hfin _ _ _ hqq
    | eq op lhs rhs =>
      simp only [allUnusedJob, allUnused, run, u_isRef]
      refine withFnCall_same s p hp (fun t0 q0 h0 => ?_)
      refine bnd_same (ih (.node rhs) t0 q0 h0) (fun r t q hq => ?_)
      refine bnd_same (ih (.node lhs) t q hq) (fun l t2 q2 hq2 => ?_)
      simp only [wp_cell, wp_val]
      by_cases h1 : (t2.cell l).ret = true
      · simp only [h1, if_true]; exact Same.mk _ _ _ hq2
      · simp only [h1, Bool.false_eq_true, if_false]
        by_cases h2 : (t2.cell l).const = true
        · simp only [h2, if_true]; exact Same.mk _ _ _ hq2
        · simp only [h2, Bool.false_eq_true, if_false]
          cases op <;> cases hlv : t2.val l <;> cases hrv : t2.val r <;> (try simp only [])
          all_goals first
            | exact Same.mk _ _ _ hq2
            | (simp only [wp_setCell, wp_setVal]; exact Same.mk _ _ _ (by simpa [St.setCell, St.setVal] using hq2))
            | (by_cases hr : isRefDecl lhs = true
               · simp only [hr, if_true, wp_setCell]; exact Same.mk _ _ _ (by simpa [St.setCell] using hq2)
               · simp only [hr, Bool.false_eq_true, if_false]
                 rw [tag_wp]
                 have hc := same_clone (tagParamAlias t2 r) q2 (by rw [tag_params_len]; exact hq2) r
                 generalize cloneIfNecessary (tagParamAlias t2 r) r = c1 at hc ⊢
                 generalize cloneIfNecessary ((tagParamAlias t2 r).wp q2) r = c2 at hc ⊢
                 obtain ⟨o1, u1⟩ := c1
                 obtain ⟨o2, u2⟩ := c2
                 obtain ⟨k1, r1, hr1, k2⟩ := hc
                 simp only [] at k1 k2 hr1
                 subst k1; subst k2
                 cases o2 <;> (try simp only [wp_setCell, wp_cell]) <;> exact Same.mk _ _ _ (by simpa [St.setCell] using hr1))

/-- **the flag is unobservable, for every evaluation** -/
theorem run_wp (ρ : List FunDef) : ∀ (f : Nat) (j : Job) (s : St) (p : List (List Loc)), p.length = s.params.length →
    Same (run ρ f j s) (run (ρ.map allUnusedFun) f (allUnusedJob j) (s.wp p)) := by
  intro f
  induction f with
  | zero => intro j s p hp; exact Same.mk _ _ _ hp
  | succ f ih => exact run_wp_step ρ f ih

/-! ### the one-level pass only flips flags -/
theorem allUnused_markUnused (n : Node) : allUnused (markUnused n) = allUnused n := by
  cases n with
  | call u f as => cases u <;> simp [markUnused, allUnused]
  | ret e => cases e <;> rfl
  | tryN b cs fin => cases fin <;> rfl
  | _ => rfl

theorem allUnusedList_map_mark : ∀ xs : List Node, allUnusedList (xs.map markUnused) = allUnusedList xs := by
  intro xs
  induction xs with
  | nil => rfl
  | cons x rest ih => simp only [List.map_cons, allUnusedList, allUnused_markUnused, ih]

theorem allUnusedList_mapInit_mark : ∀ xs : List Node, allUnusedList (mapInit markUnused xs) = allUnusedList xs := by
  intro xs
  induction xs with
  | nil => rfl
  | cons x rest ih =>
    cases rest with
    | nil => rfl
    | cons y ys => simp only [mapInit, allUnusedList, allUnused_markUnused] at ih ⊢; rw [ih]

/-- `Unused_Return` changes nothing but `Unused_Return` flags -/
theorem allUnused_unusedReturn (n : Node) : allUnused (unusedReturn n) = allUnused n := by
  cases n with
  | block xs => simp only [unusedReturn, allUnused, allUnusedList_mapInit_mark]
  | scopeless xs => simp only [unusedReturn, allUnused, allUnusedList_mapInit_mark]
  | whileN c b =>
    cases b with
    | block ys => simp only [unusedReturn, allUnused, allUnusedList_map_mark]
    | scopeless ys => simp only [unusedReturn, allUnused, allUnusedList_map_mark]
    | ret e => cases e <;> rfl
    | tryN b cs fin => cases fin <;> rfl
    | _ => rfl
  | forN i c s b =>
    cases b with
    | block ys => simp only [unusedReturn, allUnused, allUnusedList_map_mark]
    | scopeless ys => simp only [unusedReturn, allUnused, allUnusedList_map_mark]
    | ret e => cases e <;> rfl
    | tryN b cs fin => cases fin <;> rfl
    | _ => rfl
  | ret e => cases e <;> rfl
  | tryN b cs fin => cases fin <;> rfl
  | _ => rfl

end ChaiVerif.Chai
