/-
Whole-tree round trip of the JSON wrapper model (M-JSON): parsing the text `dumpJ` produces gives the value back.
Helper lemmas; the property theorem is in Props/C18.
-/
import ChaiVerif.Model.Json
import ChaiVerif.Lemmas.JsonLeaves
namespace ChaiVerif.JRT

/-! ### reading a list at an offset -/
theorem get_mid (pre mid post : List Nat) (i : Nat) (h : i < mid.length) : (pre ++ mid ++ post)[pre.length + i]? = mid[i]? := by
  rw [List.append_assoc, List.getElem?_append_right (by omega)]
  simp [List.getElem?_append_left h]

theorem get_post (pre mid post : List Nat) (i : Nat) : (pre ++ mid ++ post)[pre.length + mid.length + i]? = post[i]? := by
  rw [List.getElem?_append_right (by simp)]
  simp

theorem get_post0 (pre mid : List Nat) (t : Nat) (post : List Nat) : (pre ++ mid ++ t :: post)[pre.length + mid.length]? = some t := by
  simp

/-! ### whitespace -/
def allSpace (ws : List Nat) : Prop := ∀ c ∈ ws, isSpace c = true

theorem consumeWs_here (s : List Nat) (off c f : Nat) (h : s[off]? = some c) (hc : isSpace c = false) :
    consumeWs s (f + 1) off = .ok off := by
  simp [consumeWs, at?, h, hc, bind, Except.bind, pure, Except.pure]

theorem consumeWs_spaces : ∀ (ws pre : List Nat) (c : Nat) (rest : List Nat) (f : Nat), allSpace ws → isSpace c = false → ws.length < f →
    consumeWs (pre ++ ws ++ c :: rest) f pre.length = .ok (pre.length + ws.length) := by
  intro ws
  induction ws with
  | nil =>
    intro pre c rest f _ hc hf
    obtain ⟨f, rfl⟩ : ∃ g, f = g + 1 := ⟨f - 1, by omega⟩
    have := consumeWs_here (pre ++ [] ++ c :: rest) pre.length c f (by simp) hc
    simpa using this
  | cons w ws ih =>
    intro pre c rest f hws hc hf
    obtain ⟨f, rfl⟩ : ∃ g, f = g + 1 := ⟨f - 1, by omega⟩
    have hw : isSpace w = true := hws w (by simp)
    have h1 : (pre ++ w :: ws ++ c :: rest)[pre.length]? = some w := by simp
    have hs : pre ++ w :: ws ++ c :: rest = (pre ++ [w]) ++ ws ++ c :: rest := by simp
    simp only [consumeWs, at?, h1, hw, bind, Except.bind, if_true]
    rw [hs]
    have := ih (pre ++ [w]) c rest f (fun x hx => hws x (List.mem_cons_of_mem _ hx)) hc (by simp at hf; omega)
    simp only [List.length_append, List.length_cons, List.length_nil] at this
    rw [this]
    simp; omega

/-! ### numbers -/
def allDigits (ds : List Nat) : Prop := ∀ x ∈ ds, isDigit x = true

theorem term_props {t : Nat} (h : isTerm t = true) :
    isDigit t = false ∧ (t == 46) = false ∧ (t == 69) = false ∧ (t == 101) = false ∧ (t == 45) = false := by
  simp only [isTerm, isSpace, Bool.or_eq_true, Bool.and_eq_true, beq_iff_eq, decide_eq_true_eq] at h
  simp only [isDigit, Bool.and_eq_false_iff, decide_eq_false_iff_not, beq_eq_false_iff_ne, ne_eq]
  omega

/-- the mantissa loop over a run of digits that is followed by a terminator -/
theorem mant_term : ∀ (ds pre : List Nat) (t : Nat) (post val : List Nat) (c F : Nat), allDigits ds → isTerm t = true → ds.length < F →
    numMantissa (pre ++ ds ++ t :: post) F pre.length val false c = (val ++ ds, false, t, pre.length + ds.length + 1) := by
  intro ds
  induction ds with
  | nil =>
    intro pre t post val c F _ ht hF
    obtain ⟨F, rfl⟩ : ∃ g, F = g + 1 := ⟨F - 1, by simp at hF; omega⟩
    obtain ⟨h1, h2, _⟩ := term_props ht
    simp [numMantissa, h1, h2]
  | cons d ds ih =>
    intro pre t post val c F hd ht hF
    obtain ⟨F, rfl⟩ : ∃ g, F = g + 1 := ⟨F - 1, by simp at hF; omega⟩
    have hdd : isDigit d = true := hd d (by simp)
    have h1 : (pre ++ d :: ds ++ t :: post)[pre.length]? = some d := by simp
    have hs : pre ++ d :: ds ++ t :: post = (pre ++ [d]) ++ ds ++ t :: post := by simp
    simp only [numMantissa, h1, hdd, if_true]
    rw [hs]
    have := ih (pre ++ [d]) t post (val ++ [d]) d F (fun x hx => hd x (List.mem_cons_of_mem _ hx)) ht (by simp at hF; omega)
    simp only [List.length_append, List.length_cons, List.length_nil] at this
    rw [this]
    simp; omega

/-- … and over a run of digits at the very end of the input -/
theorem mant_end : ∀ (ds pre val : List Nat) (c F : Nat), allDigits ds → ds.length < F →
    ∃ c', numMantissa (pre ++ ds) F pre.length val false c = (val ++ ds, false, c', pre.length + ds.length) := by
  intro ds
  induction ds with
  | nil =>
    intro pre val c F _ hF
    obtain ⟨F, rfl⟩ : ∃ g, F = g + 1 := ⟨F - 1, by simp at hF; omega⟩
    exact ⟨c, by simp [numMantissa]⟩
  | cons d ds ih =>
    intro pre val c F hd hF
    obtain ⟨F, rfl⟩ : ∃ g, F = g + 1 := ⟨F - 1, by simp at hF; omega⟩
    have hdd : isDigit d = true := hd d (by simp)
    have h1 : (pre ++ d :: ds)[pre.length]? = some d := by simp
    have hs : pre ++ d :: ds = (pre ++ [d]) ++ ds := by simp
    obtain ⟨c', hc'⟩ := ih (pre ++ [d]) (val ++ [d]) d F (fun x hx => hd x (List.mem_cons_of_mem _ hx)) (by simp at hF; omega)
    refine ⟨c', ?_⟩
    simp only [numMantissa, h1, hdd, if_true]
    simp only [List.length_append, List.length_cons, List.length_nil] at hc'
    rw [hs, hc']
    simp; omega

theorem digit_ne_minus {d : Nat} (h : isDigit d = true) : d ≠ 45 := by
  simp [isDigit] at h; omega

theorem parseNumber_pos_term (pre ds : List Nat) (t : Nat) (post : List Nat) (hd : allDigits ds) (hne : ds ≠ []) (ht : isTerm t = true) :
    parseNumber (pre ++ ds ++ t :: post) pre.length = .ok (.int (wrap64 (parseNumInt ds)), pre.length + ds.length) := by
  obtain ⟨d, ds', rfl⟩ : ∃ d ds', ds = d :: ds' := by cases ds with | nil => exact absurd rfl hne | cons d ds' => exact ⟨d, ds', rfl⟩
  have h0 : (pre ++ d :: ds' ++ t :: post)[pre.length]? = some d := by simp
  have hd0 : d ≠ 45 := digit_ne_minus (hd d (by simp))
  have hm := mant_term (d :: ds') pre t post [] 0 ((pre ++ d :: ds' ++ t :: post).length + 1) hd ht (by simp; omega)
  obtain ⟨_, _, h69, h101, _⟩ := term_props ht
  unfold parseNumber
  simp only [h0, Option.some.injEq, beq_iff_eq, hd0, if_false, Bool.false_eq_true]
  rw [hm]
  simp [h69, h101, ht, bind, Except.bind, pure, Except.pure]

theorem parseNumber_neg_term (pre ds : List Nat) (t : Nat) (post : List Nat) (hd : allDigits ds) (ht : isTerm t = true) :
    parseNumber (pre ++ 45 :: ds ++ t :: post) pre.length = .ok (.int (wrap64 (-1 * parseNumInt ds)), pre.length + ds.length + 1) := by
  have h0 : (pre ++ 45 :: ds ++ t :: post)[pre.length]? = some 45 := by simp
  have hs : pre ++ 45 :: ds ++ t :: post = (pre ++ [45]) ++ ds ++ t :: post := by simp
  have hm := mant_term ds (pre ++ [45]) t post [] 0 ((pre ++ 45 :: ds ++ t :: post).length + 1) hd ht (by simp; omega)
  obtain ⟨_, _, h69, h101, _⟩ := term_props ht
  unfold parseNumber
  simp only [h0, beq_self_eq_true, if_true]
  rw [hs] at hm ⊢
  simp only [List.length_append, List.length_cons, List.length_nil] at hm ⊢
  rw [hm]
  simp [h69, h101, ht, bind, Except.bind, pure, Except.pure]
  omega

theorem parseNumber_pos_end (pre ds : List Nat) (hd : allDigits ds) (hne : ds ≠ []) :
    ∃ off, parseNumber (pre ++ ds) pre.length = .ok (.int (wrap64 (parseNumInt ds)), off) := by
  obtain ⟨d, ds', rfl⟩ : ∃ d ds', ds = d :: ds' := by cases ds with | nil => exact absurd rfl hne | cons d ds' => exact ⟨d, ds', rfl⟩
  have h0 : (pre ++ d :: ds')[pre.length]? = some d := by simp
  have hd0 : d ≠ 45 := digit_ne_minus (hd d (by simp))
  obtain ⟨c', hm⟩ := mant_end (d :: ds') pre [] 0 ((pre ++ d :: ds').length + 1) hd (by simp; omega)
  refine ⟨pre.length + (d :: ds').length - 1, ?_⟩
  unfold parseNumber
  simp only [h0, Option.some.injEq, beq_iff_eq, hd0, if_false, Bool.false_eq_true]
  rw [hm]
  simp [bind, Except.bind, pure, Except.pure]

theorem parseNumber_neg_end (pre ds : List Nat) (hd : allDigits ds) :
    ∃ off, parseNumber (pre ++ 45 :: ds) pre.length = .ok (.int (wrap64 (-1 * parseNumInt ds)), off) := by
  have h0 : (pre ++ 45 :: ds)[pre.length]? = some 45 := by simp
  have hs : pre ++ 45 :: ds = (pre ++ [45]) ++ ds := by simp
  obtain ⟨c', hm⟩ := mant_end ds (pre ++ [45]) [] 0 ((pre ++ 45 :: ds).length + 1) hd (by simp; omega)
  refine ⟨pre.length + 1 + ds.length - 1, ?_⟩
  unfold parseNumber
  simp only [h0, beq_self_eq_true, if_true]
  rw [hs] at hm ⊢
  simp only [List.length_append, List.length_cons, List.length_nil] at hm ⊢
  rw [hm]
  simp [bind, Except.bind, pure, Except.pure]

/-! ### integers -/
theorem natDigits_digits (n : Nat) : allDigits (natDigits n) := by
  intro x hx
  have := C18.decDigits_digits (n + 1) n x hx
  simp [isDigit]; omega

theorem natDigits_ne_nil (n : Nat) : natDigits n ≠ [] := by
  unfold natDigits decDigits
  split <;> simp

def inRange (i : Int) : Prop := -9223372036854775808 < i ∧ i < 9223372036854775808
instance (i : Int) : Decidable (inRange i) := by unfold inRange; exact inferInstance

theorem wrap64_id (i : Int) (h : inRange i) : wrap64 i = i := by
  unfold inRange at h
  unfold wrap64
  by_cases hi : 0 ≤ i
  · have : i % 18446744073709551616 = i := Int.emod_eq_of_lt hi (by omega)
    simp only [this]
    split <;> omega
  · have h1 : i % 18446744073709551616 = i + 18446744073709551616 := by
      have := Int.emod_emod_of_dvd i (show (18446744073709551616 : Int) ∣ 18446744073709551616 from Int.dvd_refl _)
      have h2 : (i + 18446744073709551616) % 18446744073709551616 = i + 18446744073709551616 :=
        Int.emod_eq_of_lt (by omega) (by omega)
      rw [← h2]; simp
    simp only [h1]
    split <;> omega

theorem natDigits_value (n : Nat) (h : n < 9223372036854775808) : parseNumInt (natDigits n) = (n : Int) := by
  unfold parseNumInt natDigits
  exact C18.digits_roundtrip (n + 1) n (by omega) h

theorem parse_int_term (pre : List Nat) (i : Int) (t : Nat) (post : List Nat) (hi : inRange i) (ht : isTerm t = true) :
    parseNumber (pre ++ intText i ++ t :: post) pre.length = .ok (.int i, pre.length + (intText i).length) := by
  unfold inRange at hi
  unfold intText
  split
  · rename_i hneg
    have hv := natDigits_value i.natAbs (by omega)
    have := parseNumber_neg_term pre (natDigits i.natAbs) t post (natDigits_digits _) ht
    have e : (-1 * (i.natAbs : Int)) = i := by omega
    rw [this, hv, e, wrap64_id i ⟨hi.1, hi.2⟩, List.length_cons, Nat.add_assoc]
  · rename_i hpos
    have hv := natDigits_value i.toNat (by omega)
    have := parseNumber_pos_term pre (natDigits i.toNat) t post (natDigits_digits _) (natDigits_ne_nil _) ht
    have e : ((i.toNat : Int)) = i := by omega
    rw [this, hv, e, wrap64_id i ⟨hi.1, hi.2⟩]

theorem parse_int_end (pre : List Nat) (i : Int) (hi : inRange i) :
    ∃ off, parseNumber (pre ++ intText i) pre.length = .ok (.int i, off) := by
  unfold inRange at hi
  unfold intText
  split
  · rename_i hneg
    have hv := natDigits_value i.natAbs (by omega)
    obtain ⟨off, h⟩ := parseNumber_neg_end pre (natDigits i.natAbs) (natDigits_digits _)
    refine ⟨off, ?_⟩
    rw [h, hv]
    have e : (-1 * (i.natAbs : Int)) = i := by omega
    rw [e, wrap64_id i ⟨hi.1, hi.2⟩]
  · rename_i hpos
    have hv := natDigits_value i.toNat (by omega)
    obtain ⟨off, h⟩ := parseNumber_pos_end pre (natDigits i.toNat) (natDigits_digits _) (natDigits_ne_nil _)
    refine ⟨off, ?_⟩
    rw [h, hv]
    have e : ((i.toNat : Int)) = i := by omega
    rw [e, wrap64_id i ⟨hi.1, hi.2⟩]

/-! ### values -/

/-- no key occurs twice (a `std::map` has none; `QuickFlatMap::operator[]` would overwrite) -/
def distinctKeys : List (List Nat) → Bool
  | [] => true
  | k :: rest => rest.all (fun k' => k' != k) && distinctKeys rest

/-- the values the round-trip theorem covers (and that `dumpJ F` prints completely): no floating point, integers strictly inside the
    64-bit range, strings of arbitrary bytes, arrays of such values and string-keyed objects with pairwise different keys, nested less than `F` deep -/
def plainJ : Nat → J → Bool
  | 0, _ => false
  | _ + 1, .null => true
  | _ + 1, .bool _ => true
  | _ + 1, .int i => decide (inRange i)
  | _ + 1, .dbl _ _ _ => false
  | _ + 1, .str _ => true
  | F + 1, .arr xs => xs.all (plainJ F)
  | F + 1, .obj kvs => kvs.all (fun p => plainJ F p.2) && distinctKeys (kvs.map (·.1))

def Terminated (post : List Nat) : Prop := post = [] ∨ ∃ t r, post = t :: r ∧ isTerm t = true

/-- what `parse_next` does on the text of a value that sits after `pre` and some white space -/
def P (F : Nat) : Prop :=
  ∀ (j : J) (d : Nat) (ws pre post : List Nat) (dp f : Nat), plainJ F j = true → dp + F ≤ maxDepth → allSpace ws → Terminated post →
    2 * (dumpJ F j d).length + 1 ≤ f →
    ∃ off, parseJ (pre ++ ws ++ dumpJ F j d ++ post) f dp (.next pre.length) = .ok (j, off) ∧
      (post ≠ [] → off = pre.length + ws.length + (dumpJ F j d).length)

theorem substrEq_at (pre lit post : List Nat) : substrEq (pre ++ lit ++ post) pre.length lit = true := by
  simp [substrEq]

theorem jsonEscape_length (t : List Nat) : t.length ≤ (jsonEscape t).length := by
  induction t with
  | nil => simp [jsonEscape]
  | cons c cs ih =>
    simp only [jsonEscape, List.length_cons, List.length_append]
    have : 1 ≤ (escChar c).length := by
      unfold escChar
      repeat' split
      all_goals simp
    omega

theorem intText_head (i : Int) : ∃ c rest, intText i = c :: rest ∧ (isDigit c = true ∨ c = 45) := by
  unfold intText
  split
  · exact ⟨45, _, rfl, Or.inr rfl⟩
  · have hne := natDigits_ne_nil i.toNat
    have hd := natDigits_digits i.toNat
    cases h : natDigits i.toNat with
    | nil => exact absurd h hne
    | cons c rest => exact ⟨c, rest, rfl, Or.inl (hd c (by rw [h]; simp))⟩

theorem prologue_facts (pre ws D post : List Nat) (c : Nat) (restD : List Nat) (hD : D = c :: restD) (hws : allSpace ws)
    (hc : isSpace c = false) :
    consumeWs (pre ++ ws ++ D ++ post) ((pre ++ ws ++ D ++ post).length + 2) pre.length = .ok (pre.length + ws.length) ∧
    (pre ++ ws ++ D ++ post)[pre.length + ws.length]? = some c := by
  subst hD
  have hs : pre ++ ws ++ c :: restD ++ post = pre ++ ws ++ c :: (restD ++ post) := by simp
  constructor
  · have h1 := consumeWs_spaces ws pre c (restD ++ post) ((pre ++ ws ++ c :: restD ++ post).length + 2) hws hc (by simp; omega)
    rw [hs]; rw [hs] at h1; exact h1
  · rw [hs]; exact get_post0 pre ws c (restD ++ post)

theorem parse_null (pre ws post : List Nat) (dp f : Nat) (hdp : dp + 1 ≤ maxDepth) (hws : allSpace ws) :
    parseJ (pre ++ ws ++ [110, 117, 108, 108] ++ post) (f + 1) dp (.next pre.length) = .ok (.null, pre.length + ws.length + 4) := by
  have hs : pre ++ ws ++ [110, 117, 108, 108] ++ post = pre ++ ws ++ 110 :: ([117, 108, 108] ++ post) := by simp
  have h1 := consumeWs_spaces ws pre 110 ([117, 108, 108] ++ post) ((pre ++ ws ++ [110, 117, 108, 108] ++ post).length + 2) hws (by decide) (by simp; omega)
  have h2 : (pre ++ ws ++ [110, 117, 108, 108] ++ post)[pre.length + ws.length]? = some 110 := by
    have := get_post0 pre ws 110 ([117, 108, 108] ++ post)
    rw [hs]; exact this
  have h3 : substrEq (pre ++ ws ++ [110, 117, 108, 108] ++ post) (pre.length + ws.length) [110, 117, 108, 108] = true := by
    have := substrEq_at (pre ++ ws) [110, 117, 108, 108] post
    simpa using this
  rw [← hs] at h1
  have hd : ¬ (dp + 1 > maxDepth) := by omega
  unfold parseJ
  simp only [hd, if_false, h1, at?, h2, h3, bind, Except.bind, pure, Except.pure]
  simp

theorem parse_bool (b : Bool) (pre ws post : List Nat) (dp f : Nat) (hdp : dp + 1 ≤ maxDepth) (hws : allSpace ws) :
    parseJ (pre ++ ws ++ (if b then [116, 114, 117, 101] else [102, 97, 108, 115, 101]) ++ post) (f + 1) dp (.next pre.length)
      = .ok (.bool b, pre.length + ws.length + (if b then 4 else 5)) := by
  have hd : ¬ (dp + 1 > maxDepth) := by omega
  cases b with
  | true =>
    obtain ⟨h1, h2⟩ := prologue_facts pre ws [116, 114, 117, 101] post 116 _ rfl hws (by decide)
    have h3 : substrEq (pre ++ ws ++ [116, 114, 117, 101] ++ post) (pre.length + ws.length) [116, 114, 117, 101] = true := by
      have := substrEq_at (pre ++ ws) [116, 114, 117, 101] post
      simpa using this
    simp only [if_true]
    unfold parseJ
    simp only [hd, if_false, h1, at?, h2, h3, bind, Except.bind, pure, Except.pure]
    simp
  | false =>
    obtain ⟨h1, h2⟩ := prologue_facts pre ws [102, 97, 108, 115, 101] post 102 _ rfl hws (by decide)
    have h3 : substrEq (pre ++ ws ++ [102, 97, 108, 115, 101] ++ post) (pre.length + ws.length) [102, 97, 108, 115, 101] = true := by
      have := substrEq_at (pre ++ ws) [102, 97, 108, 115, 101] post
      simpa using this
    have h4 : substrEq (pre ++ ws ++ [102, 97, 108, 115, 101] ++ post) (pre.length + ws.length) [116, 114, 117, 101] = false := by
      have hdrop : ∀ (a m : List Nat), (a ++ m).drop a.length = m := fun a m => by simp
      have := hdrop (pre ++ ws) ([102, 97, 108, 115, 101] ++ post)
      simp only [List.length_append, ← List.append_assoc] at this
      simp [substrEq]
    simp only [Bool.false_eq_true, if_false]
    unfold parseJ
    simp only [hd, if_false, h1, at?, h2, h3, h4, bind, Except.bind, pure, Except.pure]
    simp

theorem digit_or_minus_dispatch {c : Nat} (h : isDigit c = true ∨ c = 45) :
    (c == 91) = false ∧ (c == 123) = false ∧ (c == 34) = false ∧ (c == 116) = false ∧ (c == 102) = false ∧ (c == 110) = false ∧
    (isDigit c || c == 45) = true ∧ isSpace c = false := by
  rcases h with h | h
  · simp only [isDigit, Bool.and_eq_true, decide_eq_true_eq] at h
    simp only [isDigit, isSpace, beq_eq_false_iff_ne, ne_eq, Bool.or_eq_true, Bool.and_eq_true, decide_eq_true_eq, beq_iff_eq,
      Bool.or_eq_false_iff, Bool.and_eq_false_iff, decide_eq_false_iff_not]
    omega
  · subst h; decide

theorem parse_int (i : Int) (pre ws post : List Nat) (dp f : Nat) (hdp : dp + 1 ≤ maxDepth) (hws : allSpace ws) (hi : inRange i)
    (hpost : Terminated post) :
    ∃ off, parseJ (pre ++ ws ++ intText i ++ post) (f + 1) dp (.next pre.length) = .ok (.int i, off) ∧
      (post ≠ [] → off = pre.length + ws.length + (intText i).length) := by
  have hd : ¬ (dp + 1 > maxDepth) := by omega
  obtain ⟨c, restD, hD, hc⟩ := intText_head i
  obtain ⟨e1, e2, e3, e4, e5, e6, e7, e8⟩ := digit_or_minus_dispatch hc
  obtain ⟨h1, h2⟩ := prologue_facts pre ws (intText i) post c restD hD hws e8
  have hbody : parseJ (pre ++ ws ++ intText i ++ post) (f + 1) dp (.next pre.length)
      = parseNumber (pre ++ ws ++ intText i ++ post) (pre.length + ws.length) := by
    unfold parseJ
    simp only [hd, if_false, h1, at?, h2, e1, e2, e3, e4, e5, e6, e7, bind, Except.bind, Bool.false_eq_true, Bool.or_self, if_true]
  rw [hbody]
  rcases hpost with rfl | ⟨t, r, rfl, ht⟩
  · obtain ⟨off, h⟩ := parse_int_end (pre ++ ws) i hi
    refine ⟨off, ?_, fun h => absurd rfl h⟩
    simpa using h
  · have h := parse_int_term (pre ++ ws) i t r hi ht
    refine ⟨pre.length + ws.length + (intText i).length, ?_, fun _ => rfl⟩
    simpa using h

theorem parse_str (t : List Nat) (pre ws post : List Nat) (dp f : Nat) (hdp : dp + 1 ≤ maxDepth) (hws : allSpace ws) :
    parseJ (pre ++ ws ++ ([34] ++ jsonEscape t ++ [34]) ++ post) (f + 1) dp (.next pre.length)
      = .ok (.str t, pre.length + ws.length + ([34] ++ jsonEscape t ++ [34]).length) := by
  have hd : ¬ (dp + 1 > maxDepth) := by omega
  obtain ⟨h1, h2⟩ := prologue_facts pre ws ([34] ++ jsonEscape t ++ [34]) post 34 (jsonEscape t ++ [34]) (by simp) hws (by decide)
  have hs : pre ++ ws ++ ([34] ++ jsonEscape t ++ [34]) ++ post = (pre ++ ws) ++ 34 :: (jsonEscape t ++ 34 :: post) := by simp
  have hlen := jsonEscape_length t
  have hp := C18.parseString_escape t (pre ++ ws) 34 post [] ((pre ++ ws ++ ([34] ++ jsonEscape t ++ [34]) ++ post).length + 2)
    (by simp; omega)
  rw [← hs] at hp
  have hl : (pre ++ ws).length = pre.length + ws.length := by simp
  rw [hl] at hp
  unfold parseJ
  simp only [hd, if_false, h1, at?, h2, bind, Except.bind, pure, Except.pure]
  simp only [show ((34 : Nat) == 91) = false from rfl, show ((34 : Nat) == 123) = false from rfl, show ((34 : Nat) == 34) = true from rfl,
    Bool.false_eq_true, if_false, if_true, hp]
  simp
  omega

/-! ### arrays -/
theorem ic1 (sep a : List Nat) : List.intercalate sep [a] = a := by simp [List.intercalate]
theorem ic2 (sep a b : List Nat) (l : List (List Nat)) :
    List.intercalate sep (a :: b :: l) = a ++ sep ++ List.intercalate sep (b :: l) := by
  simp [List.intercalate, List.intersperse]

/-- the text of a covered value starts with a character that is neither white space nor `]` -/
theorem dump_head (F : Nat) (j : J) (d : Nat) (h : plainJ F j = true) :
    ∃ c rest, dumpJ F j d = c :: rest ∧ isSpace c = false ∧ (c == 93) = false := by
  cases F with
  | zero => simp [plainJ] at h
  | succ F =>
    cases j with
    | null => exact ⟨110, _, rfl, by decide, by decide⟩
    | bool b =>
      cases b with
      | false => exact ⟨102, _, rfl, by decide, by decide⟩
      | true => exact ⟨116, _, rfl, by decide, by decide⟩
    | int i =>
      obtain ⟨c, rest, hD, hc⟩ := intText_head i
      obtain ⟨_, _, _, _, _, _, _, e8⟩ := digit_or_minus_dispatch hc
      refine ⟨c, rest, by simp [dumpJ, hD], e8, ?_⟩
      rcases hc with hc | hc
      · simp [isDigit] at hc; simp; omega
      · subst hc; decide
    | dbl _ _ _ => simp [plainJ] at h
    | str t => exact ⟨34, jsonEscape t ++ [34], by simp [dumpJ], by decide, by decide⟩
    | arr xs => exact ⟨91, List.intercalate [44, 32] (xs.map (fun x => dumpJ F x (d + 1))) ++ [93], by simp [dumpJ], by decide, by decide⟩
    | obj kvs =>
      refine ⟨123, 10 :: (List.intercalate [44, 10] (kvs.map (fun p => pad d ++ [34] ++ jsonEscape p.1 ++ [34, 32, 58, 32] ++ dumpJ F p.2 (d + 1))) ++ [10] ++ pad (d - 1) ++ [125]), ?_, by decide, by decide⟩
      simp [dumpJ]

/-- the text of the elements of an array after the opening bracket -/
def elemsText (F d : Nat) (xs : List J) : List Nat := List.intercalate [44, 32] (xs.map (fun x => dumpJ F x d))

theorem array_loop (F d dp : Nat) (ih : P F) (hdp : dp + F ≤ maxDepth) :
    ∀ (xs acc : List J) (ws pre post : List Nat) (f : Nat), xs ≠ [] → (∀ x ∈ xs, plainJ F x = true) → allSpace ws →
      2 * (ws.length + (elemsText F d xs).length + 1) + 1 ≤ f →
      parseJ (pre ++ ws ++ (elemsText F d xs ++ [93]) ++ post) f dp (.arrayLoop pre.length acc)
        = .ok (.arr (acc ++ xs), pre.length + ws.length + (elemsText F d xs).length + 1) := by
  intro xs
  induction xs with
  | nil => intro acc ws pre post f h; exact absurd rfl h
  | cons x rest ihl =>
    intro acc ws pre post f _ hpl hws hf
    obtain ⟨f, rfl⟩ : ∃ g, f = g + 1 := ⟨f - 1, by omega⟩
    have hx : plainJ F x = true := hpl x (by simp)
    obtain ⟨c, restD, hD, hc, _⟩ := dump_head F x d hx
    cases rest with
    | nil =>
      -- the last element: followed by `]`
      have hT : elemsText F d [x] = dumpJ F x d := by simp [elemsText]
      rw [hT] at hf ⊢
      have hs : pre ++ ws ++ (dumpJ F x d ++ [93]) ++ post = pre ++ ws ++ dumpJ F x d ++ 93 :: post := by simp
      obtain ⟨off, hp, hoff⟩ := ih x d ws pre (93 :: post) dp f hx hdp hws (Or.inr ⟨93, post, rfl, by decide⟩) (by omega)
      have hoff := hoff (by simp)
      have h93 : (pre ++ ws ++ dumpJ F x d ++ 93 :: post)[off]? = some 93 := by
        rw [hoff]
        have := get_post0 (pre ++ ws) (dumpJ F x d) 93 post
        simpa [List.append_assoc] using this
      have hcw := consumeWs_here (pre ++ ws ++ dumpJ F x d ++ 93 :: post) off 93 ((pre ++ ws ++ dumpJ F x d ++ 93 :: post).length + 1) h93 (by decide)
      have hlt : pre.length < (pre ++ ws ++ dumpJ F x d ++ 93 :: post).length := by simp [hD]; omega
      rw [hs]
      unfold parseJ
      simp only [hlt, if_true, hp, hcw, at?, h93, bind, Except.bind, pure, Except.pure]
      simp [hoff]
    | cons y ys =>
      have hT : elemsText F d (x :: y :: ys) = dumpJ F x d ++ [44, 32] ++ elemsText F d (y :: ys) := by
        simp [elemsText]
      rw [hT] at hf ⊢
      have hs : pre ++ ws ++ (dumpJ F x d ++ [44, 32] ++ elemsText F d (y :: ys) ++ [93]) ++ post
          = pre ++ ws ++ dumpJ F x d ++ 44 :: (32 :: (elemsText F d (y :: ys) ++ [93] ++ post)) := by simp
      obtain ⟨off, hp, hoff⟩ := ih x d ws pre (44 :: (32 :: (elemsText F d (y :: ys) ++ [93] ++ post))) dp f hx hdp hws
        (Or.inr ⟨44, _, rfl, by decide⟩) (by simp at hf; omega)
      have hoff := hoff (by simp)
      have h44 : (pre ++ ws ++ dumpJ F x d ++ 44 :: (32 :: (elemsText F d (y :: ys) ++ [93] ++ post)))[off]? = some 44 := by
        rw [hoff]
        have := get_post0 (pre ++ ws) (dumpJ F x d) 44 (32 :: (elemsText F d (y :: ys) ++ [93] ++ post))
        simpa [List.append_assoc] using this
      have hcw := consumeWs_here _ off 44 ((pre ++ ws ++ dumpJ F x d ++ 44 :: (32 :: (elemsText F d (y :: ys) ++ [93] ++ post))).length + 1) h44 (by decide)
      have hlt : pre.length < (pre ++ ws ++ dumpJ F x d ++ 44 :: (32 :: (elemsText F d (y :: ys) ++ [93] ++ post))).length := by simp [hD]; omega
      -- the rest of the loop
      have hs2 : pre ++ ws ++ dumpJ F x d ++ 44 :: (32 :: (elemsText F d (y :: ys) ++ [93] ++ post))
          = (pre ++ ws ++ dumpJ F x d ++ [44]) ++ [32] ++ (elemsText F d (y :: ys) ++ [93]) ++ post := by simp
      have hrest := ihl (acc ++ [x]) [32] (pre ++ ws ++ dumpJ F x d ++ [44]) post f (by simp)
        (fun z hz => hpl z (List.mem_cons_of_mem _ hz)) (by intro c hc; simp at hc; subst hc; decide) (by simp at hf ⊢; omega)
      have hl2 : (pre ++ ws ++ dumpJ F x d ++ [44]).length = off + 1 := by simp [hoff]; omega
      rw [hl2, ← hs2] at hrest
      rw [hs]
      unfold parseJ
      simp only [hlt, if_true, hp, hcw, at?, h44, bind, Except.bind, pure, Except.pure]
      simp only [show ((44 : Nat) == 44) = true from rfl, if_true, hrest]
      simp [hoff]
      omega

/-! ### objects -/

/-- one `"key" : value` pair, without the indentation before it -/
def pairBody (F d : Nat) (p : List Nat × J) : List Nat := [34] ++ jsonEscape p.1 ++ [34] ++ [32, 58, 32] ++ dumpJ F p.2 (d + 1)

/-- the text of an object from its first key to the closing brace -/
def objTail (F d : Nat) : List (List Nat × J) → List Nat
  | [] => []
  | [p] => pairBody F d p ++ ([10] ++ pad (d - 1)) ++ [125]
  | p :: q :: rest => pairBody F d p ++ [44] ++ ([10] ++ pad d) ++ objTail F d (q :: rest)

theorem allSpace_pad (d : Nat) : allSpace (pad d) := by
  intro c hc
  simp [pad] at hc
  rw [hc.2]; decide

theorem allSpace_nl_pad (d : Nat) : allSpace ([10] ++ pad d) := by
  intro c hc
  simp at hc
  rcases hc with rfl | hc
  · decide
  · exact allSpace_pad d c hc

theorem dump_obj (F d : Nat) (p : List Nat × J) (kvs : List (List Nat × J)) :
    dumpJ (F + 1) (.obj (p :: kvs)) d = [123] ++ ([10] ++ pad d) ++ objTail F d (p :: kvs) := by
  have key : ∀ (kvs : List (List Nat × J)) (p : List Nat × J),
      List.intercalate [44, 10] ((p :: kvs).map (fun p => pad d ++ [34] ++ jsonEscape p.1 ++ [34, 32, 58, 32] ++ dumpJ F p.2 (d + 1)))
        ++ [10] ++ pad (d - 1) ++ [125] = pad d ++ objTail F d (p :: kvs) := by
    intro kvs
    induction kvs with
    | nil => intro p; simp [objTail, pairBody]
    | cons q rest ih =>
      intro p
      have := ih q
      simp only [List.map_cons] at this ⊢
      rw [ic2, List.append_assoc, List.append_assoc, List.append_assoc]
      rw [show List.intercalate [44, 10] ((pad d ++ [34] ++ jsonEscape q.1 ++ [34, 32, 58, 32] ++ dumpJ F q.2 (d + 1)) ::
            List.map (fun p => pad d ++ [34] ++ jsonEscape p.1 ++ [34, 32, 58, 32] ++ dumpJ F p.2 (d + 1)) rest) ++ ([10] ++ (pad (d - 1) ++ [125]))
          = pad d ++ objTail F d (q :: rest) from by simpa [List.append_assoc] using this]
      simp [objTail, pairBody]
  simp only [dumpJ]
  have := key kvs p
  simp only [List.append_assoc] at this ⊢
  rw [this]
  simp

theorem objSet_fresh (acc : List (List Nat × J)) (k : List Nat) (v : J) (h : ∀ q ∈ acc, q.1 ≠ k) : objSet acc k v = acc ++ [(k, v)] := by
  unfold objSet
  have : acc.any (fun p => p.1 == k) = false := by
    rw [List.any_eq_false]
    intro q hq
    simpa using h q hq
  simp [this]

theorem object_loop (F0 d dp : Nat) (ih : P (F0 + 1)) (hdp : dp + (F0 + 1) ≤ maxDepth) :
    ∀ (kvs acc : List (List Nat × J)) (ws pre post : List Nat) (f : Nat), kvs ≠ [] → (∀ p ∈ kvs, plainJ (F0 + 1) p.2 = true) →
      distinctKeys (kvs.map (·.1)) = true → (∀ q ∈ acc, ∀ r ∈ kvs, q.1 ≠ r.1) → allSpace ws →
      2 * (ws.length + (objTail (F0 + 1) d kvs).length) + 1 ≤ f →
      parseJ (pre ++ ws ++ objTail (F0 + 1) d kvs ++ post) f dp (.objectLoop pre.length acc)
        = .ok (.obj (acc ++ kvs), pre.length + ws.length + (objTail (F0 + 1) d kvs).length) := by
  intro kvs
  induction kvs with
  | nil => intro acc ws pre post f h; exact absurd rfl h
  | cons p rest ihl =>
    intro acc ws pre post f _ hpl hdist hacc hws hf
    obtain ⟨f, rfl⟩ : ∃ g, f = g + 1 := ⟨f - 1, by omega⟩
    obtain ⟨k, v⟩ := p
    have hv : plainJ (F0 + 1) v = true := hpl (k, v) (by simp)
    obtain ⟨c1, restV, hV, hc1, _⟩ := dump_head (F0 + 1) v (d + 1) hv
    -- names for the pieces of the text
    generalize hK : ([34] ++ jsonEscape k ++ [34] : List Nat) = K
    generalize hVt : dumpJ (F0 + 1) v (d + 1) = V at hV
    have hKd : dumpJ (F0 + 1) (.str k) d = K := by simp [dumpJ, ← hK]
    have hKpl : plainJ (F0 + 1) (.str k) = true := rfl
    have hfresh : objSet acc k v = acc ++ [(k, v)] := objSet_fresh acc k v (fun q hq => hacc q hq (k, v) (by simp))
    -- the shape shared by both cases: s = pre ++ ws ++ K ++ [32,58,32] ++ V ++ TAIL ++ post
    have step : ∀ (TAIL : List Nat) (t : Nat) (tl : List Nat), TAIL = t :: tl → isTerm t = true →
        2 * (ws.length + (K ++ [32, 58, 32] ++ V ++ TAIL).length) + 1 ≤ f + 1 →
        ∀ (kont : Nat → JR (J × Nat)),
        (∀ off4, off4 = pre.length + ws.length + K.length + 3 + V.length →
          (do let off ← consumeWs (pre ++ ws ++ (K ++ [32, 58, 32] ++ V ++ TAIL) ++ post) ((pre ++ ws ++ (K ++ [32, 58, 32] ++ V ++ TAIL) ++ post).length + 2) off4
              let c ← at? (pre ++ ws ++ (K ++ [32, 58, 32] ++ V ++ TAIL) ++ post) off
              if c == 44 then parseJ (pre ++ ws ++ (K ++ [32, 58, 32] ++ V ++ TAIL) ++ post) f dp (.objectLoop (off + 1) (acc ++ [(k, v)]))
              else if c == 125 then pure (.obj (acc ++ [(k, v)]), off + 1)
              else .error .runtime) = kont off4) →
        parseJ (pre ++ ws ++ (K ++ [32, 58, 32] ++ V ++ TAIL) ++ post) (f + 1) dp (.objectLoop pre.length acc)
          = kont (pre.length + ws.length + K.length + 3 + V.length) := by
      intro TAIL t tl hT ht hfuel kont hkont
      -- key
      have hs1 : pre ++ ws ++ (K ++ [32, 58, 32] ++ V ++ TAIL) ++ post = pre ++ ws ++ dumpJ (F0 + 1) (.str k) d ++ 32 :: (58 :: 32 :: (V ++ TAIL ++ post)) := by
        rw [hKd]; simp
      obtain ⟨off1, hp1, hoff1⟩ := ih (.str k) d ws pre (32 :: (58 :: 32 :: (V ++ TAIL ++ post))) dp f hKpl hdp hws
        (Or.inr ⟨32, _, rfl, by decide⟩) (by rw [hKd]; simp at hfuel ⊢; omega)
      have hoff1 := hoff1 (by simp)
      rw [hKd] at hoff1
      rw [← hs1] at hp1
      -- ':' after one space
      have hs2 : pre ++ ws ++ (K ++ [32, 58, 32] ++ V ++ TAIL) ++ post = (pre ++ ws ++ K) ++ [32] ++ 58 :: (32 :: (V ++ TAIL ++ post)) := by simp
      have hcw2 := consumeWs_spaces [32] (pre ++ ws ++ K) 58 (32 :: (V ++ TAIL ++ post)) ((pre ++ ws ++ (K ++ [32, 58, 32] ++ V ++ TAIL) ++ post).length + 2)
        (by intro c hc; simp at hc; subst hc; decide) (by decide) (by simp)
      rw [← hs2] at hcw2
      have hl2 : (pre ++ ws ++ K).length = off1 := by simp [hoff1]; omega
      rw [hl2] at hcw2
      have h58 : (pre ++ ws ++ (K ++ [32, 58, 32] ++ V ++ TAIL) ++ post)[off1 + [32].length]? = some 58 := by
        rw [hs2, ← hl2]
        exact get_post0 (pre ++ ws ++ K) [32] 58 _
      -- the value after one more space
      have hs3 : pre ++ ws ++ (K ++ [32, 58, 32] ++ V ++ TAIL) ++ post = (pre ++ ws ++ K ++ [32, 58]) ++ [32] ++ c1 :: (restV ++ TAIL ++ post) := by
        rw [hV]; simp
      have hcw3 := consumeWs_spaces [32] (pre ++ ws ++ K ++ [32, 58]) c1 (restV ++ TAIL ++ post) ((pre ++ ws ++ (K ++ [32, 58, 32] ++ V ++ TAIL) ++ post).length + 2)
        (by intro c hc; simp at hc; subst hc; decide) hc1 (by simp)
      rw [← hs3] at hcw3
      have hl3 : (pre ++ ws ++ K ++ [32, 58]).length = off1 + [32].length + 1 := by simp [hoff1]; omega
      rw [hl3] at hcw3
      have hs4 : pre ++ ws ++ (K ++ [32, 58, 32] ++ V ++ TAIL) ++ post = (pre ++ ws ++ K ++ [32, 58, 32]) ++ [] ++ dumpJ (F0 + 1) v (d + 1) ++ (TAIL ++ post) := by
        rw [hVt]; simp
      obtain ⟨off4, hp4, hoff4⟩ := ih v (d + 1) [] (pre ++ ws ++ K ++ [32, 58, 32]) (TAIL ++ post) dp f hv hdp (by intro c hc; simp at hc)
        (Or.inr ⟨t, tl ++ post, by simp [hT], ht⟩) (by rw [hVt]; simp at hfuel ⊢; omega)
      have hoff4 := hoff4 (by simp [hT])
      rw [hVt] at hoff4
      rw [← hs4] at hp4
      have hl4 : (pre ++ ws ++ K ++ [32, 58, 32]).length = off1 + [32].length + 1 + [32].length := by simp [hoff1]; omega
      rw [hl4] at hp4
      have hlt : pre.length < (pre ++ ws ++ (K ++ [32, 58, 32] ++ V ++ TAIL) ++ post).length := by simp [← hK]; omega
      have hk := hkont off4 (by rw [hoff4]; simp [hoff1]; omega)
      have hoffeq : off4 = pre.length + ws.length + K.length + 3 + V.length := by rw [hoff4]; simp [hoff1]; omega
      unfold parseJ
      simp only [hlt, if_true, hp1, hcw2, at?, h58, hcw3, hp4, J.toStr, hfresh, bind, Except.bind, pure, Except.pure,
        show ((58 : Nat) != 58) = false from rfl, Bool.false_eq_true, if_false]
      rw [← hoffeq]
      simp only [bind, Except.bind, pure, Except.pure, at?] at hk
      exact hk
    cases rest with
    | nil =>
      have hT : objTail (F0 + 1) d [(k, v)] = K ++ [32, 58, 32] ++ V ++ (10 :: (pad (d - 1) ++ [125])) := by
        simp [objTail, pairBody, ← hK, hVt]
      rw [hT] at hf ⊢
      have := step (10 :: (pad (d - 1) ++ [125])) 10 _ rfl (by decide) hf
        (fun _ => .ok (.obj (acc ++ [(k, v)]), pre.length + ws.length + (K ++ [32, 58, 32] ++ V ++ (10 :: (pad (d - 1) ++ [125]))).length))
        (by
          intro off4 hoff4
          have hs5 : pre ++ ws ++ (K ++ [32, 58, 32] ++ V ++ (10 :: (pad (d - 1) ++ [125]))) ++ post
              = (pre ++ ws ++ K ++ [32, 58, 32] ++ V) ++ ([10] ++ pad (d - 1)) ++ 125 :: post := by simp
          have hcw := consumeWs_spaces ([10] ++ pad (d - 1)) (pre ++ ws ++ K ++ [32, 58, 32] ++ V) 125 post
            ((pre ++ ws ++ (K ++ [32, 58, 32] ++ V ++ (10 :: (pad (d - 1) ++ [125]))) ++ post).length + 2) (allSpace_nl_pad _) (by decide) (by simp; omega)
          have hl5 : (pre ++ ws ++ K ++ [32, 58, 32] ++ V).length = off4 := by rw [hoff4]; simp; omega
          have h125 : ((pre ++ ws ++ K ++ [32, 58, 32] ++ V) ++ ([10] ++ pad (d - 1)) ++ 125 :: post)[off4 + ([10] ++ pad (d - 1)).length]? = some 125 := by
            rw [← hl5]; exact get_post0 _ _ 125 post
          rw [← hs5, hl5] at hcw
          rw [← hs5] at h125
          simp only [hcw, at?, h125, bind, Except.bind, pure, Except.pure, show ((125 : Nat) == 44) = false from rfl,
            show ((125 : Nat) == 125) = true from rfl, Bool.false_eq_true, if_false, if_true]
          rw [hoff4]
          simp
          omega)
      simpa using this
    | cons q rest' =>
      have hT : objTail (F0 + 1) d ((k, v) :: q :: rest') = K ++ [32, 58, 32] ++ V ++ (44 :: (([10] ++ pad d) ++ objTail (F0 + 1) d (q :: rest'))) := by
        simp [objTail, pairBody, ← hK, hVt]
      rw [hT] at hf ⊢
      have := step (44 :: (([10] ++ pad d) ++ objTail (F0 + 1) d (q :: rest'))) 44 _ rfl (by decide) hf
        (fun _ => .ok (.obj (acc ++ (k, v) :: q :: rest'), pre.length + ws.length + (K ++ [32, 58, 32] ++ V ++ (44 :: (([10] ++ pad d) ++ objTail (F0 + 1) d (q :: rest')))).length))
        (by
          intro off4 hoff4
          have hs5 : pre ++ ws ++ (K ++ [32, 58, 32] ++ V ++ (44 :: (([10] ++ pad d) ++ objTail (F0 + 1) d (q :: rest')))) ++ post
              = (pre ++ ws ++ K ++ [32, 58, 32] ++ V ++ [44]) ++ ([10] ++ pad d) ++ objTail (F0 + 1) d (q :: rest') ++ post := by simp
          have hl5 : (pre ++ ws ++ K ++ [32, 58, 32] ++ V ++ [44]).length = off4 + 1 := by rw [hoff4]; simp; omega
          have h44 : (pre ++ ws ++ (K ++ [32, 58, 32] ++ V ++ (44 :: (([10] ++ pad d) ++ objTail (F0 + 1) d (q :: rest')))) ++ post)[off4]? = some 44 := by
            have := get_post0 (pre ++ ws) (K ++ [32, 58, 32] ++ V) 44 (([10] ++ pad d) ++ objTail (F0 + 1) d (q :: rest') ++ post)
            have hl : (pre ++ ws).length + (K ++ [32, 58, 32] ++ V).length = off4 := by rw [hoff4]; simp; omega
            rw [hl] at this
            simpa [List.append_assoc] using this
          have hcw := consumeWs_here _ off4 44 ((pre ++ ws ++ (K ++ [32, 58, 32] ++ V ++ (44 :: (([10] ++ pad d) ++ objTail (F0 + 1) d (q :: rest')))) ++ post).length + 1) h44 (by decide)
          have hrest := ihl (acc ++ [(k, v)]) ([10] ++ pad d) (pre ++ ws ++ K ++ [32, 58, 32] ++ V ++ [44]) post f (by simp)
            (fun z hz => hpl z (List.mem_cons_of_mem _ hz))
            (by simp only [List.map_cons, distinctKeys, Bool.and_eq_true] at hdist ⊢; exact hdist.2)
            (by
              intro a ha r hr
              simp at ha
              rcases ha with ha | ha
              · exact hacc a ha r (List.mem_cons_of_mem _ hr)
              · subst ha
                simp only [List.map_cons, distinctKeys, Bool.and_eq_true, List.all_eq_true] at hdist
                have := hdist.1 r.1 (by simp only [List.mem_cons, List.mem_map] at hr ⊢; rcases hr with rfl | hr; exact Or.inl rfl; exact Or.inr ⟨r, hr, rfl⟩)
                have hne : r.1 ≠ k := by simpa using this
                exact fun h => hne h.symm)
            (allSpace_nl_pad d) (by simp at hf ⊢; omega)
          rw [← hs5, hl5] at hrest
          simp only [hcw, at?, h44, hrest, bind, Except.bind, pure, Except.pure, show ((44 : Nat) == 44) = true from rfl, if_true]
          rw [hoff4]
          simp
          omega)
      simpa using this

theorem P_zero : P 0 := by
  intro j d ws pre post dp f h
  simp [plainJ] at h

theorem P_succ (F : Nat) (ih : P F) : P (F + 1) := by
  intro j d ws pre post dp f hpl hdp hws hpost hf
  obtain ⟨f, rfl⟩ : ∃ g, f = g + 1 := ⟨f - 1, by omega⟩
  have hdp1 : dp + 1 ≤ maxDepth := by omega
  cases j with
  | null =>
    refine ⟨pre.length + ws.length + 4, ?_, fun _ => by simp [dumpJ]⟩
    have := parse_null pre ws post dp f hdp1 hws
    simpa [dumpJ] using this
  | bool b =>
    refine ⟨pre.length + ws.length + (if b then 4 else 5), ?_, fun _ => by cases b <;> simp [dumpJ]⟩
    have := parse_bool b pre ws post dp f hdp1 hws
    simpa [dumpJ] using this
  | int i =>
    have hi : inRange i := by simpa [plainJ] using hpl
    have := parse_int i pre ws post dp f hdp1 hws hi hpost
    simpa [dumpJ] using this
  | dbl _ _ _ => simp [plainJ] at hpl
  | str t =>
    refine ⟨pre.length + ws.length + ([34] ++ jsonEscape t ++ [34]).length, ?_, fun _ => by simp [dumpJ]⟩
    have := parse_str t pre ws post dp f hdp1 hws
    simpa [dumpJ] using this
  | obj kvs =>
    have hd : ¬ (dp + 1 > maxDepth) := by omega
    cases kvs with
    | nil =>
      have hD : dumpJ (F + 1) (.obj []) d = [123] ++ ([10, 10] ++ pad (d - 1)) ++ [125] := by simp [dumpJ]
      rw [hD]
      obtain ⟨h1, h2⟩ := prologue_facts pre ws ([123] ++ ([10, 10] ++ pad (d - 1)) ++ [125]) post 123 _ rfl hws (by decide)
      have hs2 : pre ++ ws ++ ([123] ++ ([10, 10] ++ pad (d - 1)) ++ [125]) ++ post = (pre ++ ws ++ [123]) ++ ([10, 10] ++ pad (d - 1)) ++ 125 :: post := by simp
      have hsp : allSpace ([10, 10] ++ pad (d - 1)) := by
        intro c hc
        have hc' : c = 10 ∨ c ∈ [10] ++ pad (d - 1) := by simpa using hc
        rcases hc' with rfl | hc'
        · decide
        · exact allSpace_nl_pad _ c hc'
      have hcw := consumeWs_spaces ([10, 10] ++ pad (d - 1)) (pre ++ ws ++ [123]) 125 post
        ((pre ++ ws ++ ([123] ++ ([10, 10] ++ pad (d - 1)) ++ [125]) ++ post).length + 2) hsp (by decide) (by simp; omega)
      have hl : (pre ++ ws ++ [123]).length = pre.length + ws.length + 1 := by simp; omega
      have h125 : ((pre ++ ws ++ [123]) ++ ([10, 10] ++ pad (d - 1)) ++ 125 :: post)[pre.length + ws.length + 1 + ([10, 10] ++ pad (d - 1)).length]? = some 125 := by
        rw [← hl]; exact get_post0 _ _ 125 post
      rw [← hs2, hl] at hcw
      rw [← hs2] at h125
      refine ⟨pre.length + ws.length + ([123] ++ ([10, 10] ++ pad (d - 1)) ++ [125]).length, ?_, fun _ => rfl⟩
      unfold parseJ
      simp only [hd, if_false, h1, at?, h2, bind, Except.bind, pure, Except.pure]
      simp only [show ((123 : Nat) == 91) = false from rfl, show ((123 : Nat) == 123) = true from rfl, Bool.false_eq_true, if_false, if_true,
        hcw, h125, show ((125 : Nat) == 125) = true from rfl]
      simp
      omega
    | cons p kvs' =>
      have hall : ∀ z ∈ p :: kvs', plainJ F z.2 = true := by
        intro z hz
        have h := hpl
        simp only [plainJ, Bool.and_eq_true, List.all_eq_true] at h
        exact h.1 z hz
      have hdist : distinctKeys ((p :: kvs').map (·.1)) = true := by
        have h := hpl
        simp only [plainJ, Bool.and_eq_true] at h
        exact h.2
      obtain ⟨F0, rfl⟩ : ∃ F0, F = F0 + 1 := by
        cases F with
        | zero => have := hall p (by simp); simp [plainJ] at this
        | succ F0 => exact ⟨F0, rfl⟩
      rw [dump_obj] at hf ⊢
      obtain ⟨h1, h2⟩ := prologue_facts pre ws ([123] ++ ([10] ++ pad d) ++ objTail (F0 + 1) d (p :: kvs')) post 123 _ rfl hws (by decide)
      -- the first key's quote
      have hOT : ∃ restT, objTail (F0 + 1) d (p :: kvs') = 34 :: restT := by
        cases kvs' with
        | nil => exact ⟨_, by simp [objTail, pairBody]; rfl⟩
        | cons q r => exact ⟨_, by simp [objTail, pairBody]; rfl⟩
      obtain ⟨restT, hT⟩ := hOT
      have hs2 : pre ++ ws ++ ([123] ++ ([10] ++ pad d) ++ objTail (F0 + 1) d (p :: kvs')) ++ post
          = (pre ++ ws ++ [123]) ++ ([10] ++ pad d) ++ 34 :: (restT ++ post) := by rw [hT]; simp
      have hcw := consumeWs_spaces ([10] ++ pad d) (pre ++ ws ++ [123]) 34 (restT ++ post)
        ((pre ++ ws ++ ([123] ++ ([10] ++ pad d) ++ objTail (F0 + 1) d (p :: kvs')) ++ post).length + 2) (allSpace_nl_pad d) (by decide) (by simp; omega)
      have hl : (pre ++ ws ++ [123]).length = pre.length + ws.length + 1 := by simp; omega
      have h34 : ((pre ++ ws ++ [123]) ++ ([10] ++ pad d) ++ 34 :: (restT ++ post))[pre.length + ws.length + 1 + ([10] ++ pad d).length]? = some 34 := by
        rw [← hl]; exact get_post0 _ _ 34 _
      rw [← hs2, hl] at hcw
      rw [← hs2] at h34
      have hs3 : pre ++ ws ++ ([123] ++ ([10] ++ pad d) ++ objTail (F0 + 1) d (p :: kvs')) ++ post
          = (pre ++ ws ++ [123] ++ ([10] ++ pad d)) ++ [] ++ objTail (F0 + 1) d (p :: kvs') ++ post := by simp
      have hloop := object_loop F0 d (dp + 1) ih (by omega) (p :: kvs') [] [] (pre ++ ws ++ [123] ++ ([10] ++ pad d)) post f (by simp) hall hdist
        (by intro q hq; simp at hq) (by intro c hc; simp at hc) (by simp at hf ⊢; omega)
      have hl3 : (pre ++ ws ++ [123] ++ ([10] ++ pad d)).length = pre.length + ws.length + 1 + ([10] ++ pad d).length := by simp; omega
      rw [hl3, ← hs3] at hloop
      refine ⟨pre.length + ws.length + ([123] ++ ([10] ++ pad d) ++ objTail (F0 + 1) d (p :: kvs')).length, ?_, fun _ => rfl⟩
      unfold parseJ
      simp only [hd, if_false, h1, at?, h2, bind, Except.bind, pure, Except.pure]
      simp only [show ((123 : Nat) == 91) = false from rfl, show ((123 : Nat) == 123) = true from rfl, Bool.false_eq_true, if_false, if_true,
        hcw, h34, show ((34 : Nat) == 125) = false from rfl, hloop]
      simp
      omega
  | arr xs =>
    have hd : ¬ (dp + 1 > maxDepth) := by omega
    cases xs with
    | nil =>
      have hD : dumpJ (F + 1) (.arr []) d = [91, 93] := by simp [dumpJ]
      rw [hD]
      obtain ⟨h1, h2⟩ := prologue_facts pre ws [91, 93] post 91 [93] rfl hws (by decide)
      have h3 : (pre ++ ws ++ [91, 93] ++ post)[pre.length + ws.length + 1]? = some 93 := by
        have := get_post0 (pre ++ ws) [91] 93 post
        simpa [List.append_assoc] using this
      have h4 := consumeWs_here (pre ++ ws ++ [91, 93] ++ post) (pre.length + ws.length + 1) 93 ((pre ++ ws ++ [91, 93] ++ post).length + 1) h3 (by decide)
      refine ⟨pre.length + ws.length + 2, ?_, fun _ => by simp⟩
      unfold parseJ
      simp only [hd, if_false, h1, at?, h2, bind, Except.bind, pure, Except.pure]
      simp only [show ((91 : Nat) == 91) = true from rfl, if_true, h4, h3]
      simp
    | cons x xs' =>
      have hall : ∀ z ∈ x :: xs', plainJ F z = true := by
        intro z hz
        have : (x :: xs').all (plainJ F) = true := by simpa [plainJ] using hpl
        exact List.all_eq_true.mp this z hz
      obtain ⟨c1, restD, hD1, hc1, hc93⟩ := dump_head F x (d + 1) (hall x (by simp))
      have hD : dumpJ (F + 1) (.arr (x :: xs')) d = [91] ++ (elemsText F (d + 1) (x :: xs') ++ [93]) := by simp [dumpJ, elemsText]
      rw [hD] at hf ⊢
      obtain ⟨h1, h2⟩ := prologue_facts pre ws ([91] ++ (elemsText F (d + 1) (x :: xs') ++ [93])) post 91 _ rfl hws (by decide)
      -- the element text starts right after the bracket
      have hET : ∃ restE, elemsText F (d + 1) (x :: xs') = c1 :: restE := by
        cases xs' with
        | nil => exact ⟨restD, by simp [elemsText, hD1]⟩
        | cons y ys => exact ⟨restD ++ [44, 32] ++ elemsText F (d + 1) (y :: ys), by simp [elemsText, hD1]⟩
      obtain ⟨restE, hE⟩ := hET
      have hs2 : pre ++ ws ++ ([91] ++ (elemsText F (d + 1) (x :: xs') ++ [93])) ++ post
          = (pre ++ ws ++ [91]) ++ [] ++ (elemsText F (d + 1) (x :: xs') ++ [93]) ++ post := by simp
      have h3 : (pre ++ ws ++ ([91] ++ (elemsText F (d + 1) (x :: xs') ++ [93])) ++ post)[pre.length + ws.length + 1]? = some c1 := by
        rw [hE]
        have := get_post0 (pre ++ ws) [91] c1 (restE ++ [93] ++ post)
        simpa [List.append_assoc] using this
      have h4 := consumeWs_here _ (pre.length + ws.length + 1) c1 ((pre ++ ws ++ ([91] ++ (elemsText F (d + 1) (x :: xs') ++ [93])) ++ post).length + 1) h3 hc1
      have hloop := array_loop F (d + 1) (dp + 1) ih (by omega) (x :: xs') [] [] (pre ++ ws ++ [91]) post f (by simp) hall
        (by intro c hc; simp at hc) (by simp at hf ⊢; omega)
      have hl : (pre ++ ws ++ [91]).length = pre.length + ws.length + 1 := by simp; omega
      rw [hl, ← hs2] at hloop
      refine ⟨pre.length + ws.length + ([91] ++ (elemsText F (d + 1) (x :: xs') ++ [93])).length, ?_, fun _ => rfl⟩
      unfold parseJ
      simp only [hd, if_false, h1, at?, h2, bind, Except.bind, pure, Except.pure]
      simp only [show ((91 : Nat) == 91) = true from rfl, if_true, h4, h3, hc93, Bool.false_eq_true, if_false, hloop]
      simp
      omega

theorem P_all : ∀ F, P F := by
  intro F
  induction F with
  | zero => exact P_zero
  | succ F ih => exact P_succ F ih

end ChaiVerif.JRT
