/-
Seventh induction over the evaluator: the exact optimizer passes, applied everywhere (tree and function bodies), preserve every
evaluation — outcome and state — for every state that satisfies the literal invariant.
-/
import ChaiVerif.Lemmas.ChaiXOpt
namespace ChaiVerif.Chai

variable {L : Lits}

/-- `Le` together with the literal invariant of the (common) final state -/
def LeL (L : Lits) (r r' : R) : Prop := r.1 = .oof ∨ (r = r' ∧ Lit L.length L r.2)

theorem LeL.le {r r' : R} (h : LeL L r r') : Le r r' := h.elim Or.inl (fun h => Or.inr h.1)

theorem bnd_leL {r r' : R} {k k' : Loc → St → R} (h : LeL L r r') (hk : ∀ l t, Lit L.length L t → Le (k l t) (k' l t)) :
    Le (bnd r k) (bnd r' k') := by
  rcases h with h | ⟨rfl, hl⟩
  · obtain ⟨o, t⟩ := r
    simp only [] at h
    subst h
    exact Or.inl rfl
  · obtain ⟨o, t⟩ := r
    cases o <;> first | exact hk _ _ hl | exact Or.inr rfl

theorem withScope_leL {g g' : St → R} (s : St) (hs : Lit L.length L s) (h : ∀ t, Lit L.length L t → Le (g t) (g' t)) :
    Le (withScope g s) (withScope g' s) := by
  unfold withScope
  rcases h s.pushScope (hs.congr rfl rfl) with h | h
  · exact Or.inl h
  · simp only [h]; exact Or.inr rfl

theorem withStack_leL {g g' : St → R} (s : St) (hs : Lit L.length L s) (h : ∀ t, Lit L.length L t → Le (g t) (g' t)) :
    Le (withStack g s) (withStack g' s) := by
  unfold withStack
  rcases h s.pushStack (hs.congr rfl rfl) with h | h
  · exact Or.inl h
  · simp only [h]; exact Or.inr rfl

theorem withFnCall_leL {g g' : St → R} (s : St) (hs : Lit L.length L s) (h : ∀ t, Lit L.length L t → Le (g t) (g' t)) :
    Le (withFnCall g s) (withFnCall g' s) := by
  unfold withFnCall
  rcases h s.enterCall (hs.congr rfl rfl) with h | h
  · exact Or.inl h
  · simp only [h]; exact Or.inr rfl

theorem withScope_leLL {g g' : St → R} (s : St) (hs : Lit L.length L s) (h : ∀ t, Lit L.length L t → LeL L (g t) (g' t)) :
    LeL L (withScope g s) (withScope g' s) := by
  unfold withScope
  rcases h s.pushScope (hs.congr rfl rfl) with h | ⟨h, hl⟩
  · exact Or.inl h
  · simp only [h]; exact Or.inr ⟨rfl, (by rw [← h]; exact hl.congr rfl rfl)⟩

/-! ### the optimized function table answers every structural question like the original -/

theorem x_get (ρ : List FunDef) (i : Nat) : (ρ.map (xoptFun L))[i]? = (ρ[i]?).map (xoptFun L) := List.getElem?_map ..

theorem x_plen (ρ : List FunDef) (i : Nat) :
    ((ρ.map (xoptFun L))[i]?.map (·.params.length)) = (ρ[i]?.map (·.params.length)) := by
  rw [x_get]; cases ρ[i]? <;> rfl

theorem x_isGuarded (ρ : List FunDef) (g : Nat) : isGuarded (ρ.map (xoptFun L)) g = isGuarded ρ g := by
  unfold isGuarded; rw [x_get]; cases ρ[g]? <;> simp [xoptFun]

theorem x_numDiffs (fd : FunDef) (vals : List Val) : numDiffs (xoptFun L fd) vals = numDiffs fd vals := rfl
theorem x_paramsMatch (fd : FunDef) (vals : List Val) : paramsMatch (xoptFun L fd) vals = paramsMatch fd vals := rfl
theorem x_guardNone (fd : FunDef) : (xoptFun L fd).guard.isNone = fd.guard.isNone := by simp [xoptFun]
theorem x_sameSig (a b : FunDef) : sameSig (xoptFun L a) (xoptFun L b) = sameSig a b := by
  unfold sameSig; simp [x_guardNone]; rfl

theorem x_orderCands (ρ : List FunDef) (cands : List Nat) (vals : List Val) :
    orderCands (ρ.map (xoptFun L)) cands vals = orderCands ρ cands vals := by
  unfold orderCands
  congr 1
  funext i
  congr 1
  funext g
  rw [x_get]
  cases ρ[g]? <;> rfl

theorem x_defClash (ρ : List FunDef) (ex : List Nat) (fid : Nat) : defClash (ρ.map (xoptFun L)) ex fid = defClash ρ ex fid := by
  unfold defClash
  rw [x_get]
  cases ρ[fid]? with
  | none => rfl
  | some fd =>
    simp only [Option.map]
    congr 1
    funext g
    rw [x_get]
    cases ρ[g]? with
    | none => rfl
    | some gd => simp only [Option.map, x_sameSig]

theorem x_insertOverload (ρ : List FunDef) (ex : List Nat) (fid : Nat) :
    insertOverload (ρ.map (xoptFun L)) ex fid = insertOverload ρ ex fid := by
  unfold insertOverload
  simp only [x_isGuarded]
  have : (isGuarded (ρ.map (xoptFun L))) = isGuarded ρ := funext (x_isGuarded ρ)
  simp [this]


theorem xopt_isRef (L : Lits) (n : Node) : isRefDecl (xopt L n) = isRefDecl n := by
  cases n with
  | ret e => cases e <;> simp only [xopt] <;> first | rfl | exact xNode_isRef L _ rfl
  | tryN b cs fin => cases fin <;> simp only [xopt] <;> exact xNode_isRef L _ rfl
  | _ => first | rfl | (simp only [xopt]; first | rfl | exact xNode_isRef L _ rfl)

/-- tactic: the recursive call on the original either ran out of fuel (closed: every construct passes `oof` on) or gave exactly what
    the call on the optimized job gives, in a state that satisfies the literal invariant -/
syntax "ihx " ident term:max term:max term:max term:max term:max : tactic
set_option hygiene false in
macro_rules
  | `(tactic| ihx $ih $j $j' $t $ht $hj) =>
    `(tactic| (have hh0 : LeL L (run ρ f $j $t) (run (List.map (xoptFun L) ρ) f $j' $t) := $ih $j $t $ht $hj
               generalize run ρ f $j $t = rr at hh0 ⊢
               generalize run (List.map (xoptFun L) ρ) f $j' $t = rr' at hh0 ⊢
               refine Or.elim hh0 (fun hh => ?_) (fun hh => ?_)
               · obtain ⟨oo, tt⟩ := rr
                 simp only [] at hh
                 subst hh
                 exact Or.inl rfl
               clear hh0
               obtain ⟨hh, hlt⟩ := hh
               subst hh
               obtain ⟨oo, tt⟩ := rr
               simp only [] at hlt))

theorem xopt_step (ρ : List FunDef) (L : Lits) (f : Nat)
    (ih : ∀ j s, Lit L.length L s → JobOK L.length j → LeL L (run ρ f j s) (run (ρ.map (xoptFun L)) f (xoptJob L j) s)) :
    ∀ j s, Lit L.length L s → JobOK L.length j → Le (run ρ (f + 1) j s) (run (ρ.map (xoptFun L)) (f + 1) (xoptJob L j) s) := by
  intro j s hl hj
  cases j with
  | seq xs =>
    cases xs with
    | nil => exact Le.refl _
    | cons x rest =>
      cases rest with
      | nil => simp only [xoptJob, xoptList, run]; exact (ih (.node x) s hl trivial).le
      | cons y ys =>
        simp only [xoptJob, xoptList, run]
        exact bnd_leL (ih (.node x) s hl trivial) (fun _ t ht => (ih (.seq (y :: ys)) t ht trivial).le)
  | args xs acc =>
    cases xs with
    | nil => exact Le.refl _
    | cons x rest =>
      simp only [xoptJob, xoptList, run]
      exact bnd_leL (ih (.node x) s hl trivial) (fun l t ht => (ih (.args rest (acc ++ [l])) t ht trivial).le)
  | whileL c b =>
    simp only [xoptJob, run]
    refine bnd_leL (withScope_leLL _ hl (fun t ht => ih (.node c) t ht trivial)) (fun l t ht => ?_)
    split
    · exact Le.refl _
    · exact Le.refl _
    · ihx ih (.node b) (.node (xopt L b)) t ht trivial
      cases oo <;> first | exact (ih (.whileL c b) _ hlt trivial).le | exact Le.refl _
  | forL c st b =>
    simp only [xoptJob, run]
    refine bnd_leL (withScope_leLL _ hl (fun t ht => ih (.node c) t ht trivial)) (fun l t ht => ?_)
    split
    · exact Le.refl _
    · exact Le.refl _
    · ihx ih (.node b) (.node (xopt L b)) t ht trivial
      cases oo <;> first
        | exact bnd_leL (ih (.node st) _ hlt trivial) (fun _ u hu => (ih (.forL c st b) u hu trivial).le)
        | exact Le.refl _
  | cforL il hi b =>
    simp only [xoptJob, run]
    split
    · split
      · have key : ∀ u : St, Lit L.length L u →
            Le (match u.val il with
                | .int j => if (u.cell il).const then ((.thrown (.evalErr .assignConst), u) : R) else run ρ f (.cforL il hi b) (u.setVal il (.int (j + 1)))
                | _ => (.thrown (.evalErr .other), u))
               (match u.val il with
                | .int j => if (u.cell il).const then ((.thrown (.evalErr .assignConst), u) : R) else run (ρ.map (xoptFun L)) f (.cforL il hi (xopt L b)) (u.setVal il (.int (j + 1)))
                | _ => (.thrown (.evalErr .other), u)) := by
          intro u hu
          split
          · split
            · exact Le.refl _
            · rename_i hcst
              exact (ih (.cforL il hi b) _ (hu.setVal il _ (by simpa using hcst)) hj).le
          · exact Le.refl _
        ihx ih (.node b) (.node (xopt L b)) s hl trivial
        cases oo <;> first | exact key _ hlt | exact Le.refl _
      · exact Le.refl _
    · exact Le.refl _
  | callFn fid caps args =>
    simp only [xoptJob, run, x_get]
    cases hfd : ρ[fid]? with
    | none => exact Le.refl _
    | some fd =>
      simp only [Option.map]
      refine withStack_leL _ hl (fun t ht => ?_)
      split
      · exact Le.refl _
      · rename_i s1 h1
        have e1 := ht.addAll _ h1
        have hp : (xoptFun L fd).params = fd.params := rfl
        rw [hp]
        split
        · exact Le.refl _
        · rename_i s2 h2
          have e2 := e1.addAll _ h2
          ihx ih (.node fd.body) (.node (xoptFun L fd).body) s2 e2 trivial
          cases oo <;> exact Le.refl _
  | guardFn fid args =>
    simp only [xoptJob, run, x_get]
    cases hfd : ρ[fid]? with
    | none => exact Le.refl _
    | some fd =>
      simp only [Option.map]
      cases hg : fd.guard with
      | none => simp only [xoptFun, hg, Option.map]; exact Le.refl _
      | some gd =>
        simp only [xoptFun, hg, Option.map]
        refine withStack_leL _ hl (fun t ht => ?_)
        split
        · exact Le.refl _
        · rename_i s2 h2
          have e2 := ht.addAll _ h2
          ihx ih (.node gd) (.node (xopt L gd)) s2 e2 trivial
          cases oo <;> exact Le.refl _
  | dispatch cands args =>
    cases cands with
    | nil => exact Le.refl _
    | cons c rest =>
      simp only [xoptJob, run, x_get]
      cases hfd : ρ[c]? with
      | none => exact Le.refl _
      | some fd =>
        simp only [Option.map, x_paramsMatch, x_guardNone]
        split
        · exact (ih (.dispatch rest args) s hl trivial).le
        · split
          · exact (ih (.callFn c [] args) s hl trivial).le
          · ihx ih (.guardFn c args) (.guardFn c args) s hl trivial
            cases oo <;> try exact Le.refl _
            simp only []
            split
            · exact (ih (.callFn c [] args) _ hlt trivial).le
            · exact (ih (.dispatch rest args) _ hlt trivial).le
  | catches cs exc =>
    cases cs with
    | nil => exact Le.refl _
    | cons cl rest =>
      obtain ⟨param, body⟩ := cl
      simp only [xoptJob, xoptCatches, run]
      generalize hgen1 : withScope _ s = rw
      generalize hgen2 : withScope _ s = rw'
      have hw : LeL L rw rw' := by
        rw [← hgen1, ← hgen2]
        refine withScope_leLL _ hl (fun t ht => ?_)
        split
        · have hh0 := ih (.node body) t ht trivial
          rcases hh0 with hh | ⟨hh, hlt⟩
          · left
            generalize run ρ f (.node body) t = rr at hh ⊢
            obtain ⟨oo, tt⟩ := rr
            simp only [] at hh
            subst hh
            rfl
          · right
            simp only [xoptJob] at hh
            rw [← hh]
            refine ⟨rfl, ?_⟩
            generalize run ρ f (.node body) t = rr at hlt ⊢
            obtain ⟨oo, tt⟩ := rr
            cases oo <;> exact hlt
        · split
          · split
            · rename_i s1 h1
              have e1 := ht.addObject h1
              have hh0 := ih (.node body) s1 e1 trivial
              rcases hh0 with hh | ⟨hh, hlt⟩
              · left
                generalize run ρ f (.node body) s1 = rr at hh ⊢
                obtain ⟨oo, tt⟩ := rr
                simp only [] at hh
                subst hh
                rfl
              · right
                simp only [xoptJob] at hh
                rw [← hh]
                refine ⟨rfl, ?_⟩
                generalize run ρ f (.node body) s1 = rr at hlt ⊢
                obtain ⟨oo, tt⟩ := rr
                cases oo <;> exact hlt
            · exact Or.inr ⟨rfl, ht⟩
          · exact Or.inr ⟨rfl, ht⟩
      clear hgen1 hgen2
      rcases hw with hw | ⟨hw, hlw⟩
      · obtain ⟨o, t⟩ := rw
        simp only [] at hw
        subst hw
        exact Or.inl rfl
      · subst hw
        obtain ⟨o, t⟩ := rw
        cases o <;> first | exact (ih (.catches rest exc) _ hlw trivial).le | exact Le.refl _
  | node n =>
    cases n with
    | const l => exact Le.refl _
    | noop => exact Le.refl _
    | id nid x => exact Le.refl _
    | varDecl x => exact Le.refl _
    | refDecl x => exact Le.refl _
    | brk => exact Le.refl _
    | cont => exact Le.refl _
    | lambda fid caps => exact Le.refl _
    | def_ name fid =>
      simp only [xoptJob, xopt, run, x_insertOverload, x_defClash]
      exact Le.refl _
    | assignDecl x e =>
      simp only [xoptJob, xopt]
      refine Le.trans ?_ (xNode_le _ L f _ s hl)
      simp only [run]
      refine withFnCall_leL _ hl (fun s0 h0 => ?_)
      exact bnd_leL (ih (.node e) s0 h0 trivial) (fun _ _ _ => Le.refl _)
    | eq op lhs rhs =>
      simp only [xoptJob, xopt]
      refine Le.trans ?_ (xNode_le _ L f _ s hl)
      simp only [run, xopt_isRef]
      refine withFnCall_leL _ hl (fun t0 h0 => ?_)
      refine bnd_leL (ih (.node rhs) t0 h0 trivial) (fun r t ht => ?_)
      exact bnd_leL (ih (.node lhs) t ht trivial) (fun _ _ _ => Le.refl _)
    | bin op a b =>
      simp only [xoptJob, xopt]
      refine Le.trans ?_ (xNode_le _ L f _ s hl)
      simp only [run]
      refine bnd_leL (ih (.node a) s hl trivial) (fun la t ht => ?_)
      exact bnd_leL (ih (.node b) t ht trivial) (fun _ _ _ => Le.refl _)
    | evalStr nids n =>
      simp only [xoptJob, xopt, run]
      refine withFnCall_leL _ hl (fun t0 h0 => ?_)
      have h0' : Lit L.length L (t0.dropHints nids) := h0.congr rfl rfl
      ihx ih (.node n) (.node (xopt L n)) (t0.dropHints nids) h0' trivial
      exact Le.refl _
    | foldR op a c =>
      simp only [xoptJob, xopt]
      refine Le.trans ?_ (xNode_le _ L f _ s hl)
      simp only [run]
      exact bnd_leL (ih (.node a) s hl trivial) (fun _ _ _ => Le.refl _)
    | pre op a =>
      simp only [xoptJob, xopt]
      refine Le.trans ?_ (xNode_le _ L f _ s hl)
      simp only [run]
      exact bnd_leL (ih (.node a) s hl trivial) (fun _ _ _ => Le.refl _)
    | and a b =>
      simp only [xoptJob, xopt]
      refine Le.trans ?_ (xNode_le _ L f _ s hl)
      simp only [run]
      refine bnd_leL (ih (.node a) s hl trivial) (fun la t ht => ?_)
      split
      · exact Le.refl _
      · exact Le.refl _
      · exact bnd_leL (ih (.node b) t ht trivial) (fun _ _ _ => Le.refl _)
    | or a b =>
      simp only [xoptJob, xopt]
      refine Le.trans ?_ (xNode_le _ L f _ s hl)
      simp only [run]
      refine bnd_leL (ih (.node a) s hl trivial) (fun la t ht => ?_)
      split
      · exact Le.refl _
      · exact Le.refl _
      · exact bnd_leL (ih (.node b) t ht trivial) (fun _ _ _ => Le.refl _)
    | block xs =>
      simp only [xoptJob, xopt]
      refine Le.trans ?_ (xNode_le _ L f _ s hl)
      simp only [run]
      exact withScope_leL _ hl (fun t ht => (ih (.seq xs) t ht trivial).le)
    | scopeless xs =>
      simp only [xoptJob, xopt]
      refine Le.trans ?_ (xNode_le _ L f _ s hl)
      simp only [run]
      exact (ih (.seq xs) s hl trivial).le
    | ifN c t e =>
      simp only [xoptJob, xopt]
      refine Le.trans ?_ (xNode_le _ L f _ s hl)
      simp only [run]
      refine bnd_leL (ih (.node c) s hl trivial) (fun lc t1 h1 => ?_)
      split
      · exact Le.refl _
      · exact (ih (.node t) t1 h1 trivial).le
      · exact (ih (.node e) t1 h1 trivial).le
    | whileN c b =>
      simp only [xoptJob, xopt]
      refine Le.trans ?_ (xNode_le _ L f _ s hl)
      simp only [run]
      refine withScope_leL _ hl (fun t ht => ?_)
      ihx ih (.whileL c b) (.whileL (xopt L c) (xopt L b)) t ht trivial
      exact Le.refl _
    | forN i c st b =>
      simp only [xoptJob, xopt]
      refine Le.trans ?_ (xNode_le _ L f _ s hl)
      simp only [run]
      refine withScope_leL _ hl (fun t ht => ?_)
      refine bnd_leL (ih (.node i) t ht trivial) (fun l t1 h1 => ?_)
      ihx ih (.forL c st b) (.forL (xopt L c) (xopt L st) (xopt L b)) t1 h1 trivial
      exact Le.refl _
    | cfor x lo hi b =>
      simp only [xoptJob, xopt]
      refine Le.trans ?_ (xNode_le _ L f _ s hl)
      simp only [run]
      refine withScope_leL _ hl (fun t ht => ?_)
      try simp only []
      split
      · exact Le.refl _
      · rename_i s2 h2
        have e2 : Lit L.length L s2 := (ht.alloc _ _ _).addObject h2
        ihx ih (.cforL (t.allocV (.int lo)).1 hi b) (.cforL (t.allocV (.int lo)).1 hi (xopt L b)) s2 e2 trivial
        exact Le.refl _
    | ret e =>
      cases e with
      | none => exact Le.refl _
      | some e' =>
        simp only [xoptJob, xopt]
        refine Le.trans ?_ (xNode_le _ L f _ s hl)
        simp only [run]
        ihx ih (.node e') (.node (xopt L e')) s hl trivial
        exact Le.refl _
    | call unused fe args =>
      simp only [xoptJob, xopt]
      refine Le.trans ?_ (xNode_le _ L f _ s hl)
      simp only [run, x_plen, x_orderCands]
      refine withFnCall_leL _ hl (fun t0 h0 => ?_)
      ihx ih (.args args []) (.args (xoptList L args) []) t0 h0 trivial
      cases oo <;> try exact Le.refl _
      rename_i as_
      simp only []
      have hs2 : Lit L.length L (if unused = true then tt else tt.saveParams as_) := by
        split
        · exact hlt
        · exact hlt.congr rfl rfl
      refine bnd_leL (ih (.node fe) _ hs2 trivial) (fun lf t3 h3 => ?_)
      split <;> first
        | exact Le.refl _
        | exact (ih (.dispatch _ _) _ h3 trivial).le
        | (split <;> first | exact (ih (.callFn _ _ _) _ h3 trivial).le | exact Le.refl _)
    | tryN body cs fin =>
      clear hj
      cases fin with
      | none =>
        simp only [xoptJob, xopt]
        refine Le.trans ?_ (xNode_le _ L f _ s hl)
        simp only [run]
        refine withScope_leL _ hl (fun t0 h0 => ?_)
        ihx ih (.node body) (.node (xopt L body)) t0 h0 trivial
        cases oo with
        | thrown e =>
          simp only []
          split
          · have hbox : Lit L.length L (boxExc e tt).2 := by
              cases e with
              | boxed l => exact hlt
              | evalErr w => exact hlt.alloc _ _ _
              | cpp k => exact hlt.alloc _ _ _
            generalize boxExc e tt = bx at hbox ⊢
            obtain ⟨el, s2⟩ := bx
            simp only [] at hbox ⊢
            ihx ih (.catches cs el) (.catches (xoptCatches L cs) el) s2 hbox trivial
            cases oo <;> exact Le.refl _
          · exact Le.refl _
        | _ => exact Le.refl _
      | some fb =>
        simp only [xoptJob, xopt]
        refine Le.trans ?_ (xNode_le _ L f _ s hl)
        simp only [run]
        refine withScope_leL _ hl (fun t0 h0 => ?_)
        have hfin : ∀ (s1 : St) (k : St → R), Lit L.length L s1 →
            Le (match run ρ f (.node fb) s1 with | (.val _, s2) => k s2 | r => r)
               (match run (ρ.map (xoptFun L)) f (.node (xopt L fb)) s1 with | (.val _, s2) => k s2 | r => r) := by
          intro s1 k h1
          ihx ih (.node fb) (.node (xopt L fb)) s1 h1 trivial
          exact Le.refl _
        ihx ih (.node body) (.node (xopt L body)) t0 h0 trivial
        cases oo with
        | val l => exact (ih (.node fb) _ hlt trivial).le
        | thrown e =>
          simp only []
          split
          · have hbox : Lit L.length L (boxExc e tt).2 := by
              cases e with
              | boxed l => exact hlt
              | evalErr w => exact hlt.alloc _ _ _
              | cpp k => exact hlt.alloc _ _ _
            generalize boxExc e tt = bx at hbox ⊢
            obtain ⟨el, s2⟩ := bx
            simp only [] at hbox ⊢
            ihx ih (.catches cs el) (.catches (xoptCatches L cs) el) s2 hbox trivial
            cases oo <;> try simp only []
            all_goals first
              | exact Le.refl _
              | exact hfin _ _ hlt
              | exact (ih (.node fb) _ hlt trivial).le
          · exact hfin _ _ hlt
        | oof => exact Le.refl _
        | vals ls => exact hfin _ _ hlt
        | brk => exact hfin _ _ hlt
        | cont => exact hfin _ _ hlt
        | ret l => exact hfin _ _ hlt
        | noMatch => exact hfin _ _ hlt
    | inlineVec xs =>
      simp only [xoptJob, xopt]
      refine Le.trans ?_ (xNode_le _ L f _ s hl)
      simp only [run]
      ihx ih (.args xs []) (.args (xoptList L xs) []) s hl trivial
      exact Le.refl _
    | index a i =>
      simp only [xoptJob, xopt]
      refine Le.trans ?_ (xNode_le _ L f _ s hl)
      simp only [run]
      refine withFnCall_leL _ hl (fun t0 h0 => ?_)
      refine bnd_leL (ih (.node a) t0 h0 trivial) (fun la t ht => ?_)
      exact bnd_leL (ih (.node i) t ht trivial) (fun _ _ _ => Le.refl _)

/-- **the exact passes, applied everywhere, preserve every evaluation**: the original ran out of fuel, or the optimized program with
    the same fuel gives exactly the same outcome and state -/
theorem xopt_sound (ρ : List FunDef) (L : Lits) : ∀ (f : Nat) (j : Job) (s : St), Lit L.length L s → JobOK L.length j →
    Le (run ρ f j s) (run (ρ.map (xoptFun L)) f (xoptJob L j) s) := by
  intro f
  induction f with
  | zero => intro j s _ _; exact Or.inl rfl
  | succ f ih =>
    exact xopt_step ρ L f (fun j s hl hj => (ih j s hl hj).elim Or.inl (fun h => Or.inr ⟨h, run_lit ρ f j s hl hj⟩))

end ChaiVerif.Chai
