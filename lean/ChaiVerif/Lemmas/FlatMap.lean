/-
Helper lemmas for M-FLATMAP (Props/C15).
-/
import ChaiVerif.Model.FlatMap
namespace ChaiVerif.FlatMap

variable {K V : Type} [DecidableEq K]

theorem find_eq_of_distinct : ∀ (d : List (K × V)) (k : K) (i : Nat) (e : K × V), KeysDistinct d → d[i]? = some e → e.1 = k → find d k = some i := by
  intro d
  induction d with
  | nil => intro k i e _ h; simp at h
  | cons x rest ih =>
    intro k i e hd h hk
    unfold find
    rw [List.findIdx?_cons]
    cases i with
    | zero =>
      simp at h
      subst h
      simp [hk]
    | succ j =>
      simp at h
      have hd' : KeysDistinct rest := by
        unfold KeysDistinct at hd ⊢
        simp at hd
        exact hd.2
      have hx : x.1 ≠ k := by
        unfold KeysDistinct at hd
        simp at hd
        intro hxe
        have hm : e ∈ rest := List.mem_of_getElem? h
        exact hd.1 e.2 (by rw [hxe, ← hk]; exact hm)
      have hxb : (x.1 == k) = false := by simpa using hx
      simp only [hxb]
      have := ih k j e hd' h hk
      unfold find at this
      simp [this]

theorem find_some_lt (d : List (K × V)) (k : K) (i : Nat) (h : find d k = some i) : i < d.length ∧ ∃ e, d[i]? = some e ∧ e.1 = k := by
  unfold find at h
  have := List.findIdx?_eq_some_iff_getElem.mp h
  obtain ⟨hlt, hp, _⟩ := this
  exact ⟨hlt, d[i], by simp [hlt], by simpa using hp⟩

theorem find_none (d : List (K × V)) (k : K) (h : find d k = none) : k ∉ d.map (·.1) := by
  unfold find at h
  rw [List.findIdx?_eq_none_iff] at h
  intro hm
  simp at hm
  obtain ⟨v, hv⟩ := hm
  have := h (k, v) hv
  simp at this


end ChaiVerif.FlatMap
