/-
The frame invariant of the evaluator model (properties C09, C03): an evaluation may only EXTEND the innermost scope of the current
stack with new names; every other scope of every stack — and everything already in the innermost scope — is left exactly as it was.
`Frame s t`: t's stacks are s's with some declarations appended to the innermost scope.
-/
import ChaiVerif.Lemmas.ChaiShape
namespace ChaiVerif.Chai

def Frame (s t : St) : Prop := ∃ ext : Scope, t.stacks = modifyLast (modifyLast (· ++ ext)) s.stacks

theorem modifyLast_congr {α} (f g : α → α) (h : ∀ a, f a = g a) (xs : List α) : modifyLast f xs = modifyLast g xs := by
  induction xs with
  | nil => rfl
  | cons x xs ih => cases xs <;> simp_all [modifyLast]

theorem Frame.refl (s : St) : Frame s s :=
  ⟨[], (modifyLast_id' _ (fun a => modifyLast_id' _ (fun b => by simp) a) _).symm⟩

theorem Frame.of_eq {s t : St} (h : t.stacks = s.stacks) : Frame s t := by
  obtain ⟨e, he⟩ := Frame.refl s
  exact ⟨e, h.trans he⟩

theorem Frame.trans {s t u : St} (h1 : Frame s t) (h2 : Frame t u) : Frame s u := by
  obtain ⟨e1, h1⟩ := h1
  obtain ⟨e2, h2⟩ := h2
  refine ⟨e1 ++ e2, ?_⟩
  rw [h2, h1, modifyLast_modifyLast]
  apply modifyLast_congr
  intro a
  simp only [Function.comp]
  rw [modifyLast_modifyLast]
  apply modifyLast_congr
  intro b; simp [List.append_assoc]

theorem Frame.addObject {s s' : St} {x : Name} {l : Loc} (h : s.addObject x l = some s') : Frame s s' := by
  unfold St.addObject at h
  split at h
  · cases h
  · split at h
    · cases h
    · cases h; exact ⟨[(x, l)], rfl⟩

theorem Frame.addAll : ∀ (ps : List (Name × Loc)) {s s' : St}, addAll s ps = some s' → Frame s s' := by
  intro ps
  induction ps with
  | nil => intro s s' h; simp [ChaiVerif.Chai.addAll] at h; subst h; exact Frame.refl _
  | cons p ps ih =>
    intro s s' h
    obtain ⟨x, l⟩ := p
    simp only [ChaiVerif.Chai.addAll] at h
    split at h
    · rename_i s1 h1; exact (Frame.addObject h1).trans (ih h)
    · cases h

theorem stacks_getObject (s : St) (nid : Nat) (x : Name) : (s.getObject nid x).2.stacks = s.stacks := by
  have raw : (s.getObjectRaw nid x).2.stacks = s.stacks := by
    unfold St.getObjectRaw St.cold St.dropHint
    repeat' split
    all_goals rfl
  unfold St.getObject
  simp only
  split <;> exact raw

theorem stacks_clone (s : St) (l : Loc) : (cloneIfNecessary s l).2.stacks = s.stacks := by
  unfold cloneIfNecessary
  simp only
  split <;> rfl

theorem modifyLast_append_singleton {α} (f : α → α) (l : List α) (x : α) : modifyLast f (l ++ [x]) = l ++ [f x] := by
  induction l with
  | nil => rfl
  | cons a l ih =>
    cases l with
    | nil => rfl
    | cons b bs =>
      simp only [List.cons_append] at ih ⊢
      have e : modifyLast f (a :: b :: (bs ++ [x])) = a :: modifyLast f (b :: (bs ++ [x])) := rfl
      rw [e, ih]

/-- a scope pushed, extended and popped leaves the stacks exactly as they were -/
theorem scope_roundtrip (st : List (List Scope)) (ext : Scope) :
    modifyLast List.dropLast (modifyLast (modifyLast (· ++ ext)) (modifyLast (· ++ [[]]) st)) = st := by
  rw [modifyLast_modifyLast, modifyLast_modifyLast]
  apply modifyLast_id'
  intro L
  simp only [Function.comp]
  rw [modifyLast_append_singleton]
  simp

theorem stack_roundtrip (st : List (List Scope)) (ext : Scope) :
    (modifyLast (modifyLast (· ++ ext)) (st ++ [[[]]])).dropLast = st := by
  rw [modifyLast_append_singleton]
  simp

/-- **a scope opened around `g` disappears with everything `g` declared in it** -/
theorem withScope_stacks (g : St → R) (s : St) (hg : ∀ t, Frame t (g t).2) : (withScope g s).2.stacks = s.stacks := by
  obtain ⟨ext, he⟩ := hg s.pushScope
  show modifyLast List.dropLast (g s.pushScope).2.stacks = s.stacks
  rw [he]
  exact scope_roundtrip _ _

theorem withStack_stacks (g : St → R) (s : St) (hg : ∀ t, Frame t (g t).2) : (withStack g s).2.stacks = s.stacks := by
  obtain ⟨ext, he⟩ := hg s.pushStack
  show (g s.pushStack).2.stacks.dropLast = s.stacks
  rw [he]
  exact stack_roundtrip _ _

theorem withFnCall_frame (g : St → R) (s : St) (hg : ∀ t, Frame t (g t).2) : Frame s (withFnCall g s).2 := by
  obtain ⟨ext, he⟩ := hg s.enterCall
  exact ⟨ext, by simpa [withFnCall, St.leaveCall, St.enterCall] using he⟩

theorem bnd_frame (r : R) (k : Loc → St → R) (s : St) (hr : Frame s r.2) (hk : ∀ l t, Frame t (k l t).2) : Frame s (bnd r k).2 := by
  obtain ⟨o, t⟩ := r
  cases o <;> first | exact hr.trans (hk _ _) | exact hr

end ChaiVerif.Chai
