import ChaiVerif.Lemmas.ChaiShape
namespace ChaiVerif.Chai

/-- abbreviation: the state component of a result has the shape of `s` -/
abbrev Sh (r : R) (s : St) : Prop := r.2.shape = s.shape

theorem sh_trans {r : R} {s t : St} (h : Sh r t) (ht : t.shape = s.shape) : Sh r s := by
  unfold Sh at *; rw [h, ht]

/-- case analysis helper: a result whose shape is known, continued by a function of outcome and state -/
theorem sh_match (r : R) (s : St) (hr : Sh r s) (k : Out → St → R)
    (hk : ∀ o t, t.shape = s.shape → Sh (k o t) s) : Sh (k r.1 r.2) s := hk _ _ hr

macro "shape_simp" : tactic =>
  `(tactic| simp [St.shape, shape_setCell, shape_allocV, shape_setVal, shape_saveParams, shape_allocVal, shape_getObject, shape_cloneIfNecessary, *])

theorem evalCaps_shape : ∀ (caps : List (Nat × Name)) (acc : List (Name × Loc)) (s : St),
    (run.evalCaps caps acc s).2.shape = s.shape := by
  intro caps
  induction caps with
  | nil => intro acc s; rfl
  | cons c cs ih =>
    intro acc s
    obtain ⟨nid, x⟩ := c
    simp only [run.evalCaps]
    have hg := shape_getObject s nid x
    generalize s.getObject nid x = r at hg ⊢
    obtain ⟨res, s1⟩ := r
    cases res <;> simp only [] <;> first | (rw [ih]; exact hg) | exact hg

theorem cloneAll_shape : ∀ (ls : List Loc) (acc : List Loc) (s : St), (run.cloneAll ls acc s).2.shape = s.shape := by
  intro ls
  induction ls with
  | nil => intro acc s; rfl
  | cons l ls ih =>
    intro acc s
    simp only [run.cloneAll]
    have hc := shape_cloneIfNecessary s l
    generalize cloneIfNecessary s l = r at hc ⊢
    obtain ⟨o, s1⟩ := r
    cases o <;> simp only [] <;> (rw [ih]; exact hc)

end ChaiVerif.Chai

namespace ChaiVerif.Chai

/-- tactic: bring the result of a recursive `run` into the context together with its shape fact -/
syntax "ihrun " ident term:max term:max : tactic
set_option hygiene false in
macro_rules
  | `(tactic| ihrun $ih $j $t) =>
    `(tactic| (have hh := $ih $j $t; generalize run _ _ $j $t = rr at hh ⊢; obtain ⟨oo, tt⟩ := rr; simp only [] at hh))

theorem run_shape (ρ : List FunDef) : ∀ (f : Nat) (j : Job) (s : St), (run ρ f j s).2.shape = s.shape := by
  intro f
  induction f with
  | zero => intro j s; rfl
  | succ f ih =>
    intro j s
    cases j with
    | seq xs =>
      simp only [run]
      split
      · simp
      · exact ih _ _
      · exact bnd_shape _ _ _ (ih _ _) (fun l t ht => by rw [ih, ht])
    | args xs acc =>
      simp only [run]
      split
      · rfl
      · exact bnd_shape _ _ _ (ih _ _) (fun l t ht => by rw [ih, ht])
    | whileL c b =>
      simp only [run]
      refine bnd_shape _ _ _ (withScope_shape _ _ (fun t => ih _ t)) (fun l t ht => ?_)
      split
      · simp [ht]
      · simp [ht]
      · ihrun ih (.node b) t
        cases oo <;> simp [ih, hh, ht]
    | forL c st b =>
      simp only [run]
      refine bnd_shape _ _ _ (withScope_shape _ _ (fun t => ih _ t)) (fun l t ht => ?_)
      split
      · simp [ht]
      · simp [ht]
      · ihrun ih (.node b) t
        have key : ∀ u : St, u.shape = s.shape →
            (bnd (run ρ f (.node st) u) (fun _ s3 => run ρ f (.forL c st b) s3)).2.shape = s.shape := fun u hu =>
          bnd_shape _ _ _ (by rw [ih, hu]) (fun l2 t2 ht2 => by rw [ih, ht2])
        cases oo <;> simp only [] <;> first | exact key _ (by rw [hh, ht]) | (rw [hh, ht])
    | cforL il hi b =>
      simp only [run]
      split
      · split
        · ihrun ih (.node b) s
          have key : ∀ u : St, u.shape = s.shape →
              (match u.val il with
               | .int j => if (u.cell il).const then ((.thrown (.evalErr .assignConst), u) : R) else run ρ f (.cforL il hi b) (u.setVal il (.int (j + 1)))
               | _ => (.thrown (.evalErr .other), u)).2.shape = s.shape := by
            intro u hu
            split
            · split
              · exact hu
              · rw [ih]; exact hu
            · exact hu
          cases oo <;> simp only [] <;> first | exact key _ hh | exact hh
        · simp
      · rfl
    | callFn fid caps args =>
      simp only [run]
      split
      · rfl
      · rename_i fd hfd
        refine withStack_shape _ _ (fun t => ?_)
        split
        · rfl
        · rename_i s1 h1
          have e1 := shape_addAll _ _ _ h1
          split
          · exact e1
          · rename_i s2 h2
            have e2 := shape_addAll _ _ _ h2
            ihrun ih (.node fd.body) s2
            cases oo <;> simp only [] <;> (rw [hh, e2, e1])
    | guardFn fid args =>
      simp only [run]
      split
      · rfl
      · rename_i fd hfd
        split
        · rfl
        · rename_i g hg
          refine withStack_shape _ _ (fun t => ?_)
          split
          · rfl
          · rename_i s2 h2
            have e2 := shape_addAll _ _ _ h2
            ihrun ih (.node g) s2
            cases oo <;> simp only [] <;> (rw [hh, e2])
    | dispatch cands args =>
      simp only [run]
      split
      · rfl
      · rename_i g rest
        split
        · rfl
        · rename_i fd hfd
          split
          · exact ih _ _
          · split
            · exact ih _ _
            · ihrun ih (.guardFn g args) s
              cases oo <;> try exact hh
              simp only []
              split
              · rw [ih]; exact hh
              · rw [ih]; exact hh
    | catches cs exc =>
      simp only [run]
      split
      · rfl
      · rename_i param body rest
        have hw : (withScope (fun s0 =>
            match param with
            | none => (match run ρ f (.node body) s0 with | (.noMatch, s1) => (.thrown (.evalErr .other), s1) | r => r)
            | some (x, ty) =>
              if tyMatches ty (s0.val exc) then
                match s0.addObject x exc with
                | some s1 => (match run ρ f (.node body) s1 with | (.noMatch, s2) => (.thrown (.evalErr .other), s2) | r => r)
                | none => (.thrown (.evalErr .redefined), s0)
              else (.noMatch, s0)) s).2.shape = s.shape := by
          refine withScope_shape _ _ (fun t => ?_)
          split
          · ihrun ih (.node body) t
            cases oo <;> simp only [] <;> exact hh
          · split
            · split
              · rename_i s1 h1
                have e1 := shape_addObject _ _ _ _ h1
                ihrun ih (.node body) s1
                cases oo <;> simp only [] <;> (rw [hh, e1])
              · rfl
            · rfl
        generalize withScope _ s = rw at hw ⊢
        obtain ⟨o, t⟩ := rw
        cases o <;> simp only [] <;> first | exact hw | (rw [ih]; exact hw)
    | node n =>
      cases n with
      | const l => rfl
      | noop => simp [run]
      | id nid x =>
        simp only [run]
        have hg := shape_getObject s nid x
        generalize s.getObject nid x = r at hg ⊢
        obtain ⟨res, s1⟩ := r
        cases res <;> simp [hg] <;> exact hg
      | varDecl x =>
        simp only [run]
        split
        · rename_i h; rw [shape_addObject _ _ _ _ h]; rfl
        · rfl
      | refDecl x =>
        simp only [run]
        split
        · rename_i h; rw [shape_addObject _ _ _ _ h]; rfl
        · rfl
      | assignDecl x e =>
        simp only [run]
        refine withFnCall_shape _ _ (fun s0 => ?_)
        refine bnd_shape _ _ _ (ih _ _) (fun l t ht => ?_)
        have htag : (tagParamAlias t l).shape = t.shape := by
          unfold tagParamAlias
          split <;> rfl
        refine bnd_shape _ _ _ (by rw [shape_cloneIfNecessary, htag, ht]) (fun l2 t2 ht2 => ?_)
        split
        · rename_i h; rw [shape_addObject _ _ _ _ h]; simp [ht2]
        · simp [ht2]
      | eq op lhs rhs =>
        simp only [run]
        refine withFnCall_shape _ _ (fun t0 => ?_)
        refine bnd_shape _ _ _ (ih _ _) (fun r t ht => ?_)
        refine bnd_shape _ _ _ (by rw [ih, ht]) (fun l t2 ht2 => ?_)
        try simp only []
        have htag : (tagParamAlias t2 r).shape = t2.shape := by
          unfold tagParamAlias
          split <;> rfl
        have hc := shape_cloneIfNecessary (tagParamAlias t2 r) r
        repeat' split
        all_goals first
          | (simp [ht2]; done)
          | (simp_all; done)
      | bin op a b =>
        simp only [run]
        refine bnd_shape _ _ _ (ih _ _) (fun la t ht => ?_)
        refine bnd_shape _ _ _ (by rw [ih, ht]) (fun lb t2 ht2 => ?_)
        split
        · split <;> simp [ht2]
        · rw [withFnCall_shape _ _ (fun t3 => by repeat' split
                                                 all_goals simp)]
          exact ht2
      | evalStr nids n =>
        simp only [run]
        refine withFnCall_shape _ _ (fun t0 => ?_)
        ihrun ih (.node n) (t0.dropHints nids)
        have hh' : tt.shape = t0.shape := by rw [hh]; rfl
        cases oo <;> try exact hh'
        rename_i e
        cases e <;> first | exact hh' | (simp [hh'])
      | foldR op a c =>
        simp only [run]
        refine bnd_shape _ _ _ (ih _ _) (fun la t ht => ?_)
        split
        · split <;> simp [ht]
        · rw [withFnCall_shape _ _ (fun t3 => by simp)]; exact ht
      | pre op a =>
        simp only [run]
        refine bnd_shape _ _ _ (ih _ _) (fun la t ht => ?_)
        try simp only []
        split
        · simp [ht]
        · split <;> simp [ht]
        · split <;> simp [ht]
        · rw [withFnCall_shape _ _ (fun t3 => by simp)]; exact ht
        · rw [withFnCall_shape _ _ (fun t3 => by simp)]; exact ht
      | and a b =>
        simp only [run]
        refine bnd_shape _ _ _ (ih _ _) (fun la t ht => ?_)
        split
        · simp [ht]
        · simp [ht]
        · refine bnd_shape _ _ _ (by rw [ih, ht]) (fun lb t2 ht2 => ?_)
          split <;> simp [ht2]
      | or a b =>
        simp only [run]
        refine bnd_shape _ _ _ (ih _ _) (fun la t ht => ?_)
        split
        · simp [ht]
        · simp [ht]
        · refine bnd_shape _ _ _ (by rw [ih, ht]) (fun lb t2 ht2 => ?_)
          split <;> simp [ht2]
      | block xs => simp only [run]; exact withScope_shape _ _ (fun t => ih _ t)
      | scopeless xs => simp only [run]; exact ih _ _
      | ifN c t e =>
        simp only [run]
        refine bnd_shape _ _ _ (ih _ _) (fun lc t1 ht => ?_)
        split
        · simp [ht]
        · rw [ih, ht]
        · rw [ih, ht]
      | whileN c b =>
        simp only [run]
        refine withScope_shape _ _ (fun t => ?_)
        ihrun ih (.whileL c b) t
        cases oo <;> simp [hh]
      | forN i c st b =>
        simp only [run]
        refine withScope_shape _ _ (fun t => ?_)
        refine bnd_shape _ _ _ (ih _ _) (fun l t1 ht => ?_)
        ihrun ih (.forL c st b) t1
        cases oo <;> simp [hh, ht]
      | cfor x lo hi b =>
        simp only [run]
        refine withScope_shape _ _ (fun t => ?_)
        try simp only []
        split
        · rfl
        · rename_i s2 h2
          have e2 := shape_addObject _ _ _ _ h2
          ihrun ih (.cforL (t.allocV (.int lo)).1 hi b) s2
          cases oo <;> simp [hh, e2]
      | brk => rfl
      | cont => rfl
      | ret e =>
        simp only [run]
        split
        · simp [allocVal]
        · rename_i e'
          ihrun ih (.node e') s
          cases oo <;> simp [hh]
      | lambda fid caps =>
        simp only [run]
        have hc := evalCaps_shape caps [] s
        generalize run.evalCaps caps [] s = r at hc ⊢
        obtain ⟨o, s1⟩ := r
        cases o <;> simp [hc]
      | def_ name fid =>
        simp only [run]
        repeat' split
        all_goals rfl
      | call unused fe args =>
        simp only [run]
        refine withFnCall_shape _ _ (fun t0 => ?_)
        ihrun ih (.args args []) t0
        cases oo <;> try exact hh
        rename_i as_
        simp only []
        have hs2 : (if unused = true then tt else tt.saveParams as_).shape = t0.shape := by split <;> simp [hh]
        refine bnd_shape _ _ _ (by rw [ih, hs2]) (fun lf t3 ht3 => ?_)
        repeat' split
        all_goals first
          | (simp [ht3]; done)
          | (rw [ih, ht3]; done)
          | (simp [allocVal, St.alloc, St.shape] at *; simp [ht3]; done)
          | exact ht3
      | tryN body cs fin =>
        simp only [run]
        refine withScope_shape _ _ (fun t0 => ?_)
        -- the finally combinator keeps the shape whenever its continuation does
        have hfin : ∀ (s1 : St) (k : St → R), (∀ u, (k u).2.shape = u.shape) →
            (match fin with
             | none => k s1
             | some fb => (match run ρ f (.node fb) s1 with | (.val _, s2) => k s2 | r => r)).2.shape = s1.shape := by
          intro s1 k hk
          split
          · exact hk _
          · rename_i fb
            ihrun ih (.node fb) s1
            cases oo <;> simp only [] <;> first | (rw [hk]; exact hh) | exact hh
        ihrun ih (.node body) t0
        cases oo with
        | val l =>
          simp only []
          split
          · exact hh
          · rw [ih]; exact hh
        | thrown e =>
          simp only []
          split
          · -- catchable
            have hbox : (boxExc e tt).2.shape = tt.shape := by cases e <;> rfl
            generalize boxExc e tt = bx at hbox ⊢
            obtain ⟨el, s2⟩ := bx
            simp only [] at hbox ⊢
            have hc := ih (.catches cs el) s2
            generalize run ρ f (.catches cs el) s2 = rc at hc ⊢
            obtain ⟨oc, s3⟩ := rc
            simp only [] at hc
            have h3 : s3.shape = t0.shape := by rw [hc, hbox, hh]
            cases oc <;> try simp only []
            all_goals first
              | exact h3
              | exact (hfin s3 (fun s4 => (_, s4)) (fun _ => rfl)).trans h3
              | (split
                 · exact h3
                 · rw [ih]; exact h3)
          · exact (hfin tt (fun s2 => (Out.thrown e, s2)) (fun _ => rfl)).trans hh
        | oof => exact hh
        | vals ls => exact (hfin tt (fun s2 => (Out.vals ls, s2)) (fun _ => rfl)).trans hh
        | brk => exact (hfin tt (fun s2 => (Out.brk, s2)) (fun _ => rfl)).trans hh
        | cont => exact (hfin tt (fun s2 => (Out.cont, s2)) (fun _ => rfl)).trans hh
        | ret l => exact (hfin tt (fun s2 => (Out.ret l, s2)) (fun _ => rfl)).trans hh
        | noMatch => exact (hfin tt (fun s2 => (Out.noMatch, s2)) (fun _ => rfl)).trans hh
      | inlineVec xs =>
        simp only [run]
        ihrun ih (.args xs []) s
        cases oo <;> simp only [] <;> try exact hh
        rename_i ls
        have hc := cloneAll_shape ls [] tt
        generalize run.cloneAll ls [] tt = r at hc ⊢
        obtain ⟨ls2, s2⟩ := r
        simp [hc, hh]
      | index a i =>
        simp only [run]
        refine withFnCall_shape _ _ (fun t0 => ?_)
        refine bnd_shape _ _ _ (ih _ _) (fun la t ht => ?_)
        refine bnd_shape _ _ _ (by rw [ih, ht]) (fun li t2 ht2 => ?_)
        try simp only []
        repeat' split
        all_goals simp [ht2]

end ChaiVerif.Chai
