/-
Sixth induction over the evaluator: FUEL IS ONLY FUEL.
`run ρ f j s` either runs out of fuel or gives exactly what any larger amount of fuel gives (outcome AND state).  Every theorem
of this library that says "for all fuel" is therefore about one well-defined semantics: the result of a terminating evaluation does
not depend on how much fuel the model was given.
-/
import ChaiVerif.Model.Chai.Eval
namespace ChaiVerif.Chai

/-- `r` ran out of fuel, or is the final answer `r'` -/
def Le (r r' : R) : Prop := r.1 = .oof ∨ r = r'

theorem Le.refl (r : R) : Le r r := Or.inr rfl
theorem Le.oof (s : St) (r' : R) : Le (.oof, s) r' := Or.inl rfl

theorem bnd_le {r r' : R} {k k' : Loc → St → R} (h : Le r r') (hk : ∀ l t, Le (k l t) (k' l t)) : Le (bnd r k) (bnd r' k') := by
  rcases h with h | rfl
  · obtain ⟨o, t⟩ := r
    simp only [] at h
    subst h
    exact Or.inl rfl
  · obtain ⟨o, t⟩ := r
    cases o <;> first | exact hk _ _ | exact Or.inr rfl

theorem withScope_le {g g' : St → R} (s : St) (h : ∀ t, Le (g t) (g' t)) : Le (withScope g s) (withScope g' s) := by
  unfold withScope
  rcases h s.pushScope with h | h
  · exact Or.inl h
  · simp only [h]; exact Or.inr rfl

theorem withStack_le {g g' : St → R} (s : St) (h : ∀ t, Le (g t) (g' t)) : Le (withStack g s) (withStack g' s) := by
  unfold withStack
  rcases h s.pushStack with h | h
  · exact Or.inl h
  · simp only [h]; exact Or.inr rfl

theorem withFnCall_le {g g' : St → R} (s : St) (h : ∀ t, Le (g t) (g' t)) : Le (withFnCall g s) (withFnCall g' s) := by
  unfold withFnCall
  rcases h s.enterCall with h | h
  · exact Or.inl h
  · simp only [h]; exact Or.inr rfl

/-- tactic: split on "the recursive call ran out of fuel" (closed at once: every construct passes `oof` on) / "it gave the final answer" -/
syntax "ihle " ident term:max term:max : tactic
set_option hygiene false in
macro_rules
  | `(tactic| ihle $ih $j $t) =>
    `(tactic| (have hh0 := $ih $j $t
               generalize run _ _ $j $t = rr at hh0 ⊢
               generalize run _ _ $j $t = rr' at hh0 ⊢
               refine Or.elim hh0 (fun hh => ?_) (fun hh => ?_)
               · obtain ⟨oo, tt⟩ := rr
                 simp only [] at hh
                 subst hh
                 exact Or.inl rfl
               clear hh0
               subst hh
               obtain ⟨oo, tt⟩ := rr))

theorem run_le_step (ρ : List FunDef) (f g : Nat) (ih : ∀ j s, Le (run ρ f j s) (run ρ g j s)) :
    ∀ j s, Le (run ρ (f + 1) j s) (run ρ (g + 1) j s) := by
  intro j s
  cases j with
  | seq xs =>
    simp only [run]
    split
    · exact Le.refl _
    · exact ih _ _
    · exact bnd_le (ih _ _) (fun _ t => ih _ t)
  | args xs acc =>
    simp only [run]
    split
    · exact Le.refl _
    · exact bnd_le (ih _ _) (fun _ t => ih _ t)
  | whileL c b =>
    simp only [run]
    refine bnd_le (withScope_le _ (fun t => ih _ t)) (fun l t => ?_)
    split
    · exact Le.refl _
    · exact Le.refl _
    · ihle ih (.node b) t
      cases oo <;> first | exact ih _ _ | exact Le.refl _
  | forL c st b =>
    simp only [run]
    refine bnd_le (withScope_le _ (fun t => ih _ t)) (fun l t => ?_)
    split
    · exact Le.refl _
    · exact Le.refl _
    · ihle ih (.node b) t
      cases oo <;> first | exact bnd_le (ih _ _) (fun _ u => ih _ u) | exact Le.refl _
  | cforL il hi b =>
    simp only [run]
    split
    · split
      · have key : ∀ u : St,
            Le (match u.val il with
                | .int j => if (u.cell il).const then ((.thrown (.evalErr .assignConst), u) : R) else run ρ f (.cforL il hi b) (u.setVal il (.int (j + 1)))
                | _ => (.thrown (.evalErr .other), u))
               (match u.val il with
                | .int j => if (u.cell il).const then ((.thrown (.evalErr .assignConst), u) : R) else run ρ g (.cforL il hi b) (u.setVal il (.int (j + 1)))
                | _ => (.thrown (.evalErr .other), u)) := by
          intro u
          split
          · split
            · exact Le.refl _
            · exact ih _ _
          · exact Le.refl _
        ihle ih (.node b) s
        cases oo <;> first | exact key _ | exact Le.refl _
      · exact Le.refl _
    · exact Le.refl _
  | callFn fid caps args =>
    simp only [run]
    split
    · exact Le.refl _
    · rename_i fd hfd
      refine withStack_le _ (fun t => ?_)
      split
      · exact Le.refl _
      · rename_i s1 h1
        split
        · exact Le.refl _
        · rename_i s2 h2
          ihle ih (.node fd.body) s2
          cases oo <;> exact Le.refl _
  | guardFn fid args =>
    simp only [run]
    split
    · exact Le.refl _
    · rename_i fd hfd
      split
      · exact Le.refl _
      · rename_i gd hgd
        refine withStack_le _ (fun t => ?_)
        split
        · exact Le.refl _
        · rename_i s2 h2
          ihle ih (.node gd) s2
          cases oo <;> exact Le.refl _
  | dispatch cands args =>
    simp only [run]
    split
    · exact Le.refl _
    · rename_i c rest
      split
      · exact Le.refl _
      · split
        · exact ih _ _
        · split
          · exact ih _ _
          · ihle ih (.guardFn c args) s
            cases oo <;> try exact Le.refl _
            simp only []
            split
            · exact ih _ _
            · exact ih _ _
  | catches cs exc =>
    simp only [run]
    split
    · exact Le.refl _
    · rename_i param body rest
      have hw : Le (withScope (fun s0 =>
            match param with
            | none => (match run ρ f (.node body) s0 with | (.noMatch, s1) => (.thrown (.evalErr .other), s1) | r => r)
            | some (x, ty) =>
              if tyMatches ty (s0.val exc) then
                match s0.addObject x exc with
                | some s1 => (match run ρ f (.node body) s1 with | (.noMatch, s2) => (.thrown (.evalErr .other), s2) | r => r)
                | none => (.thrown (.evalErr .redefined), s0)
              else (.noMatch, s0)) s)
          (withScope (fun s0 =>
            match param with
            | none => (match run ρ g (.node body) s0 with | (.noMatch, s1) => (.thrown (.evalErr .other), s1) | r => r)
            | some (x, ty) =>
              if tyMatches ty (s0.val exc) then
                match s0.addObject x exc with
                | some s1 => (match run ρ g (.node body) s1 with | (.noMatch, s2) => (.thrown (.evalErr .other), s2) | r => r)
                | none => (.thrown (.evalErr .redefined), s0)
              else (.noMatch, s0)) s) := by
        refine withScope_le _ (fun t => ?_)
        split
        · ihle ih (.node body) t
          cases oo <;> exact Le.refl _
        · split
          · split
            · rename_i s1 _
              ihle ih (.node body) s1
              cases oo <;> exact Le.refl _
            · exact Le.refl _
          · exact Le.refl _
      generalize withScope _ s = rw at hw ⊢
      generalize withScope _ s = rw' at hw ⊢
      rcases hw with hw | hw
      · obtain ⟨o, t⟩ := rw
        simp only [] at hw
        subst hw
        exact Or.inl rfl
      · subst hw
        obtain ⟨o, t⟩ := rw
        cases o <;> first | exact ih _ _ | exact Le.refl _
  | node n =>
    cases n with
    | const l => exact Le.refl _
    | noop => exact Le.refl _
    | id nid x => exact Le.refl _
    | varDecl x => exact Le.refl _
    | refDecl x => exact Le.refl _
    | assignDecl x e =>
      simp only [run]
      refine withFnCall_le _ (fun s0 => ?_)
      exact bnd_le (ih _ _) (fun _ _ => Le.refl _)
    | eq op lhs rhs =>
      simp only [run]
      refine withFnCall_le _ (fun t0 => ?_)
      refine bnd_le (ih _ _) (fun r t => ?_)
      exact bnd_le (ih _ _) (fun _ _ => Le.refl _)
    | bin op a b =>
      simp only [run]
      refine bnd_le (ih _ _) (fun la t => ?_)
      exact bnd_le (ih _ _) (fun _ _ => Le.refl _)
    | evalStr nids n =>
      simp only [run]
      refine withFnCall_le _ (fun t0 => ?_)
      ihle ih (.node n) (t0.dropHints nids)
      exact Le.refl _
    | foldR op a c =>
      simp only [run]
      exact bnd_le (ih _ _) (fun _ _ => Le.refl _)
    | pre op a =>
      simp only [run]
      exact bnd_le (ih _ _) (fun _ _ => Le.refl _)
    | and a b =>
      simp only [run]
      refine bnd_le (ih _ _) (fun la t => ?_)
      split
      · exact Le.refl _
      · exact Le.refl _
      · exact bnd_le (ih _ _) (fun _ _ => Le.refl _)
    | or a b =>
      simp only [run]
      refine bnd_le (ih _ _) (fun la t => ?_)
      split
      · exact Le.refl _
      · exact Le.refl _
      · exact bnd_le (ih _ _) (fun _ _ => Le.refl _)
    | block xs => simp only [run]; exact withScope_le _ (fun t => ih _ t)
    | scopeless xs => simp only [run]; exact ih _ _
    | ifN c t e =>
      simp only [run]
      refine bnd_le (ih _ _) (fun lc t1 => ?_)
      split
      · exact Le.refl _
      · exact ih _ _
      · exact ih _ _
    | whileN c b =>
      simp only [run]
      refine withScope_le _ (fun t => ?_)
      ihle ih (.whileL c b) t
      exact Le.refl _
    | forN i c st b =>
      simp only [run]
      refine withScope_le _ (fun t => ?_)
      refine bnd_le (ih _ _) (fun l t1 => ?_)
      ihle ih (.forL c st b) t1
      exact Le.refl _
    | cfor x lo hi b =>
      simp only [run]
      refine withScope_le _ (fun t => ?_)
      try simp only []
      split
      · exact Le.refl _
      · rename_i s2 _
        ihle ih (.cforL (t.allocV (.int lo)).1 hi b) s2
        exact Le.refl _
    | brk => exact Le.refl _
    | cont => exact Le.refl _
    | ret e =>
      simp only [run]
      split
      · exact Le.refl _
      · rename_i e'
        ihle ih (.node e') s
        exact Le.refl _
    | lambda fid caps => exact Le.refl _
    | def_ name fid => exact Le.refl _
    | call unused fe args =>
      simp only [run]
      refine withFnCall_le _ (fun t0 => ?_)
      ihle ih (.args args []) t0
      cases oo <;> try exact Le.refl _
      rename_i as_
      simp only []
      refine bnd_le (ih _ _) (fun lf t3 => ?_)
      split <;> first
        | exact Le.refl _
        | exact ih _ _
        | (split <;> first | exact ih _ _ | exact Le.refl _)
    | tryN body cs fin =>
      simp only [run]
      refine withScope_le _ (fun t0 => ?_)
      have hfin : ∀ (s1 : St) (k : St → R),
          Le (match fin with
              | none => k s1
              | some fb => (match run ρ f (.node fb) s1 with | (.val _, s2) => k s2 | r => r))
             (match fin with
              | none => k s1
              | some fb => (match run ρ g (.node fb) s1 with | (.val _, s2) => k s2 | r => r)) := by
        intro s1 k
        split
        · exact Le.refl _
        · rename_i fb
          ihle ih (.node fb) s1
          exact Le.refl _
      ihle ih (.node body) t0
      cases oo with
      | val l =>
        simp only []
        split
        · exact Le.refl _
        · exact ih _ _
      | thrown e =>
        simp only []
        split
        · generalize boxExc e tt = bx
          obtain ⟨el, s2⟩ := bx
          simp only []
          ihle ih (.catches cs el) s2
          cases oo <;> try simp only []
          all_goals first
            | exact Le.refl _
            | exact hfin _ _
            | (split
               · exact Le.refl _
               · exact ih _ _)
        · exact hfin _ _
      | oof => exact Le.refl _
      | vals ls => exact hfin _ _
      | brk => exact hfin _ _
      | cont => exact hfin _ _
      | ret l => exact hfin _ _
      | noMatch => exact hfin _ _
    | inlineVec xs =>
      simp only [run]
      ihle ih (.args xs []) s
      exact Le.refl _
    | index a i =>
      simp only [run]
      refine withFnCall_le _ (fun t0 => ?_)
      refine bnd_le (ih _ _) (fun la t => ?_)
      exact bnd_le (ih _ _) (fun _ _ => Le.refl _)

/-- one more unit of fuel changes nothing once the evaluation has finished -/
theorem run_le_succ (ρ : List FunDef) : ∀ (f : Nat) (j : Job) (s : St), Le (run ρ f j s) (run ρ (f + 1) j s) := by
  intro f
  induction f with
  | zero => intro j s; exact Or.inl rfl
  | succ f ih => exact run_le_step ρ f (f + 1) ih

theorem run_le (ρ : List FunDef) (f k : Nat) (j : Job) (s : St) : Le (run ρ f j s) (run ρ (f + k) j s) := by
  induction k with
  | zero => exact Le.refl _
  | succ k ih =>
    rcases ih with h | h
    · exact Or.inl h
    · rcases run_le_succ ρ (f + k) j s with h2 | h2
      · left; rw [h]; exact h2
      · right; rw [h]; exact h2

end ChaiVerif.Chai
