/-
Ninth induction over the evaluator: THE LOOKUP CACHE IS INVISIBLE UNLESS FLAGGED.  Run any job from any state, and run it again
from the same state with the per-node lookup hints emptied and switched off (every `get_object` is then the specification
`resolve`).  Either some lookup of the first run was flagged (one more tag 2: the cached answer was not the specification's — the
known finding STALE_LOOKUP_HINT), or both runs give the same outcome and the same state up to the cache.
-/
import ChaiVerif.Lemmas.ChaiNh
namespace ChaiVerif.Chai

/-- `k ≤` flagged lookups after; and either more than `k`, or the uncached run ended the same way up to the cache -/
def HS {α : Type} (k : Nat) (r r' : α × St) : Prop := k ≤ c2 r.2 ∧ (k < c2 r.2 ∨ r' = (r.1, r.2.nh))

theorem HS.mk {α : Type} {k : Nat} (o : α) (t : St) (h : k ≤ c2 t) : HS k (o, t) (o, t.nh) := ⟨h, Or.inr rfl⟩

/-- continuation principle: whatever is done with the two results, it is enough to look at equal results (for every `k'`) -/
theorem HS.cont {α β : Type} {k : Nat} {r r' : α × St} {F F' : α × St → β × St} (h : HS k r r')
    (hF : ∀ o t k', k' ≤ c2 t → HS k' (F (o, t)) (F' (o, t.nh))) : HS k (F r) (F' r') := by
  obtain ⟨o, t⟩ := r
  obtain ⟨hle, hdev | heq⟩ := h
  · have := hF o t (c2 t) (Nat.le_refl _)
    exact ⟨Nat.le_trans hle this.1, Or.inl (Nat.lt_of_lt_of_le hdev this.1)⟩
  · simp only [] at heq hle
    subst heq
    exact hF o t k hle

theorem bnd_hs {k : Nat} {r r' : R} {g g' : Loc → St → R} (h : HS k r r')
    (hg : ∀ l t k', k' ≤ c2 t → HS k' (g l t) (g' l t.nh)) : HS k (bnd r g) (bnd r' g') :=
  HS.cont (F := fun r => bnd r g) (F' := fun r => bnd r g') h
    (fun o t k' hk' => by cases o <;> first | exact hg _ _ _ hk' | exact HS.mk _ _ hk')

theorem withScope_hs {g g' : St → R} (s : St) (k : Nat) (hk : k ≤ c2 s)
    (h : ∀ t k', k' ≤ c2 t → HS k' (g t) (g' t.nh)) : HS k (withScope g s) (withScope g' s.nh) :=
  HS.cont (F := fun r => (r.1, r.2.popScope)) (F' := fun r => (r.1, r.2.popScope)) (h s.pushScope k hk)
    (fun o t k' hk' => HS.mk (k := k') o t.popScope hk')

theorem withStack_hs {g g' : St → R} (s : St) (k : Nat) (hk : k ≤ c2 s)
    (h : ∀ t k', k' ≤ c2 t → HS k' (g t) (g' t.nh)) : HS k (withStack g s) (withStack g' s.nh) :=
  HS.cont (F := fun r => (r.1, r.2.popStack)) (F' := fun r => (r.1, r.2.popStack)) (h s.pushStack k hk)
    (fun o t k' hk' => HS.mk (k := k') o t.popStack hk')

theorem withFnCall_hs {g g' : St → R} (s : St) (k : Nat) (hk : k ≤ c2 s)
    (h : ∀ t k', k' ≤ c2 t → HS k' (g t) (g' t.nh)) : HS k (withFnCall g s) (withFnCall g' s.nh) :=
  HS.cont (F := fun r => (r.1, r.2.leaveCall)) (F' := fun r => (r.1, r.2.leaveCall)) (h s.enterCall k hk)
    (fun o t k' hk' => HS.mk (k := k') o t.leaveCall hk')

/-- one lookup -/
theorem hs_getObject {k : Nat} (s : St) (nid : Nat) (x : Name) (hk : k ≤ c2 s) :
    HS k (s.getObject nid x) (s.nh.getObject nid x) := by
  obtain ⟨hle, h2⟩ := getObject_nh s nid x
  refine ⟨Nat.le_trans hk hle, ?_⟩
  rcases h2 with hdev | heq
  · exact Or.inl (Nat.lt_of_le_of_lt hk hdev)
  · exact Or.inr heq

theorem nh_addAll : ∀ (ps : List (Name × Loc)) (s : St), addAll s.nh ps = (addAll s ps).map (·.nh) := by
  intro ps
  induction ps with
  | nil => intro s; rfl
  | cons x rest ih =>
    intro s
    obtain ⟨n, l⟩ := x
    simp only [addAll, nh_addObject]
    cases s.addObject n l with
    | none => rfl
    | some s' => simp only [Option.map]; exact ih s'

theorem c2_addAll : ∀ (ps : List (Name × Loc)) (s s' : St), addAll s ps = some s' → c2 s' = c2 s := by
  intro ps
  induction ps with
  | nil => intro s s' h; simp [addAll] at h; rw [h]
  | cons x rest ih =>
    intro s s' h
    obtain ⟨n, l⟩ := x
    simp only [addAll] at h
    cases h1 : s.addObject n l with
    | none => rw [h1] at h; cases h
    | some t =>
      rw [h1] at h
      rw [ih t s' h, c2_addObject s t n l h1]

theorem hs_allocVal {k : Nat} (t : St) (hk : k ≤ c2 t) (v : Val) (c r : Bool) :
    HS k (allocVal t v c r) (allocVal t.nh v c r) := HS.mk _ _ hk

theorem hs_clone {k : Nat} (t : St) (hk : k ≤ c2 t) (l : Loc) : HS k (cloneIfNecessary t l) (cloneIfNecessary t.nh l) := by
  unfold cloneIfNecessary
  simp only [nh_cell, nh_val]
  by_cases h : (t.cell l).ret = true
  · simp only [h, if_true, nh_setCell]; exact HS.mk _ _ hk
  · simp only [h, if_false]; exact HS.mk _ _ hk

theorem tag_nh (t : St) (l : Loc) : tagParamAlias t.nh l = (tagParamAlias t l).nh := by
  unfold tagParamAlias
  by_cases hc : ((t.cell l).ret && t.isNamed l) = true
  · have hc' : ((t.nh.cell l).ret && t.nh.isNamed l) = true := hc
    rw [if_pos hc', if_pos hc]; rfl
  · have hc' : ¬ ((t.nh.cell l).ret && t.nh.isNamed l) = true := hc
    rw [if_neg hc', if_neg hc]

theorem c2_tag (t : St) (l : Loc) : c2 (tagParamAlias t l) = c2 t := by
  unfold tagParamAlias
  split
  · simp [c2]
  · rfl

/-- tactic: bring both recursive runs into the context and continue from equal results -/
syntax "ihh " ident term:max term:max term:max : tactic
set_option hygiene false in
macro_rules
  | `(tactic| ihh $ih $j $t $hk) =>
    `(tactic| (have hh0 : HS _ (run ρ f $j $t) (run ρ f $j (St.nh $t)) := $ih $j $t _ $hk
               generalize run ρ f $j $t = rr at hh0 ⊢
               generalize run ρ f $j (St.nh $t) = rr' at hh0 ⊢
               apply HS.cont hh0
               intro oo tt kk hkk
               try simp only []))

/-- tactic: continue from equal results of two related computations `a`, `b` (`h : HS _ a b`) -/
syntax "hcont " term:max term:max term:max : tactic
set_option hygiene false in
macro_rules
  | `(tactic| hcont $h $a $b) =>
    `(tactic| (have hh1 := $h
               generalize $a = ga at hh1 ⊢
               generalize $b = gb at hh1 ⊢
               apply HS.cont hh1
               intro oo tt kk hkk
               try simp only []))

/-- a `withFnCall` whose body only saves parameters and allocates / throws -/
syntax "fncall_tl " term:max term:max : tactic
macro_rules
  | `(tactic| fncall_tl $t $hk) =>
    `(tactic| (refine withFnCall_hs $t _ $hk (fun t3 k3 hk3 => ?_)
               simp only [nh_saveParams, allocVal, nh_allocV]
               exact HS.mk _ _ hk3))

theorem run_nh_step (ρ : List FunDef) (f : Nat)
    (ih : ∀ j s k, k ≤ c2 s → HS k (run ρ f j s) (run ρ f j s.nh)) :
    ∀ j s k, k ≤ c2 s → HS k (run ρ (f + 1) j s) (run ρ (f + 1) j s.nh) := by
  intro j s k hk
  cases j with
  | seq xs =>
    cases xs with
    | nil => exact hs_allocVal s hk _ _ _
    | cons x rest =>
      cases rest with
      | nil => simp only [run]; exact ih (.node x) s k hk
      | cons y ys =>
        simp only [run]
        exact bnd_hs (ih (.node x) s k hk) (fun _ t k' hk' => ih (.seq (y :: ys)) t k' hk')
  | args xs acc =>
    cases xs with
    | nil => exact HS.mk _ _ hk
    | cons x rest =>
      simp only [run]
      exact bnd_hs (ih (.node x) s k hk) (fun l t k' hk' => ih (.args rest (acc ++ [l])) t k' hk')
  | whileL c b =>
    simp only [run]
    refine bnd_hs (withScope_hs s k hk (fun t k' hk' => ih (.node c) t k' hk')) (fun l t k1 hk1 => ?_)
    simp only [boolOf, nh_val]
    split
    · exact HS.mk _ _ hk1
    · exact hs_allocVal t hk1 _ _ _
    · ihh ih (.node b) t hk1
      cases oo <;> first | exact ih (.whileL c b) _ _ hkk | exact HS.mk _ _ hkk
  | forL c st b =>
    simp only [run]
    refine bnd_hs (withScope_hs s k hk (fun t k' hk' => ih (.node c) t k' hk')) (fun l t k1 hk1 => ?_)
    simp only [boolOf, nh_val]
    split
    · exact HS.mk _ _ hk1
    · exact hs_allocVal t hk1 _ _ _
    · ihh ih (.node b) t hk1
      cases oo <;> first
        | exact bnd_hs (ih (.node st) _ _ hkk) (fun _ u k' hk' => ih (.forL c st b) u k' hk')
        | exact HS.mk _ _ hkk
  | cforL il hi b =>
    simp only [run, nh_val]
    split
    · split
      · have key : ∀ (u : St) (k' : Nat), k' ≤ c2 u →
            HS k' (match u.val il with
                | .int j => if (u.cell il).const then ((.thrown (.evalErr .assignConst), u) : R) else run ρ f (.cforL il hi b) (u.setVal il (.int (j + 1)))
                | _ => (.thrown (.evalErr .other), u))
               (match u.nh.val il with
                | .int j => if (u.nh.cell il).const then ((.thrown (.evalErr .assignConst), u.nh) : R) else run ρ f (.cforL il hi b) (u.nh.setVal il (.int (j + 1)))
                | _ => (.thrown (.evalErr .other), u.nh)) := by
          intro u k' hk'
          simp only [nh_val, nh_cell, nh_setVal]
          cases u.val il <;> try exact HS.mk _ _ hk'
          simp only []
          by_cases hcst : (u.cell il).const = true
          · simp only [hcst, if_true]; exact HS.mk _ _ hk'
          · simp only [hcst, if_false]
            exact ih (.cforL il hi b) _ k' hk'
        ihh ih (.node b) s hk
        cases oo <;> first | exact key _ _ hkk | exact HS.mk _ _ hkk
      · exact hs_allocVal s hk _ _ _
    · exact HS.mk _ _ hk
  | callFn fid caps args =>
    simp only [run]
    cases hfd : ρ[fid]? with
    | none => exact HS.mk _ _ hk
    | some fd =>
      simp only []
      refine withStack_hs s k hk (fun t k1 hk1 => ?_)
      simp only [nh_addAll]
      cases h1 : addAll t (sortCaps caps) with
      | none => exact HS.mk _ _ hk1
      | some s1 =>
        simp only [Option.map]
        have e1 := c2_addAll _ _ _ h1
        simp only [nh_addAll]
        cases h2 : addAll s1 (fd.params.zip args) with
        | none => exact HS.mk _ _ (by rw [e1]; exact hk1)
        | some s2 =>
          simp only [Option.map]
          have e2 := c2_addAll _ _ _ h2
          ihh ih (.node fd.body) s2 (by rw [e2, e1]; exact hk1)
          cases oo <;> exact HS.mk _ _ hkk
  | guardFn fid args =>
    simp only [run]
    cases hfd : ρ[fid]? with
    | none => exact HS.mk _ _ hk
    | some fd =>
      simp only []
      cases hg : fd.guard with
      | none => simp only []; exact hs_allocVal s hk _ _ _
      | some gd =>
        simp only []
        refine withStack_hs s k hk (fun t k1 hk1 => ?_)
        simp only [nh_addAll]
        cases h2 : addAll t (fd.params.zip args) with
        | none => exact HS.mk _ _ hk1
        | some s2 =>
          simp only [Option.map]
          have e2 := c2_addAll _ _ _ h2
          ihh ih (.node gd) s2 (by rw [e2]; exact hk1)
          cases oo <;> exact HS.mk _ _ hkk
  | dispatch cands args =>
    cases cands with
    | nil => exact HS.mk _ _ hk
    | cons c rest =>
      simp only [run]
      cases hfd : ρ[c]? with
      | none => exact HS.mk _ _ hk
      | some fd =>
        simp only []
        have hv : St.val s.nh = St.val s := rfl
        rw [hv]
        split
        · exact ih (.dispatch rest args) s k hk
        · split
          · exact ih (.callFn c [] args) s k hk
          · ihh ih (.guardFn c args) s hk
            cases oo <;> try exact HS.mk _ _ hkk
            simp only [nh_val]
            split
            · exact ih (.callFn c [] args) _ _ hkk
            · exact ih (.dispatch rest args) _ _ hkk
  | catches cs exc =>
    cases cs with
    | nil => exact HS.mk _ _ hk
    | cons cl rest =>
      obtain ⟨param, body⟩ := cl
      simp only [run]
      generalize hgen1 : withScope _ s = rw
      generalize hgen2 : withScope _ s.nh = rw'
      have hw : HS k rw rw' := by
        rw [← hgen1, ← hgen2]
        refine withScope_hs s k hk (fun t k1 hk1 => ?_)
        cases param with
        | none =>
          simp only []
          ihh ih (.node body) t hk1
          cases oo <;> exact HS.mk _ _ hkk
        | some xt =>
          obtain ⟨x, ty⟩ := xt
          simp only [nh_val, nh_addObject]
          split
          · cases h1 : t.addObject x exc with
            | none => exact HS.mk _ _ hk1
            | some s1 =>
              simp only [Option.map]
              have e1 : c2 s1 = c2 t := c2_addObject _ _ _ _ h1
              ihh ih (.node body) s1 (by rw [e1]; exact hk1)
              cases oo <;> exact HS.mk _ _ hkk
          · exact HS.mk _ _ hk1
      clear hgen1 hgen2
      apply HS.cont hw
      intro o t k1 hk1
      try simp only []
      cases o <;> first | exact ih (.catches rest exc) _ _ hk1 | exact HS.mk _ _ hk1
  | node n =>
    cases n with
    | const l => exact HS.mk _ _ hk
    | noop => exact hs_allocVal s hk _ _ _
    | brk => exact HS.mk _ _ hk
    | cont => exact HS.mk _ _ hk
    | id nid x =>
      simp only [run]
      hcont (hs_getObject s nid x hk) (s.getObject nid x) (s.nh.getObject nid x)
      cases oo <;> first | exact HS.mk _ _ hkk | exact hs_allocVal tt hkk _ _ _
    | bin op a b =>
      simp only [run]
      refine bnd_hs (ih (.node a) s k hk) (fun la t k1 hk1 => ?_)
      refine bnd_hs (ih (.node b) t k1 hk1) (fun lb t2 k2 hk2 => ?_)
      simp only [nh_val]
      cases hva : t2.val la <;> cases hvb : t2.val lb
      all_goals first
        | (simp only []; split <;> first | exact hs_allocVal t2 hk2 _ _ _ | exact HS.mk _ _ hk2)
        | (refine withFnCall_hs t2 _ hk2 (fun t3 k3 hk3 => ?_)
           cases op <;> simp only [nh_saveParams, allocVal, nh_allocV] <;>
             exact HS.mk _ _ hk3)
    | foldR op a c =>
      simp only [run]
      refine bnd_hs (ih (.node a) s k hk) (fun la t k1 hk1 => ?_)
      simp only [nh_val]
      cases hva : t.val la <;> cases hvc : t.val c
      all_goals first
        | (simp only []; split <;> first | exact hs_allocVal t hk1 _ _ _ | exact HS.mk _ _ hk1)
        | (simp only []; fncall_tl t hk1)
    | pre op a =>
      simp only [run]
      refine bnd_hs (ih (.node a) s k hk) (fun la t k1 hk1 => ?_)
      simp only [nh_val, nh_cell]
      cases op <;> cases hva : t.val la <;> simp only []
      all_goals first
        | exact hs_allocVal t hk1 _ _ _
        | fncall_tl t hk1
        | (by_cases hc : (t.cell la).const = true
           · simp only [hc, if_true]; exact HS.mk _ _ hk1
           · simp only [hc, if_false, nh_setVal]; exact HS.mk _ _ hk1)
    | and a b =>
      simp only [run]
      refine bnd_hs (ih (.node a) s k hk) (fun la t k1 hk1 => ?_)
      simp only [boolOf, nh_val]
      cases hva : t.val la <;> simp only [] <;> try exact HS.mk _ _ hk1
      rename_i bv
      cases bv <;> simp only []
      · exact hs_allocVal t hk1 _ _ _
      · refine bnd_hs (ih (.node b) t k1 hk1) (fun lb t2 k2 hk2 => ?_)
        simp only [nh_val]
        cases t2.val lb <;> simp only [] <;> first | exact HS.mk _ _ hk2 | exact hs_allocVal t2 hk2 _ _ _
    | or a b =>
      simp only [run]
      refine bnd_hs (ih (.node a) s k hk) (fun la t k1 hk1 => ?_)
      simp only [boolOf, nh_val]
      cases hva : t.val la <;> simp only [] <;> try exact HS.mk _ _ hk1
      rename_i bv
      cases bv <;> simp only []
      · refine bnd_hs (ih (.node b) t k1 hk1) (fun lb t2 k2 hk2 => ?_)
        simp only [nh_val]
        cases t2.val lb <;> simp only [] <;> first | exact HS.mk _ _ hk2 | exact hs_allocVal t2 hk2 _ _ _
      · exact hs_allocVal t hk1 _ _ _
    | block xs => simp only [run]; exact withScope_hs s k hk (fun t k' hk' => ih (.seq xs) t k' hk')
    | scopeless xs => simp only [run]; exact ih (.seq xs) s k hk
    | ifN c t e =>
      simp only [run]
      refine bnd_hs (ih (.node c) s k hk) (fun lc t1 k1 hk1 => ?_)
      simp only [boolOf, nh_val]
      cases t1.val lc <;> simp only [] <;> try exact HS.mk _ _ hk1
      rename_i bv
      cases bv <;> simp only []
      · exact ih (.node e) t1 k1 hk1
      · exact ih (.node t) t1 k1 hk1
    | whileN c b =>
      simp only [run]
      refine withScope_hs s k hk (fun t k1 hk1 => ?_)
      ihh ih (.whileL c b) t hk1
      cases oo <;> first | exact HS.mk _ _ hkk | exact hs_allocVal _ hkk _ _ _
    | forN i c st b =>
      simp only [run]
      refine withScope_hs s k hk (fun t k1 hk1 => ?_)
      refine bnd_hs (ih (.node i) t k1 hk1) (fun l t1 k2 hk2 => ?_)
      ihh ih (.forL c st b) t1 hk2
      cases oo <;> first | exact HS.mk _ _ hkk | exact hs_allocVal _ hkk _ _ _
    | varDecl x =>
      simp only [run, nh_allocV, nh_addObject]
      cases h1 : (s.allocV .undef).2.addObject x (s.allocV .undef).1 with
      | none => exact HS.mk _ _ hk
      | some s2 =>
        simp only [Option.map]
        have e : c2 s2 = c2 (s.allocV .undef).2 := c2_addObject _ _ _ _ h1
        exact HS.mk _ _ (by rw [e]; exact hk)
    | refDecl x =>
      simp only [run, nh_allocV, nh_addObject]
      cases h1 : (s.allocV .undef).2.addObject x (s.allocV .undef).1 with
      | none => exact HS.mk _ _ hk
      | some s2 =>
        simp only [Option.map]
        have e : c2 s2 = c2 (s.allocV .undef).2 := c2_addObject _ _ _ _ h1
        exact HS.mk _ _ (by rw [e]; exact hk)
    | assignDecl x e =>
      simp only [run]
      refine withFnCall_hs s k hk (fun s0 k0 h0 => ?_)
      refine bnd_hs (ih (.node e) s0 k0 h0) (fun l t k1 hk1 => ?_)
      rw [tag_nh]
      refine bnd_hs (hs_clone _ (by rw [c2_tag]; exact hk1) l) (fun l2 t2 k2 hk2 => ?_)
      simp only [nh_setCell, nh_cell, nh_addObject]
      cases h1 : (t2.setCell l2 { t2.cell l2 with ret := false }).addObject x l2 with
      | none => exact HS.mk _ _ hk2
      | some s4 =>
        simp only [Option.map]
        have e : c2 s4 = c2 (t2.setCell l2 { t2.cell l2 with ret := false }) := c2_addObject _ _ _ _ h1
        exact HS.mk _ _ (by rw [e]; exact hk2)
    | cfor x lo hi b =>
      simp only [run]
      refine withScope_hs s k hk (fun t k1 hk1 => ?_)
      simp only [nh_allocV, nh_addObject]
      cases h1 : (t.allocV (.int lo)).2.addObject x (t.allocV (.int lo)).1 with
      | none => exact HS.mk _ _ hk1
      | some s2 =>
        simp only [Option.map]
        have e : c2 s2 = c2 (t.allocV (.int lo)).2 := c2_addObject _ _ _ _ h1
        ihh ih (.cforL (t.allocV (.int lo)).1 hi b) s2 (by rw [e]; exact hk1)
        cases oo <;> first | exact HS.mk _ _ hkk | exact hs_allocVal _ hkk _ _ _
    | ret e =>
      cases e with
      | none => simp only [run, allocVal, nh_allocV]; exact HS.mk _ _ hk
      | some e' =>
        simp only [run]
        ihh ih (.node e') s hk
        cases oo <;> exact HS.mk _ _ hkk
    | inlineVec xs =>
      simp only [run]
      ihh ih (.args xs []) s hk
      cases oo <;> try exact HS.mk _ _ hkk
      rename_i ls
      simp only []
      have key : ∀ (ls acc : List Loc) (u : St) (k' : Nat), k' ≤ c2 u →
          HS k' (run.cloneAll ls acc u) (run.cloneAll ls acc u.nh) := by
        intro ls
        induction ls with
        | nil => intro acc u k' hk'; exact HS.mk _ _ hk'
        | cons l rest ihc =>
          intro acc u k' hk'
          simp only [run.cloneAll]
          hcont (hs_clone u hk' l) (cloneIfNecessary u l) (cloneIfNecessary u.nh l)
          cases oo <;> exact ihc _ _ _ hkk
      hcont (key ls [] tt kk hkk) (run.cloneAll ls [] tt) (run.cloneAll ls [] tt.nh)
      exact hs_allocVal _ hkk _ _ _
    | index a i =>
      simp only [run]
      refine withFnCall_hs s k hk (fun t0 k0 h0 => ?_)
      refine bnd_hs (ih (.node a) t0 k0 h0) (fun la t k1 hk1 => ?_)
      refine bnd_hs (ih (.node i) t k1 hk1) (fun li t2 k2 hk2 => ?_)
      simp only [nh_saveParams, nh_val]
      have hl : k2 ≤ c2 (t2.saveParams [la, li]) := hk2
      cases (t2.saveParams [la, li]).val la <;> cases (t2.saveParams [la, li]).val li <;> simp only [] <;> try exact HS.mk _ _ hl
      split <;> exact HS.mk _ _ hl
    | evalStr nids n =>
      simp only [run, nh_dropHints]
      refine withFnCall_hs s k hk (fun t0 k0 h0 => ?_)
      simp only [nh_dropHints]
      ihh ih (.node n) (t0.dropHints nids) h0
      cases oo with
      | thrown e =>
        cases e <;> simp only [] <;> first
          | exact HS.mk _ _ hkk
          | (simp only [nh_allocV]; exact HS.mk _ _ hkk)
      | _ => exact HS.mk _ _ hkk
    | lambda fid caps =>
      simp only [run]
      have key : ∀ (caps : List (Nat × Name)) (acc : List (Name × Loc)) (u : St) (k' : Nat), k' ≤ c2 u →
          HS k' (run.evalCaps caps acc u) (run.evalCaps caps acc u.nh) := by
        intro caps
        induction caps with
        | nil => intro acc u k' hk'; exact HS.mk _ _ hk'
        | cons c cs ihc =>
          intro acc u k' hk'
          obtain ⟨nid, x⟩ := c
          simp only [run.evalCaps]
          hcont (hs_getObject u nid x hk') (u.getObject nid x) (u.nh.getObject nid x)
          cases oo <;> (try simp only []) <;> first | exact ihc _ _ _ hkk | exact HS.mk _ _ hkk
      hcont (key caps [] s k hk) (run.evalCaps caps [] s) (run.evalCaps caps [] s.nh)
      cases oo <;> (try simp only []) <;> first | exact hs_allocVal tt hkk _ _ _ | exact HS.mk _ _ hkk
    | def_ name fid =>
      simp only [run, nh_funs]
      by_cases hd : defClash ρ ((s.funs.lookup name).getD []) fid = true
      · simp only [hd, ↓reduceIte]; exact HS.mk _ _ hk
      · simp only [hd, ↓reduceIte]; exact HS.mk (k := k) _ (allocVal { s with funs := (name, insertOverload ρ ((s.funs.lookup name).getD []) fid) :: s.funs.filter (·.1 != name) } .void true).2 hk
    | call unused fe args =>
      simp only [run]
      refine withFnCall_hs s k hk (fun t0 k0 h0 => ?_)
      ihh ih (.args args []) t0 h0
      cases oo <;> try exact HS.mk _ _ hkk
      rename_i as_
      simp only []
      have hs2 : (if unused = true then tt.nh else tt.nh.saveParams as_) = (if unused = true then tt else tt.saveParams as_).nh := by
        cases unused <;> rfl
      rw [hs2]
      have hk2 : kk ≤ c2 (if unused = true then tt else tt.saveParams as_) := by
        cases unused <;> exact hkk
      refine bnd_hs (ih (.node fe) _ _ hk2) (fun lf t3 k3 h3 => ?_)
      have hvf : St.val t3.nh = St.val t3 := rfl
      simp only [nh_val, nh_funs, hvf]
      cases hv : t3.val lf <;> (try simp only [])
      all_goals first
        | exact HS.mk _ _ h3
        | (split <;> first | exact ih (.callFn _ _ _) _ _ h3 | exact HS.mk _ _ h3)
        | exact ih (.dispatch _ _) _ _ h3
        | skip
      · -- native callback
        by_cases hat : (t3.natCount == t3.fault.at_) = true
        · have hat' : (t3.nh.natCount == t3.nh.fault.at_) = true := hat
          rw [if_pos hat, if_pos hat']
          by_cases hb : t3.fault.boxed = true
          · have hb' : t3.nh.fault.boxed = true := hb
            rw [if_pos hb, if_pos hb']
            exact HS.mk _ _ h3
          · have hb' : ¬ t3.nh.fault.boxed = true := hb
            rw [if_neg hb, if_neg hb']
            by_cases hkd : (t3.fault.kind == ExcKind.evalError) = true
            · have hkd' : (t3.nh.fault.kind == ExcKind.evalError) = true := hkd
              rw [if_pos hkd, if_pos hkd']; exact HS.mk _ _ h3
            · have hkd' : ¬ (t3.nh.fault.kind == ExcKind.evalError) = true := hkd
              rw [if_neg hkd, if_neg hkd']; exact HS.mk _ _ h3
        · have hat' : ¬ (t3.nh.natCount == t3.nh.fault.at_) = true := hat
          rw [if_neg hat, if_neg hat']
          exact HS.mk _ _ h3
      · -- builtin
        rename_i bi
        cases bi <;> (try simp only []) <;> (split <;> first | exact HS.mk _ _ h3 | exact hs_allocVal _ h3 _ _ _)
    | tryN body cs fin =>
      have hbox : ∀ (e : Exc) (u : St), boxExc e u.nh = ((boxExc e u).1, (boxExc e u).2.nh) ∧ c2 (boxExc e u).2 = c2 u := by
        intro e u
        cases e <;> exact ⟨rfl, rfl⟩
      cases fin with
      | none =>
        simp only [run]
        refine withScope_hs s k hk (fun t0 k0 h0 => ?_)
        ihh ih (.node body) t0 h0
        cases oo with
        | thrown e =>
          simp only []
          split
          · obtain ⟨hb1, hb2⟩ := hbox e tt
            rw [hb1]
            generalize boxExc e tt = bx at hb2 ⊢
            obtain ⟨el, s2⟩ := bx
            simp only [] at hb2 ⊢
            ihh ih (.catches cs el) s2 (by rw [hb2]; exact hkk)
            cases oo <;> exact HS.mk _ _ hkk
          · exact HS.mk _ _ hkk
        | _ => exact HS.mk _ _ hkk
      | some fb =>
        simp only [run]
        refine withScope_hs s k hk (fun t0 k0 h0 => ?_)
        have hfin : ∀ (s1 : St) (o : Out) (k' : Nat), k' ≤ c2 s1 →
            HS k' (match run ρ f (.node fb) s1 with | (.val _, s2) => ((o, s2) : R) | r => r)
                 (match run ρ f (.node fb) s1.nh with | (.val _, s2) => ((o, s2) : R) | r => r) := by
          intro s1 o k' hk'
          ihh ih (.node fb) s1 hk'
          cases oo <;> exact HS.mk _ _ hkk
        ihh ih (.node body) t0 h0
        cases oo with
        | val l => exact ih (.node fb) _ _ hkk
        | thrown e =>
          simp only []
          split
          · obtain ⟨hb1, hb2⟩ := hbox e tt
            rw [hb1]
            generalize boxExc e tt = bx at hb2 ⊢
            obtain ⟨el, s2⟩ := bx
            simp only [] at hb2 ⊢
            ihh ih (.catches cs el) s2 (by rw [hb2]; exact hkk)
            cases oo <;> try simp only []
            all_goals first
              | exact HS.mk _ _ hkk
              | exact hfin _ _ _ hkk
              | exact ih (.node fb) _ _ hkk
          · exact hfin _ _ _ hkk
        | oof => exact HS.mk _ _ hkk
        | vals ls => exact hfin _ _ _ hkk
        | brk => exact hfin _ _ _ hkk
        | cont => exact hfin _ _ _ hkk
        | ret l => exact hfin _ _ _ hkk
        | noMatch => exact hfin _ _ _ hkk
    | eq op lhs rhs =>
      simp only [run]
      refine withFnCall_hs s k hk (fun t0 k0 h0 => ?_)
      refine bnd_hs (ih (.node rhs) t0 k0 h0) (fun r t k1 hk1 => ?_)
      refine bnd_hs (ih (.node lhs) t k1 hk1) (fun l t2 k2 hk2 => ?_)
      simp only [nh_cell, nh_val]
      by_cases h1 : (t2.cell l).ret = true
      · simp only [h1, if_true]; exact HS.mk _ _ hk2
      · simp only [h1, Bool.false_eq_true, if_false]
        by_cases h2 : (t2.cell l).const = true
        · simp only [h2, if_true]; exact HS.mk _ _ hk2
        · simp only [h2, Bool.false_eq_true, if_false]
          cases op <;> cases hlv : t2.val l <;> cases hrv : t2.val r <;> (try simp only [])
          all_goals first
            | exact HS.mk _ _ hk2
            | (simp only [nh_setCell, nh_setVal]; exact HS.mk _ _ hk2)
            | (by_cases hr : isRefDecl lhs = true
               · simp only [hr, if_true, nh_setCell]; exact HS.mk _ _ hk2
               · simp only [hr, Bool.false_eq_true, if_false]
                 rw [tag_nh]
                 have hk2' : k2 ≤ c2 (tagParamAlias t2 r) := by rw [c2_tag]; exact hk2
                 hcont (hs_clone (tagParamAlias t2 r) hk2' r) (cloneIfNecessary (tagParamAlias t2 r) r) (cloneIfNecessary (tagParamAlias t2 r).nh r)
                 cases oo <;> (try simp only [nh_setCell, nh_cell]) <;> exact HS.mk _ _ hkk)

/-- **the lookup cache is invisible unless a lookup is flagged, for every evaluation** -/
theorem run_nh (ρ : List FunDef) : ∀ (f : Nat) (j : Job) (s : St) (k : Nat), k ≤ c2 s →
    HS k (run ρ f j s) (run ρ f j s.nh) := by
  intro f
  induction f with
  | zero => intro j s k hk; exact HS.mk _ _ hk
  | succ f ih => exact run_nh_step ρ f ih

end ChaiVerif.Chai
