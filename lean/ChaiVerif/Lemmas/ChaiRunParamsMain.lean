import ChaiVerif.Lemmas.ChaiRunParams
namespace ChaiVerif.Chai

syntax "ihp " ident term:max term:max : tactic
set_option hygiene false in
macro_rules
  | `(tactic| ihp $ih $j $t) =>
    `(tactic| (have hh := $ih $j $t; generalize run _ _ $j $t = rr at hh ⊢; obtain ⟨oo, tt⟩ := rr; simp only [] at hh))


theorem evalCaps_pframe : ∀ (caps : List (Nat × Name)) (acc : List (Name × Loc)) (s : St), PFrame s (run.evalCaps caps acc s).2 := by
  intro caps
  induction caps with
  | nil => intro acc s; exact PFrame.refl s
  | cons c cs ih =>
    intro acc s
    obtain ⟨nid, x⟩ := c
    simp only [run.evalCaps]
    have hg : PFrame s (s.getObject nid x).2 := pframe_getObject s nid x
    generalize s.getObject nid x = r at hg ⊢
    obtain ⟨res, s1⟩ := r
    cases res <;> (try simp only []) <;> first | exact hg.trans (ih _ _) | exact hg

theorem cloneAll_pframe : ∀ (ls : List Loc) (acc : List Loc) (s : St), PFrame s (run.cloneAll ls acc s).2 := by
  intro ls
  induction ls with
  | nil => intro acc s; exact PFrame.refl s
  | cons l ls ih =>
    intro acc s
    simp only [run.cloneAll]
    have hc : PFrame s (cloneIfNecessary s l).2 := pframe_clone s l
    generalize cloneIfNecessary s l = r at hc ⊢
    obtain ⟨o, s1⟩ := r
    cases o <;> (try simp only []) <;> exact hc.trans (ih _ _)

/-- **An evaluation only ever extends the innermost scope of the current stack.** -/
theorem run_pframe (ρ : List FunDef) : ∀ (f : Nat) (j : Job) (s : St), PFrame s (run ρ f j s).2 := by
  intro f
  induction f with
  | zero => intro j s; exact PFrame.refl s
  | succ f ih =>
    intro j s
    have scp : ∀ (g : St → R) (u : St), (∀ t, PFrame t (g t).2) → PFrame u (withScope g u).2 :=
      fun g u hg => withScope_pframe g u hg
    have stk : ∀ (g : St → R) (u : St), (∀ t, PFrame t (g t).2) → PFrame u (withStack g u).2 :=
      fun g u hg => withStack_pframe g u hg
    cases j with
    | seq xs =>
      simp only [run]
      split
      · exact pframe_allocVal _ _ _ _
      · exact ih _ _
      · exact bnd_pframe _ _ _ (ih _ _) (fun l t => ih _ _)
    | args xs acc =>
      simp only [run]
      split
      · exact PFrame.refl s
      · exact bnd_pframe _ _ _ (ih _ _) (fun l t => ih _ _)
    | whileL c b =>
      simp only [run]
      refine bnd_pframe _ _ _ (scp _ _ (fun t => ih _ t)) (fun l t => ?_)
      split
      · exact PFrame.refl t
      · exact pframe_allocVal _ _ _ _
      · ihp ih (.node b) t
        cases oo <;> (try simp only []) <;> first | exact hh.trans (ih _ _) | exact hh
    | forL c st b =>
      simp only [run]
      refine bnd_pframe _ _ _ (scp _ _ (fun t => ih _ t)) (fun l t => ?_)
      split
      · exact PFrame.refl t
      · exact pframe_allocVal _ _ _ _
      · ihp ih (.node b) t
        have key : ∀ u : St, PFrame u (bnd (run ρ f (.node st) u) (fun _ s3 => run ρ f (.forL c st b) s3)).2 := fun u =>
          bnd_pframe _ _ _ (ih _ _) (fun l2 t2 => ih _ _)
        cases oo <;> (try simp only []) <;> first | exact hh.trans (key _) | exact hh
    | cforL il hi b =>
      simp only [run]
      split
      · split
        · ihp ih (.node b) s
          have key : ∀ u : St, PFrame u (match u.val il with
               | .int j => if (u.cell il).const then ((.thrown (.evalErr .assignConst), u) : R) else run ρ f (.cforL il hi b) (u.setVal il (.int (j + 1)))
               | _ => (.thrown (.evalErr .other), u)).2 := by
            intro u
            split
            · split
              · exact PFrame.refl u
              · exact (PFrame.of_eq (s := u) (t := u.setVal il _) rfl rfl).trans (ih _ _)
            · exact PFrame.refl u
          cases oo <;> (try simp only []) <;> first | exact hh.trans (key _) | exact hh
        · exact pframe_allocVal _ _ _ _
      · exact PFrame.refl s
    | callFn fid caps args =>
      simp only [run]
      split
      · exact PFrame.refl s
      · rename_i fd hfd
        refine stk _ _ (fun t => ?_)
        split
        · exact PFrame.refl t
        · rename_i s1 h1
          have e1 := (PFrame.of_addAll _ h1)
          split
          · exact e1
          · rename_i s2 h2
            have e2 := e1.trans ((PFrame.of_addAll _ h2))
            ihp ih (.node fd.body) s2
            cases oo <;> (try simp only []) <;> exact e2.trans hh
    | guardFn fid args =>
      simp only [run]
      split
      · exact PFrame.refl s
      · rename_i fd hfd
        split
        · exact pframe_allocVal _ _ _ _
        · rename_i g hg
          refine stk _ _ (fun t => ?_)
          split
          · exact PFrame.refl t
          · rename_i s2 h2
            have e2 := (PFrame.of_addAll _ h2)
            ihp ih (.node g) s2
            cases oo <;> (try simp only []) <;> exact e2.trans hh
    | dispatch cands args =>
      simp only [run]
      split
      · exact PFrame.refl s
      · rename_i g rest
        split
        · exact PFrame.refl s
        · rename_i fd hfd
          split
          · exact ih _ _
          · split
            · exact ih _ _
            · ihp ih (.guardFn g args) s
              cases oo <;> try exact hh
              simp only []
              split
              · exact hh.trans (ih _ _)
              · exact hh.trans (ih _ _)
    | catches cs exc =>
      simp only [run]
      split
      · exact PFrame.refl s
      · rename_i param body rest
        generalize hgen : withScope _ s = rw
        have hw : PFrame s rw.2 := by
          rw [← hgen]
          refine scp _ _ (fun t => ?_)
          split
          · ihp ih (.node body) t
            cases oo <;> (try simp only []) <;> exact hh
          · split
            · split
              · rename_i s1 h1
                have e1 := (PFrame.of_addObject h1)
                ihp ih (.node body) s1
                cases oo <;> (try simp only []) <;> exact e1.trans hh
              · exact PFrame.refl t
            · exact PFrame.refl t
        clear hgen
        obtain ⟨o, t⟩ := rw
        cases o <;> (try simp only []) <;> first | exact hw | exact hw.trans (ih (Job.catches _ _) _)
    | node nd =>
      cases nd with
      | const l => exact PFrame.refl s
      | noop => simp only [run]; exact pframe_allocVal _ _ _ _
      | id nid x =>
        simp only [run]
        have hg : PFrame s (s.getObject nid x).2 := pframe_getObject s nid x
        generalize s.getObject nid x = r at hg ⊢
        obtain ⟨res, s1⟩ := r
        cases res <;> (try simp only []) <;> first | exact hg | exact hg.trans (pframe_allocVal _ _ _ _)
      | varDecl x =>
        simp only [run]
        split
        · rename_i s2 h2; exact (pframe_alloc _ _ _ _).trans ((PFrame.of_addObject h2))
        · exact pframe_alloc _ _ _ _
      | refDecl x =>
        simp only [run]
        split
        · rename_i s2 h2; exact (pframe_alloc _ _ _ _).trans ((PFrame.of_addObject h2))
        · exact pframe_alloc _ _ _ _
      | assignDecl x e =>
        simp only [run]
        refine withFnCall_pframe _ _ (fun s0 _ => ?_)
        refine bnd_pframe _ _ _ (ih _ _) (fun l t => ?_)
        have htag : PFrame t (tagParamAlias t l) := by
          unfold tagParamAlias
          split
          · exact PFrame.of_eq rfl rfl
          · exact PFrame.refl t
        have hc : PFrame (tagParamAlias t l) (cloneIfNecessary (tagParamAlias t l) l).2 := pframe_clone _ _
        generalize cloneIfNecessary (tagParamAlias t l) l = rc at hc ⊢
        obtain ⟨oc, t2⟩ := rc
        cases oc <;> simp only [bnd] <;> try exact htag.trans hc
        rename_i l2
        have hset : PFrame t (t2.setCell l2 { t2.cell l2 with ret := false }) := (htag.trans hc).trans (PFrame.of_eq rfl rfl)
        split
        · rename_i s4 h4; exact hset.trans ((PFrame.of_addObject h4))
        · exact hset
      | eq op lhs rhs =>
        simp only [run]
        refine withFnCall_pframe _ _ (fun t0 _ => ?_)
        refine bnd_pframe _ _ _ (ih _ _) (fun r t => ?_)
        refine bnd_pframe _ _ _ (ih _ _) (fun l t2 => ?_)
        have htag : PFrame t2 (tagParamAlias t2 r) := by
          unfold tagParamAlias
          split
          · exact PFrame.of_eq rfl rfl
          · exact PFrame.refl t2
        have hclone : PFrame t2 (cloneIfNecessary (tagParamAlias t2 r) r).2 := htag.trans (pframe_clone _ _)
        have hsv : ∀ v, PFrame t2 (t2.setVal l v) := fun v => PFrame.of_eq rfl rfl
        have hsc : ∀ c, PFrame t2 (t2.setCell l c) := fun c => PFrame.of_eq rfl rfl
        split
        · exact PFrame.refl t2
        · split
          · exact PFrame.refl t2
          · cases op with
            | refAssign =>
              simp only []
              repeat' split
              all_goals first | exact hsc _ | exact PFrame.refl t2
            | assign =>
              simp only []
              split
              · exact hsv _
              · split
                · exact hsc _
                · generalize cloneIfNecessary (tagParamAlias t2 r) r = rc at hclone ⊢
                  obtain ⟨oc, t3⟩ := rc
                  cases oc <;> (try simp only []) <;> first | exact hclone | exact hclone.trans (PFrame.of_eq rfl rfl)
              · exact hsv _
              · exact hsv _
              · exact hsv _
              · exact PFrame.refl t2
            | addAsg =>
              simp only []
              split
              · exact hsv _
              · exact PFrame.refl t2
            | subAsg =>
              simp only []
              split
              · exact hsv _
              · exact PFrame.refl t2
            | mulAsg =>
              simp only []
              split
              · exact hsv _
              · exact PFrame.refl t2
      | bin op a b =>
        simp only [run]
        refine bnd_pframe _ _ _ (ih _ _) (fun la t => ?_)
        refine bnd_pframe _ _ _ (ih _ _) (fun lb t2 => ?_)
        split
        · split
          · exact pframe_allocVal _ _ _ _
          · exact PFrame.refl t2
        · refine withFnCall_pframe _ _ (fun t3 hd3 => ?_)
          have hsp : PFrame t3 (t3.saveParams [la, lb]) := PFrame.save _ hd3
          repeat' split
          all_goals first | exact hsp.trans (pframe_allocVal _ _ _ _) | exact hsp
      | evalStr nids nd =>
        simp only [run]
        refine withFnCall_pframe _ _ (fun t0 _ => ?_)
        have h0 : PFrame t0 (t0.dropHints nids) := PFrame.of_eq rfl rfl
        ihp ih (.node nd) (t0.dropHints nids)
        cases oo <;> try exact h0.trans hh
        rename_i e
        cases e <;> first | exact h0.trans hh | exact (h0.trans hh).trans (pframe_alloc _ _ _ _)
      | foldR op a c =>
        simp only [run]
        refine bnd_pframe _ _ _ (ih _ _) (fun la t => ?_)
        split
        · split
          · exact pframe_allocVal _ _ _ _
          · exact PFrame.refl t
        · exact withFnCall_pframe _ _ (fun t3 hd3 => PFrame.save _ hd3)
      | pre op a =>
        simp only [run]
        refine bnd_pframe _ _ _ (ih _ _) (fun la t => ?_)
        try simp only []
        split
        · exact pframe_allocVal _ _ _ _
        · split
          · exact PFrame.refl t
          · exact PFrame.of_eq rfl rfl
        · split
          · exact PFrame.refl t
          · exact PFrame.of_eq rfl rfl
        · exact withFnCall_pframe _ _ (fun t3 hd3 => (PFrame.save [la] hd3).trans (pframe_allocVal _ _ _ _))
        · exact withFnCall_pframe _ _ (fun t3 hd3 => PFrame.save _ hd3)
      | and a b =>
        simp only [run]
        refine bnd_pframe _ _ _ (ih _ _) (fun la t => ?_)
        split
        · exact PFrame.refl t
        · exact pframe_allocVal _ _ _ _
        · refine bnd_pframe _ _ _ (ih _ _) (fun lb t2 => ?_)
          split
          · exact PFrame.refl t2
          · exact pframe_allocVal _ _ _ _
      | or a b =>
        simp only [run]
        refine bnd_pframe _ _ _ (ih _ _) (fun la t => ?_)
        split
        · exact PFrame.refl t
        · exact pframe_allocVal _ _ _ _
        · refine bnd_pframe _ _ _ (ih _ _) (fun lb t2 => ?_)
          split
          · exact PFrame.refl t2
          · exact pframe_allocVal _ _ _ _
      | block xs => simp only [run]; exact scp _ _ (fun t => ih _ t)
      | scopeless xs => simp only [run]; exact ih _ _
      | ifN c t e =>
        simp only [run]
        refine bnd_pframe _ _ _ (ih _ _) (fun lc t1 => ?_)
        split
        · exact PFrame.refl t1
        · exact ih _ _
        · exact ih _ _
      | whileN c b =>
        simp only [run]
        refine scp _ _ (fun t => ?_)
        ihp ih (.whileL c b) t
        cases oo <;> (try simp only []) <;> first | exact hh | exact hh.trans (pframe_allocVal _ _ _ _)
      | forN i c st b =>
        simp only [run]
        refine scp _ _ (fun t => ?_)
        refine bnd_pframe _ _ _ (ih _ _) (fun l t1 => ?_)
        ihp ih (.forL c st b) t1
        cases oo <;> (try simp only []) <;> first | exact hh | exact hh.trans (pframe_allocVal _ _ _ _)
      | cfor x lo hi b =>
        simp only [run]
        refine scp _ _ (fun t => ?_)
        try simp only []
        split
        · exact pframe_alloc _ _ _ _
        · rename_i s2 h2
          have e2 := (pframe_alloc t (.int lo) false false).trans ((PFrame.of_addObject h2))
          ihp ih (.cforL (t.allocV (.int lo)).1 hi b) s2
          cases oo <;> (try simp only []) <;> first | exact e2.trans hh | exact (e2.trans hh).trans (pframe_allocVal _ _ _ _)
      | brk => exact PFrame.refl s
      | cont => exact PFrame.refl s
      | ret e =>
        simp only [run]
        split
        · exact pframe_allocVal _ _ _ _
        · rename_i e'
          ihp ih (.node e') s
          cases oo <;> (try simp only []) <;> exact hh
      | lambda fid caps =>
        simp only [run]
        have hc := evalCaps_pframe caps [] s
        generalize run.evalCaps caps [] s = r at hc ⊢
        obtain ⟨o, s1⟩ := r
        cases o <;> (try simp only []) <;> first | exact hc.trans (pframe_allocVal _ _ _ _) | exact hc
      | def_ name fid =>
        simp only [run]
        repeat' split
        all_goals first | exact PFrame.refl s | exact (PFrame.of_eq rfl rfl)
      | call unused fe args =>
        simp only [run]
        refine withFnCall_pframe _ _ (fun t0 hd0 => ?_)
        ihp ih (.args args []) t0
        cases oo <;> try exact hh
        rename_i as_
        try simp only []
        have hs2 : PFrame t0 (if unused = true then tt else tt.saveParams as_) := by
          split
          · exact hh
          · exact hh.trans (PFrame.save _ (by rw [hh.1]; exact hd0))
        refine hs2.trans (bnd_pframe _ _ _ (ih _ _) (fun lf t3 => ?_))
        have hout : ∀ v, PFrame t3 ({ t3 with out := t3.out ++ [v] } : St) := fun v => PFrame.of_eq rfl rfl
        have hnat : ∀ k vs, PFrame t3 ({ t3 with natLog := t3.natLog ++ [(k, vs)], natCount := t3.natCount + 1 } : St) := fun k vs => PFrame.of_eq rfl rfl
        repeat' split
        all_goals first
          | exact PFrame.refl t3
          | exact ih _ _
          | exact pframe_allocVal _ _ _ _
          | exact (hout _).trans (pframe_allocVal _ _ _ _)
          | exact (hnat _ _).trans (pframe_allocVal _ _ _ _)
          | exact (hnat _ _).trans (pframe_alloc _ _ _ _)
          | exact hnat _ _
      | tryN body cs fin =>
        simp only [run]
        refine scp _ _ (fun t0 => ?_)
        have hfin : ∀ (s1 : St) (k : St → R), (∀ u, PFrame u (k u).2) →
            PFrame s1 (match fin with
             | none => k s1
             | some fb => (match run ρ f (.node fb) s1 with | (.val _, s2) => k s2 | r => r)).2 := by
          intro s1 k hk
          split
          · exact hk _
          · rename_i fb
            ihp ih (.node fb) s1
            cases oo <;> (try simp only []) <;> first | exact hh.trans (hk _) | exact hh
        ihp ih (.node body) t0
        cases oo with
        | val l =>
          simp only []
          split
          · exact hh
          · exact hh.trans (ih _ _)
        | thrown e =>
          simp only []
          split
          · have hbox : PFrame tt (boxExc e tt).2 := by
              cases e <;> first | exact PFrame.refl tt | exact pframe_alloc _ _ _ _
            generalize boxExc e tt = bx at hbox ⊢
            obtain ⟨el, s2⟩ := bx
            simp only [] at hbox ⊢
            have hc := ih (.catches cs el) s2
            generalize run ρ f (.catches cs el) s2 = rc at hc ⊢
            obtain ⟨oc, s3⟩ := rc
            simp only [] at hc
            have h3 : PFrame t0 s3 := (hh.trans hbox).trans hc
            cases oc <;> try simp only []
            all_goals first
              | exact h3
              | exact h3.trans (hfin s3 (fun s4 => (_, s4)) (fun _ => PFrame.refl _))
              | (split
                 · exact h3
                 · exact h3.trans (ih (Job.node _) _))
          · exact hh.trans (hfin tt (fun s2 => (Out.thrown e, s2)) (fun _ => PFrame.refl _))
        | oof => exact hh
        | vals ls => exact hh.trans (hfin tt (fun s2 => (Out.vals ls, s2)) (fun _ => PFrame.refl _))
        | brk => exact hh.trans (hfin tt (fun s2 => (Out.brk, s2)) (fun _ => PFrame.refl _))
        | cont => exact hh.trans (hfin tt (fun s2 => (Out.cont, s2)) (fun _ => PFrame.refl _))
        | ret l => exact hh.trans (hfin tt (fun s2 => (Out.ret l, s2)) (fun _ => PFrame.refl _))
        | noMatch => exact hh.trans (hfin tt (fun s2 => (Out.noMatch, s2)) (fun _ => PFrame.refl _))
      | inlineVec xs =>
        simp only [run]
        ihp ih (.args xs []) s
        cases oo <;> (try simp only []) <;> try exact hh
        rename_i ls
        have hc := cloneAll_pframe ls [] tt
        generalize run.cloneAll ls [] tt = r at hc ⊢
        obtain ⟨ls2, s2⟩ := r
        exact (hh.trans hc).trans (pframe_allocVal _ _ _ _)
      | index a i =>
        simp only [run]
        refine withFnCall_pframe _ _ (fun t0 hd0 => ?_)
        refine bnd_pframe_d _ _ _ (ih _ _) (fun la t hdt => ?_)
        refine bnd_pframe_d _ _ _ (ih _ _) (fun li t2 hdt2 => ?_)
        have hsp : PFrame t2 (t2.saveParams [la, li]) := PFrame.save _ (by rw [hdt2, hdt]; exact hd0)
        try simp only []
        repeat' split
        all_goals exact hsp

end ChaiVerif.Chai
