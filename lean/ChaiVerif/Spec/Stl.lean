/-
Spec.Stl — the std:: container operations with their preconditions (`none` = the precondition is
violated: the property demands an exception, never undefined behaviour).
-/
import ChaiVerif.Model.Stl
namespace ChaiVerif

/-- std::vector<T> operation on a list; `none` when the C++ precondition does not hold. -/
def stdVec (xs : List Int) : VOp → Option (List Int × StlOut)
  | .index i => if 0 ≤ i ∧ i < xs.length then some (xs, .val (xs.getD i.toNat 0)) else none
  | .front => xs.head?.map (fun x => (xs, .val x))
  | .back => xs.getLast?.map (fun x => (xs, .val x))
  | .pushBack v => some (xs ++ [v], .unit)
  | .popBack => if xs.isEmpty then none else some (xs.dropLast, .unit)
  | .insertAt pos v => if 0 ≤ pos ∧ pos ≤ xs.length then some (xs.insertIdx pos.toNat v, .unit) else none
  | .eraseAt pos => if 0 ≤ pos ∧ pos < xs.length then some (xs.eraseIdx pos.toNat, .unit) else none
  | .resize n v => if n < 0 then none else some (xs.take n.toNat ++ List.replicate (n.toNat - xs.length) v, .unit)
  | .clear => some ([], .unit)
  | .size => some (xs, .size xs.length)
  | .empty => some (xs, .bool xs.isEmpty)

/-- Members of std:: containers / Bidir_Range whose behaviour is undefined when a precondition fails. -/
def StlMember.hasPrecondition : StlMember → Bool
  | .front | .back | .pop_back | .pop_front | .index => true
  | _ => false

/-- A census row is safe when a precondition-carrying member is guarded, or is a member of
    Bidir_Range (whose own checks are censused separately). -/
def StlRow.safe (r : StlRow) : Bool :=
  !r.member.hasPrecondition || r.guard != .none || r.owner == .range

end ChaiVerif
