/-
Spec.Cpp — our reading of C++17 [conv.prom], [expr.arith.conv], [expr.mul], [expr.shift] …
for the fixed-width integer classes that `Boxed_Number::get_common_type` maps every
script-visible arithmetic type to (LP64 / x86-64).  No dependence on generated tables.
-/
namespace ChaiVerif

/-- An integral class: width in bits and signedness (the eight integral `Common_Types`). -/
structure IT where
  bits : Nat
  sgn  : Bool
deriving DecidableEq, Repr, Inhabited

namespace IT
def i8  : IT := ⟨8, true⟩
def u8  : IT := ⟨8, false⟩
def i16 : IT := ⟨16, true⟩
def u16 : IT := ⟨16, false⟩
def i32 : IT := ⟨32, true⟩
def u32 : IT := ⟨32, false⟩
def i64 : IT := ⟨64, true⟩
def u64 : IT := ⟨64, false⟩
def all : List IT := [i8, u8, i16, u16, i32, u32, i64, u64]

def min (t : IT) : Int := if t.sgn then -(2 ^ (t.bits - 1) : Int) else 0
def max (t : IT) : Int := if t.sgn then (2 ^ (t.bits - 1) : Int) - 1 else (2 ^ t.bits : Int) - 1
def InRange (t : IT) (v : Int) : Prop := t.min ≤ v ∧ v ≤ t.max
instance (t : IT) (v : Int) : Decidable (t.InRange v) := by unfold InRange; infer_instance

/-- Conversion to an integer type: the unique value congruent mod 2^bits that the type holds
    ([conv.integral]; modular for signed targets as every supported compiler does and C++20 requires). -/
def wrap (t : IT) (v : Int) : Int :=
  let m : Int := 2 ^ t.bits
  let r := v % m                       -- Int.emod, in [0, m)
  if t.sgn && r ≥ 2 ^ (t.bits - 1) then r - m else r

/-- The object representation (two's complement) as a natural number below 2^bits. -/
def toBits (t : IT) (v : Int) : Nat := (v % (2 ^ t.bits : Int)).toNat
end IT

/-- [conv.prom]: everything narrower than int becomes int. -/
def promote (t : IT) : IT := if t.bits < 32 then IT.i32 else t

/-- [expr.arith.conv] on promoted operands, LP64 (a wider signed type holds every value of a
    narrower unsigned one; equal width ⇒ unsigned wins). -/
def commonType (a b : IT) : IT :=
  let a := promote a
  let b := promote b
  if a = b then a
  else if a.sgn = b.sgn then (if a.bits ≥ b.bits then a else b)
  else
    let u := if a.sgn then b else a
    let s := if a.sgn then a else b
    if u.bits ≥ s.bits then u else s

/-- The C++ binary operators `Boxed_Number::go` can apply. -/
inductive CppOp
  | eq | lt | gt | le | ge | ne
  | add | sub | mul | div | mod
  | shl | shr | band | bor | bxor
deriving DecidableEq, Repr, Inhabited

def CppOp.isCmp : CppOp → Bool
  | .eq | .lt | .gt | .le | .ge | .ne => true
  | _ => false
def CppOp.isShift : CppOp → Bool
  | .shl | .shr => true
  | _ => false
def CppOp.isDivLike : CppOp → Bool
  | .div | .mod => true
  | _ => false

/-- Outcome of evaluating a C++ expression on integer operands. -/
inductive CRes
  | val (t : IT) (v : Int)     -- a prvalue of type t
  | bool (b : Bool)
  | trap                       -- the CPU traps (SIGFPE): x/0, x%0, MIN/-1, MIN%-1
  | ub                         -- undefined but non-trapping: excluded by the property
deriving DecidableEq, Repr, Inhabited

/-- `l op r` with `l : lt`, `r : rt` as C++ evaluates it. -/
def cppBin (op : CppOp) (lt rt : IT) (l r : Int) : CRes :=
  if op.isShift then
    let c := promote lt
    if r < 0 ∨ r ≥ c.bits then .ub                    -- [expr.shift]: count vs the promoted *lhs* width
    else match op with
      | .shl =>
          -- C++20 semantics (what gcc implements): a * 2^r reduced modulo 2^N
          .val c (c.wrap (l * 2 ^ r.toNat))
      | _ => .val c (l / (2 ^ r.toNat : Int))           -- arithmetic shift = floor division
  else
    let c := commonType lt rt
    let a := c.wrap l
    let b := c.wrap r
    match op with
    | .eq => .bool (a == b)
    | .ne => .bool (a != b)
    | .lt => .bool (decide (a < b))
    | .gt => .bool (decide (a > b))
    | .le => .bool (decide (a ≤ b))
    | .ge => .bool (decide (a ≥ b))
    | .add => if c.sgn then (if c.InRange (a + b) then .val c (a + b) else .ub) else .val c (c.wrap (a + b))
    | .sub => if c.sgn then (if c.InRange (a - b) then .val c (a - b) else .ub) else .val c (c.wrap (a - b))
    | .mul => if c.sgn then (if c.InRange (a * b) then .val c (a * b) else .ub) else .val c (c.wrap (a * b))
    | .div => if b = 0 then .trap else if c.sgn ∧ a = c.min ∧ b = -1 then .trap else .val c (Int.tdiv a b)
    | .mod => if b = 0 then .trap else if c.sgn ∧ a = c.min ∧ b = -1 then .trap else .val c (Int.tmod a b)
    | .band => .val c (c.wrap (Nat.land (c.toBits a) (c.toBits b)))
    | .bor  => .val c (c.wrap (Nat.lor (c.toBits a) (c.toBits b)))
    | .bxor => .val c (c.wrap (Nat.xor (c.toBits a) (c.toBits b)))
    | _ => .ub

/-- Compound assignment `E1 op= E2`: `E1 = static_cast<T1>(E1 op E2)`; the new stored value. -/
def cppCompound (op : CppOp) (lt rt : IT) (l r : Int) : CRes :=
  match cppBin op lt rt l r with
  | .val _ v => .val lt (lt.wrap v)
  | .bool b => .val lt (if b then 1 else 0)
  | x => x

/-- Unary C++ operators on an integer operand. -/
inductive CppUn | neg | pos | compl | preinc | predec
deriving DecidableEq, Repr, Inhabited

def cppUn (op : CppUn) (t : IT) (v : Int) : CRes :=
  let c := promote t
  match op with
  | .pos => .val c v
  | .neg => if c.sgn then (if c.InRange (-v) then .val c (-v) else .ub) else .val c (c.wrap (-v))
  | .compl => .val c (c.wrap (-v - 1))
  -- ++x / --x on an lvalue of type t: x = static_cast<T>(x ± 1); signed overflow at ≥ int width is UB
  | .preinc => if t.bits ≥ 32 ∧ t.sgn ∧ v = t.max then .ub else .val t (t.wrap (v + 1))
  | .predec => if t.bits ≥ 32 ∧ t.sgn ∧ v = t.min then .ub else .val t (t.wrap (v - 1))

end ChaiVerif
