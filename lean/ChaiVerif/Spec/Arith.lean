/-
Spec.Arith — what property C05 demands of one arithmetic cell, written directly over the opcode
(no table): the C++ operator the opcode's name denotes, applied to (lhs, rhs) in that order at
their static types; integer-only operators reject floating operands; assignment forms need a
modifiable lhs and store the converted result in place; an *integer* division or remainder that
would trap raises `arithmetic_error`; a floating division never does.
-/
import ChaiVerif.Model.Arith
namespace ChaiVerif

inductive OpClass
  | value (c : CppOp) (intOnly : Bool)
  | compound (c : CppOp) (intOnly : Bool)
  | assign
  | notBinary

def Oper.cls : Oper → OpClass
  | .equals => .value .eq false | .less_than => .value .lt false | .greater_than => .value .gt false
  | .less_than_equal => .value .le false | .greater_than_equal => .value .ge false | .not_equal => .value .ne false
  | .sum => .value .add false | .difference => .value .sub false | .product => .value .mul false
  | .quotient => .value .div false
  | .remainder => .value .mod true | .shift_left => .value .shl true | .shift_right => .value .shr true
  | .bitwise_and => .value .band true | .bitwise_or => .value .bor true | .bitwise_xor => .value .bxor true
  | .assign => .assign
  | .assign_sum => .compound .add false | .assign_difference => .compound .sub false
  | .assign_product => .compound .mul false | .assign_quotient => .compound .div false
  | .assign_remainder => .compound .mod true | .assign_shift_left => .compound .shl true
  | .assign_shift_right => .compound .shr true | .assign_bitwise_and => .compound .band true
  | .assign_bitwise_or => .compound .bor true | .assign_bitwise_xor => .compound .bxor true
  | _ => .notBinary

/-- An integer division/remainder on these operands would trap the CPU. -/
def wouldTrap (c : CppOp) (l r : Num) : Bool :=
  c.isDivLike && (match l, r with
    | .i _ _, .i _ b => b == 0 || ovfFires l r
    | _, _ => false)

/-- Which spellings have a one-operand / two-operand arithmetic meaning. -/
def OpText.unaryOk : OpText → Bool
  | .inc | .dec | .plus | .minus | .compl => true
  | _ => false
def OpText.binaryOk : OpText → Bool
  | .inc | .dec | .compl | .none_ => false
  | _ => true

def specGo (op : Oper) (l r : Num) (lv : Bool) : MRes :=
  match op.cls with
  | .notBinary => .badCast
  | .assign => if lv then storeBack l (.val r) else .badCast
  | .value c io =>
      if io && (l.isFloat || r.isFloat) then .badCast
      else if wouldTrap c l r then .arithErr
      else applyBin c l r
  | .compound c io =>
      if io && (l.isFloat || r.isFloat) then .badCast
      else if !lv then .badCast
      else if wouldTrap c l r then .arithErr
      else storeBack l (applyBin c l r)

def specUn (op : Oper) (n : Num) (lv : Bool) : MRes :=
  match op with
  | .pre_increment => if lv then applyUn .preinc n else .badCast
  | .pre_decrement => if lv then applyUn .predec n else .badCast
  | .unary_minus => applyUn .neg n
  | .unary_plus => applyUn .pos n
  | .bitwise_complement => if n.isFloat then .badCast else applyUn .compl n
  | _ => .badCast

/-- The opcode an operator spelling denotes. -/
def specToOperator (t : OpText) (unary : Bool) : Oper :=
  match t with
  | .eqeq => .equals | .lt => .less_than | .gt => .greater_than | .le => .less_than_equal
  | .ge => .greater_than_equal | .ne => .not_equal | .asg => .assign | .inc => .pre_increment
  | .dec => .pre_decrement | .mulasg => .assign_product | .addasg => .assign_sum
  | .divasg => .assign_quotient | .subasg => .assign_difference | .andasg => .assign_bitwise_and
  | .orasg => .assign_bitwise_or | .shlasg => .assign_shift_left | .shrasg => .assign_shift_right
  | .modasg => .assign_remainder | .xorasg => .assign_bitwise_xor | .shl => .shift_left
  | .shr => .shift_right | .mod => .remainder | .band => .bitwise_and | .bor => .bitwise_or
  | .bxor => .bitwise_xor | .compl => .bitwise_complement
  | .plus => if unary then .unary_plus else .sum
  | .minus => if unary then .unary_minus else .difference
  | .div => .quotient | .mul => .product
  | .none_ => .invalid

/-- What calling the operator *as a function* must do: exactly what the operator node does. -/
def specFunction (t : OpText) (args : List Num) (lv : Bool) : MRes :=
  match args with
  | [a] => specUn (specToOperator t true) a lv
  | [a, b] => specGo (specToOperator t false) a b lv
  | _ => .badCast

/-- LP64 / x86-64 / Itanium ABI facts (cross-checked against the host compiler by the harness). -/
def SrcType.abi : SrcType → CT
  | .int => .i32 | .double => .f64 | .longdouble => .f80 | .float => .f32
  | .char => .i8 | .uchar => .u8 | .uint => .u32 | .long => .i64 | .llong => .i64
  | .ulong => .u64 | .ullong => .u64
  | .int8 => .i8 | .int16 => .i16 | .int32 => .i32 | .int64 => .i64
  | .uint8 => .u8 | .uint16 => .u16 | .uint32 => .u32 | .uint64 => .u64
  | .wchar => .i32 | .char16 => .u16 | .char32 => .u32

/-- sizeof and signedness per the ABI, for the `get_common_type(sizeof(T), is_signed<T>)` rows. -/
def SrcType.sizeSigned : SrcType → Nat × Bool
  | .int => (4, true) | .char => (1, true) | .uchar => (1, false) | .uint => (4, false)
  | .long => (8, true) | .llong => (8, true) | .ulong => (8, false) | .ullong => (8, false)
  | .wchar => (4, true) | .char16 => (2, false) | .char32 => (4, false)
  | .int8 => (1, true) | .int16 => (2, true) | .int32 => (4, true) | .int64 => (8, true)
  | .uint8 => (1, false) | .uint16 => (2, false) | .uint32 => (4, false) | .uint64 => (8, false)
  | .double => (8, true) | .float => (4, true) | .longdouble => (16, true)

/-- Integer conversion rank of the *source* types ([conv.rank]); used to state `result_class`
    on the types the script author wrote rather than on the classes the code maps them to. -/
def SrcType.rank : SrcType → Nat
  | .char | .uchar | .int8 | .uint8 => 1
  | .int16 | .uint16 | .char16 => 2
  | .int | .uint | .int32 | .uint32 | .wchar | .char32 => 3
  | .long | .ulong | .int64 | .uint64 => 4
  | .llong | .ullong => 5
  | _ => 0

end ChaiVerif
