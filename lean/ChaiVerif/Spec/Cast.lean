/-
Spec.Cast — the catalogue of parameter forms and script values used for property C06, and the
specification of when a value may be handed to a parameter: its actual type, or a registered
base-class conversion of it, respecting constness and ownership; Boxed_Value / Boxed_Number are
catch-alls.  Arithmetic conversions are *not* casts: only `dispatch_with_conversions` applies them.
-/
import ChaiVerif.Model.Dispatch
namespace ChaiVerif

inductive Ty | int | double | bool | string | base | derived | other | long | float | undef | second | both
deriving DecidableEq, Repr, Inhabited

inductive PForm | val | cref | ref | ptr | cptr | sp | spc
deriving DecidableEq, Repr, Inhabited

inductive CP
  | typed (t : Ty) (f : PForm)
  | boxedValue
  | boxedNumber
deriving DecidableEq, Repr, Inhabited

structure CA where
  ty    : Ty
  const : Bool
  owned : Bool        -- stored in a shared_ptr owned by the Boxed_Value (not a reference_wrapper / raw pointer)
  num   : Int         -- payload (numeric value ×4 for arithmetic kinds, object tag otherwise)
deriving DecidableEq, Repr, Inhabited

def Ty.arith : Ty → Bool
  | .int | .double | .long | .float => true
  | _ => false

/-- registered conversions: base_class<Base, Derived>(), base_class<Second, Both>() (Second is Both's SECOND base: the pointer must be adjusted) -/
def convertsTo (frm to : Ty) : Bool := (frm == .derived && to == .base) || (frm == .both && to == .second)

/-- **Specification of a cast** (`boxed_cast<Param>(value)` succeeds exactly when …). -/
def castOkSpec : CP → CA → Bool
  | .boxedValue, _ => true
  | .boxedNumber, a => a.ty.arith
  | .typed t f, a =>
    (a.ty == t || convertsTo a.ty t) && a.ty != .undef &&
    (match f with
     | .val | .cref | .cptr => true
     | .ref | .ptr => !a.const
     | .sp => !a.const && a.owned
     | .spc => a.owned)

def cpBareEq : CP → CA → Bool
  | .typed t _, a => t == a.ty && a.ty != .undef
  | _, _ => false

/-- `compare_type_to_param` (polymorphic base-class conversions are bidirectional there) -/
def cpCompat : CP → CA → Bool
  | .boxedValue, _ => true
  | .boxedNumber, a => a.ty.arith
  | .typed t _, a => a.ty != .undef && (t == a.ty || convertsTo a.ty t || convertsTo t a.ty)

/-- `Type_Info::is_arithmetic` of the parameter type (references count, pointers do not) -/
def cpArith : CP → Bool
  | .typed t f => t.arith && (f == .val || f == .cref || f == .ref)
  | _ => false

def cpConst : CP → Bool
  | .typed _ f => f == .cref || f == .cptr || f == .spc
  | _ => false

/-- the value a C++ static_cast produces (payload is value×4: truncate toward zero for integral targets) -/
def convertNum (t : Ty) (a : CA) : Int :=
  match t with
  | .int | .long => (Int.tdiv a.num 4) * 4
  | _ => a.num

def catalogueCfg : DCfg CP CA :=
  { bareEq := cpBareEq, compat := cpCompat, castOk := castOkSpec, arithP := cpArith, arithA := fun a => a.ty.arith,
    sameType := fun p a => match p with | .typed t _ => t == a.ty | _ => false,   -- typeid ignores cv and references
    convert := fun p a => match p with
      | .typed t _ => { ty := t, const := false, owned := true, num := convertNum t a }
      | _ => a,
    constA := fun a => a.const, constP := cpConst }

/-- parameter ids of harness/dispatch.cpp -/
def paramOfId : Nat → Option CP
  | 0 => some (.typed .int .val) | 1 => some (.typed .int .cref) | 2 => some (.typed .int .ref) | 3 => some (.typed .int .ptr)
  | 4 => some (.typed .int .cptr) | 5 => some (.typed .double .val) | 6 => some (.typed .double .cref) | 7 => some (.typed .double .ref)
  | 8 => some (.typed .bool .val) | 9 => some (.typed .string .val) | 10 => some (.typed .string .cref) | 11 => some (.typed .string .ref)
  | 12 => some (.typed .base .val) | 13 => some (.typed .base .cref) | 14 => some (.typed .base .ref) | 15 => some (.typed .base .ptr)
  | 16 => some (.typed .base .cptr) | 17 => some (.typed .base .sp) | 18 => some (.typed .base .spc) | 19 => some (.typed .derived .cref)
  | 20 => some (.typed .derived .ref) | 21 => some (.typed .other .cref) | 22 => some .boxedValue | 23 => some .boxedNumber
  | 24 => some (.typed .long .val) | 25 => some (.typed .float .val)
  | 26 => some (.typed .second .cref) | 27 => some (.typed .second .ref) | 28 => some (.typed .second .ptr) | 29 => some (.typed .second .sp)
  | _ => none

def pairOfId : Nat → Option (Nat × Nat)
  | 100 => some (0, 0) | 101 => some (5, 5) | 102 => some (13, 0) | 103 => some (14, 5) | 104 => some (10, 0) | 105 => some (22, 0)
  | 106 => some (0, 22) | 107 => some (1, 6) | 108 => some (16, 10) | 109 => some (23, 23) | 110 => some (2, 13) | 111 => some (24, 0)
  | _ => none

def fnOfId (fid : Nat) : Option (DFn CP) :=
  if fid < 100 then (paramOfId fid).map (fun p => ⟨fid, [p]⟩)
  else match pairOfId fid with
    | some (a, b) => do let pa ← paramOfId a; let pb ← paramOfId b; pure ⟨fid, [pa, pb]⟩
    | none => none

end ChaiVerif
