/-
Spec.Lit — what C++ says a literal denotes: the [lex.icon] typing table, [lex.ccon] escape decoding
and UTF-8 (RFC 3629).  Independent of the generated tables.
-/
import ChaiVerif.Model.Lit
namespace ChaiVerif

/-- [lex.icon] Table: candidate types in order, by base kind and suffix (`lc` = number of l's). -/
def icCandidates (dec u : Bool) (lc : Nat) : List LitType :=
  match u, lc with
  | false, 0 => if dec then [.int, .long, .llong] else [.int, .uint, .long, .ulong, .llong, .ullong]
  | true,  0 => [.uint, .ulong, .ullong]
  | false, 1 => if dec then [.long, .llong] else [.long, .ulong, .llong, .ullong]
  | true,  1 => [.ulong, .ullong]
  | false, _ => if dec then [.llong] else [.llong, .ullong]
  | true,  _ => [.ullong]

/-- The type of an integer literal: the first candidate that can represent its value. -/
def cppIntType (dec u : Bool) (lc : Nat) (v : Nat) : Option LitType :=
  (icCandidates dec u lc).find? (fun t => decide (v ≤ t.max))

/-- RFC 3629 encoding of a scalar value below 0x110000 (surrogates are rejected separately). -/
def utf8Spec (cp : Nat) : List Nat :=
  if cp < 128 then [cp]
  else if cp < 2048 then [192 + cp / 64, 128 + cp % 64]
  else if cp < 65536 then [224 + cp / 4096, 128 + cp / 64 % 64, 128 + cp % 64]
  else [240 + cp / 262144, 128 + cp / 4096 % 64, 128 + cp / 64 % 64, 128 + cp % 64]

/-- Decoder for the encoder above (well-formed input of the four shapes). -/
def utf8Decode : List Nat → Option Nat
  | [a] => if a < 128 then some a else none
  | [a, b] => if 192 ≤ a ∧ a < 224 ∧ 128 ≤ b ∧ b < 192 then some ((a - 192) * 64 + (b - 128)) else none
  | [a, b, c] => if 224 ≤ a ∧ a < 240 ∧ 128 ≤ b ∧ b < 192 ∧ 128 ≤ c ∧ c < 192
      then some ((a - 224) * 4096 + (b - 128) * 64 + (c - 128)) else none
  | [a, b, c, d] => if 240 ≤ a ∧ a < 248 ∧ 128 ≤ b ∧ b < 192 ∧ 128 ≤ c ∧ c < 192 ∧ 128 ≤ d ∧ d < 192
      then some ((a - 240) * 262144 + (b - 128) * 4096 + (c - 128) * 64 + (d - 128)) else none
  | _ => none

/-- [lex.ccon] simple escape sequences (plus ChaiScript's `\$`). -/
def cppSimpleEscapes : List (Nat × Nat) :=
  [(39, 39), (34, 34), (63, 63), (97, 7), (98, 8), (102, 12), (110, 10), (114, 13), (116, 9), (118, 11), (36, 36)]

/-- Take at most `n` leading elements satisfying `p`. -/
def takeUpTo (p : Nat → Bool) : Nat → List Nat → List Nat × List Nat
  | 0, cs => ([], cs)
  | _, [] => ([], [])
  | n + 1, c :: cs => if p c then let r := takeUpTo p n cs; (c :: r.1, r.2) else ([], c :: cs)

/-- Escape decoding of the body of a string/char literal (no interpolation).  `none` = malformed.
    Fuel is the input length; every step consumes at least one byte. -/
def cppUnescape : Nat → List Nat → Option (List Nat)
  | _, [] => some []
  | 0, _ :: _ => none
  | f + 1, 92 :: c :: rest =>
      if isOctalChar c then
        let r := takeUpTo isOctalChar 2 rest
        (cppUnescape f r.2).map (fun t => (digitsValue 8 ((c :: r.1).map (· - 48)) % 256) :: t)
      else if c == 120 then
        let r := takeUpTo isHexChar 2 rest
        if r.1.isEmpty then none
        else (cppUnescape f r.2).map (fun t => (digitsValue 16 (r.1.map hexDigitVal) % 256) :: t)
      else if c == 117 || c == 85 then
        let n := if c == 117 then 4 else 8
        let r := takeUpTo isHexChar n rest
        let cp := digitsValue 16 (r.1.map hexDigitVal)
        if r.1.length != n then none
        else if (55296 ≤ cp ∧ cp ≤ 57343) ∨ cp ≥ 1114112 then none
        else (cppUnescape f r.2).map (fun t => utf8Spec cp ++ t)
      else match cppSimpleEscapes.find? (fun p => p.1 == c) with
        | some p => (cppUnescape f rest).map (fun t => p.2 :: t)
        | none => if c == 92 then (cppUnescape f rest).map (fun t => 92 :: t) else none
  | _ + 1, [92] => none
  | f + 1, c :: rest => (cppUnescape f rest).map (fun t => c :: t)

end ChaiVerif
