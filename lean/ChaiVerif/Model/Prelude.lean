/-
M-PRELUDE — the script-level algorithms of chaiscript_prelude.hpp as recursions that follow the
source's loops (a `Bidir_Range` over an unmodified container is the list of remaining elements;
`r.pop_front()` = tail, `r.front()` = head, `back_inserter` = append).  Callbacks are Lean
functions; every function also returns the trace of callback arguments, in call order.
-/
namespace ChaiVerif.Prelude

/-- `for_each`: `while (!r.empty()) { func(r.front()); r.pop_front(); }` — trace of calls. -/
def forEachTrace : List Int → List Int
  | [] => []
  | x :: xs => x :: forEachTrace xs

/-- `any_of` with its trace (early `return true`). -/
def anyOf (p : Int → Bool) : List Int → Bool × List Int
  | [] => (false, [])
  | x :: xs => if p x then (true, [x]) else let r := anyOf p xs; (r.1, x :: r.2)

def allOf (p : Int → Bool) : List Int → Bool × List Int
  | [] => (true, [])
  | x :: xs => if !p x then (false, [x]) else let r := allOf p xs; (r.1, x :: r.2)

/-- `contains(container, item)` with `eq`. -/
def containsM (item : Int) : List Int → Bool
  | [] => false
  | x :: xs => if x == item then true else containsM item xs

/-- `map(container, func, inserter)`: the inserter appends `func(front)` to `acc`. -/
def mapInto (f : Int → Int) : List Int → List Int → List Int
  | [], acc => acc
  | x :: xs, acc => mapInto f xs (acc ++ [f x])

/-- `foldl(container, func, initial)`: `retval = func(front, retval)`. -/
def foldlM (f : Int → Int → Int) : List Int → Int → Int
  | [], acc => acc
  | x :: xs, acc => foldlM f xs (f x acc)

/-- `concat(x, y)`: copy of x, then every element of y appended. -/
def concatInto : List Int → List Int → List Int
  | [], acc => acc
  | y :: ys, acc => concatInto ys (acc ++ [y])

/-- `take(container, num, inserter)`: `while ((i > 0) && (!r.empty())) { inserter(front); pop; --i }`. -/
def takeInto : List Int → Int → List Int → List Int
  | [], _, acc => acc
  | x :: xs, i, acc => if i > 0 then takeInto xs (i - 1) (acc ++ [x]) else acc

def takeWhileInto (p : Int → Bool) : List Int → List Int → List Int
  | [], acc => acc
  | x :: xs, acc => if p x then takeWhileInto p xs (acc ++ [x]) else acc

/-- first loop of `drop`: skip while `i > 0`. -/
def dropSkip : List Int → Int → List Int
  | [], _ => []
  | x :: xs, i => if i > 0 then dropSkip xs (i - 1) else x :: xs

def dropWhileSkip (p : Int → Bool) : List Int → List Int
  | [] => []
  | x :: xs => if p x then dropWhileSkip p xs else x :: xs

def filterInto (p : Int → Bool) : List Int → List Int → List Int
  | [], acc => acc
  | x :: xs, acc => if p x then filterInto p xs (acc ++ [x]) else filterInto p xs acc

/-- `reduce`: guard `size >= 2`; `retval = func(retval, front)` from the second element on. -/
def reduceM (f : Int → Int → Int) : List Int → Option Int
  | x :: y :: rest => some ((y :: rest).foldl f x)
  | _ => none

/-- `generate_range(x, y)`: `i = x; while (i <= y) { inserter(i); ++i }` (fuel = y - x + 1). -/
def genRange (x y : Int) : List Int :=
  let rec go : Nat → Int → List Int → List Int
    | 0, _, acc => acc
    | f + 1, i, acc => if i ≤ y then go f (i + 1) (acc ++ [i]) else acc
  go (y - x + 1).toNat x []

def zipWithInto (f : Int → Int → Int) : List Int → List Int → List Int → List Int
  | x :: xs, y :: ys, acc => zipWithInto f xs ys (acc ++ [f x y])
  | _, _, acc => acc

def zipInto : List Int → List Int → List (Int × Int) → List (Int × Int)
  | x :: xs, y :: ys, acc => zipInto xs ys (acc ++ [(x, y)])
  | _, _, acc => acc

/-- `reverse`: `while (!r.empty()) { retval.push_back(r.back()); r.pop_back(); }` on the reversed view. -/
def reverseInto : List Int → List Int → List Int
  | [], acc => acc
  | x :: xs, acc => reverseInto xs (x :: acc)

/-- `join`: first element, then `delim ++ element` for the rest (elements already rendered). -/
def joinM (delim : List Nat) : List (List Nat) → List Nat
  | [] => []
  | [x] => x
  | x :: y :: rest => x ++ delim ++ joinM delim (y :: rest)

/-- `find(container, value)`: the range from the first match on (empty when there is none). -/
def findFrom (v : Int) : List Int → List Int
  | [] => []
  | x :: xs => if x == v then x :: xs else findFrom v xs

def maxM (a b : Int) : Int := if a > b then a else b
def minM (a b : Int) : Int := if a < b then a else b
/-- C++ `%` truncates toward zero. -/
def oddM (x : Int) : Bool := Int.tmod x 2 != 0
def evenM (x : Int) : Bool := Int.tmod x 2 == 0
/-- the test the prelude used before the fix commit -/
def oddOld (x : Int) : Bool := Int.tmod x 2 == 1

def isWs (c : Int) : Bool := c == 32 || c == 9 || c == 13 || c == 10
def ltrim (s : List Int) : List Int := dropWhileSkip isWs s
def rtrim (s : List Int) : List Int := reverseInto (dropWhileSkip isWs (reverseInto s [])) []
def trim (s : List Int) : List Int := ltrim (rtrim s)

/-- A retro view of a range `(items)` is the reversed list; `retro(retro r)` returns the stored range. -/
def retro (r : List Int) : List Int := r.reverse

end ChaiVerif.Prelude
