/-
M-CHAI, syntax — the core-language AST (a subset of AST_Node_Type, spelled after the evaluator's node
classes), values and cells.  Identifiers are interned `Nat`s; literals live in heap cells that are
allocated when the program is built (so that "evaluating code does not change the code" is a
statement about the heap).  Lambdas and defs refer to a function table by index.
-/
namespace ChaiVerif.Chai

abbrev Name := Nat
abbrev Loc := Nat

/-- C++ exception classes the evaluator distinguishes (the catch ladder of `Try_AST_Node`). -/
inductive ExcKind | evalError | runtimeError | outOfRange | stdException | nonStd
deriving DecidableEq, Repr, Inhabited

inductive Builtin | print | throw_ | isVarUndef
deriving DecidableEq, Repr, Inhabited

inductive Val
  | undef | void
  | int (i : Int) | bool (b : Bool) | str (s : Nat)
  | fn (fid : Nat) (caps : List (Name × Loc))
  | native (k : Nat)
  | fobj (name : Name)                      -- the function object of a name (Dispatch_Function)
  | builtin (b : Builtin)
  | exc (k : ExcKind)
  | vec (elems : List Loc)
deriving DecidableEq, Repr, Inhabited

/-- A `Boxed_Value::Data`: a pointer to the object, constness and the return-value flag.  Two Data
    records may point to the same object (`var &r = x`, `r := x`): writes to the object are seen
    through both, while the flags belong to each Data. -/
structure Cell where
  obj   : Nat
  const : Bool := false
  ret   : Bool := false
deriving DecidableEq, Repr, Inhabited

inductive BinOp | add | sub | mul | div | mod | lt | le | gt | ge | eq | ne
deriving DecidableEq, Repr, Inhabited
inductive PreOp | neg | not | inc | dec
deriving DecidableEq, Repr, Inhabited
inductive EqOp | assign | refAssign | addAsg | subAsg | mulAsg
deriving DecidableEq, Repr, Inhabited

/-- type names usable in a typed catch clause / typed parameter -/
inductive TyTag | int | bool | string | evalError | exception_ | runtimeError | outOfRange | logicError
deriving DecidableEq, Repr, Inhabited

inductive Node
  | const (l : Loc)
  | id (nid : Nat) (x : Name)
  | varDecl (x : Name)
  | refDecl (x : Name)
  | assignDecl (x : Name) (e : Node)
  | eq (op : EqOp) (lhs rhs : Node)
  | bin (op : BinOp) (a b : Node)
  | foldR (op : BinOp) (a : Node) (c : Loc)
  | pre (op : PreOp) (a : Node)
  | and (a b : Node)
  | or (a b : Node)
  | block (xs : List Node)
  | scopeless (xs : List Node)
  | ifN (c t e : Node)
  | whileN (c b : Node)
  | forN (i c s b : Node)
  | cfor (x : Name) (lo hi : Int) (b : Node)
  | brk
  | cont
  | ret (e : Option Node)
  | call (unused : Bool) (f : Node) (args : List Node)
  | lambda (fid : Nat) (caps : List (Nat × Name))
  | def_ (name : Name) (fid : Nat)
  | tryN (body : Node) (catches : List (Option (Name × Option TyTag) × Node)) (fin : Option Node)
  | inlineVec (xs : List Node)
  | index (a i : Node)
  | evalStr (nids : List Nat) (n : Node)      -- `eval("<text of n>")`: n is parsed afresh on every evaluation (its nodes are `nids`)
  | noop
deriving Repr, Inhabited

structure FunDef where
  params : List Name
  body   : Node
  guard  : Option Node := none
  ptys   : List (Option TyTag) := []          -- declared parameter types, parallel to `params` (missing = untyped)
deriving Repr, Inhabited

end ChaiVerif.Chai
