/-
M-CHAI, the EXACT part of the optimizer: the three passes of `Optimizer_Default` whose rewriting changes neither the outcome nor the
state of any evaluation — Partial_Fold, If and Dead_Code restricted to constants — applied bottom-up to the whole tree and to every
function body, as the parser does.  (The other passes change unobservable parts of the state: fresh temporaries, saved call
parameters, allocation order; see Props/C02.)  No literal is created, so the literal table is fixed.
-/
import ChaiVerif.Model.Chai.Opt
namespace ChaiVerif.Chai

/-- Dead_Code on constants: a constant statement that is not the last one is dropped -/
def keepersC : List Node → List Node
  | [] => []
  | [x] => [x]
  | x :: rest => if isConstNode x then keepersC rest else x :: keepersC rest

def deadConst : Node → Node
  | .block xs => .block (keepersC xs)
  | n => n

/-- `If`, except that a bare reference declaration is never lifted out of a conditional: `Equation` asks its left child "are you a
    `Reference` node?", so `(if (true) <var &r>) = x` and `var &r = x` differ.  The parser cannot produce such a branch (branches are
    blocks, and a block that declares something stays a block), so on parsed programs this IS the If pass. -/
def ifPassX (L : Lits) : Node → Node
  | .ifN (.const c) t e =>
    (match litOf L c with
     | .bool true => if isRefDecl t then .ifN (.const c) t e else t
     | .bool false => if isRefDecl e then .ifN (.const c) t e else e
     | _ => .ifN (.const c) t e)
  | n => n

/-- the three exact passes on one node, in pipeline order -/
def xNode (L : Lits) (n : Node) : Node := deadConst (ifPassX L (partialFold L n))

mutual
def xopt (L : Lits) : Node → Node
  | .assignDecl x e => xNode L (.assignDecl x (xopt L e))
  | .eq op l r => xNode L (.eq op (xopt L l) (xopt L r))
  | .bin op a b => xNode L (.bin op (xopt L a) (xopt L b))
  | .foldR op a c => xNode L (.foldR op (xopt L a) c)
  | .pre op a => xNode L (.pre op (xopt L a))
  | .and a b => xNode L (.and (xopt L a) (xopt L b))
  | .or a b => xNode L (.or (xopt L a) (xopt L b))
  | .block xs => xNode L (.block (xoptList L xs))
  | .scopeless xs => xNode L (.scopeless (xoptList L xs))
  | .ifN c t e => xNode L (.ifN (xopt L c) (xopt L t) (xopt L e))
  | .whileN c b => xNode L (.whileN (xopt L c) (xopt L b))
  | .forN i c s b => xNode L (.forN (xopt L i) (xopt L c) (xopt L s) (xopt L b))
  | .cfor x lo hi b => xNode L (.cfor x lo hi (xopt L b))
  | .ret none => .ret none
  | .ret (some e) => xNode L (.ret (some (xopt L e)))
  | .call u f as => xNode L (.call u (xopt L f) (xoptList L as))
  | .tryN b cs fin =>
    (match fin with
     | none => xNode L (.tryN (xopt L b) (xoptCatches L cs) none)
     | some fb => xNode L (.tryN (xopt L b) (xoptCatches L cs) (some (xopt L fb))))
  | .inlineVec xs => xNode L (.inlineVec (xoptList L xs))
  | .index a i => xNode L (.index (xopt L a) (xopt L i))
  | .evalStr nids n => .evalStr nids (xopt L n)
  | n => n
def xoptList (L : Lits) : List Node → List Node
  | [] => []
  | x :: xs => xopt L x :: xoptList L xs
def xoptCatches (L : Lits) : List (Option (Name × Option TyTag) × Node) → List (Option (Name × Option TyTag) × Node)
  | [] => []
  | (p, b) :: cs => (p, xopt L b) :: xoptCatches L cs
end

def xoptFun (L : Lits) (fd : FunDef) : FunDef := { fd with body := xopt L fd.body, guard := fd.guard.map (xopt L) }

def xoptJob (L : Lits) : Job → Job
  | .node n => .node (xopt L n)
  | .seq xs => .seq (xoptList L xs)
  | .args xs acc => .args (xoptList L xs) acc
  | .whileL c b => .whileL (xopt L c) (xopt L b)
  | .forL c st b => .forL (xopt L c) (xopt L st) (xopt L b)
  | .cforL o hi b => .cforL o hi (xopt L b)
  | .callFn fid caps args => .callFn fid caps args
  | .guardFn fid args => .guardFn fid args
  | .dispatch cands args => .dispatch cands args
  | .catches cs exc => .catches (xoptCatches L cs) exc

end ChaiVerif.Chai
