/-
M-CHAI, state — heap of cells, the per-thread `Stack_Holder` (stacks of scopes, call_params,
call_depth), globals, function table by name, per-node lookup hints, output and callback logs,
and the fault schedule of native callbacks.
-/
import ChaiVerif.Model.Chai.Syntax
namespace ChaiVerif.Chai

abbrev Scope := List (Name × Loc)          -- insertion ordered (QuickFlatMap)

/-- cached lookup hint of an `Id` node -/
inductive Hint
  | local_ (depth slot : Nat)              -- scope distance from the top of the current stack, slot index
  | nonLocal                               -- "located, not a local": go straight to globals / functions
deriving DecidableEq, Repr, Inhabited

/-- what a native callback does on its n-th invocation -/
structure Fault where
  at_  : Nat                               -- 0-based invocation index that throws (large = never)
  kind : ExcKind
  boxed : Bool := false                    -- throw a Boxed_Value instead of a C++ exception object
deriving DecidableEq, Repr, Inhabited

structure St where
  heap    : List Cell                      -- Data records
  objs    : List Val                       -- objects
  stacks  : List (List Scope)              -- Stack_Holder::stacks; last = current stack; within a stack last = innermost scope
  params  : List (List Loc)                -- Stack_Holder::call_params
  depth   : Nat                            -- Stack_Holder::call_depth
  globals : List (Name × Loc)
  funs    : List (Name × List Nat)         -- script functions by name: fids (overloads)
  hints   : List (Nat × Hint)
  useHints : Bool
  verifySlot : Bool                        -- the cached local slot is checked against the name (fix 64c96fe)
  out     : List Val                       -- print log
  natLog  : List (Nat × List Val)          -- native callback log (callback id, argument values)
  natCount : Nat
  fault   : Fault
  tags    : List Nat := []                 -- known-finding rules that fired (1 = a named, return-flagged value adopted by `var x = y`)
deriving Repr, Inhabited

/-- initial state: one const Data per literal/builtin object -/
def St.init (lits : List Val) : St :=
  { heap := (List.range lits.length).map (fun i => ⟨i, true, false⟩), objs := lits, stacks := [[[]]], params := [[]], depth := 0, globals := [], funs := [], hints := [], useHints := true,
    verifySlot := true, out := [], natLog := [], natCount := 0, fault := ⟨1000000, .stdException, false⟩ }

/-- the shape the property speaks about -/
def St.shape (s : St) : List Nat × Nat × Nat := (s.stacks.map List.length, s.params.length, s.depth)

/-- a fresh object in a fresh Data -/
def St.allocV (s : St) (v : Val) (const : Bool := false) (ret : Bool := false) : Loc × St :=
  (s.heap.length, { s with heap := s.heap ++ [⟨s.objs.length, const, ret⟩], objs := s.objs ++ [v] })
def St.cell (s : St) (l : Loc) : Cell := s.heap.getD l default
def St.val (s : St) (l : Loc) : Val := s.objs.getD (s.cell l).obj .undef
def St.setCell (s : St) (l : Loc) (c : Cell) : St := { s with heap := s.heap.set l c }
/-- write into the object a Data points to (seen through every Data that points to it) -/
def St.setVal (s : St) (l : Loc) (v : Val) : St := { s with objs := s.objs.set (s.cell l).obj v }

/-! ### Stack_Holder operations (dispatchkit.hpp) -/

def modifyLast {α} (f : α → α) : List α → List α
  | [] => []
  | [x] => [f x]
  | x :: xs => x :: modifyLast f xs

/-- `new_scope`: push a scope on the current stack and an entry on call_params -/
def St.pushScope (s : St) : St := { s with stacks := modifyLast (· ++ [[]]) s.stacks, params := s.params ++ [[]] }
/-- `pop_scope` -/
def St.popScope (s : St) : St := { s with stacks := modifyLast List.dropLast s.stacks, params := s.params.dropLast }
/-- `new_stack`: a new stack with one scope -/
def St.pushStack (s : St) : St := { s with stacks := s.stacks ++ [[[]]] }
def St.popStack (s : St) : St := { s with stacks := s.stacks.dropLast }
/-- `new_function_call` -/
def St.enterCall (s : St) : St := { s with depth := s.depth + 1 }
/-- `pop_function_call`: at depth 0 the saved parameters of the outermost call are released -/
def St.leaveCall (s : St) : St :=
  let d := s.depth - 1
  { s with depth := d, params := if d == 0 then modifyLast (fun _ => []) s.params else s.params }
/-- `save_function_params` -/
def St.saveParams (s : St) (ls : List Loc) : St := { s with params := modifyLast (ls ++ ·) s.params }

def St.curStack (s : St) : List Scope := s.stacks.getLast?.getD []

/-- `add_object`: into the innermost scope of the current stack; `none` = name conflict -/
def St.addObject (s : St) (x : Name) (l : Loc) : Option St :=
  match s.curStack.getLast? with
  | none => none
  | some sc =>
    if sc.any (fun p => p.1 == x) then none
    else some { s with stacks := modifyLast (modifyLast (· ++ [(x, l)])) s.stacks }

/-- innermost-first search of the current stack: (distance from top, slot, loc) -/
def findLocal (x : Name) : List Scope → Nat → Option (Nat × Nat × Loc)
  | [], _ => none
  | sc :: outer, d =>
    match sc.findIdx? (fun p => p.1 == x), sc.find? (fun p => p.1 == x) with
    | some i, some p => some (d, i, p.2)
    | _, _ => findLocal x outer (d + 1)

def St.lookupLocal (s : St) (x : Name) : Option (Nat × Nat × Loc) := findLocal x s.curStack.reverse 0

/-- the specification of name resolution: innermost local, else global, else function object -/
inductive Resolved
  | cell (l : Loc)
  | funObj (name : Name)
  | missing
deriving DecidableEq, Repr, Inhabited

def St.resolve (s : St) (x : Name) : Resolved :=
  match s.lookupLocal x with
  | some (_, _, l) => .cell l
  | none =>
    match s.globals.lookup x with
    | some l => .cell l
    | none => if (s.funs.lookup x).isSome then .funObj x else .missing

def St.nonLocal (s : St) (x : Name) : Resolved :=
  match s.globals.lookup x with
  | some l => .cell l
  | none => if (s.funs.lookup x).isSome then .funObj x else .missing

def setHint (nid : Nat) (h : Hint) (hs : List (Nat × Hint)) : List (Nat × Hint) := (nid, h) :: hs.filter (·.1 != nid)

/-- `Dispatch_Engine::get_object` with its per-node hint -/
def St.getObject (s : St) (nid : Nat) (x : Name) : Resolved × St :=
  let cold (s : St) : Resolved × St :=
    match s.lookupLocal x with
    | some (d, i, l) => (.cell l, if s.useHints then { s with hints := setHint nid (.local_ d i) s.hints } else s)
    | none => (s.nonLocal x, if s.useHints then { s with hints := setHint nid .nonLocal s.hints } else s)
  if !s.useHints then cold s
  else match s.hints.lookup nid with
    | none => cold s
    | some .nonLocal => (s.nonLocal x, s)
    | some (.local_ d i) =>
      let st := s.curStack.reverse
      match st[d]? with
      | some sc =>
        (match sc[i]? with
         | some (y, l) => if !s.verifySlot || y == x then (.cell l, s) else cold { s with hints := s.hints.filter (·.1 != nid) }
         | none => if s.verifySlot then cold { s with hints := s.hints.filter (·.1 != nid) } else (.missing, s))
      | none => if s.verifySlot then cold { s with hints := s.hints.filter (·.1 != nid) } else (.missing, s)

end ChaiVerif.Chai
