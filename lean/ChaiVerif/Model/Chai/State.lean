/-
M-CHAI, state — heap of cells, the per-thread `Stack_Holder` (stacks of scopes, call_params,
call_depth), globals, function table by name, per-node lookup hints, output and callback logs,
and the fault schedule of native callbacks.
-/
import ChaiVerif.Model.Chai.Syntax
namespace ChaiVerif.Chai

abbrev Scope := List (Name × Loc)          -- insertion ordered (QuickFlatMap)

/-- cached lookup hint of an `Id` node -/
inductive Hint
  | local_ (depth slot : Nat)              -- scope distance from the top of the current stack, slot index
  | nonLocal                               -- "located, not a local": go straight to globals / functions
deriving DecidableEq, Repr, Inhabited

/-- what a native callback does on its n-th invocation -/
structure Fault where
  at_  : Nat                               -- 0-based invocation index that throws (large = never)
  kind : ExcKind
  boxed : Bool := false                    -- throw a Boxed_Value instead of a C++ exception object
deriving DecidableEq, Repr, Inhabited

structure St where
  heap    : List Cell                      -- Data records
  objs    : List Val                       -- objects
  stacks  : List (List Scope)              -- Stack_Holder::stacks; last = current stack; within a stack last = innermost scope
  params  : List (List Loc)                -- Stack_Holder::call_params
  depth   : Nat                            -- Stack_Holder::call_depth
  globals : List (Name × Loc)
  funs    : List (Name × List Nat)         -- script functions by name: fids (overloads)
  hints   : List (Nat × Hint)
  useHints : Bool
  verifySlot : Bool                        -- the cached local slot is checked against the name (fix 64c96fe)
  out     : List Val                       -- print log
  natLog  : List (Nat × List Val)          -- native callback log (callback id, argument values)
  natCount : Nat
  fault   : Fault
  tags    : List Nat := []                 -- known-finding rules that fired (1 = a named, return-flagged value adopted by `var x = y`; 2 = a stale lookup hint answered)
deriving Repr, Inhabited

/-- initial state: one const Data per literal/builtin object -/
def St.init (lits : List Val) : St :=
  { heap := (List.range lits.length).map (fun i => ⟨i, true, false⟩), objs := lits, stacks := [[[]]], params := [[]], depth := 0, globals := [], funs := [], hints := [], useHints := true,
    verifySlot := true, out := [], natLog := [], natCount := 0, fault := ⟨1000000, .stdException, false⟩ }

/-- the shape the property speaks about -/
def St.shape (s : St) : List Nat × Nat × Nat := (s.stacks.map List.length, s.params.length, s.depth)

/-- a fresh object in a fresh Data -/
def St.allocV (s : St) (v : Val) (const : Bool := false) (ret : Bool := false) : Loc × St :=
  (s.heap.length, { s with heap := s.heap ++ [⟨s.objs.length, const, ret⟩], objs := s.objs ++ [v] })
/-- (a location outside the heap reads as a const, non-temporary handle: nothing can be written through it) -/
def St.cell (s : St) (l : Loc) : Cell := s.heap.getD l ⟨0, true, false⟩
def St.val (s : St) (l : Loc) : Val := s.objs.getD (s.cell l).obj .undef
def St.setCell (s : St) (l : Loc) (c : Cell) : St := { s with heap := s.heap.set l c }
/-- write into the object a Data points to (seen through every Data that points to it) -/
def St.setVal (s : St) (l : Loc) (v : Val) : St := { s with objs := s.objs.set (s.cell l).obj v }

/-- read / write an object directly (the optimized counting loop holds a C++ reference to its counter object) -/
def St.objAt (s : St) (o : Nat) : Val := s.objs.getD o .undef
def St.setObj (s : St) (o : Nat) (v : Val) : St := { s with objs := s.objs.set o v }

/-! ### Stack_Holder operations (dispatchkit.hpp) -/

def modifyLast {α} (f : α → α) : List α → List α
  | [] => []
  | [x] => [f x]
  | x :: xs => x :: modifyLast f xs

/-- `new_scope`: push a scope on the current stack and an entry on call_params -/
def St.pushScope (s : St) : St := { s with stacks := modifyLast (· ++ [[]]) s.stacks, params := s.params ++ [[]] }
/-- `pop_scope` -/
def St.popScope (s : St) : St := { s with stacks := modifyLast List.dropLast s.stacks, params := s.params.dropLast }
/-- `new_stack`: a new stack with one scope -/
def St.pushStack (s : St) : St := { s with stacks := s.stacks ++ [[[]]] }
def St.popStack (s : St) : St := { s with stacks := s.stacks.dropLast }
/-- `new_function_call` -/
def St.enterCall (s : St) : St := { s with depth := s.depth + 1 }
/-- `pop_function_call`: at depth 0 the saved parameters of the outermost call are released -/
def St.leaveCall (s : St) : St :=
  let d := s.depth - 1
  { s with depth := d, params := if d == 0 then modifyLast (fun _ => []) s.params else s.params }
/-- `save_function_params` -/
def St.saveParams (s : St) (ls : List Loc) : St := { s with params := modifyLast (ls ++ ·) s.params }

def St.curStack (s : St) : List Scope := s.stacks.getLast?.getD []

/-- `add_object`: into the innermost scope of the current stack; `none` = name conflict -/
def St.addObject (s : St) (x : Name) (l : Loc) : Option St :=
  match s.curStack.getLast? with
  | none => none
  | some sc =>
    if sc.any (fun p => p.1 == x) then none
    else some { s with stacks := modifyLast (modifyLast (· ++ [(x, l)])) s.stacks }

/-- first slot of a scope holding the name: (slot, loc) -/
def slotOf (x : Name) : Scope → Nat → Option (Nat × Loc)
  | [], _ => none
  | (y, l) :: rest, i => if y == x then some (i, l) else slotOf x rest (i + 1)

/-- innermost-first search of the current stack: (distance from top, slot, loc) -/
def findLocal (x : Name) : List Scope → Nat → Option (Nat × Nat × Loc)
  | [], _ => none
  | sc :: outer, d =>
    match slotOf x sc 0 with
    | some (i, l) => some (d, i, l)
    | none => findLocal x outer (d + 1)

def St.lookupLocal (s : St) (x : Name) : Option (Nat × Nat × Loc) := findLocal x s.curStack.reverse 0

/-- the specification of name resolution: innermost local, else global, else function object -/
inductive Resolved
  | cell (l : Loc)
  | funObj (name : Name)
  | missing
deriving DecidableEq, Repr, Inhabited

def St.resolve (s : St) (x : Name) : Resolved :=
  match s.lookupLocal x with
  | some (_, _, l) => .cell l
  | none =>
    match s.globals.lookup x with
    | some l => .cell l
    | none => if (s.funs.lookup x).isSome then .funObj x else .missing

def St.nonLocal (s : St) (x : Name) : Resolved :=
  match s.globals.lookup x with
  | some l => .cell l
  | none => if (s.funs.lookup x).isSome then .funObj x else .missing

def setHint (nid : Nat) (h : Hint) (hs : List (Nat × Hint)) : List (Nat × Hint) := (nid, h) :: hs.filter (·.1 != nid)

/-- the hint a successful uncached search records -/
def St.hintFor (s : St) (x : Name) : Hint :=
  match s.lookupLocal x with
  | some (d, i, _) => .local_ d i
  | none => .nonLocal

/-- the uncached search of `get_object` (`loc == 0`): it IS the specification; with caching on it records where it found the name -/
def St.cold (s : St) (nid : Nat) (x : Name) : Resolved × St :=
  (s.resolve x, if s.useHints then { s with hints := setHint nid (s.hintFor x) s.hints } else s)

def St.dropHint (s : St) (nid : Nat) : St := { s with hints := s.hints.filter (·.1 != nid) }

/-- the entry at (scope distance from the top, slot) of the current stack -/
def St.slotAt (s : St) (d i : Nat) : Option (Name × Loc) := (s.curStack.reverse[d]?).bind (·[i]?)

/-- `Dispatch_Engine::get_object` with its per-node hint -/
def St.getObjectRaw (s : St) (nid : Nat) (x : Name) : Resolved × St :=
  if !s.useHints then s.cold nid x
  else match s.hints.lookup nid with
    | none => s.cold nid x
    | some .nonLocal => (s.nonLocal x, s)
    | some (.local_ d i) =>
      match s.slotAt d i with
      | some (y, l) => if !s.verifySlot || y == x then (.cell l, s) else (s.dropHint nid).cold nid x
      | none => if s.verifySlot then (s.dropHint nid).cold nid x else (.missing, s)

/-- `get_object`, instrumented: tag 2 records that the cached hint answered differently from the specification
    `resolve` (known-finding rule STALE_LOOKUP_HINT); the answer itself is the implementation's -/
def St.getObject (s : St) (nid : Nat) (x : Name) : Resolved × St :=
  let r := s.getObjectRaw nid x
  if r.1 = s.resolve x then r else (r.1, { r.2 with tags := 2 :: r.2.tags })

/-- the nodes of a freshly parsed text have no hints yet -/
def St.dropHints (s : St) (nids : List Nat) : St := { s with hints := s.hints.filter (fun h => !nids.contains h.1) }

end ChaiVerif.Chai
