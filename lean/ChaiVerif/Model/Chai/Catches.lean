/-
Where the C++ code may end or alter an exception it did not raise itself.  `extract/e_catches.py` regenerates the census of all catch
clauses of the dispatch kit and the evaluator (Gen/Catches.lean); a handler is BROAD when the type it catches can be a user's exception
(`...`, std::exception and its standard subclasses, eval_error, a thrown Boxed_Value).  The broad handlers of the current source that do
not simply rethrow are pinned here, each with the reason it exists; Props/C10 `no_new_absorbing_handlers` proves the census has no others.
-/
namespace ChaiVerif.Chai

def broadTypes : List String := ["...", "std::exception", "std::runtime_error", "std::logic_error", "std::out_of_range", "Boxed_Value", "eval_error", "exception"]

/-- (file, struct, function, caught type, disposition) -/
def pinnedBroadHandlers : List (String × String × String × String × String) := [
  ("boxed_cast.hpp", "", "boxed_cast", "...", "translate"),   -- a failed any_cast of whatever kind is reported as bad_boxed_cast
  ("chaiscript_engine.hpp", "ChaiScript_Basic", "eval", "eval_error", "translate"),   -- eval(const AST_Node&) (the engine's eval of a tree, registered for scripts): an eval_error is boxed so that script code can catch it
  ("chaiscript_engine.hpp", "ChaiScript_Basic", "internal_eval", "eval_error", "translate"),   -- `eval("...")` from script: an eval_error is boxed so that script code can catch it
  ("chaiscript_engine.hpp", "ChaiScript_Basic", "internal_eval_file", "eval_error", "translate"),   -- same for eval_file from script
  ("chaiscript_eval.hpp", "Binary_Operator_AST_Node", "do_oper", "...", "translate"),   -- arithmetic on two numbers: arithmetic_error is rethrown first; anything else from Boxed_Number::do_oper is reported as eval_error
  ("chaiscript_eval.hpp", "Equation_AST_Node", "eval_internal", "std::exception", "translate"),   -- arithmetic assignment on numbers: a failure inside Boxed_Number::do_oper is reported as eval_error
  ("chaiscript_eval.hpp", "Fold_Right_Binary_Operator_AST_Node", "do_oper", "...", "translate"),   -- arithmetic on two numbers: arithmetic_error is rethrown first; anything else from Boxed_Number::do_oper is reported as eval_error
  ("chaiscript_eval.hpp", "Id_AST_Node", "eval_internal", "std::exception", "translate"),   -- a name that cannot be found: the lookup's exception is reported as eval_error "Can not find object"
  ("chaiscript_eval.hpp", "Try_AST_Node", "eval_internal", "Boxed_Value", "absorb"),   -- the script-level try statement: these ARE the catch ladder (modelled: `run` .tryN / .catches)
  ("chaiscript_eval.hpp", "Try_AST_Node", "eval_internal", "eval_error", "absorb"),   -- the script-level try statement: these ARE the catch ladder (modelled: `run` .tryN / .catches)
  ("chaiscript_eval.hpp", "Try_AST_Node", "eval_internal", "std::exception", "absorb"),   -- the script-level try statement: these ARE the catch ladder (modelled: `run` .tryN / .catches)
  ("chaiscript_eval.hpp", "Try_AST_Node", "eval_internal", "std::out_of_range", "absorb"),   -- the script-level try statement: these ARE the catch ladder (modelled: `run` .tryN / .catches)
  ("chaiscript_eval.hpp", "Try_AST_Node", "eval_internal", "std::runtime_error", "absorb"),   -- the script-level try statement: these ARE the catch ladder (modelled: `run` .tryN / .catches)
  ("chaiscript_optimizer.hpp", "Constant_Fold", "optimize", "std::exception", "absorb"),   -- constant folding at parse time: an operation that throws is simply not folded (it is evaluated, and throws, at run time)
  ("chaiscript_optimizer.hpp", "Partial_Fold", "optimize", "std::exception", "absorb"),   -- constant folding at parse time: an operation that throws is simply not folded (it is evaluated, and throws, at run time)
  ("proxy_functions.hpp", "Param_Types", "convert", "...", "translate"),   -- Param_Types::convert: a failing conversion of one argument leaves it unconverted
  ("type_conversions.hpp", "Type_Conversions", "boxed_type_conversion", "std::out_of_range", "translate"),   -- no conversion registered: std::out_of_range from the lookup becomes bad_boxed_dynamic_cast
  ("type_conversions.hpp", "Type_Conversions", "boxed_type_down_conversion", "std::out_of_range", "translate")   -- same
]

end ChaiVerif.Chai
