/-
M-CHAI: the `Unused_Return` flag of call nodes.  `allUnused` sets it on every call of a tree (the optimizer sets it on some:
call statements whose value is discarded).  Lemmas/ChaiRunWp.lean proves that the flag is unobservable except in the contents of
the saved call parameters.
-/
import ChaiVerif.Model.Chai.Eval
namespace ChaiVerif.Chai

mutual
def allUnused : Node → Node
  | .assignDecl x e => .assignDecl x (allUnused e)
  | .eq op l r => .eq op (allUnused l) (allUnused r)
  | .bin op a b => .bin op (allUnused a) (allUnused b)
  | .foldR op a c => .foldR op (allUnused a) c
  | .pre op a => .pre op (allUnused a)
  | .and a b => .and (allUnused a) (allUnused b)
  | .or a b => .or (allUnused a) (allUnused b)
  | .block xs => .block (allUnusedList xs)
  | .scopeless xs => .scopeless (allUnusedList xs)
  | .ifN c t e => .ifN (allUnused c) (allUnused t) (allUnused e)
  | .whileN c b => .whileN (allUnused c) (allUnused b)
  | .forN i c s b => .forN (allUnused i) (allUnused c) (allUnused s) (allUnused b)
  | .cfor x lo hi b => .cfor x lo hi (allUnused b)
  | .ret none => .ret none
  | .ret (some e) => .ret (some (allUnused e))
  | .call _ f as => .call true (allUnused f) (allUnusedList as)
  | .tryN b cs fin =>
    (match fin with
     | none => .tryN (allUnused b) (allUnusedCatches cs) none
     | some fb => .tryN (allUnused b) (allUnusedCatches cs) (some (allUnused fb)))
  | .inlineVec xs => .inlineVec (allUnusedList xs)
  | .index a i => .index (allUnused a) (allUnused i)
  | .evalStr nids n => .evalStr nids (allUnused n)
  | n => n
def allUnusedList : List Node → List Node
  | [] => []
  | x :: xs => allUnused x :: allUnusedList xs
def allUnusedCatches : List (Option (Name × Option TyTag) × Node) → List (Option (Name × Option TyTag) × Node)
  | [] => []
  | (p, b) :: cs => (p, allUnused b) :: allUnusedCatches cs
end

def allUnusedFun (fd : FunDef) : FunDef := { fd with body := allUnused fd.body, guard := fd.guard.map allUnused }

def allUnusedJob : Job → Job
  | .node n => .node (allUnused n)
  | .seq xs => .seq (allUnusedList xs)
  | .args xs acc => .args (allUnusedList xs) acc
  | .whileL c b => .whileL (allUnused c) (allUnused b)
  | .forL c st b => .forL (allUnused c) (allUnused st) (allUnused b)
  | .cforL o hi b => .cforL o hi (allUnused b)
  | .callFn fid caps args => .callFn fid caps args
  | .guardFn fid args => .guardFn fid args
  | .dispatch cands args => .dispatch cands args
  | .catches cs exc => .catches (allUnusedCatches cs) exc

end ChaiVerif.Chai
