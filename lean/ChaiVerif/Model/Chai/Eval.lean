/-
M-CHAI, evaluator — ONE function `run`, structurally recursive on fuel, over a sum of jobs
(node / statement sequence / argument list / loops / function body / catch clauses), mirroring the
`eval_internal` methods of chaiscript_eval.hpp.  Scopes, stacks and function-call bookkeeping go
through the RAII combinators `withScope`, `withStack`, `withFnCall`.  C++ exceptions used as control
flow (Break_Loop, Continue_Loop, Return_Value) and real exceptions are outcomes.
-/
import ChaiVerif.Model.Chai.State
namespace ChaiVerif.Chai

/-- reasons of eval_error the model distinguishes (the harness maps `reason` prefixes onto these) -/
inductive Why
  | cantFind | condNotBool | redefined | notFunction | dispatch | assignConst | assignTemp | arithmetic | mismatched | other
deriving DecidableEq, Repr, Inhabited

inductive Exc
  | evalErr (why : Why)
  | boxed (l : Loc)                -- a script value thrown with `throw(x)` (or a Boxed_Value thrown by a callback)
  | cpp (k : ExcKind)              -- a C++ exception object thrown by a native callback
deriving DecidableEq, Repr, Inhabited

inductive Out
  | val (l : Loc)
  | vals (ls : List Loc)
  | brk | cont
  | ret (l : Loc)
  | thrown (e : Exc)
  | noMatch                        -- (catch-clause scan only) no clause accepted the exception
  | oof                            -- out of fuel
deriving DecidableEq, Repr, Inhabited

abbrev R := Out × St

/-- continue only on a value -/
@[inline] def bnd (r : R) (k : Loc → St → R) : R :=
  match r with
  | (.val l, s) => k l s
  | (o, s) => (o, s)

/-! ### RAII combinators -/
def withScope (g : St → R) (s : St) : R := let r := g s.pushScope; (r.1, r.2.popScope)
def withStack (g : St → R) (s : St) : R := let r := g s.pushStack; (r.1, r.2.popStack)
def withFnCall (g : St → R) (s : St) : R := let r := g s.enterCall; (r.1, r.2.leaveCall)

inductive Job
  | node (n : Node)
  | seq (xs : List Node)
  | args (xs : List Node) (acc : List Loc)
  | whileL (c b : Node)
  | forL (c st b : Node)
  | cforL (il : Loc) (hi : Int) (b : Node)             -- the counting loop over its counter's Data record
  | callFn (fid : Nat) (caps : List (Name × Loc)) (args : List Loc)
  | guardFn (fid : Nat) (args : List Loc)                                  -- evaluate the guard of a def with the call's arguments
  | dispatch (cands : List Nat) (args : List Loc)                          -- try the overloads of a name in order
  | catches (cs : List (Option (Name × Option TyTag) × Node)) (exc : Loc)
deriving Repr, Inhabited

def allocVal (s : St) (v : Val) (const : Bool := false) (ret : Bool := false) : R :=
  let (l, s') := s.allocV v const ret
  (.val l, s')

def boolOf (s : St) (l : Loc) : Option Bool :=
  match s.val l with
  | .bool b => some b
  | _ => none

/-- `Boxed_Number::go` on two ints (C05 has the full story; here ints are unbounded and only /0 errs) -/
def intBin (op : BinOp) (a b : Int) : Option Val :=
  match op with
  | .add => some (.int (a + b)) | .sub => some (.int (a - b)) | .mul => some (.int (a * b))
  | .div => if b == 0 then none else some (.int (Int.tdiv a b))
  | .mod => if b == 0 then none else some (.int (Int.tmod a b))
  | .lt => some (.bool (a < b)) | .le => some (.bool (a ≤ b)) | .gt => some (.bool (a > b)) | .ge => some (.bool (a ≥ b))
  | .eq => some (.bool (a == b)) | .ne => some (.bool (a != b))

/-- `clone_if_necessary` -/
def cloneIfNecessary (s : St) (l : Loc) : R :=
  let c := s.cell l
  if c.ret then (.val l, s.setCell l { c with ret := false })
  else allocVal s (s.val l)

def tyMatches (t : Option TyTag) (v : Val) : Bool :=
  match t, v with
  | none, _ => true
  | some .int, .int _ => true
  | some .bool, .bool _ => true
  | some .string, .str _ => true
  | some .evalError, .exc .evalError => true
  | some .exception_, .exc _ => true
  -- the C++ class hierarchy (fix: a clause typed with a derived class does not catch a value of a sibling or base class):
  -- exception ⊇ runtime_error ⊇ eval_error;  exception ⊇ logic_error ⊇ out_of_range  (`stdException` = a std::logic_error)
  | some .runtimeError, .exc .runtimeError => true
  | some .runtimeError, .exc .evalError => true
  | some .outOfRange, .exc .outOfRange => true
  | some .logicError, .exc .outOfRange => true
  | some .logicError, .exc .stdException => true
  | _, _ => false

/-- what the C++ handlers of `Try_AST_Node` do with an exception in flight: box it for the clause scan
    (`some`), or only run finally and rethrow (`none`: Return/Break/Continue and non-std exceptions) -/
def catchable : Exc → Bool
  | .evalErr _ => true
  | .boxed _ => true
  | .cpp .nonStd => false
  | .cpp _ => true

/-- the Boxed_Value the catch-clause scan sees for an exception in flight -/
def boxExc (e : Exc) (s : St) : Loc × St :=
  match e with
  | .boxed l => (l, s)
  | .evalErr _ => s.allocV (.exc .evalError) true false
  | .cpp k => s.allocV (.exc k) true false

/-- is `l` the Data record of some variable (a local of any live scope, or a global)? -/
def St.isNamed (s : St) (l : Loc) : Bool :=
  s.stacks.any (fun st => st.any (fun sc => sc.any (fun p => p.2 == l))) || s.globals.any (fun p => p.2 == l)

/-- known-finding rule 1 (a ghost marker: it changes nothing but `tags`): `var x = <expr>` where the value is a *variable's* record
    that still carries the return-value flag — a parameter bound to a temporary — which `clone_if_necessary` will adopt instead of copy.
    Decided on the state, not on the shape of the expression: `var x = a` and `var x = if (true) { a }` hand over the same record. -/
def tagParamAlias (s : St) (l : Loc) : St :=
  if (s.cell l).ret && s.isNamed l then { s with tags := 1 :: s.tags } else s

def sortCaps (caps : List (Name × Loc)) : List (Name × Loc) :=
  caps.foldl (fun acc p =>
    let rec ins : List (Name × Loc) → List (Name × Loc)
      | [] => [p]
      | q :: qs => if p.1 < q.1 then p :: q :: qs else if p.1 == q.1 then q :: qs else q :: ins qs
    ins acc) []

def addAll (s : St) : List (Name × Loc) → Option St
  | [] => some s
  | (x, l) :: rest => match s.addObject x l with
    | some s' => addAll s' rest
    | none => none

/-! ### overloads of a script function name -/

def tyOfParam (fd : FunDef) (i : Nat) : Option TyTag := (fd.ptys.getD i none)

/-- `Param_Types::match`: every typed parameter gets a value of exactly that type -/
def paramsMatch (fd : FunDef) (vals : List Val) : Bool :=
  (List.range vals.length).all (fun i => tyMatches (tyOfParam fd i) (vals.getD i .undef))

/-- `dispatch`'s ranking: the number of parameters whose declared type is not the argument's type (an untyped parameter always counts) -/
def numDiffs (fd : FunDef) (vals : List Val) : Nat :=
  ((List.range vals.length).filter (fun i => match tyOfParam fd i with
    | none => true
    | some t => !tyMatches (some t) (vals.getD i .undef))).length

/-- candidates in the order `dispatch` tries them: by number of differences, registration order within -/
def orderCands (ρ : List FunDef) (cands : List Nat) (vals : List Val) : List Nat :=
  (List.range (vals.length + 1)).flatMap (fun i => cands.filter (fun g => match ρ[g]? with
    | some fd => numDiffs fd vals == i
    | none => false))

def isGuarded (ρ : List FunDef) (g : Nat) : Bool := match ρ[g]? with | some fd => fd.guard.isSome | none => false

/-- `Dynamic_Proxy_Function::operator==`: same arity, both unguarded, same parameter types -/
def sameSig (a b : FunDef) : Bool :=
  a.params.length == b.params.length && a.guard.isNone && b.guard.isNone &&
  (List.range a.params.length).all (fun i => tyOfParam a i == tyOfParam b i)

/-- `add_function` keeps the overloads of a name stably sorted: guarded ones first (`function_less_than`) -/
def insertOverload (ρ : List FunDef) (existing : List Nat) (fid : Nat) : List Nat :=
  if isGuarded ρ fid then existing.filter (isGuarded ρ) ++ [fid] ++ existing.filter (fun g => !isGuarded ρ g)
  else existing ++ [fid]

/-- `Equation_AST_Node`: is the left child a `Reference` node (`var &x`)? -/
def isRefDecl : Node → Bool
  | .refDecl _ => true
  | _ => false

/-- `add_function` refuses a definition that equals (`operator==`) an existing overload of the name -/
def defClash (ρ : List FunDef) (existing : List Nat) (fid : Nat) : Bool :=
  match ρ[fid]? with
  | some fd => existing.any (fun g => match ρ[g]? with | some gd => sameSig gd fd | none => false)
  | none => true

def run (ρ : List FunDef) : Nat → Job → St → R
  | 0, _, s => (.oof, s)
  | f + 1, .seq xs, s =>
    match xs with
    | [] => allocVal s .void true
    | [x] => run ρ f (.node x) s
    | x :: rest => bnd (run ρ f (.node x) s) (fun _ s1 => run ρ f (.seq rest) s1)
  | f + 1, .args xs acc, s =>
    match xs with
    | [] => (.vals acc, s)
    | x :: rest => bnd (run ρ f (.node x) s) (fun l s1 => run ρ f (.args rest (acc ++ [l])) s1)
  | f + 1, .whileL c b, s =>
    -- `while (get_scoped_bool_condition(cond)) { try { body } catch (Continue_Loop) {} }` (Break caught by the caller)
    bnd (withScope (run ρ f (.node c)) s) (fun lc s1 =>
      match boolOf s1 lc with
      | none => (.thrown (.evalErr .condNotBool), s1)
      | some false => allocVal s1 .void true
      | some true =>
        match run ρ f (.node b) s1 with
        | (.val _, s2) => run ρ f (.whileL c b) s2
        | (.cont, s2) => run ρ f (.whileL c b) s2
        | r => r)
  | f + 1, .forL c st b, s =>
    bnd (withScope (run ρ f (.node c)) s) (fun lc s1 =>
      match boolOf s1 lc with
      | none => (.thrown (.evalErr .condNotBool), s1)
      | some false => allocVal s1 .void true
      | some true =>
        let afterBody (s2 : St) : R := bnd (run ρ f (.node st) s2) (fun _ s3 => run ρ f (.forL c st b) s3)
        match run ρ f (.node b) s1 with
        | (.val _, s2) => afterBody s2
        | (.cont, s2) => afterBody s2
        | r => r)
  | f + 1, .cforL il hi b, s =>
    -- the compiled counting loop (fix: it tests and steps the counter through its Data record `il`, as `i < hi` and `++i` would)
    match s.val il with
    | .int i =>
      if i < hi then
        let next (s2 : St) : R :=
          match s2.val il with
          | .int j =>
            if (s2.cell il).const then (.thrown (.evalErr .assignConst), s2)
            else run ρ f (.cforL il hi b) (s2.setVal il (.int (j + 1)))
          | _ => (.thrown (.evalErr .other), s2)
        match run ρ f (.node b) s with
        | (.val _, s2) => next s2
        | (.cont, s2) => next s2
        | r => r
      else allocVal s .void true
    | _ => (.thrown (.evalErr .other), s)
  | f + 1, .callFn fid caps args, s =>
    -- `eval_function`: new stack; captures (a std::map: sorted by name), then parameters; body; catch Return_Value
    match ρ[fid]? with
    | none => (.thrown (.evalErr .notFunction), s)
    | some fd =>
      withStack (fun s0 =>
        match addAll s0 (sortCaps caps) with
        | none => (.thrown (.evalErr .redefined), s0)
        | some s1 =>
          match addAll s1 (fd.params.zip args) with
          | none => (.thrown (.evalErr .redefined), s1)
          | some s2 =>
            match run ρ f (.node fd.body) s2 with
            | (.ret l, s3) => (.val l, s3)
            | r => r) s
  | f + 1, .guardFn fid args, s =>
    -- the guard is a function of the same parameters (`eval_function` again: new stack, Return_Value caught)
    match ρ[fid]? with
    | none => (.thrown (.evalErr .notFunction), s)
    | some fd =>
      match fd.guard with
      | none => allocVal s (.bool true) true
      | some g =>
        withStack (fun s0 =>
          match addAll s0 (fd.params.zip args) with
          | none => (.thrown (.evalErr .redefined), s0)
          | some s2 =>
            match run ρ f (.node g) s2 with
            | (.ret l, s3) => (.val l, s3)
            | r => r) s
  | f + 1, .dispatch cands args, s =>
    -- `dispatch::dispatch`: each candidate in turn; parameter types, then the guard, decide; a guard that is false (or not a bool)
    -- moves on to the next candidate, an exception thrown by the guard propagates
    match cands with
    | [] => (.thrown (.evalErr .dispatch), s)
    | g :: rest =>
      match ρ[g]? with
      | none => (.thrown (.evalErr .notFunction), s)
      | some fd =>
        if !paramsMatch fd (args.map s.val) then run ρ f (.dispatch rest args) s
        else if fd.guard.isNone then run ρ f (.callFn g [] args) s
        else
          match run ρ f (.guardFn g args) s with
          | (.val l, s1) =>
            (match s1.val l with
             | .bool true => run ρ f (.callFn g [] args) s1
             | _ => run ρ f (.dispatch rest args) s1)
          | r => r
  | f + 1, .catches cs exc, s =>
    match cs with
    | [] => (.noMatch, s)
    | (param, body) :: rest =>
      -- each clause is examined inside its own scope (`Scope_Push_Pop catch_scope`)
      let r := withScope (fun s0 =>
        match param with
        | none => (match run ρ f (.node body) s0 with | (.noMatch, s1) => (.thrown (.evalErr .other), s1) | r => r)
        | some (x, ty) =>
          if tyMatches ty (s0.val exc) then
            match s0.addObject x exc with
            | some s1 => (match run ρ f (.node body) s1 with | (.noMatch, s2) => (.thrown (.evalErr .other), s2) | r => r)
            | none => (.thrown (.evalErr .redefined), s0)
          else (.noMatch, s0)) s
      match r with
      | (.noMatch, s1) => run ρ f (.catches rest exc) s1
      | r => r
  | f + 1, .node n, s =>
    match n with
    | .const l => (.val l, s)
    | .noop => allocVal s .void true
    | .id nid x =>
      (match s.getObject nid x with
       | (.cell l, s1) => (.val l, s1)
       | (.funObj name, s1) => allocVal s1 (.fobj name) true
       | (.missing, s1) => (.thrown (.evalErr .cantFind), s1))
    | .varDecl x =>
      let (l, s1) := s.allocV .undef
      (match s1.addObject x l with
       | some s2 => (.val l, s2)
       | none => (.thrown (.evalErr .redefined), s1))
    | .refDecl x =>
      let (l, s1) := s.allocV .undef
      (match s1.addObject x l with
       | some s2 => (.val l, s2)
       | none => (.thrown (.evalErr .redefined), s1))
    | .assignDecl x e =>
      -- Function_Push_Pop (fix 6e1a52e: temporaries of the right-hand side live until the value has been copied), then as Equation's first assignment
      withFnCall (fun s0 =>
        bnd (run ρ f (.node e) s0) (fun l s1 =>
          -- rule PARAM_TEMPORARY_ALIASED: the rhs is a *name* whose value still carries the return-value flag
          -- (a parameter bound to a temporary): it is adopted, not copied
          let s1 := tagParamAlias s1 l
          bnd (cloneIfNecessary s1 l) (fun l2 s2 =>
            let s3 := s2.setCell l2 { s2.cell l2 with ret := false }
            match s3.addObject x l2 with
            | some s4 => (.val l2, s4)
            | none => (.thrown (.evalErr .redefined), s3)))) s
    | .eq op lhs rhs =>
      -- Function_Push_Pop; rhs first, then lhs
      let isRef := isRefDecl lhs
      withFnCall (fun s0 =>
        bnd (run ρ f (.node rhs) s0) (fun r s1 =>
          bnd (run ρ f (.node lhs) s1) (fun l s2 =>
            let lc := s2.cell l
            let rc := s2.cell r
            let lv := s2.val l
            let rv := s2.val r
            if lc.ret then (.thrown (.evalErr .assignTemp), s2)
            else if lc.const then (.thrown (.evalErr .assignConst), s2)
            else match op with
              | .refAssign =>
                  -- `:=` : `lhs.assign(rhs)` copies the Data record: the lhs now points to the rhs *object*
                  (match lv, rv with
                   | .undef, _ => (.val r, s2.setCell l { rc with ret := false })
                   | .int _, .int _ => (.val r, s2.setCell l { rc with ret := false })
                   | .bool _, .bool _ => (.val r, s2.setCell l { rc with ret := false })
                   | .str _, .str _ => (.val r, s2.setCell l { rc with ret := false })
                   | _, _ => (.thrown (.evalErr .mismatched), s2))
              | .assign =>
                  (match lv, rv with
                   | .int _, .int b => (.val l, s2.setVal l (.int b))
                   | .undef, v =>
                       if isRef then
                         -- `var &r = x`: the new name shares x's object (and takes x's flags)
                         (.val r, s2.setCell l { rc with ret := false })
                       else
                         -- first assignment: the rhs is cloned (a temporary is adopted), the lhs Data points to the copy
                         -- (known-finding rule 1 again: a variable's record that still carries the return-value flag is adopted)
                         (match cloneIfNecessary (tagParamAlias s2 r) r with
                          | (.val r2, s3) => (.val l, s3.setCell l { s3.cell r2 with ret := false, const := false })
                          | x => x)
                   | .bool _, .bool b => (.val l, s2.setVal l (.bool b))
                   | .str _, .str b => (.val l, s2.setVal l (.str b))
                   | .fn _ _, .fn a b => (.val l, s2.setVal l (.fn a b))
                   | _, _ => (.thrown (.evalErr .dispatch), s2))
              | .addAsg | .subAsg | .mulAsg =>
                  (match lv, rv with
                   | .int a, .int b =>
                       let v := match op with | .addAsg => a + b | .subAsg => a - b | _ => a * b
                       (.val l, s2.setVal l (.int v))
                   | _, _ => (.thrown (.evalErr .dispatch), s2))))) s
    | .bin op a b =>
      bnd (run ρ f (.node a) s) (fun la s1 =>
        bnd (run ρ f (.node b) s1) (fun lb s2 =>
          match s2.val la, s2.val lb with
          | .int x, .int y =>
              (match intBin op x y with
               | some v => allocVal s2 v true
               | none => (.thrown (.cpp .runtimeError), s2))        -- arithmetic_error is a std::runtime_error
          | va, vb =>
              -- not arithmetic: function dispatch under a Function_Push_Pop with saved parameters
              withFnCall (fun s3 =>
                let s4 := s3.saveParams [la, lb]
                match op, va, vb with
                | .eq, .bool x, .bool y => allocVal s4 (.bool (x == y)) false true
                | .ne, .bool x, .bool y => allocVal s4 (.bool (x != y)) false true
                | .eq, .str x, .str y => allocVal s4 (.bool (x == y)) false true
                | .ne, .str x, .str y => allocVal s4 (.bool (x != y)) false true
                | _, _, _ => (.thrown (.evalErr .dispatch), s4)) s2))
    | .foldR op a c =>
      bnd (run ρ f (.node a) s) (fun la s1 =>
        match s1.val la, s1.val c with
        | .int x, .int y =>
            (match intBin op x y with
             | some v => allocVal s1 v true
             | none => (.thrown (.cpp .runtimeError), s1))
        | _, _ => withFnCall (fun s3 => (.thrown (.evalErr .dispatch), s3.saveParams [la, c])) s1)
    | .pre op a =>
      bnd (run ρ f (.node a) s) (fun la s1 =>
        let c := s1.cell la
        match op, s1.val la with
        | .neg, .int x => allocVal s1 (.int (-x)) true
        | .inc, .int x => if c.const then (.thrown (.evalErr .assignConst), s1) else (.val la, s1.setVal la (.int (x + 1)))
        | .dec, .int x => if c.const then (.thrown (.evalErr .assignConst), s1) else (.val la, s1.setVal la (.int (x - 1)))
        | .not, .bool b => withFnCall (fun s2 => allocVal (s2.saveParams [la]) (.bool (!b)) false true) s1
        | _, _ => withFnCall (fun s2 => (.thrown (.evalErr .dispatch), s2.saveParams [la])) s1)
    | .and a b =>
      bnd (run ρ f (.node a) s) (fun la s1 =>
        match boolOf s1 la with
        | none => (.thrown (.evalErr .condNotBool), s1)
        | some false => allocVal s1 (.bool false) true
        | some true =>
          bnd (run ρ f (.node b) s1) (fun lb s2 =>
            match boolOf s2 lb with
            | none => (.thrown (.evalErr .condNotBool), s2)
            | some v => allocVal s2 (.bool v) true))
    | .or a b =>
      bnd (run ρ f (.node a) s) (fun la s1 =>
        match boolOf s1 la with
        | none => (.thrown (.evalErr .condNotBool), s1)
        | some true => allocVal s1 (.bool true) true
        | some false =>
          bnd (run ρ f (.node b) s1) (fun lb s2 =>
            match boolOf s2 lb with
            | none => (.thrown (.evalErr .condNotBool), s2)
            | some v => allocVal s2 (.bool v) true))
    | .block xs => withScope (run ρ f (.seq xs)) s
    | .scopeless xs => run ρ f (.seq xs) s
    | .ifN c t e =>
      bnd (run ρ f (.node c) s) (fun lc s1 =>
        match boolOf s1 lc with
        | none => (.thrown (.evalErr .condNotBool), s1)
        | some true => run ρ f (.node t) s1
        | some false => run ρ f (.node e) s1)
    | .whileN c b =>
      withScope (fun s0 =>
        match run ρ f (.whileL c b) s0 with
        | (.brk, s1) => allocVal s1 .void true
        | r => r) s
    | .forN i c st b =>
      withScope (fun s0 =>
        bnd (run ρ f (.node i) s0) (fun _ s1 =>
          match run ρ f (.forL c st b) s1 with
          | (.brk, s2) => allocVal s2 .void true
          | r => r)) s
    | .cfor x lo hi b =>
      withScope (fun s0 =>
        let (il, s1) := s0.allocV (.int lo)
        match s1.addObject x il with
        | none => (.thrown (.evalErr .redefined), s1)
        | some s2 =>
          match run ρ f (.cforL il hi b) s2 with
          | (.brk, s3) => allocVal s3 .void true
          | r => r) s
    | .brk => (.brk, s)
    | .cont => (.cont, s)
    | .ret e =>
      (match e with
       | none => (match allocVal s .void true with | (.val l, s1) => (.ret l, s1) | r => r)
       | some e => (match run ρ f (.node e) s with | (.val l, s1) => (.ret l, s1) | r => r))
    | .lambda fid caps =>
      -- captures are evaluated (as Id nodes) when the lambda expression is evaluated
      let rec evalCaps : List (Nat × Name) → List (Name × Loc) → St → Option (List (Name × Loc)) × St
        | [], acc, s => (some acc, s)
        | (nid, x) :: rest, acc, s =>
          match s.getObject nid x with
          | (.cell l, s1) => evalCaps rest (acc ++ [(x, l)]) s1
          | (_, s1) => (none, s1)
      (match evalCaps caps [] s with
       | (some cs, s1) => allocVal s1 (.fn fid cs) false true
       | (none, s1) => (.thrown (.evalErr .cantFind), s1))
    | .def_ name fid =>
      let existing := (s.funs.lookup name).getD []
      if defClash ρ existing fid then (.thrown (.evalErr .redefined), s)
      else allocVal { s with funs := (name, insertOverload ρ existing fid) :: s.funs.filter (·.1 != name) } .void true
    | .call unused fe args =>
      withFnCall (fun s0 =>
        match run ρ f (.args args []) s0 with
        | (.vals as, s1) =>
          let s2 := if unused then s1 else s1.saveParams as
          bnd (run ρ f (.node fe) s2) (fun lf s3 =>
            match s3.val lf with
            | .fn fid caps =>
                if (ρ[fid]?.map (·.params.length)) == some as.length then run ρ f (.callFn fid caps as) s3
                else (.thrown (.evalErr .dispatch), s3)
            | .fobj name =>
                let cands := ((s3.funs.lookup name).getD []).filter (fun g => (ρ[g]?.map (·.params.length)) == some as.length)
                run ρ f (.dispatch (orderCands ρ cands (as.map s3.val)) as) s3
            | .builtin .print =>
                (match as with
                 | [a] => allocVal { s3 with out := s3.out ++ [s3.val a] } .void true
                 | _ => (.thrown (.evalErr .dispatch), s3))
            | .builtin .throw_ =>
                (match as with
                 | [a] => (.thrown (.boxed a), s3)
                 | _ => (.thrown (.evalErr .dispatch), s3))
            | .builtin .isVarUndef =>
                (match as with
                 | [a] => allocVal s3 (.bool (s3.val a == .undef)) false true
                 | _ => (.thrown (.evalErr .dispatch), s3))
            | .native k =>
                let s4 := { s3 with natLog := s3.natLog ++ [(k, as.map s3.val)], natCount := s3.natCount + 1 }
                if s3.natCount == s3.fault.at_ then
                  (if s3.fault.boxed then
                     (let (l, s5) := s4.allocV (.int 777); (.thrown (.boxed l), s5))
                   else if s3.fault.kind == .evalError then (.thrown (.evalErr .other), s4)
                   else (.thrown (.cpp s3.fault.kind), s4))
                else allocVal s4 (.int (k : Int)) false true
            | _ => (.thrown (.evalErr .notFunction), s3))
        | (o, s1) => (o, s1)) s
    | .tryN body cs fin =>
      withScope (fun s0 =>
        let runFin (s1 : St) (k : St → R) : R :=
          match fin with
          | none => k s1
          | some fb => (match run ρ f (.node fb) s1 with | (.val _, s2) => k s2 | r => r)
        match run ρ f (.node body) s0 with
        | (.val l, s1) =>
            (match fin with
             | none => (.val l, s1)
             | some fb => run ρ f (.node fb) s1)                    -- the try expression's value is the finally block's
        | (.thrown e, s1) =>
            if catchable e then
              -- box the exception for the clause scan
              let bx := boxExc e s1
              match run ρ f (.catches cs bx.1) bx.2 with
              | (.noMatch, s3) => runFin s3 (fun s4 => (.thrown e, s4))          -- nobody accepted it: finally, then rethrow
              | (.val l, s3) =>
                  (match fin with
                   | none => (.val l, s3)
                   | some fb => run ρ f (.node fb) s3)
              | (.oof, s3) => (.oof, s3)
              | (o, s3) => runFin s3 (fun s4 => (o, s4))                         -- the clause was left abnormally
            else runFin s1 (fun s2 => (.thrown e, s2))
        | (.oof, s1) => (.oof, s1)
        | (o, s1) => runFin s1 (fun s2 => (o, s2))) s                            -- return / break / continue pass through finally
    | .inlineVec xs =>
      (match run ρ f (.args xs []) s with
       | (.vals ls, s1) =>
          -- every element is cloned (`clone_if_necessary`), the vector itself is const
          let rec cloneAll : List Loc → List Loc → St → List Loc × St
            | [], acc, s => (acc, s)
            | l :: rest, acc, s =>
              match cloneIfNecessary s l with
              | (.val l2, s2) => cloneAll rest (acc ++ [l2]) s2
              | (_, s2) => cloneAll rest acc s2
          let (ls2, s2) := cloneAll ls [] s1
          allocVal s2 (.vec ls2) true
       | r => r)
    | .evalStr nids n =>
      -- `eval("<text>")`: a call of the engine's eval function; the text is parsed afresh (its nodes have no lookup hints) and
      -- evaluated in the CURRENT scope; an eval_error inside leaves as a boxed exception value (`internal_eval`)
      withFnCall (fun s0 =>
        match run ρ f (.node n) (s0.dropHints nids) with
        | (.ret l, s1) => (.val l, s1)
        | (.thrown (.evalErr _), s1) => (.thrown (.boxed (s1.allocV (.exc .evalError) true false).1), (s1.allocV (.exc .evalError) true false).2)
        | r => r) s
    | .index a i =>
      withFnCall (fun s0 =>
        bnd (run ρ f (.node a) s0) (fun la s1 =>
          bnd (run ρ f (.node i) s1) (fun li s2 =>
            let s3 := s2.saveParams [la, li]
            match s3.val la, s3.val li with
            | .vec ls, .int k =>
                (match (if k < 0 then none else ls[k.toNat]?) with
                 | some l => (.val l, s3)
                 | none => (.thrown (.cpp .outOfRange), s3))
            | _, _ => (.thrown (.evalErr .dispatch), s3)))) s

/-- (stated here so that the equation lemmas of `run` are generated once, in this module, and shared by every file that unfolds it) -/
theorem run_zero (ρ : List FunDef) (j : Job) (s : St) : run ρ 0 j s = (.oof, s) := by simp only [run]

end ChaiVerif.Chai
