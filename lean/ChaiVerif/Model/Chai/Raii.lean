/-
The RAII discipline of the evaluator, as the MODEL has it: which guard (`withScope` = Scope_Push_Pop, `withFnCall` = Function_Push_Pop,
`withStack` = Stack_Push_Pop) `run` (Model/Chai/Eval.lean) wraps around which construct, written down per C++ class so that it can be
compared with the census regenerated from the source (Gen/Raii.lean, extract/e_raii.py).  Props/C09 proves the two tables equal.
-/
import ChaiVerif.Model.Chai.State
namespace ChaiVerif.Chai

/-- classes the evaluator model covers: the guards `run` uses for the corresponding job / node, in the order of the C++ text -/
def modelGuards : List (String × List String) := [
  ("AST_Node_Impl", ["Scope_Push_Pop"]),                   -- get_scoped_bool_condition: `withScope (run c)` in whileL / forL
  ("Array_Call_AST_Node", ["Function_Push_Pop"]),          -- .index: withFnCall
  ("Assign_Decl_AST_Node", ["Function_Push_Pop"]),         -- .assignDecl: withFnCall (fix 6e1a52e)
  ("Binary_Operator_AST_Node", ["Function_Push_Pop"]),     -- .bin: withFnCall on the dispatch path
  ("Block_AST_Node", ["Scope_Push_Pop"]),                  -- .block: withScope
  ("Break_AST_Node", []),
  ("Constant_AST_Node", []),
  ("Continue_AST_Node", []),
  ("Def_AST_Node", []),
  ("Equation_AST_Node", ["Function_Push_Pop"]),            -- .eq: withFnCall
  ("Fold_Right_Binary_Operator_AST_Node", ["Function_Push_Pop"]),
  ("For_AST_Node", ["Scope_Push_Pop"]),                    -- .forN: withScope
  ("Fun_Call_AST_Node", ["Function_Push_Pop"]),            -- .call: withFnCall
  ("Id_AST_Node", []),
  ("If_AST_Node", []),                                     -- .ifN: no scope of its own
  ("Inline_Array_AST_Node", []),
  ("Lambda_AST_Node", []),
  ("Logical_And_AST_Node", []),
  ("Logical_Or_AST_Node", []),
  ("Noop_AST_Node", []),
  ("Prefix_AST_Node", ["Function_Push_Pop"]),              -- .pre: withFnCall on the dispatch path
  ("Reference_AST_Node", []),
  ("Return_AST_Node", []),
  ("Scopeless_Block_AST_Node", []),
  ("Try_AST_Node", ["Scope_Push_Pop", "Scope_Push_Pop"]),  -- .tryN: withScope; each catch clause examined in its own withScope
  ("Unused_Return_Fun_Call_AST_Node", []),                 -- derives from Fun_Call_AST_Node<false>
  ("Var_Decl_AST_Node", []),
  ("While_AST_Node", ["Scope_Push_Pop"]),                  -- .whileN: withScope
  ("eval_function", ["Stack_Push_Pop"]),                   -- callFn / guardFn: withStack
  ("optimizer::For_Loop", ["Scope_Push_Pop"])              -- .cfor: withScope
]

/-- classes outside the model (classes, switch, ranged for, maps, ranges, member access): pinned as they are today -/
def unmodelledGuards : List (String × List String) := [
  ("Arg_AST_Node", []), ("Arg_List_AST_Node", []), ("Attr_Decl_AST_Node", []), ("Case_AST_Node", ["Scope_Push_Pop"]), ("Catch_AST_Node", []),
  ("Class_AST_Node", ["Scope_Push_Pop"]), ("Compiled_AST_Node", []), ("Default_AST_Node", ["Scope_Push_Pop"]), ("Dot_Access_AST_Node", ["Function_Push_Pop"]),
  ("File_AST_Node", []), ("Finally_AST_Node", []), ("Global_Decl_AST_Node", []), ("Inline_Map_AST_Node", []), ("Inline_Range_AST_Node", []),
  ("Map_Pair_AST_Node", []), ("Method_AST_Node", []), ("Ranged_For_AST_Node", ["Scope_Push_Pop", "Scope_Push_Pop"]), ("Switch_AST_Node", ["Scope_Push_Pop"]),
  ("Value_Range_AST_Node", [])
]

/-! ### the push / pop primitives themselves

`extract/e_raii.py` reads, for every DEFINITION of a push / pop primitive in dispatchkit.hpp, what the body does to the Stack_Holder, as a
list of effect names in textual order (`Gen.raiiPrimDefs`).  Here each effect name is given its meaning on the model state, so that
"the body of `new_scope(Stack_Holder&)` is `St.pushScope`" is a statement the kernel checks (Props/C09 `primitives_are_the_model's`). -/

/-- what an effect name read off the source does to the model state (an unknown name: nothing) -/
def applyEffect (e : String) (s : St) : St :=
  if e = "push_scope_data" ∨ e = "emplace_scope" then { s with stacks := modifyLast (· ++ [[]]) s.stacks }
  else if e = "push_params" ∨ e = "emplace_params" then { s with params := s.params ++ [[]] }
  else if e = "pop_params" then { s with params := s.params.dropLast }
  else if e = "pop_scope_data" then { s with stacks := modifyLast List.dropLast s.stacks }
  else if e = "push_stack" ∨ e = "emplace_stack" then { s with stacks := s.stacks ++ [[[]]] }
  else if e = "pop_stack" then { s with stacks := s.stacks.dropLast }
  else if e = "inc_depth" then { s with depth := s.depth + 1 }
  else if e = "dec_depth" then { s with depth := s.depth - 1 }
  else if e = "clear_params" then { s with params := if s.depth == 0 then modifyLast (fun _ => []) s.params else s.params }   -- `if (call_depth == 0) call_params.back().clear()`
  else s

def applyEffects (es : List String) (s : St) : St := es.foldl (fun s e => applyEffect e s) s

/-- the model's primitive for a C++ primitive (or Stack_Holder helper) name -/
def modelPrimitive (name : String) : Option (St → St) :=
  if name = "new_scope" then some St.pushScope
  else if name = "pop_scope" then some St.popScope
  else if name = "new_stack" then some St.pushStack
  else if name = "pop_stack" then some St.popStack
  else if name = "new_function_call" then some St.enterCall
  else if name = "pop_function_call" then some St.leaveCall
  else if name = "push_stack_data" then some (fun s => { s with stacks := modifyLast (· ++ [[]]) s.stacks })
  else if name = "push_stack" then some St.pushStack
  else if name = "push_call_params" then some (fun s => { s with params := s.params ++ [[]] })
  else none

def guardsOf (tbl : List (String × List String)) (name : String) : Option (List String) := tbl.lookup name

end ChaiVerif.Chai
