/-
M-CHAI, optimizer — the passes of `chaiscript_optimizer.hpp` over the model's syntax, in the order of
`Optimizer_Default`:

    Partial_Fold, Unused_Return, Constant_Fold, If, Return, Dead_Code, Block, For_Loop, Assign_Decl

Each pass is a one-level rewrite of a node whose children are already final (the parser calls the
pipeline from `build_match`, i.e. bottom-up).  Constant folding creates new literals, so the passes
thread the literal table `Lits` (the values of the `Constant` nodes; the heap the program starts with).

`Return` is modelled as what the code does today: `Def_AST_Node`/`Lambda_AST_Node` move their body out
of `children` in their constructors, so when the pass looks at `p->children.back()` it sees the
parameter list, never the body, and rewrites nothing.  (The structural correspondence check compares
the trees the real parser builds with `optimize`, so this is checked, not assumed.)
-/
import ChaiVerif.Model.Chai.Eval
namespace ChaiVerif.Chai

abbrev Lits := List Val

def litOf (L : Lits) (l : Loc) : Val := L.getD l .undef

/-! ### the passes (one level) -/

def isConstNode : Node → Bool
  | .const _ => true
  | _ => false

def isIntLit (L : Lits) (c : Loc) : Bool :=
  match litOf L c with
  | .int _ => true
  | _ => false

/-- `Partial_Fold`: `a op <arithmetic constant>` with `a` not a constant -/
def partialFold (L : Lits) : Node → Node
  | .bin op a (.const c) => if !isConstNode a && isIntLit L c then .foldR op a c else .bin op a (.const c)
  | n => n

def markUnused : Node → Node
  | .call false f as => .call true f as
  | n => n

/-- all but the last element through `g` -/
def mapInit (g : Node → Node) : List Node → List Node
  | [] => []
  | [x] => [x]
  | x :: rest => g x :: mapInit g rest

/-- `Unused_Return` -/
def unusedReturn : Node → Node
  | .block xs => .block (mapInit markUnused xs)
  | .scopeless xs => .scopeless (mapInit markUnused xs)
  | .whileN c b =>
    (match b with
     | .block ys => .whileN c (.block (ys.map markUnused))
     | .scopeless ys => .whileN c (.scopeless (ys.map markUnused))
     | _ => .whileN c b)
  | .forN i c s b =>
    (match b with
     | .block ys => .forN i c s (.block (ys.map markUnused))
     | .scopeless ys => .forN i c s (.scopeless (ys.map markUnused))
     | _ => .forN i c s b)
  | n => n

/-- the value a constant fold computes for `a op b` on two literals; `none` = not folded
    (`Boxed_Number::do_oper` threw: division by zero) -/
def foldBin (op : BinOp) (a b : Val) : Option Val :=
  match a, b with
  | .int x, .int y => intBin op x y
  | _, _ => none

/-- `Constant_Fold` -/
def constantFold (L : Lits) (n : Node) : Node × Lits :=
  match n with
  | .pre .neg (.const c) =>
    (match litOf L c with
     | .int i => (.const L.length, L ++ [.int (-i)])
     | _ => (n, L))
  | .pre .not (.const c) =>
    (match litOf L c with
     | .bool b => (.const L.length, L ++ [.bool (!b)])
     | _ => (n, L))
  | .and (.const a) (.const b) =>
    (match litOf L a, litOf L b with
     | .bool x, .bool y => (.const L.length, L ++ [.bool (x && y)])
     | _, _ => (n, L))
  | .or (.const a) (.const b) =>
    (match litOf L a, litOf L b with
     | .bool x, .bool y => (.const L.length, L ++ [.bool (x || y)])
     | _, _ => (n, L))
  | .bin op (.const a) (.const b) =>
    (match foldBin op (litOf L a) (litOf L b) with
     | some v => (.const L.length, L ++ [v])
     | none => (n, L))
  | _ => (n, L)

/-- `If`: a constant boolean condition selects its branch at parse time -/
def ifPass (L : Lits) : Node → Node
  | .ifN (.const c) t e =>
    (match litOf L c with
     | .bool true => t
     | .bool false => e
     | _ => .ifN (.const c) t e)
  | n => n

/-- `Return`: see the header — it never fires on this code base -/
def returnPass (n : Node) : Node := n

def isDead : Node → Bool
  | .const _ => true
  | .noop => true
  | _ => false

/-- drop constants and no-ops that are not the last statement -/
def keepers : List Node → List Node
  | [] => []
  | [x] => [x]
  | x :: rest => if isDead x then keepers rest else x :: keepers rest

/-- `Dead_Code` -/
def deadCode : Node → Node
  | .block xs => .block (keepers xs)
  | n => n

/-! `contains_var_decl_in_scope` -/
mutual
def hasDecl : Node → Bool
  | .varDecl _ => true
  | .refDecl _ => true
  | .assignDecl _ _ => true
  | .eq _ l r => subDecl l || subDecl r
  | .bin _ a b => subDecl a || subDecl b
  | .foldR _ a _ => subDecl a
  | .pre _ a => subDecl a
  | .and a b => subDecl a || subDecl b
  | .or a b => subDecl a || subDecl b
  | .block xs => anyDecl xs
  | .scopeless xs => anyDecl xs
  | .ifN c t e => subDecl c || subDecl t || subDecl e
  | .whileN c b => subDecl c || subDecl b
  | .forN i c s b => subDecl i || subDecl c || subDecl s || subDecl b
  | .cfor _ _ _ _ => false
  | .ret none => false
  | .ret (some e) => subDecl e
  | .call _ f as => subDecl f || anyDecl as
  | .tryN b cs fin => subDecl b || anyCatchDecl cs || (match fin with | none => false | some fb => subDecl fb)
  | .inlineVec xs => anyDecl xs
  | .index a i => subDecl a || subDecl i
  | _ => false
/-- a child is looked into unless it opens its own scope (`Block`, `For`) -/
def subDecl : Node → Bool
  | .block _ => false
  | .forN _ _ _ _ => false
  | .cfor _ _ _ _ => false
  | .varDecl _ => true
  | .refDecl _ => true
  | .assignDecl _ _ => true
  | .eq _ l r => subDecl l || subDecl r
  | .bin _ a b => subDecl a || subDecl b
  | .foldR _ a _ => subDecl a
  | .pre _ a => subDecl a
  | .and a b => subDecl a || subDecl b
  | .or a b => subDecl a || subDecl b
  | .scopeless xs => anyDecl xs
  | .ifN c t e => subDecl c || subDecl t || subDecl e
  | .whileN c b => subDecl c || subDecl b
  | .ret none => false
  | .ret (some e) => subDecl e
  | .call _ f as => subDecl f || anyDecl as
  | .tryN b cs fin => subDecl b || anyCatchDecl cs || (match fin with | none => false | some fb => subDecl fb)
  | .inlineVec xs => anyDecl xs
  | .index a i => subDecl a || subDecl i
  | _ => false
def anyDecl : List Node → Bool
  | [] => false
  | x :: xs => subDecl x || anyDecl xs
def anyCatchDecl : List (Option (Name × Option TyTag) × Node) → Bool
  | [] => false
  | (_, b) :: cs => subDecl b || anyCatchDecl cs
end

/-- `Block`: a block that declares nothing needs no scope -/
def blockPass : Node → Node
  | .block xs =>
    if hasDecl (.block xs) then .block xs
    else match xs with
      | [x] => x
      | _ => .scopeless xs
  | n => n

def idNamed (x : Name) : Node → Bool
  | .id _ y => x == y
  | _ => false

/-- the constant bound of a condition `x < <constant>` (plain or already partially folded) -/
def condBound (x : Name) : Node → Option Loc
  | .foldR .lt a h => if idNamed x a then some h else none
  | .bin .lt a (.const h) => if idNamed x a then some h else none
  | _ => none

/-- `For_Loop`: `for (var i = <int>; i < <int>; ++i)` becomes a native counting loop -/
def forLoop (L : Lits) : Node → Node
  | .forN (.assignDecl x (.const lo)) c (.pre .inc st) b =>
    (match condBound x c, idNamed x st, litOf L lo with
     | some h, true, .int l =>
       (match litOf L h with
        | .int u => .cfor x l u b
        | _ => .forN (.assignDecl x (.const lo)) c (.pre .inc st) b)
     | _, _, _ => .forN (.assignDecl x (.const lo)) c (.pre .inc st) b)
  | n => n

/-- `Assign_Decl`: `var x = e` -/
def assignDeclPass : Node → Node
  | .eq .assign (.varDecl x) r => .assignDecl x r
  | n => n

/-- the pipeline of `Optimizer_Default`, applied to one node -/
def optNode (L : Lits) (n : Node) : Node × Lits :=
  let n1 := unusedReturn (partialFold L n)
  let (n2, L2) := constantFold L n1
  (assignDeclPass (forLoop L2 (blockPass (deadCode (returnPass (ifPass L2 n2))))), L2)

/-! ### bottom-up traversal -/
mutual
def optimize (L : Lits) : Node → Node × Lits
  | .assignDecl x e => let (e', L1) := optimize L e; optNode L1 (.assignDecl x e')
  | .eq op l r => let (l', L1) := optimize L l; let (r', L2) := optimize L1 r; optNode L2 (.eq op l' r')
  | .bin op a b => let (a', L1) := optimize L a; let (b', L2) := optimize L1 b; optNode L2 (.bin op a' b')
  | .foldR op a c => let (a', L1) := optimize L a; optNode L1 (.foldR op a' c)
  | .pre op a => let (a', L1) := optimize L a; optNode L1 (.pre op a')
  | .and a b => let (a', L1) := optimize L a; let (b', L2) := optimize L1 b; optNode L2 (.and a' b')
  | .or a b => let (a', L1) := optimize L a; let (b', L2) := optimize L1 b; optNode L2 (.or a' b')
  | .block xs => let (xs', L1) := optimizeList L xs; optNode L1 (.block xs')
  | .scopeless xs => let (xs', L1) := optimizeList L xs; optNode L1 (.scopeless xs')
  | .ifN c t e =>
    let (c', L1) := optimize L c; let (t', L2) := optimize L1 t; let (e', L3) := optimize L2 e
    optNode L3 (.ifN c' t' e')
  | .whileN c b => let (c', L1) := optimize L c; let (b', L2) := optimize L1 b; optNode L2 (.whileN c' b')
  | .forN i c s b =>
    let (i', L1) := optimize L i; let (c', L2) := optimize L1 c; let (s', L3) := optimize L2 s; let (b', L4) := optimize L3 b
    optNode L4 (.forN i' c' s' b')
  | .cfor x lo hi b => let (b', L1) := optimize L b; optNode L1 (.cfor x lo hi b')
  | .ret none => optNode L (.ret none)
  | .ret (some e) => let (e', L1) := optimize L e; optNode L1 (.ret (some e'))
  | .call u f as => let (f', L1) := optimize L f; let (as', L2) := optimizeList L1 as; optNode L2 (.call u f' as')
  | .tryN b cs fin =>
    let (b', L1) := optimize L b
    let (cs', L2) := optimizeCatches L1 cs
    (match fin with
     | none => optNode L2 (.tryN b' cs' none)
     | some fb => let (fb', L3) := optimize L2 fb; optNode L3 (.tryN b' cs' (some fb')))
  | .inlineVec xs => let (xs', L1) := optimizeList L xs; optNode L1 (.inlineVec xs')
  | .index a i => let (a', L1) := optimize L a; let (i', L2) := optimize L1 i; optNode L2 (.index a' i')
  | .evalStr nids n => let (n', L1) := optimize L n; (.evalStr nids n', L1)      -- the text goes through the same parser when it is evaluated
  | n => optNode L n
def optimizeList (L : Lits) : List Node → List Node × Lits
  | [] => ([], L)
  | x :: xs => let (x', L1) := optimize L x; let (xs', L2) := optimizeList L1 xs; (x' :: xs', L2)
def optimizeCatches (L : Lits) : List (Option (Name × Option TyTag) × Node) → List (Option (Name × Option TyTag) × Node) × Lits
  | [] => ([], L)
  | (p, b) :: cs => let (b', L1) := optimize L b; let (cs', L2) := optimizeCatches L1 cs; ((p, b') :: cs', L2)
end

/-- function bodies (and guards) are optimized like any other node -/
def optimizeFuns (L : Lits) : List FunDef → List FunDef × Lits
  | [] => ([], L)
  | fd :: rest =>
    let (b', L1) := optimize L fd.body
    let (g', L2) := match fd.guard with
      | none => (none, L1)
      | some g => let (g2, L') := optimize L1 g; (some g2, L')
    let (rest', L3) := optimizeFuns L2 rest
    ({ fd with body := b', guard := g' } :: rest', L3)

/-- a whole program: top-level statements (the `File` node is not a block: no pass touches the list) and the function table -/
def optimizeProgram (L : Lits) (prog : List Node) (funs : List FunDef) : List Node × List FunDef × Lits :=
  let (prog', L1) := optimizeList L prog
  let (funs', L2) := optimizeFuns L1 funs
  (prog', funs', L2)

end ChaiVerif.Chai
