/- Types shared by the generated literal tables (Gen/Lit.lean) and the literal models. -/
namespace ChaiVerif

inductive LitType | int | uint | long | ulong | llong | ullong
deriving DecidableEq, Repr, Inhabited

/-- One `if`/`else if` of the typing ladder in `buildInt`. -/
structure LadderRow where
  notU      : Bool      -- `!unsigned_`
  uOrNonDec : Bool      -- `(unsigned_ || base != 10)`
  notL      : Bool      -- `!long_`
  notLL     : Bool      -- `!longlong_`
  range     : LitType   -- `u >= numeric_limits<T>::min() && u <= numeric_limits<T>::max()`
  ty        : LitType   -- `static_cast<T>(u)`
deriving DecidableEq, Repr, Inhabited

inductive TooBig | clampLLongMax | error
deriving DecidableEq, Repr, Inhabited
inductive EmptyExp | error | returnFalse | unknown
deriving DecidableEq, Repr, Inhabited
inductive Flush | finishReports | destructorSwallows | destructor | none | unknown
deriving DecidableEq, Repr, Inhabited
inductive HexEmpty | error | ignored
deriving DecidableEq, Repr, Inhabited
inductive UniRead | stoiBeforeLengthCheck | stoulGuarded
deriving DecidableEq, Repr, Inhabited
inductive Surrogate | none | only4 | all
deriving DecidableEq, Repr, Inhabited

end ChaiVerif
