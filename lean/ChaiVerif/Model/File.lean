/-
M-FILE — `skip_bom` / `load_file` over a stream with a fail bit (the three iostream rules the code
relies on: a short read sets fail; seekg on a failed stream does nothing; read on a failed stream
reads nothing), and `use()` over an abstract file system and evaluator.
-/
namespace ChaiVerif

structure Stream where
  bytes : List Nat
  pos   : Nat
  fail  : Bool
deriving DecidableEq, Repr, Inhabited

/-- `infile.read(buf, n)`: the bytes actually stored into the buffer. -/
def Stream.read (s : Stream) (n : Nat) : Stream × List Nat :=
  if s.fail then (s, [])
  else
    let avail := s.bytes.drop s.pos
    if n ≤ avail.length then ({ s with pos := s.pos + n }, avail.take n)
    else ({ s with pos := s.bytes.length, fail := true }, avail)

def Stream.seekg (s : Stream) (p : Nat) : Stream := if s.fail then s else { s with pos := p }
def Stream.clear (s : Stream) : Stream := { s with fail := false }

/-- Store `got` at the start of a zero-filled buffer of length `n`. -/
def fillBuf (n : Nat) (got : List Nat) : List Nat := got ++ List.replicate (n - got.length) 0

/-- `skip_bom`; `clearFirst` = whether `infile.clear()` precedes the final `seekg(0)`. -/
def skipBom (clearFirst : Bool) (s : Stream) : Bool × Stream :=
  let (s1, got) := s.read 3
  if fillBuf 3 got = [239, 187, 191] then (true, s1.seekg 3)
  else (false, (if clearFirst then s1.clear else s1).seekg 0)

/-- `load_file` once the file is open (size taken with `ios::ate`, then `seekg(0)`). -/
def loadFile (clearFirst : Bool) (bytes : List Nat) : List Nat :=
  let s0 : Stream := ⟨bytes, 0, false⟩
  let (bom, s1) := skipBom clearFirst s0
  let size := if bom then bytes.length - 3 else bytes.length
  if size = 0 then []
  else fillBuf size (s1.read size).2

/-- The specification: the file's bytes minus one leading UTF-8 byte-order mark. -/
def stripBom : List Nat → List Nat
  | 239 :: 187 :: 191 :: rest => rest
  | bs => bs

/-! ### use() -/

/-- What evaluating a file's content does (abstract): succeed, raise an evaluation error, or hit a
    nested `use`/`eval_file` of a missing file (whose name differs from the path being used). -/
inductive EvalOut | ok | evalError | nestedNotFound
deriving DecidableEq, Repr, Inhabited

/-- The world `use()` sees: which paths exist and what evaluating each does. -/
structure World where
  exists_ : List Nat → Bool              -- path (as bytes/ids) exists
  eval    : List Nat → EvalOut

inductive UseOut | done | evalError | nestedNotFound | notFound
deriving DecidableEq, Repr, Inhabited

structure UseState where
  used  : List (List Nat)      -- m_used_files
  evals : List (List Nat)      -- log: paths evaluated so far, oldest first
deriving DecidableEq, Repr, Inhabited

/-- `use(f)` over the remaining search paths. -/
def useFile (w : World) (f : List Nat) : List (List Nat) → UseState → UseOut × UseState
  | [], st => (.notFound, st)
  | p :: ps, st =>
    let path := p ++ f
    if st.used.contains path then (.done, st)
    else if w.exists_ path then
      let st' := { st with evals := st.evals ++ [path] }
      match w.eval path with
      | .ok => (.done, { st' with used := path :: st'.used })
      | .evalError => (.evalError, st')
      | .nestedNotFound => (.nestedNotFound, st')
    else useFile w f ps st

end ChaiVerif
