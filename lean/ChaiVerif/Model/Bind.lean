/-
M-BIND: `Bound_Function::build_param_list` (proxy_functions.hpp) — how `bind(f, a, _, b)` merges its stored arguments with the arguments
of a call.  `bindLoop` transliterates the C++ loops (two cursors, an inner loop copying the stored values in front of the next
placeholder); `fill` is the specification; Props/C06 proves them equal and states what `fill` guarantees.
-/
namespace ChaiVerif.Bind

/-- the specification: stored values stay where they are, placeholders take the call's arguments in order, arguments left over are appended,
    a placeholder left without an argument is dropped (the call then fails the arity check of the bound function) -/
def fill {α : Type} : List (Option α) → List α → List α
  | [], ps => ps
  | some b :: bs, ps => b :: fill bs ps
  | none :: bs, p :: ps => p :: fill bs ps
  | none :: bs, [] => fill bs []

/-- the inner loop: copy the stored values up to the next placeholder (or the end) -/
def copyBound {α : Type} : List (Option α) → List α → List (Option α) × List α
  | some b :: bs, acc => copyBound bs (acc ++ [b])
  | bs, acc => (bs, acc)

/-- one pass of the outer loop of `build_param_list` -/
def bindStep {α : Type} (bs : List (Option α)) (ps : List α) (acc : List α) : List (Option α) × List α × List α :=
  let (bs1, acc1) := copyBound bs acc
  let (ps2, acc2) := match ps with
    | p :: rest => (rest, acc1 ++ [p])
    | [] => ([], acc1)
  let bs3 := match bs1 with
    | none :: rest => rest
    | other => other
  (bs3, ps2, acc2)

/-- `while (!(parg == params.end() && barg == m_args.end())) { … }` -/
def bindLoop {α : Type} : Nat → List (Option α) → List α → List α → List α
  | 0, _, _, acc => acc
  | fuel + 1, bs, ps, acc =>
    if bs.isEmpty && ps.isEmpty then acc
    else
      let (bs', ps', acc') := bindStep bs ps acc
      bindLoop fuel bs' ps' acc'

/-- the call as a whole: enough passes for any input (each pass consumes a stored argument or a call argument) -/
def buildParamList {α : Type} (bs : List (Option α)) (ps : List α) : List α := bindLoop (bs.length + ps.length + 1) bs ps []

end ChaiVerif.Bind
