/-
M-STL — the registered Vector / string / Map / range operations as guarded steps over lists.
Which guard an operation has is read from the generated census (`Gen/Stl.lean`); an operation
whose `std::` precondition is violated *and* is not guarded yields `ub` (undefined behaviour).
-/
import ChaiVerif.Model.StlTypes
namespace ChaiVerif

inductive StlErr | rangeError | outOfRange | lengthError
deriving DecidableEq, Repr, Inhabited

/-- What a step hands back to the script. -/
inductive StlOut
  | unit | val (v : Int) | size (n : Nat) | bool (b : Bool) | absent
deriving DecidableEq, Repr, Inhabited

inductive SRes (σ : Type)
  | ok (s : σ) (out : StlOut)
  | err (e : StlErr)         -- an exception; the container is unchanged
  | ub                       -- the std:: precondition is violated and nothing checks it
deriving Repr, Inhabited

instance {σ} [DecidableEq σ] : DecidableEq (SRes σ) := by
  intro a b; cases a <;> cases b <;> simp <;> exact inferInstance

/-- Guards read from the census. -/
structure StlCfg where
  frontG : Bool
  backG : Bool
  popBackG : Bool
  indexAt : Bool
  insertAt : PosGuard
  eraseAt : PosGuard
  rPopFront : Bool
  rPopBack : Bool
  rFront : Bool
  rBack : Bool
deriving DecidableEq, Repr, Inhabited

/-- Every census row for (container, owner, member) has a guard (and there is at least one row). -/
def guarded (rows : List StlRow) (c : StlContainer) (o : StlOwner) (m : StlMember) : Bool :=
  let rs := rows.filter (fun r => r.container == c && r.owner == o && r.member == m)
  !rs.isEmpty && rs.all (fun r => r.guard != .none)

inductive VOp
  | index (i : Int) | front | back | pushBack (v : Int) | popBack
  | insertAt (pos : Int) (v : Int) | eraseAt (pos : Int) | resize (n : Int) (v : Int) | clear | size | empty
deriving DecidableEq, Repr, Inhabited

def posOk (g : PosGuard) (pos : Int) (len : Nat) (inclusiveEnd : Bool) : Option Bool :=
  -- some true: passes the guard; some false: the guard throws; none: no guard
  match g with
  | .posLe => some (!(pos < 0 || (len : Int) < pos))
  | .posLt => some (!(pos < 0 || (len : Int) ≤ pos))
  | .none => none
  | .other => if inclusiveEnd then none else none

def vecStep (cfg : StlCfg) (xs : List Int) : VOp → SRes (List Int)
  | .index i =>
      if 0 ≤ i ∧ i < xs.length then .ok xs (.val (xs.getD i.toNat 0))
      else if cfg.indexAt then .err .outOfRange else .ub
  | .front => match xs with
      | x :: _ => .ok xs (.val x)
      | [] => if cfg.frontG then .err .rangeError else .ub
  | .back => match xs.getLast? with
      | some x => .ok xs (.val x)
      | none => if cfg.backG then .err .rangeError else .ub
  | .pushBack v => .ok (xs ++ [v]) .unit
  | .popBack => if xs.isEmpty then (if cfg.popBackG then .err .rangeError else .ub) else .ok xs.dropLast .unit
  | .insertAt pos v =>
      (match posOk cfg.insertAt pos xs.length true with
       | some true => if 0 ≤ pos ∧ pos ≤ xs.length then .ok (xs.insertIdx pos.toNat v) .unit else .ub
       | some false => .err .rangeError
       | none => if 0 ≤ pos ∧ pos ≤ xs.length then .ok (xs.insertIdx pos.toNat v) .unit else .ub)
  | .eraseAt pos =>
      (match posOk cfg.eraseAt pos xs.length false with
       | some true => if 0 ≤ pos ∧ pos < xs.length then .ok (xs.eraseIdx pos.toNat) .unit else .ub
       | some false => .err .rangeError
       | none => if 0 ≤ pos ∧ pos < xs.length then .ok (xs.eraseIdx pos.toNat) .unit else .ub)
  | .resize n v =>
      if n < 0 then .err .lengthError     -- int -> size_type wraps to a huge count: std::length_error
      else .ok (xs.take n.toNat ++ List.replicate (n.toNat - xs.length) v) .unit
  | .clear => .ok [] .unit
  | .size => .ok xs (.size xs.length)
  | .empty => .ok xs (.bool xs.isEmpty)

/-- A run of operations: exceptions leave the container as it was; `ub` stops everything. -/
def vecRun (cfg : StlCfg) : List Int → List VOp → Option (List Int)
  | xs, [] => some xs
  | xs, op :: ops =>
    match vecStep cfg xs op with
    | .ok xs' _ => vecRun cfg xs' ops
    | .err _ => vecRun cfg xs ops
    | .ub => none

/-- `std::string::substr(pos, len)` with `size_t` arguments converted from script ints
    (negative wraps to huge): `none` = std::out_of_range. -/
def strSub (xs : List Int) (pos len : Int) : Option (List Int) :=
  if pos < 0 ∨ pos > xs.length then none
  else some (if len < 0 then xs.drop pos.toNat else (xs.drop pos.toNat).take len.toNat)

/-! ### the string find family (`size_t` results; `npos` = 2^64 - 1) -/

def npos : Nat := 18446744073709551615

def matchAt (s f : List Int) (i : Nat) : Bool := (s.drop i).take f.length == f && i + f.length ≤ s.length

/-- smallest index in `[lo, hi]` satisfying `p` (searching upward) -/
def firstIdx (p : Nat → Bool) (lo hi : Nat) : Nat :=
  match ((List.range (hi + 1 - lo)).map (· + lo)).find? p with
  | some i => i
  | none => npos

/-- largest index in `[0, hi]` satisfying `p` (searching downward) -/
def lastIdx (p : Nat → Bool) (hi : Nat) : Nat :=
  match ((List.range (hi + 1)).reverse).find? p with
  | some i => i
  | none => npos

def strFind (s f : List Int) (pos : Nat) : Nat :=
  if pos > s.length then npos else firstIdx (matchAt s f) pos s.length
def strRfind (s f : List Int) (pos : Nat) : Nat :=
  if f.length > s.length then npos else lastIdx (matchAt s f) (min pos (s.length - f.length))
def strFirstOf (s set : List Int) (pos : Nat) (neg : Bool) : Nat :=
  if s.isEmpty || pos ≥ s.length then npos else firstIdx (fun i => (set.contains (s.getD i 0)) != neg) pos (s.length - 1)
def strLastOf (s set : List Int) (pos : Nat) (neg : Bool) : Nat :=
  if s.isEmpty then npos else lastIdx (fun i => (set.contains (s.getD i 0)) != neg) (min pos (s.length - 1))

/-- `kind`: 0 find, 1 rfind, 2 find_first_of, 3 find_last_of, 4 find_first_not_of, 5 find_last_not_of -/
def strSearch (kind : Nat) (s f : List Int) (pos : Nat) : Nat :=
  match kind with
  | 0 => strFind s f pos | 1 => strRfind s f pos | 2 => strFirstOf s f pos false | 3 => strLastOf s f pos false
  | 4 => strFirstOf s f pos true | _ => strLastOf s f pos true

/-- the one-argument prelude wrappers pass `size_t(0)` (forward searches) or `size_t(-1)` (backward searches) -/
def strSearchDefaultPos (kind : Nat) : Nat := if kind == 1 || kind == 3 || kind == 5 then npos else 0

/-! ### Bidir_Range over an unmodified container -/

structure Rng where
  b : Nat
  e : Nat
deriving DecidableEq, Repr, Inhabited

inductive ROp | empty | popFront | popBack | front | back
deriving DecidableEq, Repr, Inhabited

/-- `items` is the (unchanged) container; a read yields the index it touches. -/
inductive RRes
  | ok (r : Rng) (readIdx : Option Nat) (isEmpty : Option Bool)
  | err
  | ub
deriving DecidableEq, Repr, Inhabited

def rngStep (cfg : StlCfg) (r : Rng) : ROp → RRes
  | .empty => .ok r none (some (r.b == r.e))
  | .popFront => if r.b == r.e then (if cfg.rPopFront then .err else .ub) else .ok ⟨r.b + 1, r.e⟩ none none
  | .popBack => if r.b == r.e then (if cfg.rPopBack then .err else .ub) else .ok ⟨r.b, r.e - 1⟩ none none
  | .front => if r.b == r.e then (if cfg.rFront then .err else .ub) else .ok r (some r.b) none
  | .back => if r.b == r.e then (if cfg.rBack then .err else .ub) else .ok r (some (r.e - 1)) none

/-! ### Map<string, Boxed_Value> as a key-sorted association list (keys are Nats here) -/

inductive MOp | index (k : Nat) | at (k : Nat) | set (k : Nat) (v : Int) | count (k : Nat) | erase (k : Nat) | size | empty | clear
deriving DecidableEq, Repr, Inhabited

def mapInsert (k : Nat) (v : Option Int) : List (Nat × Option Int) → List (Nat × Option Int)
  | [] => [(k, v)]
  | (k', v') :: rest => if k < k' then (k, v) :: (k', v') :: rest else if k = k' then (k, v) :: rest else (k', v') :: mapInsert k v rest

def mapStep (m : List (Nat × Option Int)) : MOp → SRes (List (Nat × Option Int))
  | .index k => match m.lookup k with
      | some (some v) => .ok m (.val v)
      | some none => .ok m .absent
      | none => .ok (mapInsert k none m) .absent          -- operator[] default-constructs the element
  | .at k => match m.lookup k with
      | some (some v) => .ok m (.val v)
      | some none => .ok m .absent
      | none => .err .outOfRange
  | .set k v => .ok (mapInsert k (some v) m) .unit
  | .count k => .ok m (.size (if (m.lookup k).isSome then 1 else 0))
  | .erase k => .ok (m.filter (fun p => p.1 != k)) (.size (if (m.lookup k).isSome then 1 else 0))
  | .size => .ok m (.size m.length)
  | .empty => .ok m (.bool m.isEmpty)
  | .clear => .ok [] .unit

end ChaiVerif
