/-
M-SYM — `ChaiScript_Parser::Symbol(t_s, t_disallow_prevention)` after its SkipWS: `Symbol_` (exact match of the symbol's bytes) and the
"ignore substring matches" look-ahead, which is what decides how operators written without blanks are split (the layer between the bytes
and the tokens of M-PREC):

  if (matched && has_more && !t_disallow_prevention && symbol_alphabet(next))
    if (next != '=' && is_operator(matched) && !is_operator(matched + next)) keep  else  { rewind; fail }

`isOp` = membership in one of the arrays m_0 … m_k (Operator_Matches::is_match); the alphabet and the arrays are regenerated (Gen/Prec).
-/
namespace ChaiVerif.Sym

/-- a symbol's bytes as the little-endian base-256 number Gen/Prec uses -/
def symId : List Nat → Nat
  | [] => 0
  | c :: cs => c + 256 * symId cs

structure Cfg where
  alpha : List Nat            -- detail::symbol_alphabet
  ops : List Nat              -- every symbol of m_0 … m_k, as numbers

def isOp (c : Cfg) (bs : List Nat) : Bool := c.ops.contains (symId bs)

/-- `Symbol(sym, disallow)` at offset `i` of `s` (white space already skipped): the offset after the symbol, or `none` -/
def symbolAt (c : Cfg) (s : List Nat) (i : Nat) (sym : List Nat) (disallow : Bool) : Option Nat :=
  if decide (i + sym.length ≤ s.length) && ((s.drop i).take sym.length == sym) then
    let j := i + sym.length
    match s[j]? with
    | none => some j
    | some nx =>
      if !disallow && c.alpha.contains nx then
        if nx != 61 && isOp c sym && !isOp c (sym ++ [nx]) then some j else none
      else some j
  else none

end ChaiVerif.Sym
