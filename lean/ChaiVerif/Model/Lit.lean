/-
M-NUM / M-ESC / M-HASH — `buildInt`, `Char_Parser`, the UTF-8 encoder of `process_unicode` and the
FNV-1a keyword classification, each interpreted over tables and flags generated from the source.
Bytes and characters are `Nat`s (no `String`: `decide` must be able to reduce these definitions).
-/
import ChaiVerif.Model.LitTypes
namespace ChaiVerif

/-! ### Integer literals -/

/-- `numeric_limits<T>::max()` on LP64. (`min()` is ≤ 0 ≤ every parsed value.) -/
def LitType.max : LitType → Nat
  | .int => 2147483647 | .uint => 4294967295
  | .long => 9223372036854775807 | .ulong => 18446744073709551615
  | .llong => 9223372036854775807 | .ullong => 18446744073709551615

def LadderRow.accepts (r : LadderRow) (dec u l ll : Bool) (v : Nat) : Bool :=
  (!r.notU || !u) && (!r.uOrNonDec || (u || !dec)) && (!r.notL || !l) && (!r.notLL || !ll) && decide (v ≤ r.range.max)

inductive IntRes
  | ok (t : LitType) (v : Nat)
  | error
deriving DecidableEq, Repr, Inhabited

/-- `buildInt` after the suffix scan: `dec` = base 10; `u`, `l`, `ll` = the three suffix flags;
    `v` = the digits' value (what `stoll`/`stoull` compute when they do not overflow). -/
def buildInt (ladder : List LadderRow) (els : LitType) (fb : List LadderRow) (fbElse : LitType) (tb : TooBig)
    (dec u l ll : Bool) (v : Nat) : IntRes :=
  if v ≤ 9223372036854775807 then            -- std::stoll succeeds
    match ladder.find? (fun r => r.accepts dec u l ll v) with
    | some r => .ok r.ty v
    | none => .ok els v
  else if v ≤ 18446744073709551615 then      -- std::stoull succeeds
    match fb.find? (fun r => r.accepts dec u l ll v) with
    | some r => .ok r.ty v
    | none => .ok fbElse v
  else
    match tb with
    | .clampLLongMax => .ok .llong 9223372036854775807
    | .error => .error

/-- The right-to-left suffix scan of `buildInt`: (unsigned_, long_, longlong_, remaining text). -/
def suffixScan : List Nat → Bool × Bool × Bool → Bool × Bool × Bool
  | [], acc => acc
  | c :: rest, (u, l, ll) =>
    if c == 117 || c == 85 then suffixScan rest (true, l, ll)
    else if c == 108 || c == 76 then suffixScan rest (u, true, ll || l)
    else (u, l, ll)

def digitVal (c : Nat) : Option Nat :=
  if 48 ≤ c ∧ c ≤ 57 then some (c - 48)
  else if 97 ≤ c ∧ c ≤ 102 then some (c - 87)
  else if 65 ≤ c ∧ c ≤ 70 then some (c - 55)
  else none

/-- `stoll(text, nullptr, base)`: value of the longest prefix of digits valid in `base`
    (`none` when there is no digit at all = `std::invalid_argument`). -/
def stoPrefix (base : Nat) (cs : List Nat) : Option Nat :=
  let rec go : List Nat → Nat → Bool → Option Nat
    | [], acc, any => if any then some acc else none
    | c :: rest, acc, any =>
      match digitVal c with
      | some d => if d < base then go rest (acc * base + d) true else (if any then some acc else none)
      | none => if any then some acc else none
  go cs 0 false

/-! ### UTF-8 encoder of `process_unicode` -/

/-- One output byte: `const | ((ch >> shift) & mask)`. -/
def utf8Byte (cp : Nat) (b : Nat × Nat × Nat) : Nat := b.1 ||| ((cp >>> b.2.1) &&& b.2.2)

def encodeRows (rows : List (Nat × List (Nat × Nat × Nat))) (cp : Nat) : Option (List Nat) :=
  (rows.find? (fun r => decide (cp < r.1))).map (fun r => r.2.map (utf8Byte cp))

/-! ### `Char_Parser` -/

inductive CPErr
  | unknownEscape | incompleteUnicode | surrogate | codePointTooBig | incompleteHex
  | terminate            -- an exception escapes a destructor
  | invalidArgument      -- std::invalid_argument leaves parse()
  | outOfRange           -- std::out_of_range leaves parse()
deriving DecidableEq, Repr, Inhabited

structure CPCfg where
  simple : List (Nat × Nat)
  simpleDefaultThrows : Bool
  octalMax : Nat
  hexMax : Nat
  uSmall : Nat
  uBig : Nat
  flush : Flush
  hexEmpty : HexEmpty
  uniRead : UniRead
  lenCheck : Bool
  surrogate : Surrogate
  utf8 : List (Nat × List (Nat × Nat × Nat))
deriving Inhabited

structure CPState where
  out   : List Nat := []      -- `match`, in order
  esc   : Bool := false
  oct   : Bool := false
  hex   : Bool := false
  uni   : Nat := 0
  octs  : List Nat := []      -- octal_matches (digit values, in order)
  hexs  : List Nat := []      -- hex_matches
deriving DecidableEq, Repr, Inhabited

def isOctalChar (c : Nat) : Bool := 48 ≤ c && c ≤ 55
def isHexChar (c : Nat) : Bool := (48 ≤ c && c ≤ 57) || (97 ≤ c && c ≤ 102) || (65 ≤ c && c ≤ 70)

def digitsValue (base : Nat) (ds : List Nat) : Nat := ds.foldl (fun a d => a * base + d) 0

def hexDigitVal (c : Nat) : Nat := (digitVal c).getD 0

def processOctal (s : CPState) : CPState :=
  let out := if s.octs.isEmpty then s.out else s.out ++ [digitsValue 8 (s.octs.map (· - 48)) % 256]
  { s with out := out, octs := [], esc := false, oct := false }

def processHex (cfg : CPCfg) (s : CPState) : Except CPErr CPState :=
  let s' := { s with out := if s.hexs.isEmpty then s.out else s.out ++ [digitsValue 16 (s.hexs.map hexDigitVal) % 256],
                      hexs := [], esc := false, hex := false }
  if s.hexs.isEmpty && cfg.hexEmpty == .error then .error .incompleteHex else .ok s'

def processUnicode (cfg : CPCfg) (s : CPState) : Except CPErr CPState :=
  let n := s.hexs.length
  let ch := digitsValue 16 (s.hexs.map hexDigitVal)
  let s' := { s with hexs := [], esc := false, uni := 0 }
  -- reading the digits
  if cfg.uniRead == .stoiBeforeLengthCheck && n == 0 then .error .invalidArgument
  else if cfg.uniRead == .stoiBeforeLengthCheck && ch > 2147483647 then .error .outOfRange
  else if cfg.lenCheck && s.uni != n then .error .incompleteUnicode
  else if (cfg.surrogate == .all || (cfg.surrogate == .only4 && s.uni == 4)) && 55296 ≤ ch && ch ≤ 57343 then .error .surrogate
  else match encodeRows cfg.utf8 ch with
    | some bs => .ok { s' with out := s.out ++ bs }
    | none => .error .codePointTooBig

/-- `Char_Parser::parse(t_char)` with interpolation disabled. -/
def cpStep (cfg : CPCfg) (s : CPState) (c : Nat) : Except CPErr CPState := do
  -- pending multi-character escapes first
  let (s, consumed) ←
    if s.oct then
      if isOctalChar c then
        let s1 := { s with octs := s.octs ++ [c] }
        pure (if s1.octs.length == cfg.octalMax then processOctal s1 else s1, true)
      else pure (processOctal s, false)
    else if s.hex then
      if isHexChar c then
        let s1 := { s with hexs := s.hexs ++ [c] }
        if s1.hexs.length == cfg.hexMax then do let s2 ← processHex cfg s1; pure (s2, true) else pure (s1, true)
      else do let s2 ← processHex cfg s; pure (s2, false)
    else if s.uni > 0 then
      if isHexChar c then
        let s1 := { s with hexs := s.hexs ++ [c] }
        if s1.hexs.length == s.uni then do let s2 ← processUnicode cfg s1; pure (s2, true) else pure (s1, true)
      else do let s2 ← processUnicode cfg s; pure (s2, false)
    else pure (s, false)
  if consumed then pure s
  else if c == 92 then
    if s.esc then pure { s with out := s.out ++ [92], esc := false } else pure { s with esc := true }
  else if s.esc then
    if isOctalChar c then pure { s with oct := true, octs := s.octs ++ [c] }
    else if c == 120 then pure { s with hex := true }
    else if c == 117 then pure { s with uni := cfg.uSmall }
    else if c == 85 then pure { s with uni := cfg.uBig }
    else match cfg.simple.find? (fun p => p.1 == c) with
      | some p => pure { s with out := s.out ++ [p.2], esc := false }
      | none => if cfg.simpleDefaultThrows then .error .unknownEscape else pure { s with esc := false }
  else pure { s with out := s.out ++ [c] }

/-- End of the literal: `finish()` (reports errors) or the old catching destructor. -/
def cpFinish (cfg : CPCfg) (s : CPState) : Except CPErr (List Nat) :=
  let run : Except CPErr CPState := do
    let s1 := if s.oct then processOctal s else s
    let s2 ← if s1.hex then processHex cfg s1 else pure s1
    if s2.uni > 0 then processUnicode cfg s2 else pure s2
  match cfg.flush, run with
  | _, .ok s' => .ok s'.out
  | .finishReports, .error e => .error e
  | .destructorSwallows, .error .outOfRange => .error .terminate      -- not among the caught kinds
  | .destructorSwallows, .error _ =>
      -- eval_error / invalid_argument swallowed: whatever had been appended stays
      .ok ((if s.oct then processOctal s else s).out)
  | _, .error e => .error e

def charParser (cfg : CPCfg) (cs : List Nat) : Except CPErr (List Nat) := do
  let s ← cs.foldlM (cpStep cfg) {}
  cpFinish cfg s

/-! ### Keyword classification by FNV-1a -/

def fnv1a (basis prime : Nat) (bs : List Nat) : Nat :=
  bs.foldl (fun h b => ((h ^^^ b) * prime) % 4294967296) basis

/-- `Id()`: index of the keyword case whose *hash* equals the identifier's hash. -/
def classify (basis prime : Nat) (kws : List (List Nat)) (ident : List Nat) : Option Nat :=
  let h := fnv1a basis prime ident
  kws.findIdx? (fun k => fnv1a basis prime k == h)

end ChaiVerif
