/- the `Char_Parser` configuration read off the current source (Gen/Lit.lean is regenerated on every run) -/
import ChaiVerif.Model.Lit
import ChaiVerif.Gen.Lit
namespace ChaiVerif

def genCfg : CPCfg :=
  { simple := Gen.simpleEscapes, simpleDefaultThrows := Gen.simpleDefaultThrows, octalMax := Gen.octalMax, hexMax := Gen.hexMax,
    uSmall := Gen.unicodeSmall, uBig := Gen.unicodeBig, flush := Gen.flush, hexEmpty := Gen.hexEmpty, uniRead := Gen.unicodeRead,
    lenCheck := Gen.unicodeLenCheck, surrogate := Gen.surrogate, utf8 := Gen.utf8Rows }

end ChaiVerif
