/-
M-USE — the protocol of `ChaiScript_Basic::use(file)` under threads: take `m_use_mutex`; if the file is not yet recorded, evaluate it and
record it; release.  Threads are symmetric, so a state counts them by phase; the mutex (trusted: std::recursive_mutex) is the single
`holder` slot.  A schedule is any list of moves; a move that is not enabled does nothing.
-/
namespace ChaiVerif

inductive Phase | locked | needEval | evaluated
deriving DecidableEq, Repr

structure UseSt where
  idle : Nat            -- threads that have not called use() yet
  waiting : Nat         -- blocked on the mutex
  holder : Option Phase -- the thread inside, and how far it got
  done : Nat
  used : Bool           -- the file is in m_used_files
  evals : Nat           -- how many times the file has been evaluated
deriving DecidableEq, Repr

inductive Move | call | acquire | advance
deriving DecidableEq, Repr

def UseSt.step (s : UseSt) : Move → UseSt
  | .call => if s.idle = 0 then s else { s with idle := s.idle - 1, waiting := s.waiting + 1 }
  | .acquire => if s.waiting = 0 ∨ s.holder.isSome then s else { s with waiting := s.waiting - 1, holder := some .locked }
  | .advance =>
    match s.holder with
    | none => s
    | some .locked => if s.used then { s with holder := none, done := s.done + 1 } else { s with holder := some .needEval }
    | some .needEval => { s with holder := some .evaluated, evals := s.evals + 1 }
    | some .evaluated => { s with holder := none, done := s.done + 1, used := true }

def UseSt.init (n : Nat) : UseSt := ⟨n, 0, none, 0, false, 0⟩

def UseSt.run (s : UseSt) (sched : List Move) : UseSt := sched.foldl UseSt.step s

/-- the variant in which the mutex is NOT held from the check to the record (what dropping `m_use_mutex` would give): a thread that found
    the file unrecorded leaves the critical section before evaluating -/
structure BadSt where
  deciding : Nat      -- threads that saw "not recorded" and are about to evaluate
  used : Bool
  evals : Nat
deriving DecidableEq, Repr

inductive BadMove | check | evalAndRecord
deriving DecidableEq, Repr

def BadSt.step (s : BadSt) : BadMove → BadSt
  | .check => if s.used then s else { s with deciding := s.deciding + 1 }
  | .evalAndRecord => if s.deciding = 0 then s else { deciding := s.deciding - 1, used := true, evals := s.evals + 1 }

end ChaiVerif
