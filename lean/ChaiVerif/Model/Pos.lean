/-
The parser's cursor (`ChaiScript_Parser::Position`, chaiscript_parser.hpp): 1-based line and column maintained by
`operator++` / `operator--` over the input bytes, with ONE remembered column (`m_last_col`) for stepping back over a
newline.  Every AST node's location (hence every position an eval_error reports) is a copy of this cursor.
-/
namespace ChaiVerif

structure Pos where
  line : Int
  col : Int
  lastCol : Int
  idx : Nat
deriving DecidableEq, Repr, Inhabited

def Pos.init : Pos := ⟨1, 1, 1, 0⟩

def NL : UInt8 := 10

/-- `operator++` -/
def Pos.inc (t : List UInt8) (p : Pos) : Pos :=
  match t[p.idx]? with
  | none => p                                        -- at the end: nothing moves
  | some c => if c == NL then { line := p.line + 1, col := 1, lastCol := p.col, idx := p.idx + 1 }
              else { p with col := p.col + 1, idx := p.idx + 1 }

/-- `operator--` (the caller guarantees it is not at the beginning) -/
def Pos.dec (t : List UInt8) (p : Pos) : Pos :=
  match t[p.idx - 1]? with
  | none => { p with idx := p.idx - 1 }
  | some c => if c == NL then { p with line := p.line - 1, col := p.lastCol, idx := p.idx - 1 }
              else { p with col := p.col - 1, idx := p.idx - 1 }

def Pos.incN (t : List UInt8) : Nat → Pos → Pos
  | 0, p => p
  | n + 1, p => Pos.incN t n (p.inc t)

/-! ### the specification: line and column of an offset, computed from the text alone -/

/-- (line, column) of the position just after the prefix `pre` -/
def lineCol : List UInt8 → Int × Int
  | [] => (1, 1)
  | c :: rest =>
    -- fold from the left: process `c` first
    let rec go : List UInt8 → Int → Int → Int × Int
      | [], l, k => (l, k)
      | d :: ds, l, k => if d == NL then go ds (l + 1) 1 else go ds l (k + 1)
    go (c :: rest) 1 1

def lineColGo : List UInt8 → Int → Int → Int × Int
  | [], l, k => (l, k)
  | d :: ds, l, k => if d == NL then lineColGo ds (l + 1) 1 else lineColGo ds l (k + 1)

end ChaiVerif
