/-
Types shared by the generated arithmetic tables (Gen/Arith.lean) and the model (Model/Arith.lean).
The enumerations are spelled exactly like the C++ source so that the translator can emit
constructor names; a new or renamed enumerator in the source makes the generated file fail to
elaborate, which the check reports as a broken obligation.
-/
import ChaiVerif.Spec.Cpp
namespace ChaiVerif

/-- `Operators::Opers` (chaiscript_algebraic.hpp) without the three unnamed group markers. -/
inductive Oper
  | equals | less_than | greater_than | less_than_equal | greater_than_equal | not_equal
  | assign | pre_increment | pre_decrement
  | assign_product | assign_sum | assign_quotient | assign_difference
  | assign_bitwise_and | assign_bitwise_or | assign_shift_left | assign_shift_right
  | assign_remainder | assign_bitwise_xor
  | shift_left | shift_right | remainder | bitwise_and | bitwise_or | bitwise_xor | bitwise_complement
  | sum | quotient | product | difference | unary_plus | unary_minus
  | invalid
deriving DecidableEq, Repr, Inhabited

def Oper.all : List Oper :=
  [.equals, .less_than, .greater_than, .less_than_equal, .greater_than_equal, .not_equal,
   .assign, .pre_increment, .pre_decrement,
   .assign_product, .assign_sum, .assign_quotient, .assign_difference,
   .assign_bitwise_and, .assign_bitwise_or, .assign_shift_left, .assign_shift_right,
   .assign_remainder, .assign_bitwise_xor,
   .shift_left, .shift_right, .remainder, .bitwise_and, .bitwise_or, .bitwise_xor, .bitwise_complement,
   .sum, .quotient, .product, .difference, .unary_plus, .unary_minus, .invalid]

/-- Operator spellings (an enumeration, not `String`, so that `decide` can compare them). -/
inductive OpText
  | none_ | eqeq | lt | gt | le | ge | ne | asg | inc | dec
  | mulasg | addasg | divasg | subasg | andasg | orasg | shlasg | shrasg | modasg | xorasg
  | shl | shr | mod | band | bor | bxor | compl | plus | div | mul | minus
deriving DecidableEq, Repr, Inhabited

def OpText.all : List OpText :=
  [.eqeq, .lt, .gt, .le, .ge, .ne, .asg, .inc, .dec, .mulasg, .addasg, .divasg, .subasg, .andasg, .orasg,
   .shlasg, .shrasg, .modasg, .xorasg, .shl, .shr, .mod, .band, .bor, .bxor, .compl, .plus, .div, .mul, .minus]

/-- `Boxed_Number::Common_Types`. -/
inductive CT | i8 | u8 | i16 | u16 | i32 | u32 | i64 | u64 | f32 | f64 | f80
deriving DecidableEq, Repr, Inhabited

/-- Floating kinds. -/
inductive FK | f32 | f64 | f80
deriving DecidableEq, Repr, Inhabited

def CT.toIT : CT → Option IT
  | .i8 => some IT.i8 | .u8 => some IT.u8 | .i16 => some IT.i16 | .u16 => some IT.u16
  | .i32 => some IT.i32 | .u32 => some IT.u32 | .i64 => some IT.i64 | .u64 => some IT.u64
  | _ => none
def CT.toFK : CT → Option FK
  | .f32 => some .f32 | .f64 => some .f64 | .f80 => some .f80 | _ => none

/-- The C++ types `get_common_type(const Boxed_Value&)` recognises. -/
inductive SrcType
  | int | double | longdouble | float | char | uchar | uint | long | llong | ulong | ullong
  | int8 | int16 | int32 | int64 | uint8 | uint16 | uint32 | uint64 | wchar | char16 | char32
deriving DecidableEq, Repr, Inhabited

def SrcType.all : List SrcType :=
  [.int, .double, .longdouble, .float, .char, .uchar, .uint, .long, .llong, .ulong, .ullong,
   .int8, .int16, .int32, .int64, .uint8, .uint16, .uint32, .uint64, .wchar, .char16, .char32]

/-- Which operand types `check_divide_by_zero` looks at. -/
inductive ZeroGuard | rhsNotFloat | bothNotFloat
deriving DecidableEq, Repr, Inhabited

inductive Form | value | compound | assign
deriving DecidableEq, Repr, Inhabited

/-- One `case` of `Boxed_Number::go`. -/
structure GoRow where
  opcode    : Oper
  intOnly   : Bool          -- inside `if constexpr (!floating<LHS> && !floating<RHS>)`
  lvalue    : Bool          -- inside `if (t_lhs)`
  form      : Form
  cpp       : Option CppOp
  inOrder   : Bool          -- operands are (c_lhs, c_rhs) in that order
  zeroCheck : Bool          -- `check_divide_by_zero(c_rhs)` precedes the operation
  ovfCheck  : Bool          -- `check_divide_overflow(c_lhs, c_rhs)` precedes the operation
deriving DecidableEq, Repr, Inhabited

inductive UnRegion | lvalue | plain | intOnly
deriving DecidableEq, Repr, Inhabited

/-- One `case` of the unary `Boxed_Number::oper`. -/
structure UnRow where
  opcode : Oper
  region : UnRegion
  op     : CppUn
deriving DecidableEq, Repr, Inhabited

inductive WForm | unary | binary | binaryDummy
deriving DecidableEq, Repr, Inhabited

/-- A `static … Boxed_Number::name(…)` wrapper: which opcode it passes to which `oper` overload. -/
structure Wrapper where
  name    : Oper
  opcode  : Oper
  form    : WForm
  nparams : Nat
deriving DecidableEq, Repr, Inhabited

end ChaiVerif
